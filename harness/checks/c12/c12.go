// Package c12 checks property C12: with a proxy backend configured, reads are
// faithful read-through (identical content and size, cached locally
// afterwards), uploads are faithful write-through (handed to the backend once,
// in a form a peer instance can read back), and backend failures of every kind
// surface only as a miss or an error - never as a hit with wrong, short or
// mis-sized content, never as a poisoned cache entry, never as leaked reserved
// space, files, backend connections, goroutines or file descriptors.
//
// Technique: runtime monitoring by fault enumeration. The real proxy
// implementations (httpproxy, grpcproxy, s3proxy, azblobproxy through its
// verif constructor) and the real disk cache / HTTP / gRPC front ends run in
// process against harness backends that follow a fault plan per key; an
// oracle written from the statement judges what the client sees, what a
// second read sees, what the backend received, and the state left behind at
// quiescence ("after N faulty requests vs after 2N").
package c12

import (
	"fmt"
	"os"
	"sort"
	"strings"
	"sync"
	"time"

	"verif/harness/lib"
)

func init() { lib.Register("C12", run) }

type world struct {
	r    *lib.Run
	rigs []*rig

	mu          sync.Mutex
	pendingOnce []onceCheck
	timing      map[string]string
	abandonOpen map[string]string // rig/half/class -> open backend connections [before, after k, after 2k]
	hooks       *lib.HookCtl
}

func (w *world) noteTiming(k, v string) {
	w.mu.Lock()
	if w.timing == nil {
		w.timing = map[string]string{}
	}
	w.timing[k] = v
	w.mu.Unlock()
}

func (w *world) noteOpen(k, v string) {
	w.mu.Lock()
	if w.abandonOpen == nil {
		w.abandonOpen = map[string]string{}
	}
	w.abandonOpen[k] = v
	w.mu.Unlock()
}

func (w *world) addOnce(c onceCheck) {
	w.mu.Lock()
	w.pendingOnce = append(w.pendingOnce, c)
	w.mu.Unlock()
}

// budget of one rig per half.
type budget struct {
	rounds  int // passes over the fault catalogue
	slow    int // cases that cost seconds (client library retries)
	stalls  int
	queued  int // "checks queued behind a slow backend" scenarios
	writes  int
	wfaults int
	fullq   int
	abandon int // requests per batch of one abandonment class (two batches per half)
	seqs    int // write-through sequences on one key per half
}

func rigTable(quick bool) ([]rigDef, map[string]budget) {
	// Every reading rig has a finite max_proxy_blob_size, so that "the backend
	// object turns out to be too large once its size is known" is reachable
	// everywhere: a small limit (many ordinary sizes are near it) or one just
	// above the largest object the generators draw. The queue rigs keep the
	// default (unlimited).
	const mp = 200_000
	const mpBig = 3 * lib.MiB
	defs := []rigDef{
		{family: "http", storage: "zstd", maxProxy: mpBig, numUp: 2, maxQueue: 64, role: "read"},
		{family: "http", storage: "uncompressed", maxProxy: mp, numUp: 2, maxQueue: 64, role: "read"},
		{family: "grpc", storage: "zstd", maxProxy: mp, numUp: 2, maxQueue: 64, role: "read"},
		{family: "grpc", storage: "uncompressed", maxProxy: mpBig, numUp: 2, maxQueue: 64, role: "read"},
		{family: "fake", storage: "zstd", maxProxy: mp, role: "read", maxQueue: 1},
		{family: "fake", storage: "uncompressed", maxProxy: mpBig, role: "read", maxQueue: 1},
		{family: "s3", storage: "zstd", maxProxy: mp, numUp: 2, maxQueue: 64, role: "read"},
		{family: "s3", storage: "uncompressed", maxProxy: mpBig, numUp: 2, maxQueue: 64, role: "read"},
		{family: "azure", storage: "zstd", maxProxy: mpBig, numUp: 2, maxQueue: 64, role: "read"},
		{family: "azure", storage: "uncompressed", maxProxy: mp, numUp: 4, maxQueue: 3, role: "read"},
		// upload queue configurations
		{family: "http", storage: "zstd", numUp: 1, maxQueue: 0, role: "queue"},
		{family: "http", storage: "uncompressed", numUp: 1, maxQueue: 1, role: "queue"},
		{family: "http", storage: "zstd", numUp: 100, maxQueue: 1, role: "queue"},
		{family: "grpc", storage: "uncompressed", numUp: 100, maxQueue: 0, role: "queue"},
		{family: "grpc", storage: "zstd", numUp: 1, maxQueue: 1, role: "queue"},
		{family: "grpc", storage: "uncompressed", numUp: 100, maxQueue: 1000, role: "queue"},
		{family: "http", storage: "zstd", numUp: 1, maxQueue: 4, role: "queue"},
		{family: "grpc", storage: "uncompressed", numUp: 3, maxQueue: 2, role: "queue"},
	}
	if !quick {
		defs = append(defs,
			rigDef{family: "http", storage: "uncompressed", numUp: 100, maxQueue: 1000, role: "queue"},
			rigDef{family: "http", storage: "uncompressed", numUp: 100, maxQueue: 0, role: "queue"},
			rigDef{family: "grpc", storage: "zstd", numUp: 100, maxQueue: 1, role: "queue"},
			rigDef{family: "grpc", storage: "zstd", numUp: 1, maxQueue: 0, role: "queue"},
			rigDef{family: "http", storage: "zstd", numUp: 1, maxQueue: 1000, role: "queue"},
			rigDef{family: "grpc", storage: "uncompressed", numUp: 1, maxQueue: 1, role: "queue"},
		)
	}
	b := map[string]budget{}
	if quick {
		b["http"] = budget{rounds: 6, stalls: 10, queued: 2, writes: 8, wfaults: 5, abandon: 3, seqs: 3}
		b["grpc"] = budget{rounds: 6, stalls: 9, queued: 2, writes: 8, wfaults: 3, abandon: 3, seqs: 3}
		b["fake"] = budget{rounds: 5, stalls: 8, queued: 2, writes: 8, abandon: 3}
		b["s3"] = budget{rounds: 2, slow: 0, stalls: 2, writes: 4, wfaults: 1, abandon: 4, seqs: 3}
		b["azure"] = budget{rounds: 2, writes: 4, wfaults: 1, abandon: 3, seqs: 3}
		b["queue"] = budget{rounds: 0, writes: 8, wfaults: 2, fullq: 1, seqs: 3}
	} else {
		b["http"] = budget{rounds: 150, stalls: 18, queued: 6, writes: 64, wfaults: 20, abandon: 8, seqs: 12}
		b["grpc"] = budget{rounds: 150, stalls: 16, queued: 6, writes: 64, wfaults: 12, abandon: 8, seqs: 12}
		b["fake"] = budget{rounds: 130, stalls: 18, queued: 8, writes: 48, abandon: 8}
		b["s3"] = budget{rounds: 40, slow: 1, stalls: 6, writes: 24, wfaults: 3, abandon: 6, seqs: 8}
		b["azure"] = budget{rounds: 40, writes: 24, wfaults: 3, abandon: 8, seqs: 8}
		b["queue"] = budget{rounds: 0, writes: 32, wfaults: 6, fullq: 3, seqs: 12}
	}
	return defs, b
}

func run(r *lib.Run) {
	r.SetRule("distinct = (front-end rig [backend x storage mode x queue config], operation, fault plan [stage/fault/position class], size class, stored layout) whose request reached the backend; plus (rig, write path, size class), (rig, stall position), (rig, abandonment class, operation, size class), (rig, write-sequence shape, number of values), scenario tuples")
	r.Assume("backends are trusted for content they deliver completely and self-consistently; plans that make a backend lie consistently about an object of unknown size are run for the cleanup/leak oracles only")
	r.Assume("HTTP/S3/Azure backends in zstd mode cannot state logical sizes on HEAD: size-dependent existence answers are judged only with size-aware backends (DESIGN C10 limits)")
	r.Assume("Azure is exercised through azblobproxy.VerifNew with an injected transport; like net/http it gives up a response that is still open when the request's context ends")
	r.Assume("write sequences: an upload that is queued or being transferred holds its blob file open, so 'no blob file of the front end open' means the upload queue is empty and the uploaders are idle; an upload is 'handed to the backend' when the backend recorded a complete transfer of exactly the accepted value")
	r.Assume("gRPC backend: open RPCs are counted on both sides (server handlers running; RPCs begun and not ended on the proxies' client connections)")

	w := &world{r: r}
	w.hooks = lib.NewHookCtl(uint64(r.Seed))
	w.hooks.Install()
	defer func() {
		w.hooks.UngateAll()
		w.hooks.Remove()
	}()
	defs, budgets := rigTable(r.Quick)
	filtered := os.Getenv("VERIF_C12_RIGS") != ""
	if f := os.Getenv("VERIF_C12_RIGS"); f != "" {
		// development aid: restrict the run to rigs whose name contains one of the given substrings
		var keep []rigDef
		for _, d := range defs {
			for _, sub := range strings.Split(f, ",") {
				if strings.Contains(d.name(), sub) {
					keep = append(keep, d)
					break
				}
			}
		}
		defs = keep
	}

	// Build every instance up front: each one starts 512 workers that never
	// stop, so they are part of the baseline of the growth oracle.
	w.rigs = make([]*rig, len(defs))
	var wg sync.WaitGroup
	errs := make([]error, len(defs))
	for i, d := range defs {
		wg.Add(1)
		go func(i int, d rigDef) {
			defer wg.Done()
			w.rigs[i], errs[i] = newRig(w, d, i)
		}(i, d)
	}
	wg.Wait()
	defer func() {
		for _, rg := range w.rigs {
			if rg != nil {
				rg.close()
			}
		}
	}()
	for i, e := range errs {
		if e != nil {
			r.Inconclusive(fmt.Sprintf("cannot set up rig %s: %v", defs[i].name(), e))
			return
		}
	}
	// Peers are part of the baseline too.
	for _, rg := range w.rigs {
		wg.Add(1)
		go func(rg *rig) {
			defer wg.Done()
			if _, err := rg.peerServer(); err != nil {
				r.Inconclusive(rg.name + ": cannot start the peer: " + err.Error())
			}
		}(rg)
	}
	wg.Wait()

	type work struct {
		specs  []caseSpec
		stalls []stallSpec
		b      budget
	}
	plan := map[*rig]work{}
	for _, rg := range w.rigs {
		b := budgets[rg.family]
		if rg.role == "queue" {
			b = budgets["queue"]
		}
		plan[rg] = work{specs: rg.readSpecs(b.rounds, b.slow), stalls: rg.stallSpecs(b.stalls), b: b}
	}

	var obs [2]*leakObs
	for half := 0; half < 2; half++ {
		for _, rg := range w.rigs {
			wg.Add(1)
			go func(rg *rig) {
				defer wg.Done()
				wk := plan[rg]
				t0 := time.Now()
				rg.runReadCases(wk.specs, half)
				ta := time.Now()
				rg.runAbandonCases(wk.b.abandon, half)
				t1 := time.Now()
				rg.runCancelCases(wk.stalls, wk.b.queued, half)
				t2 := time.Now()
				rg.runWriteSequences(wk.b.seqs, half)
				t3 := time.Now()
				rg.runWriteCases(wk.b.writes, wk.b.wfaults, wk.b.fullq, half)
				w.noteTiming(fmt.Sprintf("%s/h%d", rg.name, half), fmt.Sprintf("read %.1fs abandon %.1fs cancel %.1fs wseq %.1fs write %.1fs",
					ta.Sub(t0).Seconds(), t1.Sub(ta).Seconds(), t2.Sub(t1).Seconds(), t3.Sub(t2).Seconds(), time.Since(t3).Seconds()))
			}(rg)
		}
		wg.Wait()
		tq := time.Now()
		phase := fmt.Sprintf("after-%dN", half+1)
		for _, rg := range w.rigs {
			wg.Add(1)
			go func(rg *rig) {
				defer wg.Done()
				rg.quiesce(phase, half == 1)
			}(rg)
		}
		wg.Wait()
		w.checkOnce()
		tm := time.Now()
		obs[half] = w.measure(obs[0])
		w.noteTiming(fmt.Sprintf("barrier/h%d", half), fmt.Sprintf("quiesce %.1fs measure %.1fs", tm.Sub(tq).Seconds(), time.Since(tm).Seconds()))
		if r.Violations() > 60 {
			break
		}
	}
	if obs[0] != nil && obs[1] != nil {
		w.judgeGrowth(obs[0], obs[1])
	}
	total := 0
	for _, rg := range w.rigs {
		for _, n := range rg.caseSummary() {
			total += n
		}
	}
	r.Extra("cases_run", total)
	r.Extra("hook_hits", w.hooks.Hits())
	if n := w.hooks.GateTimeouts.Load(); n > 0 {
		r.Count("hook-cancel.gate-timeouts")
	}
	// A run whose monitors saw nothing of a required kind is not a pass.
	if !filtered && r.Violations() == 0 {
		for _, c := range []string{"local.served-without-backend", "write.exactly-once", "stall.backend-request-abandoned",
			"oracle.faulty-read.ok", "oracle.read-after-recovery.ok", "fd.full-queue-within-bound", "leak.observations", "quiescence.dir-ok",
			"abandon.class-measured", "wseq.sequence-judged", "wseq.overlap(second-upload-while-first-in-transfer)", "wseq.peer-reads-latest"} {
			if r.Counter(c) == 0 {
				r.Inconclusive("no observation of kind " + c)
			}
		}
	}
	r.Extra("timing", w.timing)
	r.Extra("abandon_open_connections[before,after-k,after-2k]", w.abandonOpen)
	r.Extra("rigs", len(w.rigs))
}

// ---------------------------------------------------------------------------
// M-leak: growth "after N faulty requests vs after 2N".

type leakObs struct {
	Conns           map[string]int `json:"backend_open_connections"`
	Attributed      map[string]int `json:"connections_reported_per_case,omitempty"`
	attributedTotal int
	FDs             int            `json:"process_fds"`
	CacheFDs        []string       `json:"fds_into_cache_dirs"`
	Sigs            map[string]int `json:"-"`
	NSigs           int            `json:"bazel_remote_goroutines"`
}

func (w *world) observe(withSigs bool) *leakObs {
	o := &leakObs{Conns: map[string]int{}, Attributed: map[string]int{}}
	var dirs []string
	for _, rg := range w.rigs {
		rg.be.closeIdle()
		for _, s := range rg.servers() {
			s.HTTPClient.CloseIdleConnections()
			dirs = append(dirs, s.Dir)
		}
	}
	for _, rg := range w.rigs {
		rg.mu.Lock()
		a := rg.attributed
		rg.mu.Unlock()
		// connections already reported under their fault class do not count again
		o.Conns[rg.name] = rg.be.openConns() - a
		if a > 0 {
			o.Attributed[rg.name] = a
			o.attributedTotal += a
		}
	}
	o.FDs = countFDs()
	o.CacheFDs = cacheFDs(dirs, "")
	if withSigs {
		o.Sigs = lib.GoroutineSignatures(lib.SelfGoroutineDump())
		for _, v := range o.Sigs {
			o.NSigs += v
		}
	}
	return o
}

// grew reports what is larger in now than in ref (beyond slack).
func (w *world) grew(ref, now *leakObs) []string {
	var out []string
	for _, rg := range w.rigs {
		if d := now.Conns[rg.name] - ref.Conns[rg.name]; d > rg.be.connSlack() {
			out = append(out, fmt.Sprintf("conns:%s:+%d", rg.name, d))
		}
	}
	if now.FDs-ref.FDs > w.fdSlack()+2*(now.attributedTotal-ref.attributedTotal) {
		out = append(out, fmt.Sprintf("fds:+%d", now.FDs-ref.FDs))
	}
	if ref.Sigs != nil && now.Sigs != nil {
		for k, v := range lib.SigDiff(ref.Sigs, now.Sigs) {
			out = append(out, fmt.Sprintf("goroutines:%s:+%d", k, v))
		}
	}
	if len(now.CacheFDs) > 0 {
		out = append(out, fmt.Sprintf("cache-fds:%d", len(now.CacheFDs)))
	}
	sort.Strings(out)
	return out
}

func (w *world) fdSlack() int {
	s := 0
	for _, rg := range w.rigs {
		s += 2 * rg.be.connSlack()
	}
	return s
}

// measure polls with back-off for a generous settle period. Without a
// reference it waits until two consecutive observations agree; with one it
// waits until nothing has grown relative to it. On expiry the last
// observation counts (persistent-state oracle).
func (w *world) measure(ref *leakObs) *leakObs {
	waits := []time.Duration{0, 100 * time.Millisecond, 300 * time.Millisecond, 600 * time.Millisecond, time.Second,
		2 * time.Second, 3 * time.Second, 4 * time.Second, 5 * time.Second, 6 * time.Second, 8 * time.Second}
	var prev, cur *leakObs
	for _, d := range waits {
		time.Sleep(d)
		cur = w.observe(true)
		if ref != nil {
			if len(w.grew(ref, cur)) == 0 {
				break
			}
		} else if prev != nil && len(w.grew(prev, cur)) == 0 && len(w.grew(cur, prev)) == 0 && len(cur.CacheFDs) == 0 {
			break
		}
		prev = cur
	}
	w.r.Count("leak.observations")
	return cur
}

func sigFunc(sig string) string {
	if i := strings.Index(sig, " ["); i > 0 {
		return sig[:i]
	}
	return sig
}

func (w *world) judgeGrowth(a, b *leakObs) {
	r := w.r
	r.Extra("leak_after_N", a)
	r.Extra("leak_after_2N", b)
	r.Eval()
	detail := func(extra map[string]any) map[string]any {
		m := map[string]any{"after_N": a, "after_2N": b}
		for k, v := range extra {
			m[k] = v
		}
		return m
	}
	clean := true
	for _, rg := range w.rigs {
		d := b.Conns[rg.name] - a.Conns[rg.name]
		r.Eval()
		if d > rg.be.connSlack() {
			clean = false
			what := "open backend connections"
			switch rg.family {
			case "grpc":
				what = "RPCs still running at the backend"
			case "fake", "azure":
				what = "backend readers not closed"
			}
			r.Violation(rg.key("leak", "backend-connections"),
				fmt.Sprintf("%s: %s grow with the number of requests: %d after N cases, %d after 2N (same case mix in both halves, everything idle, idle connections closed)",
					rg.name, what, a.Conns[rg.name], b.Conns[rg.name]),
				detail(map[string]any{"rig": rg.name, "cases": rg.caseSummary()}))
		}
	}
	for k, v := range lib.SigDiff(a.Sigs, b.Sigs) {
		clean = false
		r.Violation("C12:leak:goroutine:"+sigFunc(k),
			fmt.Sprintf("goroutines parked in bazel-remote code grow with the number of requests: %q +%d between N and 2N cases (%d -> %d)", k, v, a.Sigs[k], b.Sigs[k]),
			detail(map[string]any{"signature": k, "growth": lib.SigString(lib.SigDiff(a.Sigs, b.Sigs))}))
	}
	if d := b.FDs - a.FDs; d > w.fdSlack()+2*(b.attributedTotal-a.attributedTotal) {
		clean = false
		r.Violation("C12:leak:file-descriptors",
			fmt.Sprintf("file descriptors of the process grow with the number of requests: %d after N cases, %d after 2N", a.FDs, b.FDs),
			detail(map[string]any{"fd_targets": fdTargets()}))
	}
	for _, o := range []*leakObs{a, b} {
		if len(o.CacheFDs) > 0 {
			clean = false
			r.Violation("C12:leak:cache-file-left-open",
				fmt.Sprintf("%d cache files are still open at quiescence (no request, no upload in flight), e.g. %s", len(o.CacheFDs), o.CacheFDs[0]),
				detail(map[string]any{"open": clipList(o.CacheFDs)}))
			break
		}
	}
	if clean {
		r.Count("leak.growth-test-clean")
	}
}

// fdTargets summarises what the process's descriptors point at.
func fdTargets() map[string]int {
	out := map[string]int{}
	ents, err := os.ReadDir("/proc/self/fd")
	if err != nil {
		return out
	}
	for _, e := range ents {
		t, err := os.Readlink("/proc/self/fd/" + e.Name())
		if err != nil {
			continue
		}
		switch {
		case strings.HasPrefix(t, "socket:"):
			out["socket"]++
		case strings.HasPrefix(t, "pipe:"):
			out["pipe"]++
		case strings.HasPrefix(t, "anon_inode:"):
			out[t]++
		default:
			out["file"]++
		}
	}
	return out
}

package c12

import (
	"context"
	"fmt"
	"math/rand/v2"
	"time"

	"verif/harness/lib"

	"github.com/buchgr/bazel-remote/v2/cache"
	pb "github.com/buchgr/bazel-remote/v2/genproto/build/bazel/remote/execution/v2"
	"google.golang.org/grpc/codes"
)

// Generous bounds for persistent-state oracles; expiry while the state is
// still "bad" is the verdict, expiry of a precondition is inconclusive.
const (
	reachBackendMax = 30 * time.Second
	clientReturnMax = 60 * time.Second
	backendFreedMax = 30 * time.Second
)

type stallSpec struct {
	op    *op
	kind  cache.EntryKind
	where string // before-response | header | body
}

func (s stallSpec) label() string { return s.op.name + "/stall-" + s.where }

// stallSpecs: the backend trickles and then stalls; the client gives up.
func (rg *rig) stallSpecs(n int) []stallSpec {
	var all []stallSpec
	add := func(p *op, k cache.EntryKind, wheres ...string) {
		for _, w := range wheres {
			all = append(all, stallSpec{op: p, kind: k, where: w})
		}
	}
	switch rg.family {
	case "http", "fake", "s3", "azure":
		add(opBSRead, cache.CAS, "before-response", "header", "body")
		add(opHTTPGetCAS, cache.CAS, "before-response", "header", "body")
		add(opFindMissing, cache.CAS, "before-response")
		add(opHTTPGetAC, cache.AC, "before-response", "body")
		add(opHTTPGetRAW, cache.RAW, "before-response", "body")
		add(opBSReadZstd, cache.CAS, "body")
		add(opACDepsGRPC, cache.CAS, "before-response")
		add(opHeadCAS, cache.CAS, "before-response")
		add(opGRPCGetAC, cache.AC, "before-response")
	case "grpc":
		add(opBSRead, cache.CAS, "before-response", "header", "body")
		add(opHTTPGetCAS, cache.CAS, "before-response", "body")
		add(opFindMissing, cache.CAS, "before-response")
		add(opGRPCGetAC, cache.AC, "before-response")
		add(opHTTPGetAC, cache.AC, "before-response")
		add(opHTTPGetRAW, cache.RAW, "before-response")
		add(opACDepsHTTP, cache.CAS, "before-response")
		add(opBatchRead, cache.CAS, "body")
		add(opHeadCAS, cache.CAS, "before-response")
	default:
		return nil
	}
	if n > len(all) {
		n = len(all)
	}
	return all[:n]
}

// stallCase: the backend stalls in the middle of answering, the client
// cancels (gRPC context / closing the HTTP connection). Everything the
// request held must be released: the backend request must be abandoned, and
// the quiescence and growth oracles see the rest.
func (rg *rig) stallCase(ss stallSpec, id string, rng *rand.Rand) (reachedBackend bool) {
	r := rg.w.r
	cs := caseSpec{e: &entry{name: "stall"}, op: ss.op, kind: ss.kind}
	o := rg.makeObject(rng, cs, id)
	p := base(ss.where, "stall", "client-cancel", ss.op.target, "stall").exp(expNoHit, expNoHit)
	if ss.where != "before-response" {
		p.act, p.end, p.framing = "deliver", "stall", "cl-full"
		if ss.where == "header" {
			p.cut = cutPos(o, "hdr0-16", rng)
		} else {
			p.cut = cutPos(o, "mid", rng)
		}
		p.trickle = 1 + p.cut/3
		p.code = codes.Unavailable
	}
	det := &readDetail{Rig: rg.name, Case: id, Op: ss.op.name, Plan: p.label, Object: o.String(), Expect: "cancelled; backend request abandoned; nothing left behind"}
	log := func(f string, a ...any) { det.History = append(det.History, fmt.Sprintf(f, a...)) }
	if ss.op.deps {
		o.acRef = newAR(rng, cache.AC, 300, id+"-ac", digestOf(o))
		rg.be.put(o.acRef)
	}
	rg.be.put(o)
	rg.be.setPlan(o, p)
	rg.noteCase(ss.label())
	st := rg.be.stalls()
	defer func() {
		rg.be.forget(o.hash)
		if o.acRef != nil {
			rg.be.forget(o.acRef.hash)
		}
	}()

	ctx, cancel := context.WithCancel(context.Background())
	done := make(chan outcome, 1)
	go func() { done <- ss.op.run(ctx, rg, rg.front, o) }()

	reached := st.waitFor(o.hash, func(n int) bool { return n > 0 }, reachBackendMax)
	if !reached {
		cancel()
		select {
		case out := <-done:
			log("the backend never saw a stalled request; client got %s", out)
		case <-time.After(clientReturnMax):
			log("the backend never saw a stalled request and the client call did not return")
		}
		rg.be.clearPlan(o.hash)
		st.releaseAll()
		r.Count("stall.not-reached." + ss.label())
		return false
	}
	log("backend parked the request at %s (cut %d)", ss.where, p.cut)
	cancel()
	var out outcome
	select {
	case out = <-done:
	case <-time.After(clientReturnMax):
		r.Inconclusive(fmt.Sprintf("%s: client call %s did not return within %v of its cancellation", rg.name, ss.op.name, clientReturnMax))
		st.releaseAll()
		rg.be.clearPlan(o.hash)
		return true
	}
	log("client cancelled -> %s", out)
	r.Eval()
	r.Count(fmt.Sprintf("stall.%s/%s.%s", rg.name, ss.label(), out.class))
	r.Count(fmt.Sprintf("matrix.%s|stall+client-cancel|%s|%s.%s", ss.where, ss.op.name, rg.family, out.class))
	r.Distinct(rg.name, ss.op.name, "stall", ss.where, lib.SizeClassName(len(o.content)))
	if out.class == "hit" {
		rg.judge(ss.op, o, "stall", "cancelled-read", out, expNoHit, det)
	}

	// Persistent state: the parked backend request must be abandoned.
	freed := st.waitFor(o.hash, func(n int) bool { return n == 0 }, backendFreedMax)
	if !freed {
		r.Violation(rg.key(ss.op.name, "stall", "backend-request-not-abandoned"),
			fmt.Sprintf("%s: %v after the client cancelled %s the request to the stalling backend is still open (its connection / stream and the handler serving it are pinned)",
				rg.name, backendFreedMax, ss.op.name), det)
		st.releaseAll()
	} else {
		r.Count("stall.backend-request-abandoned")
	}
	rg.checkPanics(ss.op.name, "stall", det)

	// The backend recovers: the key must read correctly.
	rg.be.clearPlan(o.hash)
	out2 := rg.runOp(ss.op, rg.front, o)
	log("backend healthy; %s -> %s", ss.op.name, out2)
	r.Eval()
	rg.judge(ss.op, o, "stall", "read-after-recovery", out2, expHit, det)
	rg.checkPanics(ss.op.name, "stall/reread", det)
	return true
}

// ---------------------------------------------------------------------------
// Cancellation while proxy existence checks are queued behind a slow backend.

// queuedChecksCase: more blobs than the front end has check workers are
// missing locally; the backend answers slowly. Either the client cancels its
// FindMissingBlobs call, or (failFast) an ActionResult lookup meets a blob
// the backend does not have. The request must end, and nothing may be left
// behind (the growth oracle looks for goroutines parked in bazel-remote).
func (rg *rig) queuedChecksCase(failFast bool, id string, rng *rand.Rand) {
	r := rg.w.r
	const nBlobs = 640 // > 512 check workers
	what := "findmissing-cancel"
	if failFast {
		what = "ac-deps-fail-fast"
	}
	rg.noteCase("queued-checks/" + what)
	objs := make([]*object, nBlobs)
	digests := make([]*pb.Digest, nBlobs)
	slow := base("before-response", "stall", "slow-backend", "contains", "stall").exp(expNoHit, expNoHit)
	for i := range objs {
		o := rg.fresh(func(int) *object { return newCAS(rng, rg.storage, 40+rng.IntN(50), fmt.Sprintf("%s-%d", id, i), false) })
		objs[i] = o
		digests[i] = digestOf(o)
		if failFast && i == 2 {
			continue // the backend does not have the first one that is checked (the first output file) and says so at once
		}
		rg.be.put(o)
		rg.be.setPlan(o, slow)
	}
	defer func() {
		for _, o := range objs {
			rg.be.forget(o.hash)
		}
	}()
	st := rg.be.stalls()
	det := map[string]any{"rig": rg.name, "case": id, "scenario": what, "blobs": nBlobs}

	if !failFast {
		ctx, cancel := context.WithCancel(context.Background())
		done := make(chan error, 1)
		go func() {
			_, err := rg.front.FindMissing(ctx, digests...)
			done <- err
		}()
		if !st.waitTotal(func(n int) bool { return n >= 256 }, reachBackendMax) {
			cancel()
			<-done
			st.releaseAll()
			r.Count("queued-checks.not-reached")
			return
		}
		cancel()
		select {
		case err := <-done:
			r.Count("queued-checks." + what + "." + lib.Code(err).String())
		case <-time.After(clientReturnMax):
			r.Inconclusive(rg.name + ": cancelled FindMissingBlobs did not return")
		}
	} else {
		ac := newAR(rng, cache.AC, 200, id+"-ac", digests...)
		rg.be.put(ac)
		defer rg.be.forget(ac.hash)
		ctx, cancel := context.WithTimeout(context.Background(), 120*time.Second)
		_, err := rg.front.AC.GetActionResult(ctx, &pb.GetActionResultRequest{ActionDigest: &pb.Digest{Hash: ac.hash, SizeBytes: 1}})
		cancel()
		r.Count("queued-checks." + what + "." + lib.Code(err).String())
		if err == nil {
			r.Violation(rg.key("ac-deps-grpc", "404", "hit-although-backend-failed"),
				rg.name+": GetActionResult answered a hit although the backend does not have a referenced blob", det)
		}
	}
	r.Eval()
	r.Distinct(rg.name, "queued-checks", what)
	// The backend requests of the cancelled checks must be abandoned.
	if !st.waitTotal(func(n int) bool { return n == 0 }, backendFreedMax) {
		r.Violation(rg.key("queued-checks", what, "backend-request-not-abandoned"),
			fmt.Sprintf("%s: %d existence checks are still open at the backend %v after their request ended", rg.name, st.totalWaiting(), backendFreedMax), det)
		st.releaseAll()
	}
}

// hookCancelCase: the client cancels while the proxy branch of the read is
// parked at a yield point of cache/disk (after the backend's bytes were copied
// / just before the commit). Whatever the handler then does, the key must
// read correctly afterwards and nothing may stay reserved or lie around.
func (rg *rig) hookCancelCase(point string, p *op, id string, rng *rand.Rand) {
	r := rg.w.r
	h := rg.w.hooks
	if h == nil {
		return
	}
	cs := caseSpec{e: &entry{name: "hook-cancel"}, op: p, kind: p.kind}
	o := rg.makeObject(rng, cs, id)
	det := &readDetail{Rig: rg.name, Case: id, Op: p.name, Plan: "healthy backend; client cancels at " + point, Object: o.String(), Expect: "key reads correctly afterwards; nothing left behind"}
	rg.be.put(o)
	defer rg.be.forget(o.hash)
	rg.noteCase(p.name + "/cancel-at-" + point)
	key := cache.LookupKey(o.kind, o.hash)
	gate := h.Gate(point, key, 1)
	ctx, cancel := context.WithCancel(context.Background())
	done := make(chan outcome, 1)
	go func() { done <- p.run(ctx, rg, rg.front, o) }()
	arrived := gate.WaitArrived(reachBackendMax)
	cancel()
	var out outcome
	select {
	case out = <-done:
	case <-time.After(clientReturnMax):
		h.Ungate(point, key)
		r.Inconclusive(fmt.Sprintf("%s: client call %s did not return within %v of its cancellation", rg.name, p.name, clientReturnMax))
		return
	}
	h.Ungate(point, key)
	if !arrived {
		r.Count("hook-cancel.not-reached." + point)
		return
	}
	det.History = append(det.History, fmt.Sprintf("handler parked at %s; client cancelled -> %s; handler released", point, out))
	r.Eval()
	r.Count(fmt.Sprintf("hook-cancel.%s/%s.%s", rg.family, point, out.class))
	r.Distinct(rg.name, p.name, "cancel-at-hook", point)
	if out.class == "hit" {
		rg.judge(p, o, "client-cancel", "cancelled-read", out, expAny, det)
	}
	if rg.front.Settle(60*time.Second) == "busy" {
		r.Violation(rg.key(p.name, "client-cancel", "handler-still-running"),
			fmt.Sprintf("%s: the handler of a cancelled %s is still running 60 s after it was released from %s", rg.name, p.name, point), det)
		return
	}
	out2 := rg.runOp(p, rg.front, o)
	det.History = append(det.History, fmt.Sprintf("read again: %s -> %s", p.name, out2))
	r.Eval()
	rg.judge(p, o, "client-cancel", "read-after-cancel", out2, expHit, det)
	rg.checkPanics(p.name, "client-cancel", det)
}

func (rg *rig) runCancelCases(specs []stallSpec, queued int, half int) {
	rng := rg.w.r.Rng(fmt.Sprintf("cancel/%s/%d", rg.name, half))
	for i, ss := range specs {
		rg.stallCase(ss, fmt.Sprintf("%s-h%d-s%d", rg.name, half, i), rng)
	}
	if len(specs) > 0 {
		hops := []*op{opBSRead, opHTTPGetCAS, opHTTPGetAC, opBSReadZstd}
		for i, point := range []string{"get.proxy.afterCopy", "get.proxy.beforeCommit"} {
			rg.hookCancelCase(point, hops[(i+half)%len(hops)], fmt.Sprintf("%s-h%d-hk%d", rg.name, half, i), rng)
		}
	}
	for i := 0; i < queued; i++ {
		rg.queuedChecksCase(i%2 == 1, fmt.Sprintf("%s-h%d-q%d", rg.name, half, i), rng)
	}
}

package c12

import (
	"fmt"
	"strings"
	"sync"
	"time"

	"verif/harness/lib"

	pb "github.com/buchgr/bazel-remote/v2/genproto/build/bazel/remote/execution/v2"
)

const cacheMaxSize = int64(16) << 30 // nothing is evicted during the run

// rig is one front end under test with its fault-injecting backend (and,
// created on demand, a peer front end pointed at the same backend).
type rig struct {
	w        *world
	name     string // finding-key component, e.g. "http-zstd"
	family   string // http | grpc | s3 | fake | azure
	storage  string
	zstdImpl string
	maxProxy int64 // 0: unlimited
	numUp    int
	maxQueue int
	role     string // read | queue

	be    backendCtl
	front *lib.Server
	peer  *lib.Server

	localDigest *pb.Digest // a blob stored locally (bystander of FindMissingBlobs requests)

	panicSeen  map[*lib.Server]int
	mu         sync.Mutex
	ran        map[string]int  // cases run so far, by "op/fault"
	gcWindows  int             // observations made with the collector switched off (this half)
	lastOpen   int             // backend connections open at the end of the previous read case
	attributed int             // open backend connections already reported under a fault class
	wseqBad    int             // findings raised by this rig's write sequences
	used       map[string]bool // keys handed out so far
	lies       map[string]bool // keys for which the backend lied self-consistently (their cached form is not judged)
}

type rigDef struct {
	family, storage string
	maxProxy        int64
	numUp, maxQueue int
	role            string
}

func (d rigDef) name() string {
	n := d.family + "-" + d.storage
	if d.role == "queue" {
		n += fmt.Sprintf("-q%d-u%d", d.maxQueue, d.numUp)
	}
	return n
}

func newRig(w *world, d rigDef, idx int) (*rig, error) {
	rg := &rig{w: w, name: d.name(), family: d.family, storage: d.storage, maxProxy: d.maxProxy, numUp: d.numUp,
		maxQueue: d.maxQueue, role: d.role, panicSeen: map[*lib.Server]int{}, ran: map[string]int{}, lies: map[string]bool{}, used: map[string]bool{}}
	rg.zstdImpl = []string{"go", "cgo"}[idx%2]
	var err error
	switch d.family {
	case "http":
		rg.be, err = newHTTPBackend(d.storage, d.numUp, d.maxQueue)
	case "grpc":
		rg.be, err = newGRPCBackend(d.storage, d.numUp, d.maxQueue)
	case "s3":
		rg.be, err = newS3Backend(d.storage, d.numUp, d.maxQueue)
	case "azure":
		rg.be, err = newAzBackend(d.storage, d.numUp, d.maxQueue)
	case "fake":
		rg.be = newFakeBackend(d.storage)
	default:
		err = fmt.Errorf("unknown backend family %q", d.family)
	}
	if err != nil {
		return nil, err
	}
	rg.front, err = lib.StartServer(lib.ServerOpts{MaxSize: cacheMaxSize, Storage: d.storage, ZstdImpl: rg.zstdImpl,
		Proxy: rg.be.proxy(), MaxProxyBlobSize: d.maxProxy, RawHTTP: true})
	if err != nil {
		rg.be.close()
		return nil, err
	}
	// The local bystander of FindMissingBlobs requests.
	blob := []byte("c12 local bystander of " + rg.name)
	res := rg.front.HTTPPut("/cas/"+lib.Sha256Hex(blob), blob, nil)
	if res.Err != nil || res.Status != 200 {
		rg.close()
		return nil, fmt.Errorf("%s: cannot store the local bystander: %v %d", rg.name, res.Err, res.Status)
	}
	rg.localDigest = lib.DigestOf(blob)
	return rg, nil
}

// peerServer starts (once) a second front end in the same storage mode,
// pointed at the same backend, with an empty local cache.
func (rg *rig) peerServer() (*lib.Server, error) {
	rg.mu.Lock()
	defer rg.mu.Unlock()
	if rg.peer != nil {
		return rg.peer, nil
	}
	p, err := lib.StartServer(lib.ServerOpts{MaxSize: cacheMaxSize, Storage: rg.storage, ZstdImpl: rg.zstdImpl,
		Proxy: rg.be.newPeerProxy(), MaxProxyBlobSize: rg.maxProxy, RawHTTP: true})
	if err != nil {
		return nil, err
	}
	rg.peer = p
	return p, nil
}

func (rg *rig) servers() []*lib.Server {
	rg.mu.Lock()
	defer rg.mu.Unlock()
	out := []*lib.Server{rg.front}
	if rg.peer != nil {
		out = append(out, rg.peer)
	}
	return out
}

func (rg *rig) close() {
	for _, s := range rg.servers() {
		s.Close()
	}
	rg.be.close()
}

func (rg *rig) key(parts ...string) string {
	return "C12:" + rg.name + ":" + strings.Join(parts, ":")
}

// newPanics returns handler panics logged since the last call.
func (rg *rig) newPanics() []string {
	var out []string
	for _, s := range rg.servers() {
		lines := s.HTTPErrLog.Lines()
		rg.mu.Lock()
		from := rg.panicSeen[s]
		rg.panicSeen[s] = len(lines)
		rg.mu.Unlock()
		for _, l := range lines[from:] {
			if strings.Contains(l, "panic") {
				out = append(out, strings.TrimSpace(l))
			}
		}
	}
	return out
}

// checkPanics raises a violation for handler panics observed during a case.
func (rg *rig) checkPanics(opName, fault string, detail any) bool {
	ps := rg.newPanics()
	if len(ps) == 0 {
		return false
	}
	rg.w.r.Violation(rg.key(opName, fault, "handler-panic"),
		fmt.Sprintf("%s: a request handler panicked during %s with backend fault %s: %s", rg.name, opName, fault, firstLine(ps[0])),
		map[string]any{"rig": rg.name, "case": detail, "log": ps})
	return true
}

func firstLine(s string) string {
	if i := strings.IndexByte(s, '\n'); i >= 0 {
		return s[:i]
	}
	return s
}

// quiesce waits for the rig to go idle and evaluates the per-instance
// oracles: accounting (reserved == 0), directory == index, no panic.
func (rg *rig) quiesce(phase string, deep bool) {
	r := rg.w.r
	rg.be.stalls().releaseAll()
	for i, s := range rg.servers() {
		who := "front"
		if i == 1 {
			who = "peer"
		}
		switch s.Settle(60 * time.Second) {
		case "busy":
			sigs := lib.SigString(lib.GoroutineSignatures(lib.SelfGoroutineDump()))
			r.Violation(rg.key("quiescence", who, "handler-still-running"),
				fmt.Sprintf("%s/%s: request handlers are still running 60 s after every client call returned and every backend stall was released", rg.name, who),
				map[string]any{"rig": rg.name, "phase": phase, "inflight": s.Inflight(), "goroutines": sigs})
			continue
		case "reserved":
			snap := lib.Snapshot(s.Cache)
			r.Violation(rg.key("quiescence", who, "reserved-not-zero"),
				fmt.Sprintf("%s/%s: %d bytes stay reserved at quiescence (no request in flight)", rg.name, who, snap.ReservedSize),
				map[string]any{"rig": rg.name, "phase": phase, "reserved": snap.ReservedSize, "cases": rg.caseSummary()})
		}
		r.Eval()
		snap := lib.Snapshot(s.Cache)
		if bad := lib.CheckAcct(snap); len(bad) > 0 {
			r.Violation(rg.key("quiescence", who, "accounting"),
				fmt.Sprintf("%s/%s: accounting invariant broken at quiescence: %s", rg.name, who, bad[0]),
				map[string]any{"rig": rg.name, "phase": phase, "discrepancies": bad, "cases": rg.caseSummary()})
		}
		r.Count("quiescence.acct-checked")
		d, _, verdict := lib.CheckDirQuiescent(s.Cache, deep)
		if verdict == "violated" {
			d.BadBlob, d.BadSize = rg.dropLies(d.BadBlob), rg.dropLies(d.BadSize)
			if d.Empty() {
				verdict = "ok"
			}
		}
		switch verdict {
		case "violated":
			r.Violation(rg.key("quiescence", who, "directory"),
				fmt.Sprintf("%s/%s: cache directory and index differ at quiescence: %s", rg.name, who, clip(d.String(), 300)),
				map[string]any{"rig": rg.name, "phase": phase, "extra": clipList(d.Extra), "missing": clipList(d.Missing),
					"bad_size": clipList(d.BadSize), "bad_blob": clipList(d.BadBlob), "cases": rg.caseSummary()})
		case "inconclusive":
			r.Inconclusive(fmt.Sprintf("%s/%s: evictions still queued at the %s check", rg.name, who, phase))
		default:
			r.Count("quiescence.dir-ok")
		}
	}
	rg.checkPanics("quiescence", phase, nil)
}

func clip(s string, n int) string {
	if len(s) > n {
		return s[:n] + "..."
	}
	return s
}

func clipList(l []string) []string {
	if len(l) > 12 {
		return append(append([]string(nil), l[:12]...), fmt.Sprintf("... %d more", len(l)-12))
	}
	return l
}

// caseSummary: how many cases of each (op, fault) this rig has run (context
// for quiescence findings).
func (rg *rig) caseSummary() map[string]int {
	rg.mu.Lock()
	defer rg.mu.Unlock()
	out := map[string]int{}
	for k, v := range rg.ran {
		out[k] = v
	}
	return out
}

func (rg *rig) noteLie(hash string) {
	rg.mu.Lock()
	rg.lies[hash] = true
	rg.mu.Unlock()
}

// dropLies removes discrepancies about entries whose content the backend
// lied about consistently (the backend is trusted; what was cached for those
// keys is outside the oracle).
func (rg *rig) dropLies(l []string) []string {
	rg.mu.Lock()
	defer rg.mu.Unlock()
	var out []string
next:
	for _, e := range l {
		for h := range rg.lies {
			if strings.Contains(e, h) {
				continue next
			}
		}
		out = append(out, e)
	}
	return out
}

func (rg *rig) noteCase(label string) {
	rg.mu.Lock()
	rg.ran[label]++
	rg.mu.Unlock()
}

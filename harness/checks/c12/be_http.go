package c12

import (
	"bufio"
	"context"
	"fmt"
	"io"
	"net"
	"net/http"
	"net/url"
	"regexp"
	"strconv"
	"sync"
	"sync/atomic"
	"syscall"
	"time"

	"verif/harness/lib"

	"github.com/buchgr/bazel-remote/v2/cache"
	"github.com/buchgr/bazel-remote/v2/cache/httpproxy"
)

// httpBackend is a raw-socket capable HTTP object store (harness code) with
// a fault plan per key. It records every request and tracks the server-side
// connections that are open (http.Server.ConnState plus hijacked ones).
type httpBackend struct {
	mode string // storage mode of the front ends using it
	v2   bool
	ln   net.Listener
	srv  *http.Server
	base string

	mu      sync.Mutex
	objects map[string][]byte // "<prefix>/<hash>" -> stored bytes
	plans   map[string]*plan
	upPlans map[string]*upPlan
	counts  map[string]int
	putRecs map[string][]upload
	headOK  map[string]int // HEAD requests answered "the object exists" (no fault plan involved)
	nreq    int

	rawServer
	refuse atomic.Bool

	clients                 []*http.Client
	px                      cache.Proxy
	nUp                     int
	numUploaders, maxQueued int
}

var reHTTPKey = regexp.MustCompile(`/(cas\.v2|cas|ac|raw)/([0-9a-f]{64})$`)

func newHTTPBackend(mode string, numUploaders, maxQueued int) (*httpBackend, error) {
	b := &httpBackend{mode: mode, v2: mode == "zstd", objects: map[string][]byte{}, plans: map[string]*plan{},
		upPlans: map[string]*upPlan{}, counts: map[string]int{}, putRecs: map[string][]upload{}, headOK: map[string]int{},
		numUploaders: numUploaders, maxQueued: maxQueued}
	b.st = newStallTracker()
	ln, err := net.Listen("tcp", "127.0.0.1:0")
	if err != nil {
		return nil, err
	}
	b.ln = ln
	b.base = "http://" + ln.Addr().String()
	b.srv = &http.Server{
		Handler:   http.HandlerFunc(b.serve),
		ErrorLog:  lib.DiscardLogger,
		ConnState: b.connState,
	}
	go func() { _ = b.srv.Serve(ln) }()
	px, err := b.mkProxy(numUploaders, maxQueued)
	if err != nil {
		b.close()
		return nil, err
	}
	b.px = px
	return b, nil
}

func (b *httpBackend) mkProxy(numUploaders, maxQueued int) (cache.Proxy, error) {
	tr := &http.Transport{
		MaxIdleConnsPerHost: 8,
		DisableCompression:  true,
		DialContext: func(ctx context.Context, network, addr string) (net.Conn, error) {
			if b.refuse.Load() {
				return nil, &net.OpError{Op: "dial", Net: network, Err: syscall.ECONNREFUSED}
			}
			var d net.Dialer
			return d.DialContext(ctx, network, addr)
		},
	}
	hc := &http.Client{Transport: tr}
	b.mu.Lock()
	b.clients = append(b.clients, hc)
	if maxQueued > 0 {
		b.nUp += numUploaders
	}
	b.mu.Unlock()
	u, _ := url.Parse(b.base)
	return httpproxy.New(u, b.mode, hc, lib.DiscardLogger, lib.DiscardLogger, numUploaders, maxQueued)
}

func (b *httpBackend) kindName() string   { return "http" }
func (b *httpBackend) proxy() cache.Proxy { return b.px }
func (b *httpBackend) newPeerProxy() cache.Proxy {
	p, err := b.mkProxy(2, 64)
	if err != nil {
		panic(err)
	}
	return p
}
func (b *httpBackend) uploaders() int { b.mu.Lock(); defer b.mu.Unlock(); return b.nUp }

// An HTTP object store states sizes on HEAD only for objects stored raw.
func (b *httpBackend) sizeAware(kind cache.EntryKind) bool { return !(kind == cache.CAS && b.v2) }

func (b *httpBackend) prefixFor(kind cache.EntryKind) string {
	if kind == cache.CAS && b.v2 {
		return "cas.v2"
	}
	return kind.String()
}

func (b *httpBackend) put(o *object) {
	b.mu.Lock()
	b.objects[b.prefixFor(o.kind)+"/"+o.hash] = o.stored
	b.mu.Unlock()
}

func (b *httpBackend) remove(o *object) {
	b.mu.Lock()
	delete(b.objects, b.prefixFor(o.kind)+"/"+o.hash)
	b.mu.Unlock()
}

func (b *httpBackend) forget(hash string) {
	b.mu.Lock()
	for _, pre := range []string{"cas.v2", "cas", "ac", "raw"} {
		delete(b.objects, pre+"/"+hash)
	}
	delete(b.putRecs, hash)
	delete(b.plans, hash)
	delete(b.upPlans, hash)
	delete(b.headOK, hash)
	b.mu.Unlock()
}

// headHits: how often the backend told a HEAD request that it holds the key.
func (b *httpBackend) headHits(hash string) int {
	b.mu.Lock()
	defer b.mu.Unlock()
	return b.headOK[hash]
}

func (b *httpBackend) holds(o *object) ([]byte, bool) {
	b.mu.Lock()
	defer b.mu.Unlock()
	d, ok := b.objects[b.prefixFor(o.kind)+"/"+o.hash]
	return d, ok
}

func (b *httpBackend) setPlan(o *object, p *plan) {
	if p.act == "refuse" {
		b.closeIdle()
		b.refuse.Store(true)
	}
	b.mu.Lock()
	b.plans[o.hash] = p
	b.mu.Unlock()
}

func (b *httpBackend) setUploadPlan(hash string, p *upPlan) {
	b.mu.Lock()
	b.upPlans[hash] = p
	b.mu.Unlock()
}

func (b *httpBackend) clearPlan(hash string) {
	b.refuse.Store(false)
	b.mu.Lock()
	delete(b.plans, hash)
	delete(b.upPlans, hash)
	b.mu.Unlock()
}

func (b *httpBackend) reqCount(hash string) int {
	b.mu.Lock()
	defer b.mu.Unlock()
	return b.counts[hash]
}
func (b *httpBackend) openConns() int        { return int(b.open.Load()) }
func (b *httpBackend) connSlack() int        { return 0 }
func (b *httpBackend) stalls() *stallTracker { return b.st }

func (b *httpBackend) uploads(hash string) []upload {
	b.mu.Lock()
	defer b.mu.Unlock()
	return append([]upload(nil), b.putRecs[hash]...)
}

func (b *httpBackend) closeIdle() {
	b.mu.Lock()
	cs := append([]*http.Client(nil), b.clients...)
	b.mu.Unlock()
	for _, c := range cs {
		c.CloseIdleConnections()
	}
}

func (b *httpBackend) close() {
	b.st.releaseAll()
	b.closeIdle()
	_ = b.srv.Close()
}

// ---------------------------------------------------------------------------

func (b *httpBackend) serve(w http.ResponseWriter, req *http.Request) {
	m := reHTTPKey.FindStringSubmatch(req.URL.Path)
	if m == nil {
		http.Error(w, "bad key", http.StatusBadRequest)
		return
	}
	prefix, hash := m[1], m[2]
	b.mu.Lock()
	b.counts[hash]++
	b.nreq++
	p := b.plans[hash]
	up := b.upPlans[hash]
	if p != nil && p.once && (req.Method == http.MethodGet && p.target == "get" || req.Method == http.MethodHead && p.target == "contains") {
		delete(b.plans, hash)
	}
	obj, ok := b.objects[prefix+"/"+hash]
	b.mu.Unlock()

	switch req.Method {
	case http.MethodGet:
		if p != nil && p.target != "get" {
			p = nil
		}
		b.serveRead(w, req, hash, obj, ok, p)
	case http.MethodHead:
		if up != nil {
			switch up.act {
			case "head-5xx":
				w.WriteHeader(http.StatusInternalServerError)
				return
			}
			p = nil
		}
		if p != nil && p.target != "contains" {
			p = nil
		}
		if p == nil && ok {
			b.mu.Lock()
			b.headOK[hash]++
			b.mu.Unlock()
		}
		b.serveRead(w, req, hash, obj, ok, p)
	case http.MethodPut:
		b.servePut(w, req, prefix, hash, up)
	default:
		w.WriteHeader(http.StatusMethodNotAllowed)
	}
}

func errBody(big bool) []byte {
	n := 24
	if big {
		n = 2500 // more than the 1 KiB the proxy reads from a failed response
	}
	out := make([]byte, n)
	for i := range out {
		out[i] = "backend says no. "[i%17]
	}
	return out
}

func (b *httpBackend) healthy(w http.ResponseWriter, req *http.Request, obj []byte, ok bool) {
	if !ok {
		http.Error(w, "not found", http.StatusNotFound)
		return
	}
	w.Header().Set("Content-Length", strconv.Itoa(len(obj)))
	w.WriteHeader(http.StatusOK)
	if req.Method == http.MethodGet {
		_, _ = w.Write(obj)
	}
}

func (b *httpBackend) serveRead(w http.ResponseWriter, req *http.Request, hash string, obj []byte, ok bool, p *plan) {
	head := req.Method == http.MethodHead
	b.servePlanned(w, req, hash, obj, ok, p,
		func() { b.healthy(w, req, obj, ok) },
		func(status int, big bool) {
			body := errBody(big)
			w.Header().Set("Content-Length", strconv.Itoa(len(body)))
			w.WriteHeader(status)
			if !head {
				_, _ = w.Write(body)
			}
		})
}

// servePlanned answers one GET/HEAD according to the fault plan. healthy
// produces the well-behaved answer, fail an error answer in the backend's
// dialect.
func (b *rawServer) servePlanned(w http.ResponseWriter, req *http.Request, hash string, obj []byte, ok bool, p *plan,
	healthy func(), fail func(status int, big bool)) {
	if p == nil || p.act == "healthy" {
		healthy()
		return
	}
	head := req.Method == http.MethodHead
	switch p.act {
	case "absent":
		fail(http.StatusNotFound, p.bigBody)
	case "status":
		fail(p.status, p.bigBody)
	case "refuse":
		// The dial hook refuses new connections; a request that still gets
		// here came over a connection opened earlier: drop it unanswered.
		b.hijackClose(w)
	case "close":
		b.hijackClose(w)
	case "delay":
		select {
		case <-req.Context().Done():
			return
		case <-time.After(p.delay):
		}
		healthy()
	case "stall":
		b.raw(w, hash, nil, "", "stall", 0)
	case "headsize":
		if p.size != -2 {
			w.Header().Set("Content-Length", strconv.FormatInt(p.size, 10))
		}
		w.Header().Set("ETag", `"0123456789abcdef0123456789abcdef"`)
		w.Header().Set("Last-Modified", "Mon, 02 Jan 2006 15:04:05 GMT")
		w.WriteHeader(http.StatusOK)
	case "deliver":
		if !ok {
			healthy()
			return
		}
		data := obj
		if p.corrupt != nil {
			data = p.corrupt(append([]byte(nil), obj...))
		}
		if p.cut >= 0 && p.cut < len(data) {
			data = data[:p.cut]
		}
		if p.extra > 0 {
			data = append(append([]byte(nil), data...), garbage(p.extra)...)
		}
		if head {
			w.Header().Set("Content-Length", strconv.Itoa(len(data)))
			w.WriteHeader(http.StatusOK)
			return
		}
		if p.framing == "cl-exact" && p.end == "clean" && p.trickle == 0 {
			// A complete, self-consistent response: normal keep-alive path.
			w.Header().Set("Content-Length", strconv.Itoa(len(data)))
			w.Header().Set("ETag", `"0123456789abcdef0123456789abcdef"`)
			w.Header().Set("Last-Modified", "Mon, 02 Jan 2006 15:04:05 GMT")
			w.WriteHeader(http.StatusOK)
			_, _ = w.Write(data)
			return
		}
		var hdr string
		switch p.framing {
		case "cl-exact":
			hdr = fmt.Sprintf("Content-Length: %d\r\n", len(data))
		case "cl-full":
			hdr = fmt.Sprintf("Content-Length: %d\r\n", len(obj))
		case "cl-plus":
			hdr = fmt.Sprintf("Content-Length: %d\r\n", len(data)+int(p.size))
		case "cl-minus":
			n := len(data) - int(p.size)
			if n < 0 {
				n = 0
			}
			hdr = fmt.Sprintf("Content-Length: %d\r\n", n)
		case "close":
			hdr = ""
		case "chunked":
			hdr = "Transfer-Encoding: chunked\r\n"
		}
		b.raw(w, hash, data, hdr, p.end, p.trickle)
	default:
		healthy()
	}
}

func garbage(n int) []byte {
	out := make([]byte, n)
	for i := range out {
		out[i] = byte(0xA5 ^ i)
	}
	return out
}

// rawServer is the raw-socket part shared by the HTTP-speaking backends: the
// count of open server-side connections and hand-made responses on hijacked
// connections.
type rawServer struct {
	open atomic.Int64
	st   *stallTracker
}

func (b *rawServer) connState(c net.Conn, s http.ConnState) {
	switch s {
	case http.StateNew:
		b.open.Add(1)
	case http.StateClosed:
		b.open.Add(-1)
		// StateHijacked: the raw handler counts the close itself.
	}
}

func (b *rawServer) hijack(w http.ResponseWriter) (net.Conn, *bufio.ReadWriter, bool) {
	hj, ok := w.(http.Hijacker)
	if !ok {
		return nil, nil, false
	}
	conn, rw, err := hj.Hijack()
	if err != nil {
		return nil, nil, false
	}
	return conn, rw, true
}

func (b *rawServer) closeHijacked(conn net.Conn) {
	_ = conn.Close()
	b.open.Add(-1)
}

func (b *rawServer) hijackClose(w http.ResponseWriter) {
	conn, _, ok := b.hijack(w)
	if !ok {
		return
	}
	b.closeHijacked(conn)
}

// raw writes a hand-made 200 response on the hijacked connection: framing
// header hdr ("" = delimited by connection close), the body (optionally
// trickled), and then ends it cleanly, abruptly, or stalls until the client
// goes away. data == nil && end == "stall": stall before any response byte.
func (b *rawServer) raw(w http.ResponseWriter, hash string, data []byte, hdr string, end string, trickle int) {
	conn, rw, ok := b.hijack(w)
	if !ok {
		return
	}
	defer b.closeHijacked(conn)
	chunked := hdr == "Transfer-Encoding: chunked\r\n"
	if data != nil || end != "stall" {
		_, _ = rw.WriteString("HTTP/1.1 200 OK\r\nContent-Type: application/octet-stream\r\nETag: \"0123456789abcdef0123456789abcdef\"\r\nLast-Modified: Mon, 02 Jan 2006 15:04:05 GMT\r\nConnection: close\r\n" + hdr + "\r\n")
		piece := len(data)
		if trickle > 0 {
			piece = trickle
		} else if chunked {
			piece = 4096
		}
		for off := 0; off < len(data); off += piece {
			e := off + piece
			if e > len(data) {
				e = len(data)
			}
			if chunked {
				_, _ = fmt.Fprintf(rw, "%x\r\n", e-off)
			}
			_, _ = rw.Write(data[off:e])
			if chunked {
				_, _ = rw.WriteString("\r\n")
			}
			if trickle > 0 {
				if rw.Flush() != nil {
					return
				}
				time.Sleep(200 * time.Microsecond)
			}
		}
		if chunked && end == "clean" {
			_, _ = rw.WriteString("0\r\n\r\n")
		}
		if rw.Flush() != nil {
			return
		}
	}
	if end == "stall" {
		gone := make(chan struct{})
		go func() {
			var one [1]byte
			for {
				if _, err := conn.Read(one[:]); err != nil {
					close(gone)
					return
				}
			}
		}()
		b.st.wait(hash, gone)
	}
}

func (b *httpBackend) servePut(w http.ResponseWriter, req *http.Request, prefix, hash string, up *upPlan) {
	rec := upload{kind: prefixKind(prefix), hash: hash, name: req.URL.Path, declared: req.ContentLength}
	if up != nil && up.once {
		b.mu.Lock()
		delete(b.upPlans, hash)
		b.mu.Unlock()
	}
	act := ""
	if up != nil {
		act = up.act
	}
	switch act {
	case "status-early":
		b.addPut(hash, rec)
		w.WriteHeader(http.StatusServiceUnavailable)
		return
	case "close-mid":
		conn, rw, ok := b.hijack(w)
		if !ok {
			return
		}
		n := req.ContentLength / 2
		if n > 0 {
			_, _ = io.CopyN(io.Discard, rw, n)
		}
		b.addPut(hash, rec)
		b.closeHijacked(conn)
		return
	case "stall":
		b.st.wait(hash, req.Context().Done())
	}
	body, err := io.ReadAll(req.Body)
	rec.payload = body
	if act == "status-late" {
		b.addPut(hash, rec)
		w.WriteHeader(http.StatusInternalServerError)
		return
	}
	if err != nil {
		b.addPut(hash, rec)
		return
	}
	rec.stored = true
	b.mu.Lock()
	b.objects[prefix+"/"+hash] = body
	b.putRecs[hash] = append(b.putRecs[hash], rec)
	b.mu.Unlock()
	w.WriteHeader(http.StatusOK)
}

func (b *httpBackend) addPut(hash string, rec upload) {
	b.mu.Lock()
	b.putRecs[hash] = append(b.putRecs[hash], rec)
	b.mu.Unlock()
}

func prefixKind(prefix string) string {
	if prefix == "cas.v2" {
		return "cas"
	}
	return prefix
}

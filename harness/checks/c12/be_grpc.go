package c12

import (
	"bytes"
	"context"
	"encoding/base64"
	"encoding/hex"
	"io"
	"net"
	"regexp"
	"strconv"
	"strings"
	"sync"
	"sync/atomic"
	"time"

	"verif/harness/lib"

	"github.com/buchgr/bazel-remote/v2/cache"
	"github.com/buchgr/bazel-remote/v2/cache/grpcproxy"
	asset "github.com/buchgr/bazel-remote/v2/genproto/build/bazel/remote/asset/v1"
	pb "github.com/buchgr/bazel-remote/v2/genproto/build/bazel/remote/execution/v2"
	bs "google.golang.org/genproto/googleapis/bytestream"
	"google.golang.org/grpc"
	"google.golang.org/grpc/codes"
	"google.golang.org/grpc/credentials/insecure"
	"google.golang.org/grpc/stats"
	"google.golang.org/grpc/status"
	"google.golang.org/protobuf/proto"
)

// grpcBackend is an in-process REAPI-style backend (harness code):
// ByteStream Read/Write, FindMissingBlobs, Get/UpdateActionResult, FetchBlob
// and GetCapabilities over an object store, with a fault plan per key.
type grpcBackend struct {
	mode string
	v2   bool
	srv  *grpc.Server
	addr string

	mu      sync.Mutex
	cas     map[string]*gObj
	ac      map[string][]byte
	plans   map[string]*plan
	upPlans map[string]*upPlan
	counts  map[string]int
	upRecs  map[string][]upload

	started, finished atomic.Int64
	// the proxies' own view: RPCs begun and not ended on their client
	// connections (a stream that is neither read to its end nor cancelled
	// stays open there, whatever the server has already sent)
	clientOpen atomic.Int64
	st         *stallTracker

	conns []*grpc.ClientConn
	px    cache.Proxy
	nUp   int

	pb.UnimplementedActionCacheServer
	pb.UnimplementedContentAddressableStorageServer
	pb.UnimplementedCapabilitiesServer
	asset.UnimplementedFetchServer
	bs.UnimplementedByteStreamServer
}

// clientRPCStats counts the RPCs open on a proxy's client connection.
type clientRPCStats struct{ b *grpcBackend }

func (clientRPCStats) TagRPC(ctx context.Context, _ *stats.RPCTagInfo) context.Context { return ctx }
func (c clientRPCStats) HandleRPC(_ context.Context, s stats.RPCStats) {
	switch s.(type) {
	case *stats.Begin:
		c.b.clientOpen.Add(1)
	case *stats.End:
		c.b.clientOpen.Add(-1)
	}
}
func (clientRPCStats) TagConn(ctx context.Context, _ *stats.ConnTagInfo) context.Context { return ctx }
func (clientRPCStats) HandleConn(context.Context, stats.ConnStats)                       {}

type gObj struct {
	logical []byte
	stored  []byte // what compressed-blobs reads deliver (a cas.v2 file in zstd mode)
	size    int64
}

func newGRPCBackend(mode string, numUploaders, maxQueued int) (*grpcBackend, error) {
	b := &grpcBackend{mode: mode, v2: mode == "zstd", cas: map[string]*gObj{}, ac: map[string][]byte{},
		plans: map[string]*plan{}, upPlans: map[string]*upPlan{}, counts: map[string]int{}, upRecs: map[string][]upload{},
		st: newStallTracker()}
	ln, err := net.Listen("tcp", "127.0.0.1:0")
	if err != nil {
		return nil, err
	}
	b.addr = ln.Addr().String()
	b.srv = grpc.NewServer(grpc.MaxRecvMsgSize(64*lib.MiB), grpc.MaxSendMsgSize(64*lib.MiB),
		grpc.ChainUnaryInterceptor(func(ctx context.Context, req any, info *grpc.UnaryServerInfo, h grpc.UnaryHandler) (any, error) {
			b.started.Add(1)
			defer b.finished.Add(1)
			return h(ctx, req)
		}),
		grpc.ChainStreamInterceptor(func(srv any, ss grpc.ServerStream, info *grpc.StreamServerInfo, h grpc.StreamHandler) error {
			b.started.Add(1)
			defer b.finished.Add(1)
			return h(srv, ss)
		}))
	pb.RegisterActionCacheServer(b.srv, b)
	pb.RegisterContentAddressableStorageServer(b.srv, b)
	pb.RegisterCapabilitiesServer(b.srv, b)
	asset.RegisterFetchServer(b.srv, b)
	bs.RegisterByteStreamServer(b.srv, b)
	go func() { _ = b.srv.Serve(ln) }()
	px, err := b.mkProxy(numUploaders, maxQueued)
	if err != nil {
		b.close()
		return nil, err
	}
	b.px = px
	return b, nil
}

func (b *grpcBackend) mkProxy(numUploaders, maxQueued int) (cache.Proxy, error) {
	conn, err := grpc.NewClient(b.addr, grpc.WithTransportCredentials(insecure.NewCredentials()),
		grpc.WithStatsHandler(clientRPCStats{b}),
		grpc.WithDefaultCallOptions(grpc.MaxCallRecvMsgSize(64*lib.MiB), grpc.MaxCallSendMsgSize(64*lib.MiB)))
	if err != nil {
		return nil, err
	}
	clients := grpcproxy.NewGrpcClients(conn)
	if err := clients.CheckCapabilities(b.v2); err != nil {
		_ = conn.Close()
		return nil, err
	}
	b.mu.Lock()
	b.conns = append(b.conns, conn)
	if maxQueued > 0 {
		b.nUp += numUploaders
	}
	b.mu.Unlock()
	return grpcproxy.New(clients, b.mode, lib.DiscardLogger, lib.DiscardLogger, numUploaders, maxQueued), nil
}

func (b *grpcBackend) kindName() string   { return "grpc" }
func (b *grpcBackend) proxy() cache.Proxy { return b.px }
func (b *grpcBackend) newPeerProxy() cache.Proxy {
	p, err := b.mkProxy(2, 64)
	if err != nil {
		panic(err)
	}
	return p
}
func (b *grpcBackend) uploaders() int                 { b.mu.Lock(); defer b.mu.Unlock(); return b.nUp }
func (b *grpcBackend) sizeAware(cache.EntryKind) bool { return true }
func (b *grpcBackend) openConns() int {
	srv, cl := int(b.started.Load()-b.finished.Load()), int(b.clientOpen.Load())
	if cl > srv {
		return cl
	}
	return srv
}
func (b *grpcBackend) connSlack() int        { return 0 }
func (b *grpcBackend) stalls() *stallTracker { return b.st }
func (b *grpcBackend) closeIdle()            {}
func (b *grpcBackend) reqCount(hash string) int {
	b.mu.Lock()
	defer b.mu.Unlock()
	return b.counts[hash]
}
func (b *grpcBackend) setUploadPlan(h string, p *upPlan) {
	b.mu.Lock()
	b.upPlans[h] = p
	b.mu.Unlock()
}

func (b *grpcBackend) put(o *object) {
	b.mu.Lock()
	if o.kind == cache.CAS {
		g := &gObj{logical: o.content, size: o.size()}
		if o.v2 {
			g.stored = o.stored
		}
		b.cas[o.hash] = g
	} else {
		b.ac[o.hash] = o.content
	}
	b.mu.Unlock()
}

func (b *grpcBackend) remove(o *object) {
	b.mu.Lock()
	if o.kind == cache.CAS {
		delete(b.cas, o.hash)
	} else {
		delete(b.ac, o.hash)
	}
	b.mu.Unlock()
}

func (b *grpcBackend) forget(hash string) {
	b.mu.Lock()
	delete(b.cas, hash)
	delete(b.ac, hash)
	delete(b.upRecs, hash)
	delete(b.plans, hash)
	delete(b.upPlans, hash)
	b.mu.Unlock()
}

func (b *grpcBackend) holds(o *object) ([]byte, bool) {
	b.mu.Lock()
	defer b.mu.Unlock()
	if o.kind == cache.CAS {
		g, ok := b.cas[o.hash]
		if !ok {
			return nil, false
		}
		return g.logical, true
	}
	d, ok := b.ac[o.hash]
	return d, ok
}

func (b *grpcBackend) setPlan(o *object, p *plan) { b.mu.Lock(); b.plans[o.hash] = p; b.mu.Unlock() }
func (b *grpcBackend) clearPlan(hash string) {
	b.mu.Lock()
	delete(b.plans, hash)
	delete(b.upPlans, hash)
	b.mu.Unlock()
}

func (b *grpcBackend) uploads(hash string) []upload {
	b.mu.Lock()
	defer b.mu.Unlock()
	return append([]upload(nil), b.upRecs[hash]...)
}

func (b *grpcBackend) close() {
	b.st.releaseAll()
	b.mu.Lock()
	cs := b.conns
	b.conns = nil
	b.mu.Unlock()
	for _, c := range cs {
		_ = c.Close()
	}
	b.srv.Stop()
}

// take returns the plan for (hash, target) and counts the request.
func (b *grpcBackend) take(hash, target string) *plan {
	b.mu.Lock()
	defer b.mu.Unlock()
	b.counts[hash]++
	p := b.plans[hash]
	if p == nil || p.target != target {
		return nil
	}
	if p.once {
		delete(b.plans, hash)
	}
	return p
}

func (b *grpcBackend) GetCapabilities(ctx context.Context, _ *pb.GetCapabilitiesRequest) (*pb.ServerCapabilities, error) {
	return &pb.ServerCapabilities{CacheCapabilities: &pb.CacheCapabilities{
		DigestFunctions:               []pb.DigestFunction_Value{pb.DigestFunction_SHA256},
		ActionCacheUpdateCapabilities: &pb.ActionCacheUpdateCapabilities{UpdateEnabled: true},
		SupportedCompressors:          []pb.Compressor_Value{pb.Compressor_ZSTD},
	}}, nil
}

var (
	reReadRes  = regexp.MustCompile(`(?:^|/)(blobs|compressed-blobs/zstd)/([0-9a-f]{64})/(-?[0-9]+)$`)
	reWriteRes = regexp.MustCompile(`(?:^|/)uploads/([^/]+)/(blobs|compressed-blobs/zstd)/([0-9a-f]{64})/(-?[0-9]+)$`)
)

func (b *grpcBackend) Read(req *bs.ReadRequest, stream bs.ByteStream_ReadServer) error {
	m := reReadRes.FindStringSubmatch(req.ResourceName)
	if m == nil {
		return status.Error(codes.InvalidArgument, "bad resource name")
	}
	compressed, hash := m[1] != "blobs", m[2]
	size, _ := strconv.ParseInt(m[3], 10, 64)
	p := b.take(hash, "get")
	b.mu.Lock()
	g := b.cas[hash]
	b.mu.Unlock()

	if p != nil {
		switch p.act {
		case "absent":
			return status.Error(codes.NotFound, "not found")
		case "status":
			return status.Error(p.code, "injected failure")
		case "stall":
			b.st.wait(hash, stream.Context().Done())
			return status.Error(codes.Unavailable, "stalled")
		case "delay":
			select {
			case <-stream.Context().Done():
				return status.FromContextError(stream.Context().Err()).Err()
			case <-time.After(p.delay):
			}
		}
	}
	if g == nil {
		return status.Error(codes.NotFound, "not found")
	}
	ignoreSize := p != nil && p.act == "fetch"
	if size != g.size && !ignoreSize {
		return status.Error(codes.NotFound, "no blob of that size")
	}
	data := g.logical
	if compressed {
		if g.stored == nil {
			return status.Error(codes.NotFound, "no compressed representation")
		}
		data = g.stored
	}
	if req.ReadOffset > 0 && req.ReadOffset <= int64(len(data)) {
		data = data[req.ReadOffset:]
	}
	msg := 256 * lib.KiB
	if p != nil && p.act == "deliver" {
		if p.corrupt != nil {
			data = p.corrupt(append([]byte(nil), data...))
		}
		if p.cut >= 0 && p.cut < len(data) {
			data = data[:p.cut]
		}
		if p.extra > 0 {
			data = append(append([]byte(nil), data...), garbage(p.extra)...)
		}
		if p.msgSize > 0 {
			msg = p.msgSize
		}
		if p.trickle > 0 {
			msg = p.trickle
		}
	}
	for _, c := range lib.Chunk(data, msg) {
		if len(c) == 0 {
			continue
		}
		if err := stream.Send(&bs.ReadResponse{Data: c}); err != nil {
			return err
		}
		if p != nil && p.trickle > 0 {
			// an empty message now and then: legal on a ByteStream
			_ = stream.Send(&bs.ReadResponse{})
		}
	}
	if p != nil && p.act == "deliver" {
		switch p.end {
		case "abort":
			return status.Error(p.code, "injected failure after partial data")
		case "stall":
			b.st.wait(hash, stream.Context().Done())
			return status.Error(codes.Unavailable, "stalled")
		}
	}
	return nil
}

func (b *grpcBackend) Write(stream bs.ByteStream_WriteServer) error {
	var res string
	var buf bytes.Buffer
	var up *upPlan
	first := true
	for {
		m, err := stream.Recv()
		if err == io.EOF {
			break
		}
		if err != nil {
			return err
		}
		if first {
			first = false
			res = m.ResourceName
			if wm := reWriteRes.FindStringSubmatch(res); wm != nil {
				b.mu.Lock()
				b.counts[wm[3]]++
				up = b.upPlans[wm[3]]
				if up != nil && up.once {
					delete(b.upPlans, wm[3])
				}
				b.mu.Unlock()
				if up != nil {
					switch up.act {
					case "first-send":
						b.addUp(wm[3], upload{kind: "cas", hash: wm[3], name: res})
						return status.Error(up.code, "injected failure at the first message")
					case "stall":
						b.st.wait(wm[3], stream.Context().Done())
					}
				}
			}
		}
		buf.Write(m.Data)
		if m.FinishWrite {
			break
		}
	}
	wm := reWriteRes.FindStringSubmatch(res)
	if wm == nil {
		return status.Error(codes.InvalidArgument, "bad resource name")
	}
	hash := wm[3]
	declared, _ := strconv.ParseInt(wm[4], 10, 64)
	rec := upload{kind: "cas", hash: hash, name: res, payload: append([]byte(nil), buf.Bytes()...), compress: wm[2] != "blobs", declared: declared}
	if up != nil && up.act == "close-recv" {
		b.addUp(hash, rec)
		return status.Error(up.code, "injected failure at the end of the upload")
	}
	g := &gObj{size: declared}
	if rec.compress {
		g.stored = rec.payload
		if data, _, err := lib.CasRead(rec.payload); err == nil {
			g.logical = data
		} else if data, err := lib.ZstdDecodeBoth(rec.payload); err == nil {
			g.logical = data
		}
	} else {
		g.logical = rec.payload
	}
	rec.stored = true
	b.mu.Lock()
	b.cas[hash] = g
	b.upRecs[hash] = append(b.upRecs[hash], rec)
	b.mu.Unlock()
	return stream.SendAndClose(&bs.WriteResponse{CommittedSize: int64(buf.Len())})
}

func (b *grpcBackend) addUp(hash string, rec upload) {
	b.mu.Lock()
	b.upRecs[hash] = append(b.upRecs[hash], rec)
	b.mu.Unlock()
}

func (b *grpcBackend) FindMissingBlobs(ctx context.Context, req *pb.FindMissingBlobsRequest) (*pb.FindMissingBlobsResponse, error) {
	resp := &pb.FindMissingBlobsResponse{}
	for _, d := range req.BlobDigests {
		p := b.take(d.Hash, "contains")
		if p != nil {
			switch p.act {
			case "status":
				return nil, status.Error(p.code, "injected failure")
			case "absent":
				resp.MissingBlobDigests = append(resp.MissingBlobDigests, d)
				continue
			case "stall":
				b.st.wait(d.Hash, ctx.Done())
				return nil, status.Error(codes.Unavailable, "stalled")
			case "delay":
				select {
				case <-ctx.Done():
					return nil, status.FromContextError(ctx.Err()).Err()
				case <-time.After(p.delay):
				}
			}
		}
		b.mu.Lock()
		g := b.cas[d.Hash]
		b.mu.Unlock()
		have := g != nil && g.size == d.SizeBytes
		if p != nil && p.act == "headsize" {
			have = g != nil && p.size == d.SizeBytes
		}
		if !have {
			resp.MissingBlobDigests = append(resp.MissingBlobDigests, d)
		}
	}
	return resp, nil
}

func sriHash(req *asset.FetchBlobRequest) (string, bool) {
	for _, q := range req.Qualifiers {
		if q.Name == "checksum.sri" && strings.HasPrefix(q.Value, "sha256-") {
			raw, err := base64.StdEncoding.DecodeString(strings.TrimPrefix(q.Value, "sha256-"))
			if err == nil && len(raw) == 32 {
				return hex.EncodeToString(raw), true
			}
		}
	}
	return "", false
}

func (b *grpcBackend) FetchBlob(ctx context.Context, req *asset.FetchBlobRequest) (*asset.FetchBlobResponse, error) {
	hash, ok := sriHash(req)
	if !ok {
		return &asset.FetchBlobResponse{Status: status.New(codes.NotFound, "no checksum").Proto()}, nil
	}
	// The size-unknown lookup: faults of both targets may sit here ("get"
	// plans for the fetch that precedes a read, "contains" plans for HEAD).
	b.mu.Lock()
	b.counts[hash]++
	p := b.plans[hash]
	g := b.cas[hash]
	b.mu.Unlock()
	if p != nil {
		switch p.act {
		case "absent":
			return &asset.FetchBlobResponse{Status: status.New(codes.NotFound, "not found").Proto()}, nil
		case "status":
			if p.stage != "body" {
				return nil, status.Error(p.code, "injected failure")
			}
		case "stall":
			if p.stage == "before-response" {
				b.st.wait(hash, ctx.Done())
				return nil, status.Error(codes.Unavailable, "stalled")
			}
		case "fetch":
			if g == nil {
				break
			}
			h := hash
			if p.wrongSum {
				h = lib.Sha256Hex([]byte(hash))
			}
			return &asset.FetchBlobResponse{Status: status.New(codes.OK, "").Proto(), BlobDigest: &pb.Digest{Hash: h, SizeBytes: p.size}}, nil
		case "headsize":
			if g != nil {
				return &asset.FetchBlobResponse{Status: status.New(codes.OK, "").Proto(), BlobDigest: &pb.Digest{Hash: hash, SizeBytes: p.size}}, nil
			}
		}
	}
	if g == nil {
		return &asset.FetchBlobResponse{Status: status.New(codes.NotFound, "not found").Proto()}, nil
	}
	return &asset.FetchBlobResponse{Status: status.New(codes.OK, "").Proto(), BlobDigest: &pb.Digest{Hash: hash, SizeBytes: g.size}}, nil
}

func (b *grpcBackend) UpdateActionResult(ctx context.Context, req *pb.UpdateActionResultRequest) (*pb.ActionResult, error) {
	hash := req.ActionDigest.GetHash()
	b.mu.Lock()
	b.counts[hash]++
	up := b.upPlans[hash]
	if up != nil && up.once {
		delete(b.upPlans, hash)
	}
	b.mu.Unlock()
	data, _ := proto.MarshalOptions{Deterministic: true}.Marshal(req.ActionResult)
	rec := upload{kind: "ac", hash: hash, name: "UpdateActionResult", payload: data, declared: req.ActionDigest.GetSizeBytes()}
	if up != nil {
		switch up.act {
		case "stall":
			b.st.wait(hash, ctx.Done())
		case "first-send", "close-recv", "status-late", "status-early":
			b.addUp(hash, rec)
			return nil, status.Error(up.code, "injected failure")
		}
	}
	rec.stored = true
	b.mu.Lock()
	b.ac[hash] = data
	b.upRecs[hash] = append(b.upRecs[hash], rec)
	b.mu.Unlock()
	return req.ActionResult, nil
}

func (b *grpcBackend) GetActionResult(ctx context.Context, req *pb.GetActionResultRequest) (*pb.ActionResult, error) {
	hash := req.ActionDigest.GetHash()
	p := b.take(hash, "get")
	if p == nil {
		// AC/RAW "contains" is a Get in the gRPC proxy.
		b.mu.Lock()
		if q := b.plans[hash]; q != nil && q.target == "contains" {
			p = q
			if q.once {
				delete(b.plans, hash)
			}
		}
		b.mu.Unlock()
	}
	if p != nil {
		switch p.act {
		case "absent":
			return nil, status.Error(codes.NotFound, "not found")
		case "status":
			return nil, status.Error(p.code, "injected failure")
		case "stall":
			b.st.wait(hash, ctx.Done())
			return nil, status.Error(codes.Unavailable, "stalled")
		case "delay":
			select {
			case <-ctx.Done():
				return nil, status.FromContextError(ctx.Err()).Err()
			case <-time.After(p.delay):
			}
		}
	}
	b.mu.Lock()
	data, ok := b.ac[hash]
	b.mu.Unlock()
	if !ok {
		return nil, status.Error(codes.NotFound, "not found")
	}
	ar := &pb.ActionResult{}
	if err := proto.Unmarshal(data, ar); err != nil {
		return nil, status.Error(codes.Internal, err.Error())
	}
	return ar, nil
}

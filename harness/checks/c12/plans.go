package c12

import (
	"encoding/binary"
	"fmt"
	"math/rand/v2"
	"time"

	"github.com/buchgr/bazel-remote/v2/cache"
	"google.golang.org/grpc/codes"
)

// entry is one row of a backend family's fault catalogue; build instantiates
// it for a concrete object (choosing byte positions from the row's class).
type entry struct {
	name      string
	target    string // get | contains
	casOnly   bool
	needV2    bool // only for objects stored as cas.v2 files
	rawOnly   bool // only for objects stored raw
	needMulti bool // needs a multi-chunk cas.v2 object
	oversize  bool // the object must exceed max_proxy_blob_size
	slow      bool // costs seconds (client library retries): used sparingly
	build     func(rg *rig, o *object, rng *rand.Rand) *plan
}

func (e *entry) applies(rg *rig, kind cache.EntryKind) bool {
	v2 := kind == cache.CAS && rg.storage == "zstd"
	if e.casOnly && kind != cache.CAS {
		return false
	}
	if e.needV2 && !v2 {
		return false
	}
	if e.rawOnly && v2 {
		return false
	}
	if e.oversize && rg.maxProxy <= 0 {
		return false
	}
	return true
}

func base(stage, fault, pos, target, act string) *plan {
	l := stage + "/" + fault
	if pos != "" {
		l += "/" + pos
	}
	return &plan{stage: stage, fault: fault, label: l, target: target, act: act, cut: -1, end: "clean", framing: "cl-exact"}
}

func (p *plan) exp(known, unknown string) *plan { p.expKnown, p.expUnknown = known, unknown; return p }

// ---------------------------------------------------------------------------
// Byte positions.

// cutPos picks a cut position of the given class inside the stored object.
func cutPos(o *object, class string, rng *rand.Rand) int {
	L := len(o.stored)
	clamp := func(k int) int {
		if k < 0 {
			return 0
		}
		if k >= L {
			return L - 1
		}
		return k
	}
	switch class {
	case "hdr0-16":
		return clamp(rng.IntN(17))
	case "hdr17+":
		if !o.v2 {
			return clamp(L / 3)
		}
		c := []int{17, 20, 21, 28, 29, o.hdrSize - 1, o.hdrSize, o.hdrSize + 1}
		return clamp(c[rng.IntN(len(c))])
	case "chunk-boundary":
		if !o.v2 || len(o.offsets) < 3 {
			return clamp(L / 2)
		}
		i := 1 + rng.IntN(len(o.offsets)-2)
		return clamp(int(o.offsets[i]) + rng.IntN(3) - 1)
	case "mid":
		if o.v2 && L > o.hdrSize+2 {
			return clamp(o.hdrSize + 1 + rng.IntN(L-o.hdrSize-2))
		}
		if L <= 2 {
			return clamp(L - 1)
		}
		return clamp(1 + rng.IntN(L-2))
	case "first":
		if rng.IntN(2) == 0 {
			return 0
		}
		return clamp(1)
	case "last-byte":
		return clamp(L - 1)
	}
	return clamp(L / 2)
}

var cutClassesV2 = []string{"hdr0-16", "hdr0-16", "hdr17+", "chunk-boundary", "mid", "last-byte"}
var cutClassesRaw = []string{"first", "mid", "last-byte"}

func stageOf(class string) string {
	switch class {
	case "hdr0-16", "hdr17+":
		return "header"
	case "chunk-boundary":
		return "chunk-boundary"
	case "last-byte":
		return "last-byte"
	}
	return "body"
}

func pickCutClass(o *object, rng *rand.Rand) string {
	if o.v2 {
		return cutClassesV2[rng.IntN(len(cutClassesV2))]
	}
	return cutClassesRaw[rng.IntN(len(cutClassesRaw))]
}

// ---------------------------------------------------------------------------
// cas.v2 header corruptions (applied to a copy of the stored file).

type corruption struct {
	name       string
	detectable bool // violates the published header rules on its own
	sizeLie    bool // only the logical size field is changed (consistent otherwise)
	apply      func(o *object, b []byte) []byte
}

func put32(b []byte, off int, v uint32) { binary.LittleEndian.PutUint32(b[off:], v) }
func put64(b []byte, off int, v uint64) { binary.LittleEndian.PutUint64(b[off:], v) }

var corruptions = []corruption{
	{"magic", true, false, func(o *object, b []byte) []byte { b[0] ^= 0x01; return b }},
	{"magic-zstd-frame", true, false, func(o *object, b []byte) []byte { put32(b, 0, 0xFD2FB528); return b }},
	{"frame-size+1", true, false, func(o *object, b []byte) []byte {
		put32(b, 4, binary.LittleEndian.Uint32(b[4:])+1)
		return b
	}},
	{"frame-size-8", true, false, func(o *object, b []byte) []byte {
		put32(b, 4, binary.LittleEndian.Uint32(b[4:])-8)
		return b
	}},
	{"logical-size-0", true, false, func(o *object, b []byte) []byte { put64(b, 8, 0); return b }},
	{"logical-size-negative", true, false, func(o *object, b []byte) []byte { put64(b, 8, ^uint64(0)-4); return b }},
	{"logical-size+1", false, true, func(o *object, b []byte) []byte {
		put64(b, 8, uint64(len(o.content))+1)
		return b
	}},
	{"logical-size-1", false, true, func(o *object, b []byte) []byte {
		put64(b, 8, uint64(len(o.content))-1)
		return b
	}},
	{"compression-type-2", true, false, func(o *object, b []byte) []byte { b[16] = 2; return b }},
	{"chunk-size-0", true, false, func(o *object, b []byte) []byte { put32(b, 17, 0); return b }},
	{"chunk-size-tiny", true, false, func(o *object, b []byte) []byte { put32(b, 17, 1); return b }},
	{"num-offsets-1", true, false, func(o *object, b []byte) []byte {
		put64(b, 21, binary.LittleEndian.Uint64(b[21:])-1)
		return b
	}},
	{"num-offsets+1", true, false, func(o *object, b []byte) []byte {
		put64(b, 21, binary.LittleEndian.Uint64(b[21:])+1)
		return b
	}},
	{"num-offsets-0", true, false, func(o *object, b []byte) []byte { put64(b, 21, 0); return b }},
	{"last-offset+1", true, false, func(o *object, b []byte) []byte {
		off := 29 + 8*(len(o.offsets)-1)
		put64(b, off, uint64(len(b))+1)
		return b
	}},
	{"last-offset-1", true, false, func(o *object, b []byte) []byte {
		off := 29 + 8*(len(o.offsets)-1)
		put64(b, off, uint64(len(b))-1)
		return b
	}},
	{"offsets-not-increasing", true, false, func(o *object, b []byte) []byte {
		// first offset := last offset
		put64(b, 29, uint64(len(b)))
		return b
	}},
	{"first-offset+1", false, false, func(o *object, b []byte) []byte {
		put64(b, 29, uint64(o.offsets[0])+1)
		return b
	}},
}

// ---------------------------------------------------------------------------
// Catalogues.

func healthyPlan(target string) *plan {
	return base("none", "healthy", "", target, "healthy").exp(expHit, expHit)
}

func absentPlan(target string, big bool) *plan {
	p := base("status", "404", "", target, "absent").exp(expNoHit, expNoHit)
	p.bigBody = big
	if big {
		p.label += "/big-body"
	}
	return p
}

// consistentAlteration: the backend delivers a complete, self-consistent but
// different object. cas.v2 files give it away through their header (unless
// only content-level decoding could tell); raw objects only when the reader
// states the size.
func consistentAlteration(p *plan, o *object, detectableV2 bool, sizeAlwaysKnown bool) *plan {
	// A hit is acceptable only with exactly the object the backend holds
	// (an implementation may legitimately ignore what it does not need).
	switch {
	case o.v2 && detectableV2:
		return p.exp(expAny, expAny)
	case o.v2:
		return p.exp(expLies, expLies)
	case sizeAlwaysKnown:
		return p.exp(expAny, expAny)
	default:
		return p.exp(expAny, expLies)
	}
}

// httpLikeGet: catalogue for backends that speak HTTP to the proxy (http, s3).
func httpLikeGet(family string) []*entry {
	es := []*entry{
		{name: "healthy", build: func(rg *rig, o *object, rng *rand.Rand) *plan { return healthyPlan("get") }},
		{name: "404", build: func(rg *rig, o *object, rng *rand.Rand) *plan { return absentPlan("get", false) }},
		{name: "oversize", oversize: true, build: func(rg *rig, o *object, rng *rand.Rand) *plan {
			p := base("size-metadata", "oversize", "", "get", "healthy").exp(expNoHit, expNoHit)
			return p
		}},
	}
	if family == "http" {
		es = append(es,
			&entry{name: "trickle", build: func(rg *rig, o *object, rng *rand.Rand) *plan {
				p := base("body", "trickle", "", "get", "deliver").exp(expHit, expHit)
				p.trickle = 1 + len(o.stored)/7
				return p
			}},
			&entry{name: "404-big-body", build: func(rg *rig, o *object, rng *rand.Rand) *plan { return absentPlan("get", true) }},
			&entry{name: "5xx", build: func(rg *rig, o *object, rng *rand.Rand) *plan {
				p := base("status", "5xx", "", "get", "status").exp(expNoHit, expNoHit)
				p.status = []int{500, 503, 502}[rng.IntN(3)]
				p.bigBody = rng.IntN(2) == 0
				p.label = fmt.Sprintf("status/5xx/%d-big=%v", p.status, p.bigBody)
				return p
			}},
			&entry{name: "refuse", build: func(rg *rig, o *object, rng *rand.Rand) *plan {
				return base("connect", "refuse", "", "get", "refuse").exp(expNoHit, expNoHit)
			}},
			&entry{name: "close", build: func(rg *rig, o *object, rng *rand.Rand) *plan {
				return base("before-response", "close", "", "get", "close").exp(expNoHit, expNoHit)
			}},
			&entry{name: "short-error-chunked", build: func(rg *rig, o *object, rng *rand.Rand) *plan {
				c := pickCutClass(o, rng)
				p := base(stageOf(c), "short-error", c+"/chunked", "get", "deliver").exp(expAny, expAny)
				p.cut, p.framing, p.end = cutPos(o, c, rng), "chunked", "abort"
				return p
			}},
			&entry{name: "short-clean-close", build: func(rg *rig, o *object, rng *rand.Rand) *plan {
				c := pickCutClass(o, rng)
				p := base(stageOf(c), "short-clean", c+"/close-delimited", "get", "deliver")
				p.cut, p.framing = cutPos(o, c, rng), "close"
				return consistentAlteration(p, o, true, false)
			}},
			&entry{name: "short-clean-chunked", build: func(rg *rig, o *object, rng *rand.Rand) *plan {
				c := pickCutClass(o, rng)
				p := base(stageOf(c), "short-clean", c+"/chunked", "get", "deliver")
				p.cut, p.framing = cutPos(o, c, rng), "chunked"
				return consistentAlteration(p, o, true, false)
			}},
			&entry{name: "long-cl-full", build: func(rg *rig, o *object, rng *rand.Rand) *plan {
				// more bytes on the wire than Content-Length announces: the
				// client reads exactly the object
				p := base("after-last", "long", "beyond-content-length", "get", "deliver").exp(expAny, expAny)
				p.extra, p.framing = 1+rng.IntN(200), "cl-full"
				return p
			}},
			&entry{name: "cl-larger", build: func(rg *rig, o *object, rng *rand.Rand) *plan {
				p := base("size-metadata", "bad-cl", "larger", "get", "deliver").exp(expAny, expAny)
				p.framing, p.size, p.end = "cl-plus", int64(1+rng.IntN(100)), "abort"
				return p
			}},
			&entry{name: "cl-smaller", build: func(rg *rig, o *object, rng *rand.Rand) *plan {
				p := base("size-metadata", "bad-cl", "smaller", "get", "deliver")
				p.framing, p.size = "cl-minus", int64(1+rng.IntN(3))
				if int(p.size) > len(o.stored) {
					p.size = int64(len(o.stored))
				}
				return consistentAlteration(p, o, true, false)
			}},
			&entry{name: "no-cl-close", build: func(rg *rig, o *object, rng *rand.Rand) *plan {
				p := base("size-metadata", "no-cl", "close-delimited", "get", "deliver").exp(expAny, expAny)
				p.framing = "close"
				return p
			}},
			&entry{name: "no-cl-chunked", build: func(rg *rig, o *object, rng *rand.Rand) *plan {
				p := base("size-metadata", "no-cl", "chunked", "get", "deliver").exp(expAny, expAny)
				p.framing = "chunked"
				return p
			}},
		)
	} else {
		// s3: the client library retries failed requests for seconds; let the
		// fault hit the first attempt only, and keep one persistent variant.
		es = append(es,
			&entry{name: "5xx-once", build: func(rg *rig, o *object, rng *rand.Rand) *plan {
				p := base("status", "5xx", "once", "get", "status").exp(expAny, expAny)
				p.status, p.once = []int{500, 503}[rng.IntN(2)], true
				return p
			}},
			&entry{name: "close-once", build: func(rg *rig, o *object, rng *rand.Rand) *plan {
				p := base("before-response", "close", "once", "get", "close").exp(expAny, expAny)
				p.once = true
				return p
			}},
			&entry{name: "5xx", slow: true, build: func(rg *rig, o *object, rng *rand.Rand) *plan {
				p := base("status", "5xx", "persistent", "get", "status").exp(expNoHit, expNoHit)
				p.status = 500
				return p
			}},
		)
	}
	es = append(es,
		&entry{name: "short-error", build: func(rg *rig, o *object, rng *rand.Rand) *plan {
			c := pickCutClass(o, rng)
			p := base(stageOf(c), "short-error", c+"/cl-full", "get", "deliver").exp(expAny, expAny)
			p.cut, p.framing, p.end = cutPos(o, c, rng), "cl-full", "abort"
			return p
		}},
		&entry{name: "short-clean", build: func(rg *rig, o *object, rng *rand.Rand) *plan {
			c := pickCutClass(o, rng)
			p := base(stageOf(c), "short-clean", c+"/cl-exact", "get", "deliver")
			p.cut = cutPos(o, c, rng)
			return consistentAlteration(p, o, true, false)
		}},
		&entry{name: "long", build: func(rg *rig, o *object, rng *rand.Rand) *plan {
			p := base("after-last", "long", "cl-exact", "get", "deliver")
			p.extra = []int{1, 7, 100, 5000}[rng.IntN(4)]
			return consistentAlteration(p, o, true, false)
		}},
		&entry{name: "corrupt-header", needV2: true, build: func(rg *rig, o *object, rng *rand.Rand) *plan {
			return corruptPlan(o, rng, false)
		}},
	)
	return es
}

func corruptPlan(o *object, rng *rand.Rand, sizeAlwaysKnown bool) *plan {
	c := corruptions[rng.IntN(len(corruptions))]
	p := base("header", "corrupt", c.name, "get", "deliver")
	p.corrupt = func(b []byte) []byte { return c.apply(o, b) }
	switch {
	case c.detectable:
		p.exp(expAny, expAny)
	case c.sizeLie && sizeAlwaysKnown:
		p.exp(expAny, expAny)
	case c.sizeLie:
		p.exp(expAny, expLies)
	default:
		p.exp(expLies, expLies)
	}
	return p
}

func httpLikeContains(family string) []*entry {
	es := []*entry{
		{name: "healthy", build: func(rg *rig, o *object, rng *rand.Rand) *plan { return healthyPlan("contains") }},
		{name: "404", build: func(rg *rig, o *object, rng *rand.Rand) *plan { return absentPlan("contains", false) }},
		{name: "other-size", build: func(rg *rig, o *object, rng *rand.Rand) *plan {
			p := base("size-metadata", "other-size", "", "contains", "headsize")
			p.size = o.size() + int64([]int{-1, 1, 1000}[rng.IntN(3)])
			if p.size < 0 {
				p.size = o.size() + 1
			}
			// For cas.v2 objects the stored length says nothing about the
			// logical size (DESIGN C10 limits): not judged.
			if rg.be.sizeAware(o.kind) {
				return p.exp(expNoHit, expLies)
			}
			return p.exp(expAny, expAny)
		}},
		{name: "oversize", oversize: true, build: func(rg *rig, o *object, rng *rand.Rand) *plan {
			p := base("size-metadata", "oversize", "", "contains", "healthy")
			if rg.be.sizeAware(o.kind) {
				return p.exp(expNoHit, expNoHit)
			}
			return p.exp(expAny, expAny)
		}},
	}
	if family == "http" {
		es = append(es,
			&entry{name: "5xx", build: func(rg *rig, o *object, rng *rand.Rand) *plan {
				p := base("status", "5xx", "", "contains", "status").exp(expNoHit, expNoHit)
				p.status = []int{500, 503}[rng.IntN(2)]
				return p
			}},
			&entry{name: "refuse", build: func(rg *rig, o *object, rng *rand.Rand) *plan {
				return base("connect", "refuse", "", "contains", "refuse").exp(expNoHit, expNoHit)
			}},
			&entry{name: "close", build: func(rg *rig, o *object, rng *rand.Rand) *plan {
				return base("before-response", "close", "", "contains", "close").exp(expNoHit, expNoHit)
			}},
			&entry{name: "no-size", build: func(rg *rig, o *object, rng *rand.Rand) *plan {
				p := base("size-metadata", "no-cl", "", "contains", "headsize").exp(expAny, expAny)
				p.size = -2
				return p
			}},
			&entry{name: "delay", build: func(rg *rig, o *object, rng *rand.Rand) *plan {
				p := base("before-response", "delay", "", "contains", "delay").exp(expHit, expHit)
				p.delay = time.Duration(1+rng.IntN(8)) * time.Millisecond
				return p
			}},
		)
	} else {
		es = append(es,
			&entry{name: "5xx-once", build: func(rg *rig, o *object, rng *rand.Rand) *plan {
				p := base("status", "5xx", "once", "contains", "status").exp(expAny, expAny)
				p.status, p.once = 500, true
				return p
			}},
		)
	}
	return es
}

func grpcGet() []*entry {
	return []*entry{
		{name: "healthy", build: func(rg *rig, o *object, rng *rand.Rand) *plan {
			p := base("none", "healthy", "", "get", "deliver").exp(expHit, expHit)
			p.msgSize = []int{0, 1000, 4096, 65536}[rng.IntN(4)]
			return p
		}},
		{name: "trickle", casOnly: true, build: func(rg *rig, o *object, rng *rand.Rand) *plan {
			p := base("body", "trickle", "", "get", "deliver").exp(expHit, expHit)
			p.trickle = 1 + len(o.stored)/9
			return p
		}},
		{name: "404", build: func(rg *rig, o *object, rng *rand.Rand) *plan { return absentPlan("get", false) }},
		{name: "unavailable", build: func(rg *rig, o *object, rng *rand.Rand) *plan {
			p := base("before-response", "5xx", "", "get", "status").exp(expNoHit, expNoHit)
			p.code = []codes.Code{codes.Unavailable, codes.Internal, codes.ResourceExhausted, codes.Unknown}[rng.IntN(4)]
			p.label = "before-response/5xx/" + p.code.String()
			return p
		}},
		{name: "read-error-first", casOnly: true, build: func(rg *rig, o *object, rng *rand.Rand) *plan {
			// the size lookup succeeds, the read fails before the first message
			p := base("body", "5xx", "read-before-first-message", "get", "status").exp(expNoHit, expNoHit)
			p.code = codes.Unavailable
			return p
		}},
		{name: "short-error", casOnly: true, build: func(rg *rig, o *object, rng *rand.Rand) *plan {
			c := pickCutClass(o, rng)
			p := base(stageOf(c), "short-error", c, "get", "deliver").exp(expAny, expAny)
			p.cut, p.end = cutPos(o, c, rng), "abort"
			p.code = []codes.Code{codes.Unavailable, codes.DataLoss, codes.Internal}[rng.IntN(3)]
			p.msgSize = []int{0, 100, 4096}[rng.IntN(3)]
			return p
		}},
		{name: "short-clean", casOnly: true, build: func(rg *rig, o *object, rng *rand.Rand) *plan {
			c := pickCutClass(o, rng)
			p := base(stageOf(c), "short-clean", c, "get", "deliver").exp(expAny, expAny)
			p.cut = cutPos(o, c, rng)
			p.msgSize = []int{0, 100, 4096}[rng.IntN(3)]
			return p
		}},
		{name: "long", casOnly: true, build: func(rg *rig, o *object, rng *rand.Rand) *plan {
			p := base("after-last", "long", "", "get", "deliver").exp(expAny, expAny)
			p.extra = []int{1, 7, 100, 5000}[rng.IntN(4)]
			return p
		}},
		{name: "error-after-last-byte", casOnly: true, build: func(rg *rig, o *object, rng *rand.Rand) *plan {
			// everything delivered, then the stream ends with an error status
			p := base("after-last", "short-error", "status-after-complete-data", "get", "deliver").exp(expAny, expAny)
			p.end, p.code = "abort", codes.Unavailable
			return p
		}},
		{name: "fetch-wrong-size", casOnly: true, build: func(rg *rig, o *object, rng *rand.Rand) *plan {
			// only the size-unknown path asks FetchBlob
			p := base("size-metadata", "other-size", "fetchblob", "get", "fetch").exp(expHit, expAny)
			p.size = o.size() + int64([]int{-1, 1, 1000}[rng.IntN(3)])
			if p.size <= 0 {
				p.size = o.size() + 1
			}
			return p
		}},
		{name: "fetch-wrong-digest", casOnly: true, build: func(rg *rig, o *object, rng *rand.Rand) *plan {
			p := base("size-metadata", "other-digest", "fetchblob", "get", "fetch").exp(expHit, expAny)
			p.size, p.wrongSum = o.size(), true
			return p
		}},
		{name: "corrupt-header", needV2: true, build: func(rg *rig, o *object, rng *rand.Rand) *plan {
			return corruptPlan(o, rng, true)
		}},
		{name: "oversize", oversize: true, build: func(rg *rig, o *object, rng *rand.Rand) *plan {
			return base("size-metadata", "oversize", "", "get", "healthy").exp(expNoHit, expNoHit)
		}},
	}
}

func grpcContains() []*entry {
	return []*entry{
		{name: "healthy", build: func(rg *rig, o *object, rng *rand.Rand) *plan { return healthyPlan("contains") }},
		{name: "404", build: func(rg *rig, o *object, rng *rand.Rand) *plan { return absentPlan("contains", false) }},
		{name: "unavailable", build: func(rg *rig, o *object, rng *rand.Rand) *plan {
			p := base("before-response", "5xx", "", "contains", "status").exp(expNoHit, expNoHit)
			p.code = []codes.Code{codes.Unavailable, codes.Internal, codes.DeadlineExceeded}[rng.IntN(3)]
			p.status = 503
			return p
		}},
		{name: "other-size", casOnly: true, build: func(rg *rig, o *object, rng *rand.Rand) *plan {
			p := base("size-metadata", "other-size", "", "contains", "headsize").exp(expNoHit, expLies)
			p.size = o.size() + int64([]int{-1, 1, 1000}[rng.IntN(3)])
			if p.size <= 0 {
				p.size = o.size() + 1
			}
			return p
		}},
		{name: "oversize", oversize: true, build: func(rg *rig, o *object, rng *rand.Rand) *plan {
			return base("size-metadata", "oversize", "", "contains", "healthy").exp(expNoHit, expNoHit)
		}},
		{name: "delay", build: func(rg *rig, o *object, rng *rand.Rand) *plan {
			p := base("before-response", "delay", "", "contains", "delay").exp(expHit, expHit)
			p.delay = time.Duration(1+rng.IntN(8)) * time.Millisecond
			return p
		}},
	}
}

func fakeGet() []*entry {
	return []*entry{
		{name: "healthy", build: func(rg *rig, o *object, rng *rand.Rand) *plan { return healthyPlan("get") }},
		{name: "trickle", build: func(rg *rig, o *object, rng *rand.Rand) *plan {
			p := base("body", "trickle", "", "get", "deliver").exp(expHit, expHit)
			p.trickle = 1 + len(o.stored)/5
			return p
		}},
		{name: "404", build: func(rg *rig, o *object, rng *rand.Rand) *plan { return absentPlan("get", false) }},
		{name: "5xx", build: func(rg *rig, o *object, rng *rand.Rand) *plan {
			p := base("before-response", "5xx", "", "get", "status").exp(expNoHit, expNoHit)
			p.status = 503
			return p
		}},
		{name: "short-error", build: func(rg *rig, o *object, rng *rand.Rand) *plan {
			c := pickCutClass(o, rng)
			p := base(stageOf(c), "short-error", c, "get", "deliver").exp(expAny, expAny)
			p.cut, p.end = cutPos(o, c, rng), "abort"
			return p
		}},
		{name: "short-clean", build: func(rg *rig, o *object, rng *rand.Rand) *plan {
			c := pickCutClass(o, rng)
			p := base(stageOf(c), "short-clean", c, "get", "deliver").exp(expAny, expAny)
			p.cut = cutPos(o, c, rng)
			return p
		}},
		{name: "long", build: func(rg *rig, o *object, rng *rand.Rand) *plan {
			p := base("after-last", "long", "", "get", "deliver").exp(expAny, expAny)
			p.extra = []int{1, 7, 100, 5000}[rng.IntN(4)]
			return p
		}},
		{name: "size-lie", build: func(rg *rig, o *object, rng *rand.Rand) *plan {
			p := base("size-metadata", "other-size", "", "get", "fetch").exp(expAny, expAny)
			p.size = o.size() + int64([]int{-1, 1, 1000}[rng.IntN(3)])
			if p.size <= 0 {
				p.size = o.size() + 1
			}
			return p
		}},
		{name: "size-unknown", build: func(rg *rig, o *object, rng *rand.Rand) *plan {
			// the backend streams the object but cannot state its size
			p := base("size-metadata", "no-cl", "", "get", "fetch").exp(expAny, expAny)
			p.size = -1
			return p
		}},
		{name: "corrupt-header", needV2: true, build: func(rg *rig, o *object, rng *rand.Rand) *plan {
			return corruptPlan(o, rng, true)
		}},
		{name: "oversize", oversize: true, build: func(rg *rig, o *object, rng *rand.Rand) *plan {
			return base("size-metadata", "oversize", "", "get", "healthy").exp(expNoHit, expNoHit)
		}},
	}
}

func fakeContains() []*entry {
	return []*entry{
		{name: "healthy", build: func(rg *rig, o *object, rng *rand.Rand) *plan { return healthyPlan("contains") }},
		{name: "404", build: func(rg *rig, o *object, rng *rand.Rand) *plan { return absentPlan("contains", false) }},
		{name: "5xx", build: func(rg *rig, o *object, rng *rand.Rand) *plan {
			p := base("before-response", "5xx", "", "contains", "status").exp(expNoHit, expNoHit)
			p.status = 503
			return p
		}},
		{name: "other-size", build: func(rg *rig, o *object, rng *rand.Rand) *plan {
			p := base("size-metadata", "other-size", "", "contains", "headsize").exp(expNoHit, expLies)
			p.size = o.size() + int64([]int{-1, 1, 1000}[rng.IntN(3)])
			if p.size <= 0 {
				p.size = o.size() + 1
			}
			return p
		}},
		{name: "no-size", build: func(rg *rig, o *object, rng *rand.Rand) *plan {
			p := base("size-metadata", "no-cl", "", "contains", "headsize").exp(expAny, expAny)
			p.size = -2
			return p
		}},
		{name: "oversize", oversize: true, build: func(rg *rig, o *object, rng *rand.Rand) *plan {
			return base("size-metadata", "oversize", "", "contains", "healthy").exp(expNoHit, expNoHit)
		}},
		{name: "delay", build: func(rg *rig, o *object, rng *rand.Rand) *plan {
			p := base("before-response", "delay", "", "contains", "delay").exp(expHit, expHit)
			p.delay = time.Duration(1+rng.IntN(8)) * time.Millisecond
			return p
		}},
	}
}

func azGet() []*entry {
	return []*entry{
		{name: "healthy", build: func(rg *rig, o *object, rng *rand.Rand) *plan { return healthyPlan("get") }},
		{name: "404", build: func(rg *rig, o *object, rng *rand.Rand) *plan { return absentPlan("get", false) }},
		{name: "5xx", build: func(rg *rig, o *object, rng *rand.Rand) *plan {
			p := base("status", "5xx", "", "get", "status").exp(expNoHit, expNoHit)
			p.status = 500
			return p
		}},
		{name: "short-error", build: func(rg *rig, o *object, rng *rand.Rand) *plan {
			c := pickCutClass(o, rng)
			p := base(stageOf(c), "short-error", c, "get", "deliver").exp(expAny, expAny)
			p.cut, p.framing, p.end = cutPos(o, c, rng), "cl-full", "abort"
			return p
		}},
		{name: "short-clean", build: func(rg *rig, o *object, rng *rand.Rand) *plan {
			c := pickCutClass(o, rng)
			p := base(stageOf(c), "short-clean", c, "get", "deliver")
			p.cut = cutPos(o, c, rng)
			return consistentAlteration(p, o, true, false)
		}},
		{name: "oversize", oversize: true, build: func(rg *rig, o *object, rng *rand.Rand) *plan {
			return base("size-metadata", "oversize", "", "get", "healthy").exp(expNoHit, expNoHit)
		}},
	}
}

func azContains() []*entry {
	return []*entry{
		{name: "healthy", build: func(rg *rig, o *object, rng *rand.Rand) *plan { return healthyPlan("contains") }},
		{name: "404", build: func(rg *rig, o *object, rng *rand.Rand) *plan { return absentPlan("contains", false) }},
		{name: "5xx", build: func(rg *rig, o *object, rng *rand.Rand) *plan {
			p := base("status", "5xx", "", "contains", "status").exp(expNoHit, expNoHit)
			p.status = 500
			return p
		}},
	}
}

func catalogue(family, target string) []*entry {
	var es []*entry
	switch family + "/" + target {
	case "http/get", "s3/get":
		es = httpLikeGet(family)
	case "http/contains", "s3/contains":
		es = httpLikeContains(family)
	case "grpc/get":
		es = grpcGet()
	case "grpc/contains":
		es = grpcContains()
	case "fake/get":
		es = fakeGet()
	case "fake/contains":
		es = fakeContains()
	case "azure/get":
		es = azGet()
	case "azure/contains":
		es = azContains()
	}
	for _, e := range es {
		e.target = target
	}
	return es
}

package c12

import (
	"bytes"
	"context"
	"fmt"
	"io"
	"net/http"
	"runtime/debug"
	"time"

	"verif/harness/lib"

	"github.com/buchgr/bazel-remote/v2/cache"
	pb "github.com/buchgr/bazel-remote/v2/genproto/build/bazel/remote/execution/v2"
	"google.golang.org/grpc/codes"
	"google.golang.org/protobuf/proto"
)

// outcome is what the client saw.
type outcome struct {
	class  string // hit | miss | error
	data   []byte // hit: logical bytes delivered (decoded when the transfer was compressed)
	size   int64  // size announced by the front end (-1: none)
	ar     *pb.ActionResult
	detail string
}

func (o outcome) String() string {
	return fmt.Sprintf("%s size=%d bytes=%d %s", o.class, o.size, len(o.data), o.detail)
}

// op is one client operation against a front end.
type op struct {
	name   string
	target string // get | contains : which proxy operation a local miss leads to
	kind   cache.EntryKind
	known  bool // the request states the blob size
	caches bool // a hit leaves the entry in the local cache
	deps   bool // reads an ActionResult that references the object (dependency check)
	run    func(ctx context.Context, rg *rig, s *lib.Server, o *object) outcome
}

// opWatchdog bounds one client operation; its expiry is never a verdict.
const opWatchdog = 180 * time.Second

// runOp runs one operation under its own watchdog. When the watchdog fires
// the outcome class is "watchdog" (recorded as inconclusive, judged by nobody).
func (rg *rig) runOp(p *op, s *lib.Server, o *object) (out outcome) {
	ctx, cancel := context.WithTimeout(context.Background(), opWatchdog)
	defer cancel()
	defer func() {
		// operations on the disk.Cache API run bazel-remote code on this
		// goroutine: a panic there is the server crashing
		if e := recover(); e != nil {
			stack := string(debug.Stack())
			rg.w.r.Violation(rg.key(p.name, "panic"),
				fmt.Sprintf("%s: %s panicked inside bazel-remote: %v", rg.name, p.name, e),
				map[string]any{"rig": rg.name, "op": p.name, "object": o.String(), "panic": fmt.Sprint(e), "stack": clip(stack, 3000)})
			out = outcome{class: "watchdog", size: -1, detail: "panic"}
		}
	}()
	out = p.run(ctx, rg, s, o)
	if ctx.Err() != nil {
		rg.w.r.Inconclusive(fmt.Sprintf("%s: %s did not finish within the %v watchdog", rg.name, p.name, opWatchdog))
		return outcome{class: "watchdog", size: -1, detail: "harness watchdog expired: " + out.detail}
	}
	return out
}

func errOutcome(err error) outcome {
	if lib.Code(err) == codes.NotFound {
		return outcome{class: "miss", size: -1, detail: err.Error()}
	}
	return outcome{class: "error", size: -1, detail: err.Error()}
}

func httpDo(ctx context.Context, s *lib.Server, method, url string, hdr map[string]string) (int, http.Header, []byte, int64, error) {
	req, err := http.NewRequestWithContext(ctx, method, url, nil)
	if err != nil {
		return 0, nil, nil, -1, err
	}
	for k, v := range hdr {
		req.Header.Set(k, v)
	}
	resp, err := s.HTTPClient.Do(req)
	if err != nil {
		return 0, nil, nil, -1, err
	}
	defer func() { _ = resp.Body.Close() }()
	b, err := io.ReadAll(resp.Body)
	return resp.StatusCode, resp.Header, b, resp.ContentLength, err
}

func httpOutcome(status int, body []byte, cl int64, err error) outcome {
	switch {
	case err != nil:
		return outcome{class: "error", size: -1, detail: fmt.Sprintf("status %d, transport/body error: %v", status, err)}
	case status == http.StatusOK:
		return outcome{class: "hit", data: body, size: cl}
	case status == http.StatusNotFound:
		return outcome{class: "miss", size: -1}
	default:
		d := string(body)
		if len(d) > 120 {
			d = d[:120]
		}
		return outcome{class: "error", size: -1, detail: fmt.Sprintf("status %d: %s", status, d)}
	}
}

func decodeZstd(out outcome) outcome {
	if out.class != "hit" {
		return out
	}
	d, err := lib.ZstdDecodeBoth(out.data)
	if err != nil {
		// a "successful" transfer that no standard decoder accepts
		out.detail = "undecodable zstd payload: " + err.Error()
		out.data = nil
		out.size = -3
		return out
	}
	out.data = d
	return out
}

func digestOf(o *object) *pb.Digest { return &pb.Digest{Hash: o.hash, SizeBytes: o.size()} }

var (
	opBSRead = &op{name: "bs-read", target: "get", kind: cache.CAS, known: true, caches: true,
		run: func(ctx context.Context, rg *rig, s *lib.Server, o *object) outcome {
			d, err := s.BSRead(ctx, lib.ResBlobs(o.hash, o.size()), 0, 0)
			if err != nil {
				return errOutcome(err)
			}
			return outcome{class: "hit", data: d, size: -1}
		}}
	opBSReadZstd = &op{name: "bs-read-zstd", target: "get", kind: cache.CAS, known: true, caches: true,
		run: func(ctx context.Context, rg *rig, s *lib.Server, o *object) outcome {
			d, err := s.BSRead(ctx, lib.ResZstd(o.hash, o.size()), 0, 0)
			if err != nil {
				return errOutcome(err)
			}
			return decodeZstd(outcome{class: "hit", data: d, size: -1})
		}}
	opBatchRead = &op{name: "batch-read", target: "get", kind: cache.CAS, known: true, caches: true,
		run: func(ctx context.Context, rg *rig, s *lib.Server, o *object) outcome {
			return batchRead(ctx, s, o, false)
		}}
	opBatchReadZstd = &op{name: "batch-read-zstd", target: "get", kind: cache.CAS, known: true, caches: true,
		run: func(ctx context.Context, rg *rig, s *lib.Server, o *object) outcome {
			return batchRead(ctx, s, o, true)
		}}
	opHTTPGetCAS = &op{name: "http-get-cas", target: "get", kind: cache.CAS, caches: true,
		run: func(ctx context.Context, rg *rig, s *lib.Server, o *object) outcome {
			st, _, b, cl, err := httpDo(ctx, s, "GET", s.HTTPURL+"/cas/"+o.hash, nil)
			return httpOutcome(st, b, cl, err)
		}}
	opHTTPGetCASZstd = &op{name: "http-get-cas-zstd", target: "get", kind: cache.CAS, caches: true,
		run: func(ctx context.Context, rg *rig, s *lib.Server, o *object) outcome {
			st, h, b, _, err := httpDo(ctx, s, "GET", s.HTTPURL+"/cas/"+o.hash, map[string]string{"Accept-Encoding": "zstd"})
			out := httpOutcome(st, b, -1, err)
			if out.class == "hit" && h.Get("Content-Encoding") == "zstd" {
				return decodeZstd(out)
			}
			return out
		}}
	opGRPCGetAC = &op{name: "grpc-get-ac", target: "get", kind: cache.AC, caches: true,
		run: func(ctx context.Context, rg *rig, s *lib.Server, o *object) outcome {
			ar, err := s.AC.GetActionResult(ctx, &pb.GetActionResultRequest{ActionDigest: &pb.Digest{Hash: o.hash, SizeBytes: 42}})
			if err != nil {
				return errOutcome(err)
			}
			return outcome{class: "hit", ar: ar, size: -1}
		}}
	opHTTPGetAC = &op{name: "http-get-ac", target: "get", kind: cache.AC, caches: true,
		run: func(ctx context.Context, rg *rig, s *lib.Server, o *object) outcome {
			st, _, b, cl, err := httpDo(ctx, s, "GET", s.HTTPURL+"/ac/"+o.hash, nil)
			out := httpOutcome(st, b, cl, err)
			if out.class == "hit" {
				ar := &pb.ActionResult{}
				if e := proto.Unmarshal(out.data, ar); e != nil {
					out.detail = "body is not an ActionResult: " + e.Error()
				} else {
					out.ar = ar
				}
			}
			return out
		}}
	opHTTPGetRAW = &op{name: "http-get-raw", target: "get", kind: cache.RAW, caches: true,
		run: func(ctx context.Context, rg *rig, s *lib.Server, o *object) outcome {
			st, _, b, cl, err := httpDo(ctx, s, "GET", s.RawURL+"/ac/"+o.hash, nil)
			return httpOutcome(st, b, cl, err)
		}}
	opHeadCAS = &op{name: "head-cas", target: "contains", kind: cache.CAS,
		run: func(ctx context.Context, rg *rig, s *lib.Server, o *object) outcome {
			st, _, _, cl, err := httpDo(ctx, s, "HEAD", s.HTTPURL+"/cas/"+o.hash, nil)
			out := httpOutcome(st, nil, cl, err)
			return out
		}}
	opHeadRAW = &op{name: "head-raw", target: "contains", kind: cache.RAW,
		run: func(ctx context.Context, rg *rig, s *lib.Server, o *object) outcome {
			st, _, _, cl, err := httpDo(ctx, s, "HEAD", s.RawURL+"/ac/"+o.hash, nil)
			return httpOutcome(st, nil, cl, err)
		}}
	opFindMissing = &op{name: "findmissing", target: "contains", kind: cache.CAS, known: true,
		run: func(ctx context.Context, rg *rig, s *lib.Server, o *object) outcome {
			return findMissing(ctx, rg, s, o)
		}}
	opACDepsGRPC = &op{name: "ac-deps-grpc", target: "contains", kind: cache.CAS, known: true, deps: true,
		run: func(ctx context.Context, rg *rig, s *lib.Server, o *object) outcome {
			ar, err := s.AC.GetActionResult(ctx, &pb.GetActionResultRequest{ActionDigest: &pb.Digest{Hash: o.acRef.hash, SizeBytes: 7}})
			if err != nil {
				return errOutcome(err)
			}
			return outcome{class: "hit", ar: ar, size: -1}
		}}
	opACDepsHTTP = &op{name: "ac-deps-http", target: "contains", kind: cache.CAS, known: true, deps: true,
		run: func(ctx context.Context, rg *rig, s *lib.Server, o *object) outcome {
			st, _, b, cl, err := httpDo(ctx, s, "GET", s.HTTPURL+"/ac/"+o.acRef.hash, nil)
			out := httpOutcome(st, b, cl, err)
			if out.class == "hit" {
				ar := &pb.ActionResult{}
				if e := proto.Unmarshal(out.data, ar); e != nil {
					out.detail = "body is not an ActionResult: " + e.Error()
				} else {
					out.ar = ar
				}
			}
			return out
		}}
)

// Direct use of the disk.Cache API (the front end without a server), with a
// context that is never cancelled: whatever a call leaves open stays open.
var apiCtx = context.Background()

func apiOutcome(rc io.ReadCloser, size int64, err error) outcome {
	if rc != nil {
		defer func() { _ = rc.Close() }()
	}
	if err != nil {
		return outcome{class: "error", size: -1, detail: err.Error()}
	}
	if rc == nil {
		return outcome{class: "miss", size: -1}
	}
	data, rerr := io.ReadAll(rc)
	if rerr != nil {
		return outcome{class: "error", size: -1, detail: "reading the returned stream: " + rerr.Error()}
	}
	return outcome{class: "hit", data: data, size: size}
}

var (
	opAPIGet = &op{name: "api-get", target: "get", kind: cache.CAS, known: true, caches: true,
		run: func(ctx context.Context, rg *rig, s *lib.Server, o *object) outcome {
			return apiOutcome(s.Cache.Get(apiCtx, cache.CAS, o.hash, o.size(), 0))
		}}
	opAPIGetUnknown = &op{name: "api-get-size-unknown", target: "get", kind: cache.CAS, caches: true,
		run: func(ctx context.Context, rg *rig, s *lib.Server, o *object) outcome {
			return apiOutcome(s.Cache.Get(apiCtx, cache.CAS, o.hash, -1, 0))
		}}
	opAPIGetZstd = &op{name: "api-get-zstd", target: "get", kind: cache.CAS, known: true, caches: true,
		run: func(ctx context.Context, rg *rig, s *lib.Server, o *object) outcome {
			out := apiOutcome(s.Cache.GetZstd(apiCtx, o.hash, o.size(), 0))
			sz := out.size
			out = decodeZstd(out)
			if out.size != -3 {
				out.size = sz
			}
			return out
		}}
	opAPIGetAC = &op{name: "api-get-ac", target: "get", kind: cache.AC, caches: true,
		run: func(ctx context.Context, rg *rig, s *lib.Server, o *object) outcome {
			out := apiOutcome(s.Cache.Get(apiCtx, cache.AC, o.hash, -1, 0))
			if out.class == "hit" {
				ar := &pb.ActionResult{}
				if e := proto.Unmarshal(out.data, ar); e != nil {
					out.detail = "not an ActionResult: " + e.Error()
				} else {
					out.ar = ar
				}
			}
			return out
		}}
	opAPIGetRAW = &op{name: "api-get-raw", target: "get", kind: cache.RAW, caches: true,
		run: func(ctx context.Context, rg *rig, s *lib.Server, o *object) outcome {
			return apiOutcome(s.Cache.Get(apiCtx, cache.RAW, o.hash, -1, 0))
		}}
	opAPIContains = &op{name: "api-contains", target: "contains", kind: cache.CAS, known: true,
		run: func(ctx context.Context, rg *rig, s *lib.Server, o *object) outcome {
			ok, size := s.Cache.Contains(apiCtx, cache.CAS, o.hash, o.size())
			if !ok {
				return outcome{class: "miss", size: -1}
			}
			return outcome{class: "hit", size: size}
		}}
	opAPIContainsRAW = &op{name: "api-contains-raw", target: "contains", kind: cache.RAW,
		run: func(ctx context.Context, rg *rig, s *lib.Server, o *object) outcome {
			ok, size := s.Cache.Contains(apiCtx, cache.RAW, o.hash, -1)
			if !ok {
				return outcome{class: "miss", size: -1}
			}
			return outcome{class: "hit", size: size}
		}}
)

func batchRead(ctx context.Context, s *lib.Server, o *object, zstd bool) outcome {
	req := &pb.BatchReadBlobsRequest{Digests: []*pb.Digest{digestOf(o)}}
	if zstd {
		req.AcceptableCompressors = []pb.Compressor_Value{pb.Compressor_ZSTD}
	}
	resp, err := s.CAS.BatchReadBlobs(ctx, req)
	if err != nil {
		return errOutcome(err)
	}
	if len(resp.Responses) != 1 {
		return outcome{class: "error", size: -1, detail: fmt.Sprintf("%d responses for one digest", len(resp.Responses))}
	}
	r := resp.Responses[0]
	switch codes.Code(r.GetStatus().GetCode()) {
	case codes.OK:
		out := outcome{class: "hit", data: r.Data, size: -1}
		if r.Compressor == pb.Compressor_ZSTD {
			return decodeZstd(out)
		}
		return out
	case codes.NotFound:
		return outcome{class: "miss", size: -1}
	default:
		return outcome{class: "error", size: -1, detail: r.GetStatus().String()}
	}
}

// findMissing asks for [a blob stored locally, the object, a blob nobody has]
// and reads the object's fate from the answer; the bystanders must be
// answered correctly whatever the backend does for the object.
func findMissing(ctx context.Context, rg *rig, s *lib.Server, o *object) outcome {
	absent := &pb.Digest{Hash: lib.Sha256Hex([]byte("absent:" + o.hash)), SizeBytes: 11}
	req := []*pb.Digest{rg.localDigest, digestOf(o), absent}
	miss, err := s.FindMissing(ctx, req...)
	if err != nil {
		return errOutcome(err)
	}
	var want []*pb.Digest
	objMissing := false
	for _, m := range miss {
		if m.Hash == o.hash {
			objMissing = true
		}
	}
	if objMissing {
		want = append(want, digestOf(o))
	}
	want = append(want, absent)
	ok := len(miss) == len(want)
	for i := 0; ok && i < len(want); i++ {
		ok = proto.Equal(miss[i], want[i])
	}
	if !ok {
		return outcome{class: "hit", size: -3, detail: fmt.Sprintf("FindMissingBlobs answered %v for request %v", miss, req)}
	}
	if objMissing {
		return outcome{class: "miss", size: -1}
	}
	return outcome{class: "hit", size: -1}
}

// verifyHit says whether a hit carries exactly the backend's object.
func verifyHit(p *op, o *object, out outcome, sizeAware bool) (bool, string) {
	if out.size == -3 {
		return false, out.detail
	}
	switch {
	case p.deps:
		if out.ar == nil || !proto.Equal(out.ar, o.acRef.ar) {
			return false, "the ActionResult differs from the one the backend holds"
		}
	case p.name == "findmissing":
		// presence only
	case p.target == "contains":
		if out.size >= 0 && sizeAware && out.size != o.size() {
			return false, fmt.Sprintf("announced size %d, the backend's object has %d bytes", out.size, o.size())
		}
	case p.kind == cache.AC:
		if out.ar == nil || !proto.Equal(out.ar, o.ar) {
			return false, "the ActionResult differs from the one the backend holds"
		}
	default:
		if !bytes.Equal(out.data, o.content) {
			return false, fmt.Sprintf("delivered %d bytes (sha256 %s), the backend's object has %d bytes (sha256 %s)",
				len(out.data), lib.Sha256Hex(out.data)[:12], len(o.content), lib.Sha256Hex(o.content)[:12])
		}
		if out.size >= 0 && out.size != o.size() {
			return false, fmt.Sprintf("announced size %d, the backend's object has %d bytes", out.size, o.size())
		}
	}
	return true, ""
}

func getOps(kind cache.EntryKind) []*op {
	switch kind {
	case cache.CAS:
		return []*op{opBSRead, opHTTPGetCAS, opAPIGet, opBSReadZstd, opAPIGetUnknown, opBatchRead, opHTTPGetCASZstd, opBatchReadZstd, opAPIGetZstd}
	case cache.AC:
		return []*op{opGRPCGetAC, opHTTPGetAC, opAPIGetAC}
	default:
		return []*op{opHTTPGetRAW, opAPIGetRAW}
	}
}

func containsOps(kind cache.EntryKind) []*op {
	switch kind {
	case cache.CAS:
		return []*op{opFindMissing, opHeadCAS, opACDepsGRPC, opAPIContains, opACDepsHTTP}
	case cache.RAW:
		return []*op{opHeadRAW, opAPIContainsRAW}
	}
	return nil
}

package c12

import (
	"bytes"
	"context"
	"fmt"
	"math/rand/v2"
	"time"

	"verif/harness/lib"

	"github.com/buchgr/bazel-remote/v2/cache"
	pb "github.com/buchgr/bazel-remote/v2/genproto/build/bazel/remote/execution/v2"
	"google.golang.org/protobuf/proto"
)

// Write-through sequences on ONE key: several accepted uploads of different
// values to the same AC / RAW key (and the same CAS blob several times) while
// the backend is slow with the first transfer, for every upload queue
// configuration of the rig table (1..N uploaders, short and long queues).
//
// Oracle (from the statement): once the queue has drained, every accepted
// upload was handed to the backend once - except uploads that met a full
// queue, and only those; afterwards a further accepted value, uploaded while
// nothing else is in transfer, is what a peer instance reads through the same
// backend (identical blob for CAS).
//
// What the harness knows about the queue: the sequence starts with no upload
// queued or in transfer (no blob file of the front end is open - every queued
// or travelling upload holds one), the first transfer is parked at the
// backend (so it has left the queue), and an upload whose arrival at the
// backend was seen has left the queue too. Upload j "must be handed over" iff
// (uploads sent before it) - (uploads known to have left the queue) is below
// max_queued_uploads; the others may have met a full queue and are counted.

const (
	seqGateMax    = 30 * time.Second // first transfer to reach the backend (precondition)
	seqArriveWait = 2 * time.Second  // sequencing aid only: arrival of an overlapping upload
	seqDrainMax   = 60 * time.Second // precondition of the verdict: nothing of the key queued or travelling
	seqSettle     = 15 * time.Second // persistent state: an upload that left the front end has not reached the backend
)

// The HTTP proxy asks HEAD before it uploads and skips the upload when the
// backend already holds the key. For a mutable key that means an accepted
// overwrite is never handed over; it has its own finding key.
const keyHTTPHeadSkip = "C12:httpproxy:upload:overwrite-of-existing-key-skipped-after-head"

type headCounter interface{ headHits(hash string) int }

type seqShape struct {
	name  string
	kind  cache.EntryKind
	paths []string // upload paths to alternate between
}

var seqShapes = []seqShape{
	{name: "ac-overwrite", kind: cache.AC, paths: []string{"grpc-update-ac", "http-put-ac"}},
	{name: "raw-overwrite", kind: cache.RAW, paths: []string{"http-put-raw"}},
	{name: "cas-repeat", kind: cache.CAS, paths: []string{"http-put-cas", "bs-write", "batch-update", "http-put-cas-zstd"}},
}

func uploadPathByName(n string) *uploadPath {
	for _, u := range uploadPaths {
		if u.name == n {
			return u
		}
	}
	panic("unknown upload path " + n)
}

// openUploadFiles: blob files of the front end that are open in this process
// (handles given to the proxy's Put and not closed yet).
func (rg *rig) openUploadFiles(contains string) []string {
	return cacheFDs([]string{rg.front.Dir}, contains)
}

// waitUploadsGone polls until no blob file matching `contains` is open and no
// transfer of the key is parked at the backend.
func (rg *rig) waitUploadsGone(contains, hash string, max time.Duration) bool {
	deadline := time.Now().Add(max)
	sleep := 200 * time.Microsecond
	for {
		if len(rg.openUploadFiles(contains)) == 0 && (hash == "" || rg.be.stalls().count(hash) == 0) {
			return true
		}
		if time.Now().After(deadline) {
			return false
		}
		time.Sleep(sleep)
		if sleep < 20*time.Millisecond {
			sleep *= 2
		}
	}
}

// sameEntry: does the payload the backend received carry the accepted entry?
func sameEntry(payload []byte, want *object) bool {
	if want.ar != nil {
		got := &pb.ActionResult{}
		if err := proto.Unmarshal(payload, got); err != nil {
			return false
		}
		return proto.Equal(got, want.ar)
	}
	return bytes.Equal(payload, want.content)
}

type seqVersion struct {
	Index    int    `json:"index"`
	Path     string `json:"path"`
	Value    string `json:"value"`
	Must     bool   `json:"must_be_handed_over"`
	Received int    `json:"complete_uploads_seen_by_backend"`
	want     *object
}

// received counts the complete uploads the backend saw per version.
func (rg *rig) seqReceived(hash string, kind cache.EntryKind, vs []*seqVersion) (total int) {
	for _, v := range vs {
		v.Received = 0
	}
	for _, u := range rg.be.uploads(hash) {
		if !u.stored {
			continue
		}
		total++
		if kind == cache.CAS {
			continue
		}
		for _, v := range vs {
			if sameEntry(u.payload, v.want) {
				v.Received++
				break
			}
		}
	}
	return total
}

// newVersion draws value number j for the key.
func (rg *rig) newVersion(rng *rand.Rand, first *object, j int, tag string) *object {
	if first.kind == cache.CAS {
		return first
	}
	var o *object
	if first.ar != nil {
		o = newAR(rng, first.kind, 60+rng.IntN(3000), fmt.Sprintf("%s-v%d", tag, j))
	} else {
		o = newRaw(rng, 40+rng.IntN(20000), fmt.Sprintf("%s-v%d", tag, j)) // long enough to carry its tag: no two values of a key coincide
	}
	o.hash = first.hash
	return o
}

func (rg *rig) writeSequence(shape seqShape, id string, seqNo int, rng *rand.Rand) (judged bool) {
	r := rg.w.r
	U, Q := rg.numUp, rg.maxQueue
	paths := shape.paths
	first := rg.newUploadObject(rng, uploadPathByName(paths[0]), id)
	n := 3 + rng.IntN(2)
	if U == 1 {
		n = Q + 2 + rng.IntN(2) // the queue fills up while the only uploader is busy
		if n > 7 {
			n = 6 + rng.IntN(2) // a long queue: it does not fill up
		}
	}
	hash := first.hash
	det := map[string]any{"rig": rg.name, "case": id, "shape": shape.name, "key": hash, "num_uploaders": U, "max_queued_uploads": Q}
	var history []string
	log := func(f string, a ...any) { history = append(history, fmt.Sprintf(f, a...)) }
	finish := func() map[string]any { det["history"] = history; return det }
	viol := func(key, what string, detail any) { rg.wseqBad++; r.Violation(key, what, detail) }
	rg.noteCase("write-sequence/" + shape.name)
	defer rg.be.forget(hash)
	hc, _ := rg.be.(headCounter)
	heads := func() int {
		if hc == nil {
			return 0
		}
		return hc.headHits(hash)
	}

	if !rg.waitUploadsGone("", "", seqDrainMax) {
		r.Count("wseq.not-idle-at-start")
		return false
	}
	rg.be.setUploadPlan(hash, &upPlan{label: "slow-first-transfer", act: "stall", once: true})
	defer rg.be.clearPlan(hash)
	defer rg.be.stalls().releaseAll()

	var vs []*seqVersion
	accept := func(j int, o *object) *seqVersion {
		up := uploadPathByName(paths[(j+seqNo)%len(paths)])
		ctx, cancel := context.WithTimeout(context.Background(), opWatchdog)
		err := up.do(ctx, rg, o)
		cancel()
		if err != nil {
			log("upload %d through %s rejected: %v", j, up.name, err)
			r.Count("wseq." + rg.name + ".rejected")
			return nil
		}
		// the accepted form is what the accepting instance serves
		lop, lout := rg.localRead(rg.front, o, rng)
		if lout.class == "watchdog" {
			return nil
		}
		want := o
		if lout.class != "hit" {
			viol(rg.key(up.name, "write-sequence", "local-read-failed"),
				fmt.Sprintf("%s: value %d accepted for one key through %s is not served locally afterwards (%s: %s)", rg.name, j, up.name, lop.name, lout), finish())
			return nil
		}
		if o.kind == cache.AC && lout.ar != nil {
			want = &object{kind: o.kind, hash: o.hash, content: marshalAR(lout.ar), ar: lout.ar}
			if lout.ar.GetExitCode() != o.ar.GetExitCode() {
				// read-your-writes of the front end itself is another property's business
				r.Count("wseq.local-read-not-the-accepted-value(not-judged-here)")
				return nil
			}
		} else if ok, why := verifyHit(lop, o, lout, true); !ok {
			viol(rg.key(up.name, "write-sequence", "local-read-wrong"),
				fmt.Sprintf("%s: value %d accepted through %s reads back wrong locally: %s", rg.name, j, up.name, why), finish())
			return nil
		}
		v := &seqVersion{Index: j, Path: up.name, Value: fmt.Sprintf("%d bytes sha256 %s", len(want.content), lib.Sha256Hex(want.content)[:12]), want: want}
		vs = append(vs, v)
		r.Eval()
		r.Count("wseq.accepted")
		return v
	}

	// 1. the first value; its transfer is parked at the backend
	v1 := accept(1, first)
	if v1 == nil {
		return false
	}
	v1.Must = true // nothing was queued or travelling, and the queue has room for at least one
	if !rg.be.stalls().waitFor(hash, func(k int) bool { return k > 0 }, seqGateMax) {
		r.Count("wseq.first-transfer-not-seen")
		log("the backend never saw the first transfer")
		return false
	}
	log("upload 1 (%s) accepted; its transfer is parked at the backend", v1.Path)
	heads0 := heads()

	// 2. further values while the first one is still being transferred
	left := 1 // uploads known to have left the queue: the parked one, those the backend recorded, those it answered "I have that key" to
	for j := 2; j <= n; j++ {
		o := rg.newVersion(rng, first, j, id)
		occupied := (j - 1) - left
		v := accept(j, o)
		if v == nil {
			return false
		}
		v.Must = occupied < Q
		if j == 2 {
			r.Count("wseq.overlap(second-upload-while-first-in-transfer)")
		}
		if U > 1 && v.Must && shape.kind != cache.CAS {
			// sequencing aid: with idle uploaders around, this one normally
			// travels at once; seeing it arrive tells us it left the queue
			deadline := time.Now().Add(seqArriveWait)
			for {
				if l := 1 + rg.seqReceived(hash, shape.kind, vs) + heads() - heads0; l > left {
					left = l
					break
				}
				if time.Now().After(deadline) {
					break
				}
				time.Sleep(500 * time.Microsecond)
			}
		}
		log("upload %d (%s) accepted while upload 1 is in transfer; known queue occupancy before it %d of %d -> must be handed over: %v", j, v.Path, occupied, Q, v.Must)
	}

	// 3. the backend resumes; everything of the key leaves the front end
	rg.be.stalls().releaseAll()
	if !rg.waitUploadsGone(hash, hash, seqDrainMax) {
		r.Inconclusive(fmt.Sprintf("%s: uploads of one key still queued or in transfer %v after the backend resumed", rg.name, seqDrainMax))
		return false
	}
	// Every upload that left the queue was either recorded by the backend or
	// (HTTP proxy) answered "I have that key" on the HEAD that precedes the
	// transfer. unexplained = accepted uploads that are neither, beyond those
	// that may have met a full queue.
	missing := func() (must, unexplained int) {
		total := rg.seqReceived(hash, shape.kind, vs)
		if shape.kind == cache.CAS {
			if total == 0 {
				return 1, 1
			}
			return 0, 0
		}
		any, mayDrop := 0, 0
		for _, v := range vs {
			if !v.Must {
				mayDrop++
			}
			if v.Received == 0 {
				any++
				if v.Must {
					must++
				}
			}
		}
		return must, any - (heads() - heads0) - mayDrop
	}
	deadline := time.Now().Add(seqSettle)
	for time.Now().Before(deadline) {
		m, u := missing()
		if m == 0 || u <= 0 {
			break
		}
		time.Sleep(2 * time.Millisecond)
	}
	mustMissing, unexplained := missing()
	skipped := heads() - heads0
	det["versions"] = vs
	det["backend_head_exists_answers"] = skipped
	r.Eval()
	r.Count("wseq.sequence-judged")
	r.Count(fmt.Sprintf("wseq.%s/%s.judged", rg.name, shape.name))
	r.Distinct(rg.name, "write-sequence", shape.name, n)
	judged = true
	total := rg.seqReceived(hash, shape.kind, vs)
	log("backend resumed and the queue drained: backend holds %d complete uploads of the key", total)

	switch {
	case shape.kind == cache.CAS:
		if total < 1 {
			viol(rg.key("write-sequence", shape.name, "accepted-upload-never-handed-to-backend"),
				fmt.Sprintf("%s: a CAS blob accepted %d times (first transfer slow) was never handed to the backend although the queue had room", rg.name, len(vs)), finish())
			return
		}
		if total > len(vs) {
			viol(rg.key("write-sequence", shape.name, "uploaded-more-than-once"),
				fmt.Sprintf("%s: the backend received %d complete uploads of a CAS blob that was accepted %d times", rg.name, total, len(vs)), finish())
			return
		}
		r.Count("wseq.cas-handed(1..accepted)")
	default:
		for _, v := range vs {
			switch {
			case v.Received == 1:
				r.Count("wseq.handed-once")
			case v.Received > 1:
				viol(rg.key("write-sequence", shape.name, "uploaded-more-than-once"),
					fmt.Sprintf("%s: the backend received %d complete uploads of value %d of a key, which was accepted once", rg.name, v.Received, v.Index), finish())
			case v.Must:
				// reported below
			case U == 1:
				r.Count("wseq.dropped(queue-provably-full)")
			default:
				r.Count("wseq.dropped(queue-possibly-full)")
			}
		}
		if mustMissing > 0 {
			var idx []int
			for _, v := range vs {
				if v.Must && v.Received == 0 {
					idx = append(idx, v.Index)
				}
			}
			if unexplained <= 0 {
				r.Violation(keyHTTPHeadSkip,
					fmt.Sprintf("%s: value(s) %v accepted for a mutable %s key were never handed to the backend: the HTTP proxy asked HEAD first, the backend already held an earlier value, and the upload was skipped (%d such HEAD answers) - the backend keeps the superseded value", rg.name, idx, shape.kind, skipped), finish())
			} else {
				viol(rg.key("write-sequence", shape.name, "accepted-upload-never-handed-to-backend"),
					fmt.Sprintf("%s: value(s) %v accepted for one %s key while the first value was still being transferred were never handed to the backend, although the upload queue (max_queued_uploads %d, %d uploaders) had room for them; the queue has drained and no upload is in transfer",
						rg.name, idx, shape.kind, Q, U), finish())
			}
			return
		}
		r.Count("wseq.every-must-upload-handed")
		if U == 1 {
			// one uploader: transfers happen one after the other in the order of
			// acceptance, so the backend ends up with the last one it received
			last := vs[0]
			for _, v := range vs {
				if v.Received > 0 {
					last = v
				}
			}
			held, ok := rg.be.holds(last.want)
			r.Eval()
			if !ok || !sameEntry(held, last.want) {
				viol(rg.key("write-sequence", shape.name, "backend-left-with-superseded-value"),
					fmt.Sprintf("%s: with a single uploader the backend received values in order, the last one being value %d, but it ends up holding another one", rg.name, last.Index), finish())
				return
			}
			r.Count("wseq.single-uploader.backend-holds-last-received")
		}
	}

	// 4. one more value while nothing is queued or in transfer: a peer reading
	// through the same backend gets exactly that one.
	vlast := rg.newVersion(rng, first, n+1, id)
	headsL := heads()
	vl := accept(n+1, vlast)
	if vl == nil {
		return
	}
	vl.Must = true
	arrived := func() bool {
		rg.seqReceived(hash, shape.kind, vs)
		if shape.kind == cache.CAS {
			return true
		}
		return vl.Received > 0
	}
	deadline = time.Now().Add(seqDrainMax)
	for !arrived() && time.Now().Before(deadline) {
		if len(rg.openUploadFiles(hash)) == 0 && heads() > headsL {
			break // left the front end after the backend said "I have that key"
		}
		if len(rg.openUploadFiles(hash)) == 0 && time.Until(deadline) > seqSettle {
			deadline = time.Now().Add(seqSettle) // it left the front end: persistent-state settle period
		}
		time.Sleep(time.Millisecond)
	}
	r.Eval()
	if !arrived() {
		if heads() > headsL {
			r.Violation(keyHTTPHeadSkip,
				fmt.Sprintf("%s: a new value accepted for a mutable %s key (nothing else queued or in transfer) was never handed to the backend: the HTTP proxy asked HEAD first, the backend already held an earlier value, and the upload was skipped - peers keep reading the superseded value", rg.name, shape.kind), finish())
		} else {
			viol(rg.key("write-sequence", shape.name, "accepted-upload-never-handed-to-backend"),
				fmt.Sprintf("%s: a new value accepted for a %s key while nothing was queued or in transfer was never handed to the backend", rg.name, shape.kind), finish())
		}
		return
	}
	if !rg.waitUploadsGone(hash, hash, seqDrainMax) {
		r.Inconclusive(rg.name + ": the last upload of a write sequence does not leave the front end")
		return
	}
	peer, err := rg.peerServer()
	if err != nil {
		r.Inconclusive(rg.name + ": cannot start the peer instance: " + err.Error())
		return
	}
	pop, pout := rg.localRead(peer, vl.want, rng)
	log("peer %s -> %s", pop.name, pout)
	r.Eval()
	r.Count("wseq.peer." + rg.family + "/" + pop.name + "." + pout.class)
	switch {
	case pout.class == "watchdog":
	case pout.class != "hit":
		viol(rg.key("write-sequence", shape.name, "peer-cannot-read"),
			fmt.Sprintf("%s: after a sequence of accepted uploads to one %s key a peer instance (same storage mode, same backend, empty cache) cannot read the key: %s -> %s", rg.name, shape.kind, pop.name, pout), finish())
	default:
		if ok, why := verifyHit(pop, vl.want, pout, true); !ok {
			viol(rg.key("write-sequence", shape.name, "peer-reads-superseded-value"),
				fmt.Sprintf("%s: after a sequence of accepted uploads to one %s key a peer instance does not read the latest accepted value (handed to the backend last, with nothing else in transfer): %s", rg.name, shape.kind, why), finish())
		} else {
			r.Count("wseq.peer-reads-latest")
		}
	}
	rg.checkPanics("write-sequence", shape.name, det)
	r.Sample(map[string]any{"rig": rg.name, "write_sequence": shape.name, "versions": vs, "history": history})
	return
}

func (rg *rig) runWriteSequences(n, half int) {
	if n <= 0 || rg.family == "fake" {
		return
	}
	r := rg.w.r
	if rg.maxQueue <= 0 || rg.numUp <= 0 {
		r.Count("wseq.skipped(uploads-disabled)")
		return
	}
	rng := r.Rng(fmt.Sprintf("wseq/%s/%d", rg.name, half))
	judged, bad0 := 0, rg.wseqBad
	for i := 0; i < n; i++ {
		shape := seqShapes[i%len(seqShapes)]
		if rg.writeSequence(shape, fmt.Sprintf("%s-h%d-ws%d", rg.name, half, i), i+half, rng) {
			judged++
		}
		if rg.wseqBad > bad0+2 {
			break // the rig's findings are on record; do not sit through more settle periods
		}
	}
	if judged == 0 {
		r.Inconclusive(rg.name + ": no write sequence on one key could be run to a verdict")
	}
}

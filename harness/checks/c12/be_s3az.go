package c12

import (
	"bytes"
	"context"
	"fmt"
	"io"
	"net"
	"net/http"
	"regexp"
	"strconv"
	"strings"
	"sync"
	"time"

	"verif/harness/lib"

	"github.com/buchgr/bazel-remote/v2/cache"
	"github.com/buchgr/bazel-remote/v2/cache/azblobproxy"
	"github.com/buchgr/bazel-remote/v2/cache/s3proxy"
	"github.com/johannesboyne/gofakes3"
	"github.com/johannesboyne/gofakes3/backend/s3mem"
	"github.com/minio/minio-go/v7"
	"github.com/minio/minio-go/v7/pkg/credentials"
)

// ---------------------------------------------------------------------------
// S3: gofakes3 (in-memory, from the module cache) behind a fault-plan handler.

type s3Backend struct {
	mode   string
	v2     bool
	bucket string
	mem    *s3mem.Backend
	faker  http.Handler
	srv    *http.Server
	addr   string

	mu      sync.Mutex
	plans   map[string]*plan
	upPlans map[string]*upPlan
	counts  map[string]int
	putRecs map[string][]upload

	rawServer
	px  cache.Proxy
	nUp int
}

var reObjKey = regexp.MustCompile(`/(cas\.v2|cas|ac|raw)/[0-9a-f]{2}/([0-9a-f]{64})$`)

func newS3Backend(mode string, numUploaders, maxQueued int) (*s3Backend, error) {
	b := &s3Backend{mode: mode, v2: mode == "zstd", bucket: "verif-bucket", plans: map[string]*plan{},
		upPlans: map[string]*upPlan{}, counts: map[string]int{}, putRecs: map[string][]upload{}}
	b.st = newStallTracker()
	b.mem = s3mem.New()
	if err := b.mem.CreateBucket(b.bucket); err != nil {
		return nil, err
	}
	b.faker = gofakes3.New(b.mem, gofakes3.WithLogger(gofakes3.DiscardLog())).Server()
	ln, err := net.Listen("tcp", "127.0.0.1:0")
	if err != nil {
		return nil, err
	}
	b.addr = ln.Addr().String()
	b.srv = &http.Server{Handler: http.HandlerFunc(b.serve), ErrorLog: lib.DiscardLogger, ConnState: b.connState}
	go func() { _ = b.srv.Serve(ln) }()
	b.px = b.mkProxy(numUploaders, maxQueued)
	return b, nil
}

func (b *s3Backend) mkProxy(numUploaders, maxQueued int) cache.Proxy {
	b.mu.Lock()
	if maxQueued > 0 {
		b.nUp += numUploaders
	}
	b.mu.Unlock()
	return s3proxy.New(b.addr, b.bucket, minio.BucketLookupPath, "",
		credentials.NewStaticV4("verif-access", "verif-secret", ""), true, false, "us-east-1", 1,
		b.mode, lib.DiscardLogger, lib.DiscardLogger, numUploaders, maxQueued)
}

func (b *s3Backend) kindName() string          { return "s3" }
func (b *s3Backend) proxy() cache.Proxy        { return b.px }
func (b *s3Backend) newPeerProxy() cache.Proxy { return b.mkProxy(2, 64) }
func (b *s3Backend) uploaders() int            { b.mu.Lock(); defer b.mu.Unlock(); return b.nUp }
func (b *s3Backend) sizeAware(kind cache.EntryKind) bool {
	return !(kind == cache.CAS && b.v2)
}
func (b *s3Backend) openConns() int        { return int(b.open.Load()) }
func (b *s3Backend) connSlack() int        { return 2 } // each s3proxy keeps up to one idle connection we cannot close
func (b *s3Backend) stalls() *stallTracker { return b.st }
func (b *s3Backend) closeIdle()            {}
func (b *s3Backend) reqCount(hash string) int {
	b.mu.Lock()
	defer b.mu.Unlock()
	return b.counts[hash]
}

func (b *s3Backend) key(kind cache.EntryKind, hash string) string {
	if kind == cache.CAS && b.v2 {
		return "cas.v2/" + hash[:2] + "/" + hash
	}
	return kind.String() + "/" + hash[:2] + "/" + hash
}

func (b *s3Backend) put(o *object) {
	_, _ = b.mem.PutObject(b.bucket, b.key(o.kind, o.hash), map[string]string{"Last-Modified": time.Now().UTC().Format(http.TimeFormat)},
		bytes.NewReader(o.stored), int64(len(o.stored)))
}

func (b *s3Backend) remove(o *object) { _, _ = b.mem.DeleteObject(b.bucket, b.key(o.kind, o.hash)) }

func (b *s3Backend) forget(hash string) {
	for _, k := range []cache.EntryKind{cache.CAS, cache.AC, cache.RAW} {
		_, _ = b.mem.DeleteObject(b.bucket, b.key(k, hash))
	}
	b.mu.Lock()
	delete(b.putRecs, hash)
	delete(b.plans, hash)
	delete(b.upPlans, hash)
	b.mu.Unlock()
}

func (b *s3Backend) holds(o *object) ([]byte, bool) {
	return b.fetch(b.key(o.kind, o.hash))
}

func (b *s3Backend) fetch(key string) ([]byte, bool) {
	obj, err := b.mem.GetObject(b.bucket, key, nil)
	if err != nil || obj == nil {
		return nil, false
	}
	defer func() { _ = obj.Contents.Close() }()
	d, _ := io.ReadAll(obj.Contents)
	return d, true
}

func (b *s3Backend) setPlan(o *object, p *plan) { b.mu.Lock(); b.plans[o.hash] = p; b.mu.Unlock() }
func (b *s3Backend) setUploadPlan(h string, p *upPlan) {
	b.mu.Lock()
	b.upPlans[h] = p
	b.mu.Unlock()
}
func (b *s3Backend) clearPlan(hash string) {
	b.mu.Lock()
	delete(b.plans, hash)
	delete(b.upPlans, hash)
	b.mu.Unlock()
}

func (b *s3Backend) uploads(hash string) []upload {
	b.mu.Lock()
	defer b.mu.Unlock()
	return append([]upload(nil), b.putRecs[hash]...)
}

func (b *s3Backend) close() {
	b.st.releaseAll()
	_ = b.srv.Close()
}

func s3Error(w http.ResponseWriter, status int, head bool) {
	code := "InternalError"
	switch status {
	case http.StatusNotFound:
		code = "NoSuchKey"
	case http.StatusServiceUnavailable:
		code = "SlowDown"
	}
	body := fmt.Sprintf(`<?xml version="1.0" encoding="UTF-8"?><Error><Code>%s</Code><Message>injected</Message><RequestId>verif</RequestId></Error>`, code)
	w.Header().Set("Content-Type", "application/xml")
	w.Header().Set("Content-Length", strconv.Itoa(len(body)))
	w.WriteHeader(status)
	if !head {
		_, _ = io.WriteString(w, body)
	}
}

func (b *s3Backend) serve(w http.ResponseWriter, req *http.Request) {
	m := reObjKey.FindStringSubmatch(req.URL.Path)
	if m == nil {
		b.faker.ServeHTTP(w, req)
		return
	}
	hash := m[2]
	key := strings.TrimPrefix(req.URL.Path, "/"+b.bucket+"/")
	b.mu.Lock()
	b.counts[hash]++
	p := b.plans[hash]
	up := b.upPlans[hash]
	if p != nil && p.once && (req.Method == http.MethodGet && p.target == "get" || req.Method == http.MethodHead && p.target == "contains") {
		delete(b.plans, hash)
	}
	if up != nil && up.once && req.Method == http.MethodPut {
		delete(b.upPlans, hash)
	}
	b.mu.Unlock()
	head := req.Method == http.MethodHead
	switch req.Method {
	case http.MethodGet, http.MethodHead:
		if p != nil && (head && p.target != "contains" || !head && p.target != "get") {
			p = nil
		}
		var obj []byte
		var ok bool
		if p != nil && p.act == "deliver" {
			obj, ok = b.fetch(key)
		}
		b.servePlanned(w, req, hash, obj, ok, p,
			func() { b.faker.ServeHTTP(w, req) },
			func(status int, big bool) {
				if status == http.StatusNotFound {
					b.faker.ServeHTTP(w, req) // the object is gone: gofakes3's own NoSuchKey answer
					return
				}
				s3Error(w, status, head)
			})
	case http.MethodPut:
		rec := upload{kind: prefixKind(m[1]), hash: hash, name: key, declared: req.ContentLength}
		act := ""
		if up != nil {
			act = up.act
		}
		switch act {
		case "status-early", "status-late":
			b.addPut(hash, rec)
			s3Error(w, http.StatusInternalServerError, false)
			return
		case "close-mid":
			b.addPut(hash, rec)
			b.hijackClose(w)
			return
		case "stall":
			b.st.wait(hash, req.Context().Done())
		}
		b.faker.ServeHTTP(w, req)
		if d, ok := b.fetch(key); ok {
			rec.stored = true
			rec.payload = d
		}
		b.addPut(hash, rec)
	default:
		b.faker.ServeHTTP(w, req)
	}
}

func (b *s3Backend) addPut(hash string, rec upload) {
	b.mu.Lock()
	b.putRecs[hash] = append(b.putRecs[hash], rec)
	b.mu.Unlock()
}

// ---------------------------------------------------------------------------
// Azure: the real azblobproxy with an injected transport (basic faults only).

type azBackend struct {
	mode string
	v2   bool

	mu      sync.Mutex
	objects map[string][]byte // "<prefix>/<hash>"
	plans   map[string]*plan
	upPlans map[string]*upPlan
	counts  map[string]int
	putRecs map[string][]upload
	readers int // response bodies handed out and not yet closed
	st      *stallTracker
	px      cache.Proxy
	nUp     int
}

func newAzBackend(mode string, numUploaders, maxQueued int) (*azBackend, error) {
	b := &azBackend{mode: mode, v2: mode == "zstd", objects: map[string][]byte{}, plans: map[string]*plan{},
		upPlans: map[string]*upPlan{}, counts: map[string]int{}, putRecs: map[string][]upload{}, st: newStallTracker()}
	px, err := b.mkProxy(numUploaders, maxQueued)
	if err != nil {
		return nil, err
	}
	b.px = px
	return b, nil
}

func (b *azBackend) mkProxy(numUploaders, maxQueued int) (cache.Proxy, error) {
	b.mu.Lock()
	if maxQueued > 0 {
		b.nUp += numUploaders
	}
	b.mu.Unlock()
	return azblobproxy.VerifNew(b, "verifacct", "verifcontainer", "", false, b.mode, lib.DiscardLogger, lib.DiscardLogger, numUploaders, maxQueued)
}

func (b *azBackend) kindName() string   { return "azure" }
func (b *azBackend) proxy() cache.Proxy { return b.px }
func (b *azBackend) newPeerProxy() cache.Proxy {
	p, err := b.mkProxy(2, 64)
	if err != nil {
		panic(err)
	}
	return p
}
func (b *azBackend) uploaders() int { b.mu.Lock(); defer b.mu.Unlock(); return b.nUp }
func (b *azBackend) sizeAware(kind cache.EntryKind) bool {
	return !(kind == cache.CAS && b.v2)
}
func (b *azBackend) openConns() int        { b.mu.Lock(); defer b.mu.Unlock(); return b.readers }
func (b *azBackend) connSlack() int        { return 0 }
func (b *azBackend) stalls() *stallTracker { return b.st }
func (b *azBackend) closeIdle()            {}
func (b *azBackend) close()                { b.st.releaseAll() }
func (b *azBackend) reqCount(hash string) int {
	b.mu.Lock()
	defer b.mu.Unlock()
	return b.counts[hash]
}
func (b *azBackend) prefixFor(kind cache.EntryKind) string {
	if kind == cache.CAS && b.v2 {
		return "cas.v2"
	}
	return kind.String()
}
func (b *azBackend) put(o *object) {
	b.mu.Lock()
	b.objects[b.prefixFor(o.kind)+"/"+o.hash] = o.stored
	b.mu.Unlock()
}
func (b *azBackend) remove(o *object) {
	b.mu.Lock()
	delete(b.objects, b.prefixFor(o.kind)+"/"+o.hash)
	b.mu.Unlock()
}
func (b *azBackend) forget(hash string) {
	b.mu.Lock()
	for _, pre := range []string{"cas.v2", "cas", "ac", "raw"} {
		delete(b.objects, pre+"/"+hash)
	}
	delete(b.putRecs, hash)
	delete(b.plans, hash)
	delete(b.upPlans, hash)
	b.mu.Unlock()
}

func (b *azBackend) holds(o *object) ([]byte, bool) {
	b.mu.Lock()
	defer b.mu.Unlock()
	d, ok := b.objects[b.prefixFor(o.kind)+"/"+o.hash]
	return d, ok
}
func (b *azBackend) setPlan(o *object, p *plan) { b.mu.Lock(); b.plans[o.hash] = p; b.mu.Unlock() }
func (b *azBackend) setUploadPlan(h string, p *upPlan) {
	b.mu.Lock()
	b.upPlans[h] = p
	b.mu.Unlock()
}
func (b *azBackend) clearPlan(hash string) {
	b.mu.Lock()
	delete(b.plans, hash)
	delete(b.upPlans, hash)
	b.mu.Unlock()
}
func (b *azBackend) uploads(hash string) []upload {
	b.mu.Lock()
	defer b.mu.Unlock()
	return append([]upload(nil), b.putRecs[hash]...)
}

type azBody struct {
	b      *azBackend
	r      *bytes.Reader
	failAt bool // end with an error instead of EOF
	closed bool
	// stall: after the data, park until the request's context ends (the
	// client gave up) or the harness releases the backend
	stall bool
	ctx   context.Context
	hash  string
	piece int
}

func (a *azBody) Read(p []byte) (int, error) {
	if a.piece > 0 && len(p) > a.piece {
		p = p[:a.piece]
	}
	n, err := a.r.Read(p)
	if err == io.EOF && a.stall {
		if n > 0 {
			return n, nil
		}
		a.b.st.wait(a.hash, a.ctx.Done())
		err = a.ctx.Err()
		if err == nil {
			err = io.ErrUnexpectedEOF
		}
	}
	if err == io.EOF && a.failAt {
		err = io.ErrUnexpectedEOF
	}
	if err != nil {
		// like a net/http response body: reading to the end (or into an
		// error) releases the connection even without Close
		a.release()
	}
	return n, err
}

func (a *azBody) release() {
	a.b.mu.Lock()
	if !a.closed {
		a.closed = true
		a.b.readers--
	}
	a.b.mu.Unlock()
}

func (a *azBody) Close() error {
	a.release()
	return nil
}

// rawHeader finds a header whatever the case of its key (the Azure SDK sets
// keys in lower case, bypassing canonicalisation).
func rawHeader(req *http.Request, name string) string {
	for k, v := range req.Header {
		if strings.EqualFold(k, name) && len(v) > 0 {
			return v[0]
		}
	}
	return ""
}

// Do implements policy.Transporter.
func (b *azBackend) Do(req *http.Request) (*http.Response, error) {
	resp := &http.Response{Proto: "HTTP/1.1", ProtoMajor: 1, ProtoMinor: 1, Header: http.Header{}, Request: req, Body: http.NoBody}
	resp.Header.Set("x-ms-request-id", "verif")
	set := func(code int, text string) { resp.StatusCode, resp.Status = code, fmt.Sprintf("%d %s", code, text) }
	m := reObjKey.FindStringSubmatch(req.URL.Path)
	if m == nil {
		set(400, "Bad Request")
		return resp, nil
	}
	prefix, hash := m[1], m[2]
	b.mu.Lock()
	b.counts[hash]++
	p := b.plans[hash]
	up := b.upPlans[hash]
	obj, ok := b.objects[prefix+"/"+hash]
	b.mu.Unlock()
	notFound := func() {
		set(404, "The specified blob does not exist.")
		resp.Header.Set("x-ms-error-code", "BlobNotFound")
	}
	switch req.Method {
	case http.MethodPut:
		var body []byte
		if req.Body != nil {
			body, _ = io.ReadAll(req.Body)
			_ = req.Body.Close()
		}
		if req.URL.Query().Get("comp") != "" {
			set(200, "OK")
			return resp, nil
		}
		rec := upload{kind: prefixKind(prefix), hash: hash, name: req.URL.Path, payload: body, declared: req.ContentLength}
		if up != nil && up.once {
			b.mu.Lock()
			delete(b.upPlans, hash)
			b.mu.Unlock()
		}
		if up != nil && up.act == "stall" {
			// a slow backend: the transfer is parked until the harness resumes it
			b.st.wait(hash, req.Context().Done())
			if err := req.Context().Err(); err != nil {
				return nil, err
			}
			up = nil
		}
		if up != nil {
			b.mu.Lock()
			b.putRecs[hash] = append(b.putRecs[hash], rec)
			b.mu.Unlock()
			set(500, "Internal Server Error")
			resp.Header.Set("x-ms-error-code", "InternalError")
			return resp, nil
		}
		rec.stored = true
		b.mu.Lock()
		b.objects[prefix+"/"+hash] = body
		b.putRecs[hash] = append(b.putRecs[hash], rec)
		b.mu.Unlock()
		set(201, "Created")
		resp.Header.Set("ETag", `"0x1"`)
		resp.Header.Set("Last-Modified", time.Now().UTC().Format(http.TimeFormat))
	case http.MethodGet, http.MethodHead:
		head := req.Method == http.MethodHead
		if p != nil && (head && p.target != "contains" || !head && p.target != "get") {
			p = nil
		}
		data := obj
		failAt := false
		stall := false
		piece := 0
		cl := -1
		if err := req.Context().Err(); err != nil {
			return nil, err
		}
		if p != nil {
			switch p.act {
			case "absent":
				notFound()
				return resp, nil
			case "status":
				set(p.status, "Injected")
				resp.Header.Set("x-ms-error-code", "InternalError")
				return resp, nil
			case "stall":
				b.st.wait(hash, req.Context().Done())
				if err := req.Context().Err(); err != nil {
					return nil, err
				}
				set(503, "Injected")
				resp.Header.Set("x-ms-error-code", "ServerBusy")
				return resp, nil
			case "headsize":
				if ok && p.size >= 0 {
					cl = int(p.size)
				}
			case "deliver":
				if ok {
					if p.corrupt != nil {
						data = p.corrupt(append([]byte(nil), data...))
					}
					if p.cut >= 0 && p.cut < len(data) {
						data = data[:p.cut]
					}
					if p.extra > 0 {
						data = append(append([]byte(nil), data...), garbage(p.extra)...)
					}
					if p.framing == "cl-full" {
						cl = len(obj)
						failAt = p.end != "stall"
					}
					stall = p.end == "stall"
					piece = p.trickle
				}
			}
		}
		if !ok {
			notFound()
			return resp, nil
		}
		// A ranged retry (the SDK's RetryReader) gets the rest of what we
		// are willing to deliver.
		if rng := rawHeader(req, "x-ms-range"); rng != "" || req.Header.Get("Range") != "" {
			if rng == "" {
				rng = req.Header.Get("Range")
			}
			var from int
			if _, err := fmt.Sscanf(rng, "bytes=%d-", &from); err == nil && from <= len(data) {
				data = data[from:]
				if cl >= 0 {
					cl -= from
				}
				set(206, "Partial Content")
			}
		}
		if resp.StatusCode == 0 {
			set(200, "OK")
		}
		if cl < 0 {
			cl = len(data)
		}
		resp.Header.Set("Content-Length", strconv.Itoa(cl))
		resp.Header.Set("Content-Type", "application/octet-stream")
		resp.Header.Set("ETag", `"0x1"`)
		resp.Header.Set("Last-Modified", time.Now().UTC().Format(http.TimeFormat))
		resp.Header.Set("x-ms-blob-type", "BlockBlob")
		resp.ContentLength = int64(cl)
		if !head {
			b.mu.Lock()
			b.readers++
			b.mu.Unlock()
			body := &azBody{b: b, r: bytes.NewReader(data), failAt: failAt, stall: stall, ctx: req.Context(), hash: hash, piece: piece}
			// like net/http: when the request's context ends, the transport
			// gives up the connection of a response that is still open
			context.AfterFunc(req.Context(), body.release)
			resp.Body = body
		}
	default:
		set(405, "Method Not Allowed")
	}
	return resp, nil
}

package c12

import (
	"fmt"
	"math/rand/v2"
	"strings"
	"time"

	"verif/harness/lib"

	"github.com/buchgr/bazel-remote/v2/cache"
)

// caseSpec is the shape of one read-fault case: which catalogue row on which
// operation for which kind of entry. Keys, contents and byte positions are
// drawn fresh each time the spec is run.
type caseSpec struct {
	e    *entry
	op   *op
	kind cache.EntryKind
}

func (c caseSpec) label() string { return c.op.name + "/" + c.e.name }

// readSpecs enumerates the rig's (fault, operation) pairs: every catalogue
// row in every round, rotating through the operations so that `rounds`
// >= number of operations covers the whole cross product.
func (rg *rig) readSpecs(rounds int, slowBudget int) []caseSpec {
	var specs []caseSpec
	kindsFor := func(e *entry, target string) []cache.EntryKind {
		var ks []cache.EntryKind
		for _, k := range []cache.EntryKind{cache.CAS, cache.AC, cache.RAW} {
			if !e.applies(rg, k) {
				continue
			}
			if target == "contains" && k == cache.AC {
				continue // validated AC lookups are reads, not existence checks
			}
			ks = append(ks, k)
		}
		return ks
	}
	slow := 0
	for round := 0; round < rounds; round++ {
		for _, target := range []string{"get", "contains"} {
			for i, e := range catalogue(rg.family, target) {
				ks := kindsFor(e, target)
				if len(ks) == 0 {
					continue
				}
				if e.slow {
					if slow >= slowBudget {
						continue
					}
					slow++
				}
				// CAS twice as often as the other key spaces
				k := ks[0]
				if len(ks) > 1 && (round+i)%4 >= 2 {
					k = ks[1+((round+i)/4)%(len(ks)-1)]
				}
				var ops []*op
				if target == "get" {
					ops = getOps(k)
				} else {
					ops = containsOps(k)
				}
				if len(ops) == 0 {
					continue
				}
				specs = append(specs, caseSpec{e: e, op: ops[(i+round)%len(ops)], kind: k})
			}
		}
	}
	return specs
}

type readDetail struct {
	Rig     string   `json:"rig"`
	Case    string   `json:"case"`
	Op      string   `json:"op"`
	Plan    string   `json:"plan"`
	Object  string   `json:"object"`
	Expect  string   `json:"expect"`
	History []string `json:"history"`
}

// makeObject draws the entry a case works on.
func (rg *rig) makeObject(rng *rand.Rand, cs caseSpec, tag string) *object {
	size := pickSize(rng, !rg.w.r.Quick)
	if rg.maxProxy > 0 && !cs.e.oversize && int64(size) > rg.maxProxy {
		size = int(rg.maxProxy) - rng.IntN(100)
	}
	if cs.e.oversize {
		size = int(rg.maxProxy) + 1 + rng.IntN(3000)
		if rng.IntN(3) == 0 {
			size = int(rg.maxProxy) + 1
		}
	}
	arSize := size
	if arSize > 150*lib.KiB {
		arSize = 150 * lib.KiB
	}
	if cs.e.oversize {
		arSize = int(rg.maxProxy) + 40 + rng.IntN(3000)
	}
	return rg.fresh(func(bump int) *object {
		switch cs.kind {
		case cache.CAS:
			return newCAS(rng, rg.storage, size+bump, tag, cs.e.needMulti)
		case cache.AC:
			return newAR(rng, cache.AC, arSize, tag)
		default:
			if rg.family == "grpc" {
				// the gRPC proxy moves RAW entries as ActionResults
				return newAR(rng, cache.RAW, arSize, tag)
			}
			return newRaw(rng, size+bump, tag)
		}
	})
}

// fresh draws objects until one has a key this rig has not used before (tiny
// blobs have few possible values; when those run out the size grows).
func (rg *rig) fresh(gen func(bump int) *object) *object {
	for try := 0; ; try++ {
		o := gen(try / 8)
		rg.mu.Lock()
		used := rg.used[o.hash]
		if !used {
			rg.used[o.hash] = true
		}
		rg.mu.Unlock()
		if !used {
			return o
		}
	}
}

// readCase runs one (fault plan, operation) case: faulty read, then the
// backend turns healthy (or loses the object) and the key is read again,
// then - after a healthy hit - once more to see it served locally.
func (rg *rig) readCase(cs caseSpec, id string, rng *rand.Rand) {
	r := rg.w.r
	o := rg.makeObject(rng, cs, id)
	p := cs.e.build(rg, o, rng)
	if p.target != cs.op.target {
		p.target = cs.op.target
	}
	expect := p.expect(cs.op.known)
	if expect == expLies || p.corrupt != nil {
		// what gets cached for a key the backend lied about (or whose header
		// it garbled in a way that does not matter) is outside the oracle
		rg.noteLie(o.hash)
	}
	det := &readDetail{Rig: rg.name, Case: id, Op: cs.op.name, Plan: p.label, Object: o.String(), Expect: expect}
	log := func(f string, a ...any) { det.History = append(det.History, fmt.Sprintf(f, a...)) }

	if cs.op.deps {
		// an ActionResult (held by the backend, healthy) referencing the object
		o.acRef = newAR(rng, cache.AC, 200+rng.IntN(400), id+"-ac", digestOf(o))
		rg.be.put(o.acRef)
	}
	if p.act != "absent" {
		rg.be.put(o)
	}
	rg.be.setPlan(o, p)
	rg.noteCase(cs.label())
	open0 := rg.openNow(rg.lastOpen)
	defer rg.attributeOpen(open0, cs, p, det)
	defer func() {
		rg.be.forget(o.hash)
		if o.acRef != nil {
			rg.be.forget(o.acRef.hash)
		}
	}()

	n0 := rg.be.reqCount(o.hash)
	out1 := rg.runOp(cs.op, rg.front, o)
	n1 := rg.be.reqCount(o.hash)
	log("backend plan %s; %s -> %s (backend requests for the key: %d)", p.label, cs.op.name, out1, n1-n0)
	r.Eval()
	r.Count(fmt.Sprintf("read.%s/%s/%s.%s", rg.name, cs.op.name, p.fault, out1.class))
	r.Count(fmt.Sprintf("matrix.%s|%s|%s|%s.%s", p.stage, p.fault, cs.op.name, rg.family, out1.class))
	if n1 > n0 || p.act == "refuse" {
		r.Distinct(rg.name, cs.op.name, p.label, lib.SizeClassName(len(o.content)), o.layout)
	}
	rg.judge(cs.op, o, p.fault, "faulty-read", out1, expect, det)
	rg.checkPanics(cs.op.name, p.fault, det)

	// The backend recovers (or turns out not to have the object at all).
	rg.be.clearPlan(o.hash)
	after := "healthy"
	if rng.IntN(10) < 3 {
		after = "absent"
	}
	if after == "healthy" {
		rg.be.put(o)
	} else {
		rg.be.remove(o)
	}
	op2 := cs.op
	if rng.IntN(2) == 0 {
		op2 = rg.altOp(cs.op, rng)
	}
	out2 := rg.runOp(op2, rg.front, o)
	log("backend now %s; %s -> %s", after, op2.name, out2)
	r.Eval()
	r.Count(fmt.Sprintf("reread.%s/%s.%s", rg.family, after, out2.class))

	hit1ok := false
	if out1.class == "hit" {
		hit1ok, _ = verifyHit(cs.op, o, out1, rg.be.sizeAware(o.kind))
	}
	oversize := cs.e.oversize
	switch {
	case expect == expLies:
		// the first read may have cached the backend's lie: cleanup oracles only
	case after == "healthy":
		e2 := expHit
		if oversize {
			e2 = expNoHit
			if op2.target == "contains" && !rg.be.sizeAware(o.kind) {
				e2 = expAny
			}
		}
		rg.judge(op2, o, p.fault, "read-after-recovery", out2, e2, det)
	default: // the backend no longer has it
		e2 := expNoHit
		if op2.target == "get" && hit1ok && cs.op.caches && (expect == expHit || expect == expAny) {
			e2 = expAny // legitimately cached by the first read
		}
		rg.judge(op2, o, p.fault, "read-after-backend-lost-it", out2, e2, det)
	}
	rg.checkPanics(op2.name, p.fault+"/reread", det)

	// A healthy hit must now be in the local cache.
	if after == "healthy" && expect != expLies && !oversize && op2.caches && out2.class == "hit" {
		if ok, _ := verifyHit(op2, o, out2, true); ok {
			m0 := rg.be.reqCount(o.hash)
			op3 := rg.altOp(op2, rng)
			if !op3.caches {
				op3 = op2
			}
			out3 := rg.runOp(op3, rg.front, o)
			m1 := rg.be.reqCount(o.hash)
			log("third read %s -> %s (backend requests for the key: %d)", op3.name, out3, m1-m0)
			r.Eval()
			rg.judge(op3, o, p.fault, "local-read", out3, expHit, det)
			if m1 != m0 {
				r.Violation(rg.key(op2.name, "healthy", "not-cached-locally"),
					fmt.Sprintf("%s: after a hit served from the healthy backend (%s, %d bytes <= max_proxy_blob_size) a further read (%s) went to the backend again (%d requests)",
						rg.name, op2.name, o.size(), op3.name, m1-m0), det)
			} else {
				r.Count("local.served-without-backend")
			}
		}
	}
	r.Sample(map[string]any{"rig": rg.name, "op": cs.op.name, "plan": p.label, "object": o.String(), "history": det.History})
}

// openNow: backend connections / readers open right now (idle client
// connections closed first), polled down to `floor` for a short while. Only
// for backends where the number is exact; -1 otherwise.
func (rg *rig) openNow(floor int) int {
	max := 10 * time.Second
	switch rg.family {
	case "fake", "azure", "http":
	case "grpc":
		max = 1500 * time.Millisecond // RPCs begun and not ended, counted inside this process
	default:
		return -1
	}
	deadline := time.Now().Add(max)
	sleep := 200 * time.Microsecond
	for {
		rg.be.closeIdle()
		n := rg.be.openConns()
		if n <= floor || time.Now().After(deadline) {
			return n
		}
		time.Sleep(sleep)
		if sleep < 50*time.Millisecond {
			sleep *= 2
		}
	}
}

// attributeOpen: a case that leaves more backend connections / readers open
// than it found is reported under its own fault class (every call has
// returned, every returned stream was closed, the rig runs one case at a
// time and no upload is in flight during read cases).
func (rg *rig) attributeOpen(open0 int, cs caseSpec, p *plan, det *readDetail) {
	if open0 < 0 {
		return
	}
	open1 := rg.openNow(open0)
	rg.lastOpen = open1
	if open1 <= open0 {
		return
	}
	rg.mu.Lock()
	rg.attributed += open1 - open0
	rg.mu.Unlock()
	rg.w.r.Violation(rg.key("get", p.stage+"/"+p.fault, "backend-connection-left-open"),
		fmt.Sprintf("%s: after a read case with backend fault %s (%s) %d backend connection(s)/response stream(s) stay open although every call returned and every returned stream was closed",
			rg.name, p.label, cs.op.name, open1-open0), det)
}

// altOp picks another operation with the same target on the same key space.
func (rg *rig) altOp(p *op, rng *rand.Rand) *op {
	var ops []*op
	if p.target == "get" {
		ops = getOps(p.kind)
	} else {
		for _, q := range containsOps(p.kind) {
			if q.deps == p.deps {
				ops = append(ops, q)
			}
		}
	}
	if len(ops) == 0 {
		return p
	}
	return ops[rng.IntN(len(ops))]
}

// judge applies the outcome oracle.
func (rg *rig) judge(p *op, o *object, fault, phase string, out outcome, expect string, det *readDetail) {
	r := rg.w.r
	if out.class == "watchdog" {
		return
	}
	if expect == expLies {
		r.Count("oracle.content-not-judged(backend-lies-consistently)")
		return
	}
	correct, why := false, ""
	if out.class == "hit" {
		correct, why = verifyHit(p, o, out, rg.be.sizeAware(o.kind))
	}
	switch {
	case out.class == "error" && expect == expHit && p.target == "contains" && strings.Contains(out.detail, `bad Content-Length "-1"`):
		// Its own finding: the front end answers HEAD with "Content-Length: -1"
		// when the backend holds the entry but cannot state its size.
		r.Violation("C12:head:backend-size-unknown:invalid-content-length-header",
			fmt.Sprintf("%s: HEAD for an entry that only the backend holds (healthy, but unable to state the logical size) is answered with the invalid header \"Content-Length: -1\"; HTTP clients reject the response (%s)",
				rg.name, clip(out.detail, 160)), det)
	case out.class == "hit" && !correct:
		r.Violation(rg.key(p.name, fault, phase, "hit-with-wrong-content"),
			fmt.Sprintf("%s: %s answered a hit that is not the backend's object (%s; fault %s): %s", rg.name, p.name, phase, fault, why), det)
	case out.class == "hit" && expect == expNoHit:
		r.Violation(rg.key(p.name, fault, phase, "hit-although-backend-failed"),
			fmt.Sprintf("%s: %s answered a hit although the backend withheld / could not serve the object (%s; fault %s)", rg.name, p.name, phase, fault), det)
	case out.class != "hit" && expect == expHit:
		r.Violation(rg.key(p.name, fault, phase, "backend-object-not-served"),
			fmt.Sprintf("%s: %s answered %s although the backend holds and completely delivers the object (%s; plan %s): %s",
				rg.name, p.name, out.class, phase, fault, clip(out.detail, 200)), det)
	default:
		r.Count("oracle." + phase + ".ok")
	}
}

// classBatches (S3, whose client keeps idle connections the harness cannot
// close): growth test per fault class - N reads through the disk.Cache API
// with a context that is never cancelled, then N more; a class that leaves a
// connection behind per request grows by N each time, pooled idle
// connections do not.
func (rg *rig) classBatches(half int) {
	r := rg.w.r
	rng := r.Rng(fmt.Sprintf("classbatch/%s/%d", rg.name, half))
	const n = 4
	settle := func() int {
		prev := -1
		for i := 0; i < 40; i++ {
			c := rg.be.openConns()
			if c == prev {
				return c
			}
			prev = c
			time.Sleep(5 * time.Millisecond)
		}
		return prev
	}
	for _, name := range []string{"404", "short-clean", "short-error", "5xx-once"} {
		var e *entry
		for _, x := range catalogue(rg.family, "get") {
			if x.name == name {
				e = x
			}
		}
		if e == nil {
			continue
		}
		var counts [3]int
		counts[0] = settle()
		var last *plan
		for b := 1; b <= 2; b++ {
			for i := 0; i < n; i++ {
				cs := caseSpec{e: e, op: opAPIGetUnknown, kind: cache.CAS}
				o := rg.makeObject(rng, cs, fmt.Sprintf("%s-h%d-cb-%s-%d-%d", rg.name, half, name, b, i))
				p := e.build(rg, o, rng)
				if o.v2 && (name == "short-clean" || name == "short-error") {
					p.cut = rng.IntN(16) // inside the part of the header the proxy itself reads
					p.stage = "header"
				}
				last = p
				if p.expect(false) == expLies {
					rg.noteLie(o.hash)
				}
				if p.act != "absent" {
					rg.be.put(o)
				}
				rg.be.setPlan(o, p)
				rg.noteCase("class-batch/" + name)
				out := rg.runOp(opAPIGetUnknown, rg.front, o)
				r.Eval()
				r.Count(fmt.Sprintf("class-batch.%s/%s.%s", rg.name, name, out.class))
				rg.be.forget(o.hash)
			}
			counts[b] = settle()
		}
		r.Distinct(rg.name, "class-batch", name)
		if counts[1]-counts[0] >= n-1 && counts[2]-counts[1] >= n-1 {
			r.Violation(rg.key("get", last.stage+"/"+last.fault, "backend-connection-left-open"),
				fmt.Sprintf("%s: reads with backend fault %s leave their backend connection open: %d open before, %d after %d reads, %d after %d reads (calls returned, returned streams closed)",
					rg.name, last.stage+"/"+last.fault, counts[0], counts[1], n, counts[2], 2*n),
				map[string]any{"rig": rg.name, "class": name, "open_connections": counts})
		} else {
			r.Count("class-batch.no-growth")
		}
	}
}

// runReadCases executes the rig's case list for one half.
func (rg *rig) runReadCases(specs []caseSpec, half int) {
	rng := rg.w.r.Rng(fmt.Sprintf("read/%s/%d", rg.name, half))
	for i, cs := range specs {
		rg.readCase(cs, fmt.Sprintf("%s-h%d-r%d", rg.name, half, i), rng)
		if rg.w.r.Violations() > 60 {
			return
		}
	}
	if rg.family == "s3" && len(specs) > 0 {
		rg.classBatches(half)
	}
}

package c18

import (
	"bytes"
	"encoding/base64"
	"encoding/hex"
	"encoding/json"
	"fmt"
	"math/rand/v2"
	"strings"

	"verif/harness/lib"

	asset "github.com/buchgr/bazel-remote/v2/genproto/build/bazel/remote/asset/v1"
	pb "github.com/buchgr/bazel-remote/v2/genproto/build/bazel/remote/execution/v2"
	"google.golang.org/grpc/codes"
	"google.golang.org/protobuf/proto"
)

// Write paths. For the CAS paths the item is the blob; for ac-inline-* the
// item is the uploaded ActionResult carrying the blob inline (its serialized
// size is the case size; the inlined blob is smaller); for ac-*/raw-* the item
// is the AC entry itself.
var (
	casPaths    = []string{"http-put", "http-put-zstd", "batch", "batch-zstd", "bs-blobs", "bs-zstd", "splice", "splice-nodigest", "fetch-len", "fetch-nolen", "fetch-nosri"}
	inlinePaths = []string{"ac-inline-stdout", "ac-inline-stderr", "ac-inline-file"}
	acPaths     = []string{"ac-grpc", "ac-grpc-symlinks", "ac-http", "ac-http-zstd", "raw-http", "raw-http-zstd"}
)

func isZstdPath(p string) bool { return strings.HasSuffix(p, "zstd") }

// paths on which a size can be declared independently of the bytes sent
func declaredSmallApplies(p string) bool {
	switch p {
	case "http-put", "http-put-zstd", "batch", "batch-zstd", "bs-blobs", "bs-zstd", "splice",
		"ac-http", "ac-http-zstd", "raw-http", "raw-http-zstd", "ac-inline-stdout", "ac-inline-stderr", "ac-inline-file":
		return true
	}
	return false
}

type upCase struct {
	ID      int
	Path    string
	Variant string // "plain" | "declared-small" (declared size <= limit, real logical size > limit)
	Limit   int64
	Rel     string // below | at | above1 | above4 | rand-below | rand-above
	Size    int    // intended logical size of the item
	Content string
	Chunk   int // ByteStream message size (0 = one message)
}

type digestRef struct {
	Hash string
	Size int64
}

type upResult struct {
	skip        string // non-empty: case not expressible / set-up failed (counted, not judged)
	outcome     string // accepted | refused | unobserved
	class       string // client | server (refusals only)
	status      string
	itemSize    int64 // logical size of the item actually sent
	declared    int64
	transport   int
	cas         []digestRef // CAS digests that must be absent after a refusal
	blob        []byte      // CAS content that must read back after acceptance (under cas[0])
	acKey       string
	acKind      string // "ac" | "raw" | ""
	sentAR      *pb.ActionResult
	inlineField string
	rawBody     []byte
	filesBefore int
	filesAfter  int
	casAliased  bool // the CAS digest may legitimately exist because of other cases
	// FetchBlob only: the harness origin did not hand the whole body to its connection
	// (never asked, or the write failed): a non-OK answer is then not attributable
	originUndelivered bool
}

func classOfHTTP(h lib.HTTPResult) (outcome, class, status string) {
	if h.Err != nil {
		return "unobserved", "", "transport error: " + h.Err.Error()
	}
	status = fmt.Sprintf("HTTP %d %s", h.Status, strings.TrimSpace(firstN(string(h.Body), 120)))
	switch {
	case h.Status == 200:
		return "accepted", "", status
	case h.Status >= 400 && h.Status < 500:
		return "refused", "client", status
	}
	return "refused", "server", status
}

func firstN(s string, n int) string {
	if len(s) > n {
		return s[:n]
	}
	return s
}

func classOfCode(c codes.Code, msg string) (outcome, class, status string) {
	status = "gRPC " + c.String()
	if msg != "" {
		status += ": " + firstN(msg, 120)
	}
	switch c {
	case codes.OK:
		return "accepted", "", status
	case codes.InvalidArgument, codes.OutOfRange, codes.FailedPrecondition, codes.ResourceExhausted:
		return "refused", "client", status
	case codes.Canceled, codes.DeadlineExceeded, codes.Unavailable:
		return "unobserved", "", status
	}
	return "refused", "server", status
}

func errMsg(err error) string {
	if err == nil {
		return ""
	}
	return err.Error()
}

// numFiles reads NumFiles from /status (-1 if unavailable).
func (t *target) numFiles() int {
	h := t.httpDo("GET", t.casURL()+"/status", nil, nil)
	if h.Err != nil || h.Status != 200 {
		return -1
	}
	var sp struct{ NumFiles int }
	if json.Unmarshal(h.Body, &sp) != nil {
		return -1
	}
	return sp.NumFiles
}

func caseRng(seed int64, id int) *rand.Rand {
	return rand.New(rand.NewPCG(uint64(seed)*1000003+uint64(id), 0xC18))
}

// execUpload performs one upload case. serial: the target is not used by
// anybody else, so the /status file count before/after is attributable.
func execUpload(r *lib.Run, t *target, cs upCase, serial bool) upResult {
	rng := caseRng(r.Seed, cs.ID)
	tag := fmt.Sprintf("C18-s%d-u%d", r.Seed, cs.ID)
	res := upResult{filesBefore: -1, filesAfter: -1}
	ctx, cancel := lib.Ctx()
	defer cancel()
	cl := t.cl
	L := cs.Limit
	z := isZstdPath(cs.Path)

	declare := func(real int64) int64 {
		if cs.Variant != "declared-small" {
			return real
		}
		opts := []int64{L, L, 1}
		if L > 1 {
			opts = append(opts, L-1)
		}
		d := opts[rng.IntN(len(opts))]
		if d >= real {
			d = real - 1
		}
		return d
	}
	measure := func() {
		if serial {
			res.filesBefore = t.numFiles()
		}
	}
	done := func() {
		if serial {
			res.filesAfter = t.numFiles()
		}
	}

	switch {
	case contains(casPaths, cs.Path):
		if cs.Size <= 0 {
			res.skip = "empty-blob"
			return res
		}
		B := lib.GenBlob(rng, cs.Size, cs.Content, tag)
		hash := lib.Sha256Hex(B)
		res.itemSize = int64(len(B))
		res.blob = B
		res.declared = declare(res.itemSize)
		if res.declared <= 0 {
			res.skip = "declared-size-not-expressible"
			return res
		}
		res.cas = []digestRef{{hash, res.itemSize}}
		if res.declared != res.itemSize {
			res.cas = append(res.cas, digestRef{hash, res.declared})
		}
		payload := B
		if z {
			payload = zstdEncodeRand(rng, B)
		}
		res.transport = len(payload)
		switch cs.Path {
		case "http-put", "http-put-zstd":
			hdr := map[string]string{}
			if z {
				hdr["Content-Encoding"] = "zstd"
				hdr["X-Digest-SizeBytes"] = fmt.Sprint(res.declared)
			} else if res.declared != res.itemSize || rng.IntN(3) == 0 {
				hdr["X-Digest-SizeBytes"] = fmt.Sprint(res.declared)
			}
			measure()
			res.outcome, res.class, res.status = classOfHTTP(t.httpDo("PUT", t.casURL()+"/cas/"+hash, payload, hdr))
		case "batch", "batch-zstd":
			req := &pb.BatchUpdateBlobsRequest_Request{Digest: &pb.Digest{Hash: hash, SizeBytes: res.declared}, Data: payload}
			if z {
				req.Compressor = pb.Compressor_ZSTD
			}
			measure()
			resp, err := cl.CAS.BatchUpdateBlobs(ctx, &pb.BatchUpdateBlobsRequest{Requests: []*pb.BatchUpdateBlobsRequest_Request{req}})
			switch {
			case err != nil:
				res.outcome, res.class, res.status = classOfCode(lib.Code(err), "rpc: "+errMsg(err))
			case len(resp.Responses) != 1:
				res.outcome, res.status = "unobserved", fmt.Sprintf("%d responses", len(resp.Responses))
			default:
				st := resp.Responses[0].GetStatus()
				res.outcome, res.class, res.status = classOfCode(codes.Code(st.GetCode()), "blob status: "+st.GetMessage())
			}
		case "bs-blobs", "bs-zstd":
			name := lib.ResUpload(uuidOf(rng), hash, res.declared)
			if z {
				name = lib.ResUploadZstd(uuidOf(rng), hash, res.declared)
			}
			measure()
			_, err := cl.BSWrite(ctx, name, payload, cs.Chunk)
			res.outcome, res.class, res.status = classOfCode(lib.Code(err), errMsg(err))
		case "splice", "splice-nodigest":
			// every chunk is within the limit; only the spliced blob can exceed it
			maxChunk := int64(len(B)+1) / 2
			if maxChunk > L {
				maxChunk = L
			}
			if len(B) < 2 || maxChunk < 1 {
				res.skip = "splice-needs-two-chunks"
				return res
			}
			var cds []*pb.Digest
			for off := 0; off < len(B); {
				n := int(maxChunk)
				if rng.IntN(3) == 0 && n > 1 {
					n = 1 + rng.IntN(n)
				}
				if off+n > len(B) {
					n = len(B) - off
				}
				c := B[off : off+n]
				off += n
				cds = append(cds, lib.DigestOf(c))
			}
			if len(cds) < 2 {
				res.skip = "splice-needs-two-chunks"
				return res
			}
			off := 0
			seen := map[string]bool{}
			for _, d := range cds {
				c := B[off : off+int(d.SizeBytes)]
				off += int(d.SizeBytes)
				if seen[d.Hash] {
					continue
				}
				seen[d.Hash] = true
				if h := t.httpDo("PUT", t.casURL()+"/cas/"+d.Hash, c, nil); h.Err != nil || h.Status != 200 {
					res.skip = fmt.Sprintf("splice-chunk-upload-failed(%d %v)", h.Status, h.Err)
					return res
				}
			}
			req := &pb.SpliceBlobRequest{ChunkDigests: cds}
			if cs.Path == "splice" {
				req.BlobDigest = &pb.Digest{Hash: hash, SizeBytes: res.declared}
			}
			measure()
			_, err := cl.CAS.SpliceBlob(ctx, req)
			res.outcome, res.class, res.status = classOfCode(lib.Code(err), errMsg(err))
		case "fetch-len", "fetch-nolen", "fetch-nosri":
			p := "/blob/" + tag
			t.origin.set(p, originEntry{body: B, nolen: cs.Path == "fetch-nolen"})
			req := &asset.FetchBlobRequest{Uris: []string{t.origin.srv.URL + p}}
			if cs.Path != "fetch-nosri" {
				raw, _ := hex.DecodeString(hash)
				req.Qualifiers = []*asset.Qualifier{{Name: "checksum.sri", Value: "sha256-" + base64.StdEncoding.EncodeToString(raw)}}
			}
			measure()
			resp, err := cl.Asset.FetchBlob(ctx, req)
			hits, delivered := t.origin.del(p)
			res.originUndelivered = delivered == 0 || ctx.Err() != nil
			if err != nil {
				res.outcome, res.class, res.status = classOfCode(lib.Code(err), "rpc: "+errMsg(err))
			} else {
				c := codes.Code(resp.GetStatus().GetCode())
				res.status = fmt.Sprintf("FetchBlob response status %s (origin hits %d, complete deliveries %d)", c, hits, delivered)
				if c == codes.OK {
					res.outcome = "accepted"
				} else {
					res.outcome, res.class = "refused", "client" // any non-OK response status counts as refusal
				}
			}
		}
		done()
		return res

	case contains(inlinePaths, cs.Path):
		field := strings.TrimPrefix(cs.Path, "ac-inline-")
		shape := shapeInline(field)
		n, pad, _ := fitAR(shape, cs.Size, 1)
		ar := shape(n, pad)
		B := lib.GenBlob(rng, n, cs.Content, tag)
		fillInline(ar, field, B)
		res.itemSize = int64(proto.Size(ar))
		res.blob, res.inlineField = B, field
		res.cas = []digestRef{{lib.Sha256Hex(B), int64(len(B))}}
		// A tiny inlined blob is within the limit and not unique to this case (another case may
		// have stored the same bytes legitimately): its presence after a refusal proves nothing.
		res.casAliased = len(B) < 8
		res.declared = int64(len(B))
		if cs.Variant == "declared-small" {
			d := declare(int64(len(B)))
			if d <= 0 {
				res.skip = "declared-size-not-expressible"
				return res
			}
			res.declared = d
			dd := &pb.Digest{Hash: lib.Sha256Hex(B), SizeBytes: d}
			switch field {
			case "stdout":
				ar.StdoutDigest = dd
			case "stderr":
				ar.StderrDigest = dd
			default:
				ar.OutputFiles[0].Digest = dd
			}
			res.itemSize = int64(proto.Size(ar))
			res.cas = append(res.cas, digestRef{dd.Hash, d})
			if res.itemSize <= L {
				// the shorter size varint took the ActionResult back under the limit: a lying
				// upload within the limit is outside this property
				res.skip = "declared-small-back-under-limit"
				return res
			}
		}
		res.acKey, res.acKind, res.sentAR = lib.RandHash(rng), "ac", proto.Clone(ar).(*pb.ActionResult)
		res.transport = int(res.itemSize)
		measure()
		_, err := cl.AC.UpdateActionResult(ctx, &pb.UpdateActionResultRequest{ActionDigest: &pb.Digest{Hash: res.acKey, SizeBytes: 1 + int64(rng.IntN(200))}, ActionResult: ar})
		res.outcome, res.class, res.status = classOfCode(lib.Code(err), errMsg(err))
		done()
		return res
	}

	// AC items themselves
	res.acKey = lib.RandHash(rng)
	switch cs.Path {
	case "raw-http", "raw-http-zstd":
		if t.rawURL == "" {
			res.skip = "no-unvalidated-handler"
			return res
		}
		if cs.Size <= 0 {
			res.skip = "empty-item"
			return res
		}
		body := lib.GenBlob(rng, cs.Size, cs.Content, tag)
		res.itemSize, res.rawBody, res.acKind = int64(len(body)), body, "raw"
		res.declared = declare(res.itemSize)
		if res.declared <= 0 {
			res.skip = "declared-size-not-expressible"
			return res
		}
		payload, hdr := body, map[string]string{}
		if z {
			payload = zstdEncodeRand(rng, body)
			hdr["Content-Encoding"] = "zstd"
			hdr["X-Digest-SizeBytes"] = fmt.Sprint(res.declared)
		} else if res.declared != res.itemSize {
			hdr["X-Digest-SizeBytes"] = fmt.Sprint(res.declared)
		}
		res.transport = len(payload)
		measure()
		res.outcome, res.class, res.status = classOfHTTP(t.httpDo("PUT", t.rawURL+"/ac/"+res.acKey, payload, hdr))
	default:
		shape := arShape(shapeWorker)
		if cs.Path == "ac-grpc-symlinks" || (cs.Path != "ac-grpc" && rng.IntN(2) == 0) {
			shape = shapeSymlinks
		}
		var ar *pb.ActionResult
		if n, pad, ok := fitAR(shape, cs.Size, 1); ok {
			ar = shape(n, pad)
		} else if int64(proto.Size(tinyAR())) > L {
			ar = tinyAR() // below the smallest instance of the shape: the smallest ActionResult there is (still above the limit)
		} else {
			res.skip = "ac-size-not-expressible"
			return res
		}
		res.itemSize, res.acKind, res.sentAR = int64(proto.Size(ar)), "ac", ar
		body, _ := proto.Marshal(ar)
		res.declared = declare(res.itemSize)
		if res.declared <= 0 {
			res.skip = "declared-size-not-expressible"
			return res
		}
		switch cs.Path {
		case "ac-grpc", "ac-grpc-symlinks":
			res.transport = len(body)
			measure()
			_, err := cl.AC.UpdateActionResult(ctx, &pb.UpdateActionResultRequest{ActionDigest: &pb.Digest{Hash: res.acKey, SizeBytes: 1 + int64(rng.IntN(200))}, ActionResult: proto.Clone(ar).(*pb.ActionResult)})
			res.outcome, res.class, res.status = classOfCode(lib.Code(err), errMsg(err))
		default: // ac-http, ac-http-zstd
			if t.acURL == "" {
				res.skip = "no-validated-handler"
				return res
			}
			payload, hdr := body, map[string]string{}
			if z {
				payload = zstdEncodeRand(rng, body)
				hdr["Content-Encoding"] = "zstd"
				hdr["X-Digest-SizeBytes"] = fmt.Sprint(res.declared)
			} else if res.declared != res.itemSize {
				hdr["X-Digest-SizeBytes"] = fmt.Sprint(res.declared)
			}
			res.transport = len(payload)
			measure()
			res.outcome, res.class, res.status = classOfHTTP(t.httpDo("PUT", t.acURL+"/ac/"+res.acKey, payload, hdr))
		}
	}
	done()
	return res
}

func contains(xs []string, s string) bool {
	for _, x := range xs {
		if x == s {
			return true
		}
	}
	return false
}

// acPresence probes an AC/RAW key on every read path the target offers.
type acPresence struct {
	GRPC     string // code of GetActionResult
	HTTP     int    // GET on the handler of the key's namespace
	Indexed  bool   // in-process: an index entry mentions the key
	got      *pb.ActionResult
	httpBody []byte
	// unobserved: a probe got no answer from the server (transport error, watchdog)
	unobserved []string
}

func (p acPresence) present() bool { return p.GRPC == "OK" || p.HTTP == 200 || p.Indexed }

func (t *target) probeAC(kind, key string) acPresence {
	var p acPresence
	ctx, cancel := lib.Ctx()
	defer cancel()
	if kind == "ac" {
		ar, err := t.cl.AC.GetActionResult(ctx, &pb.GetActionResultRequest{ActionDigest: &pb.Digest{Hash: key, SizeBytes: 1}})
		p.GRPC = lib.Code(err).String()
		p.got = ar
		if o, _, _ := classOfCode(lib.Code(err), ""); o == "unobserved" || (err != nil && ctx.Err() != nil) {
			p.unobserved = append(p.unobserved, "GetActionResult: "+err.Error())
		}
		if t.acURL != "" {
			h := t.httpDo("GET", t.acURL+"/ac/"+key, nil, nil)
			p.HTTP, p.httpBody = h.Status, h.Body
			p.noteHTTP("GET /ac", h)
		}
	} else if t.rawURL != "" {
		h := t.httpDo("GET", t.rawURL+"/ac/"+key, nil, nil)
		p.HTTP, p.httpBody = h.Status, h.Body
		p.noteHTTP("GET /ac (unvalidated)", h)
	}
	p.Indexed = t.indexed(key)
	return p
}

func (p *acPresence) noteHTTP(what string, h lib.HTTPResult) {
	if h.Err != nil {
		p.unobserved = append(p.unobserved, what+": "+h.Err.Error())
	} else if h.BodyErr != nil {
		p.unobserved = append(p.unobserved, what+": body: "+h.BodyErr.Error())
	}
}

// indexed reports whether the in-process index has an entry for the hash (any kind).
func (t *target) indexed(hash string) bool {
	if t.inproc == nil {
		return false
	}
	for _, e := range lib.Snapshot(t.inproc.Cache).Entries {
		if strings.Contains(e.Key, hash) {
			return true
		}
	}
	return false
}

func relOf(size, limit int64) string {
	switch {
	case size > limit:
		return "above"
	case size == limit:
		return "at"
	}
	return "below"
}

// judgeUpload applies the oracle of the statement to one executed case.
func judgeUpload(r *lib.Run, t *target, cs upCase, res upResult) {
	if res.skip != "" {
		r.Count("upload.skipped." + res.skip)
		return
	}
	L := cs.Limit
	rel := relOf(res.itemSize, L)
	r.Eval()
	r.Distinct("upload", t.fixture, cs.Path, cs.Variant, fmt.Sprint(L), cs.Rel, rel)
	r.Count(fmt.Sprintf("upload.%s.%s.%s.%s", t.fixture, cs.Path, cs.Variant+"/"+rel, res.outcome))
	r.Count("config." + t.fixture + "." + t.storage)
	if z := isZstdPath(cs.Path); z {
		switch {
		case res.itemSize > L && int64(res.transport) <= L:
			r.Count("upload.zstd.transport<=limit<logical")
		case res.itemSize <= L && int64(res.transport) > L:
			r.Count("upload.zstd.logical<=limit<transport")
		}
	}
	key := fmt.Sprintf("C18:upload:%s:%s", cs.Path, cs.Variant)
	detail := map[string]any{"fixture": t.fixture, "config": t.cfg, "case": cs, "item_logical_size": res.itemSize, "declared_size": res.declared, "transport_size": res.transport,
		"status": res.status, "outcome": res.outcome, "digests": res.cas, "ac_key": res.acKey,
		"replay_note": "content = lib.GenBlob(PCG(seed*1000003+case.ID, 0xC18), size, Content, tag 'C18-s<seed>-u<ID>'); see checks/c18/upload.go execUpload"}
	if res.outcome == "unobserved" {
		r.Count("upload.status-unobserved." + cs.Path)
	}

	// post-state
	var casPresent []string
	var lastProbe lib.PresenceProbe
	for i, d := range res.cas {
		p := t.probeCAS(d.Hash, d.Size, true)
		if i == 0 {
			lastProbe = p
		}
		idx := t.indexed(d.Hash)
		if p.FindMissingPresent || p.HeadStatus == 200 || p.GetStatus == 200 || idx {
			casPresent = append(casPresent, fmt.Sprintf("(%s,%d): findmissing_present=%v head=%d get=%d indexed=%v", d.Hash, d.Size, p.FindMissingPresent, p.HeadStatus, p.GetStatus, idx))
		}
	}
	var acp acPresence
	if res.acKind != "" {
		acp = t.probeAC(res.acKind, res.acKey)
		detail["ac_probe"] = map[string]any{"grpc": acp.GRPC, "http": acp.HTTP, "indexed": acp.Indexed}
	}
	detail["cas_present"] = casPresent

	if rel == "above" {
		if res.outcome == "accepted" {
			violate(r, t, key+":accepted", fmt.Sprintf("item of logical size %d > max_blob_size %d was accepted on %s (%s; %s)", res.itemSize, L, cs.Path, res.status, t.cfg), detail)
		}
		if res.outcome == "refused" && res.class != "client" {
			violate(r, t, key+":error-class", fmt.Sprintf("over-limit item (logical size %d > max_blob_size %d, declared %d) refused on %s with a non-client error: %s (%s)", res.itemSize, L, res.declared, cs.Path, res.status, t.cfg), detail)
		}
		if len(casPresent) > 0 && res.casAliased {
			r.Count("upload.cas-presence-not-attributable")
		} else if len(casPresent) > 0 {
			violate(r, t, key+":stored", fmt.Sprintf("over-limit item (logical size %d > max_blob_size %d) on %s (%s): CAS digest present afterwards: %v", res.itemSize, L, cs.Path, res.status, casPresent), detail)
		}
		if res.acKind != "" && acp.present() {
			violate(r, t, key+":ac-stored", fmt.Sprintf("over-limit %s item (serialized size %d > max_blob_size %d) on %s (%s): key %s present afterwards (GetActionResult=%s http=%d indexed=%v)",
				res.acKind, res.itemSize, L, cs.Path, res.status, res.acKey, acp.GRPC, acp.HTTP, acp.Indexed), detail)
		}
		if res.outcome != "accepted" && res.filesBefore >= 0 && res.filesAfter >= 0 {
			r.Count("upload.filecount-compared")
			if res.filesAfter > res.filesBefore { // fewer files (an eviction between the two reads) is no evidence of a store
				detail["num_files_before"], detail["num_files_after"] = res.filesBefore, res.filesAfter
				violate(r, t, key+":files-grew", fmt.Sprintf("over-limit item (logical size %d > max_blob_size %d) on %s was refused (%s) but the cache's file count went from %d to %d", res.itemSize, L, cs.Path, res.status, res.filesBefore, res.filesAfter), detail)
			}
		}
		return
	}

	// within the limit: only truthful uploads are generated here
	if res.outcome == "unobserved" {
		return
	}
	if res.outcome != "accepted" && res.originUndelivered {
		// FetchBlob folds every problem between the server and the origin into its response
		// status; the harness origin did not deliver the body completely, so the non-OK
		// answer is not attributable to the size limit: not judged
		r.Count("upload.fetch-origin-did-not-deliver." + cs.Path)
		return
	}
	if res.outcome != "accepted" {
		violate(r, t, fmt.Sprintf("%s:%s-limit-refused", key, rel), fmt.Sprintf("item of logical size %d (max_blob_size %d, transport size %d) was refused on %s: %s (%s)", res.itemSize, L, res.transport, cs.Path, res.status, t.cfg), detail)
		return
	}
	// accepted => present on every read path. A probe that got no answer (transport error,
	// watchdog) is not an observation of absence; byte-for-byte fidelity of what is read
	// back belongs to C01/C02/C11 and is only counted here.
	if len(res.cas) > 0 {
		p := lastProbe
		if len(p.Errs) > 0 {
			r.Count("upload.readback-probe-unobserved")
			detail["probe_errors"] = p.Errs
		} else if p.FindMissingPresent && p.HeadStatus == 200 && p.GetStatus == 200 {
			if bytes.Equal(p.GetBody, res.blob) {
				r.Count("upload.readback.cas.identical")
			} else {
				r.Count("upload.readback.cas.DIFFERS(not-this-property)")
			}
		} else {
			violate(r, t, key+":accepted-not-readable", fmt.Sprintf("accepted blob (%s,%d) is not present/readable: findmissing_present=%v head=%d get=%d (%d bytes, sha256 %s)",
				res.cas[0].Hash, res.cas[0].Size, p.FindMissingPresent, p.HeadStatus, p.GetStatus, len(p.GetBody), lib.Sha256Hex(p.GetBody)), detail)
		}
	}
	if res.acKind != "" && len(acp.unobserved) > 0 {
		r.Count("upload.readback-probe-unobserved")
		return
	}
	switch res.acKind {
	case "raw":
		if acp.HTTP == 200 && !bytes.Equal(acp.httpBody, res.rawBody) {
			r.Count("upload.readback.raw.DIFFERS(not-this-property)")
		} else if acp.HTTP == 200 {
			r.Count("upload.readback.raw.identical")
		}
		if acp.HTTP != 200 {
			violate(r, t, key+":accepted-not-readable", fmt.Sprintf("accepted raw item %s (%d bytes) reads back as HTTP %d with %d bytes", res.acKey, len(res.rawBody), acp.HTTP, len(acp.httpBody)), detail)
		}
	case "ac":
		want := proto.Clone(res.sentAR).(*pb.ActionResult)
		if res.inlineField != "" && !t.depsOff {
			// the server answers without the inlined bytes unless asked for them; the digest stays
			switch res.inlineField {
			case "stdout":
				want.StdoutRaw = nil
			case "stderr":
				want.StderrRaw = nil
			default:
				want.OutputFiles[0].Contents = nil
			}
		}
		norm := func(ar *pb.ActionResult) *pb.ActionResult {
			if ar == nil {
				return nil
			}
			c := proto.Clone(ar).(*pb.ActionResult)
			if len(c.StdoutRaw) == 0 {
				c.StdoutRaw = nil
			}
			if len(c.StderrRaw) == 0 {
				c.StderrRaw = nil
			}
			for _, f := range c.OutputFiles {
				if len(f.Contents) == 0 {
					f.Contents = nil
				}
			}
			return c
		}
		if acp.GRPC == "OK" && !proto.Equal(norm(acp.got), norm(want)) {
			r.Count("upload.readback.ac-grpc.DIFFERS(not-this-property)")
		} else if acp.GRPC == "OK" {
			r.Count("upload.readback.ac-grpc.identical")
		}
		if acp.GRPC != "OK" {
			violate(r, t, key+":accepted-not-readable", fmt.Sprintf("accepted ActionResult %s (serialized %d bytes) does not read back through GetActionResult: code %s, equal=%v", res.acKey, res.itemSize, acp.GRPC, proto.Equal(norm(acp.got), norm(want))), detail)
		}
		if t.acURL != "" {
			got := &pb.ActionResult{}
			if acp.HTTP == 200 && (proto.Unmarshal(acp.httpBody, got) != nil || !proto.Equal(got, res.sentAR)) {
				r.Count("upload.readback.ac-http.DIFFERS(not-this-property)")
			} else if acp.HTTP == 200 {
				r.Count("upload.readback.ac-http.identical")
			}
			if acp.HTTP != 200 {
				violate(r, t, key+":accepted-not-readable", fmt.Sprintf("accepted ActionResult %s (serialized %d bytes) does not read back through GET /ac: HTTP %d, %d bytes", res.acKey, res.itemSize, acp.HTTP, len(acp.httpBody)), detail)
			}
		}
	}
}

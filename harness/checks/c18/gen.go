package c18

import (
	"fmt"
	"math/rand/v2"
	"net/http"
	"net/http/httptest"
	"strings"
	"sync"

	"verif/harness/lib"

	pb "github.com/buchgr/bazel-remote/v2/genproto/build/bazel/remote/execution/v2"
	"google.golang.org/protobuf/proto"
)

// origin is the harness web server that Remote Asset FetchBlob downloads from.
type origin struct {
	srv  *httptest.Server
	mu   sync.Mutex
	body map[string]originEntry
	hits map[string]int
	// delivered: requests for which the whole body was handed to the connection without error
	delivered map[string]int
}

type originEntry struct {
	body  []byte
	nolen bool // answer without Content-Length (chunked)
}

func newOrigin() *origin {
	o := &origin{body: map[string]originEntry{}, hits: map[string]int{}, delivered: map[string]int{}}
	o.srv = httptest.NewServer(http.HandlerFunc(o.handle))
	return o
}

func (o *origin) handle(w http.ResponseWriter, r *http.Request) {
	o.mu.Lock()
	ent, ok := o.body[r.URL.Path]
	o.hits[r.URL.Path]++
	o.mu.Unlock()
	if !ok {
		http.NotFound(w, r)
		return
	}
	w.Header().Set("Content-Type", "application/octet-stream")
	if ent.nolen {
		w.WriteHeader(200)
		if f, ok := w.(http.Flusher); ok {
			f.Flush() // forces chunked transfer encoding: no Content-Length
		}
		o.wrote(r.URL.Path, ent, w)
		return
	}
	w.Header().Set("Content-Length", fmt.Sprint(len(ent.body)))
	o.wrote(r.URL.Path, ent, w)
}

func (o *origin) wrote(path string, ent originEntry, w http.ResponseWriter) {
	n, err := w.Write(ent.body)
	if err == nil && n == len(ent.body) {
		o.mu.Lock()
		o.delivered[path]++
		o.mu.Unlock()
	}
}

func (o *origin) set(path string, e originEntry) {
	o.mu.Lock()
	o.body[path] = e
	o.mu.Unlock()
}

func (o *origin) del(path string) (hits, delivered int) {
	o.mu.Lock()
	delete(o.body, path)
	hits, delivered = o.hits[path], o.delivered[path]
	delete(o.hits, path)
	delete(o.delivered, path)
	o.mu.Unlock()
	return hits, delivered
}

func (o *origin) close() { o.srv.Close() }

// ---------------------------------------------------------------------------
// ActionResults of an exact serialized size.

// arShape builds an ActionResult whose bulk is a filler of n bytes; pad in
// 0..2 adds 0, 2 or 3 bytes of fixed fields (exit_code) so that every target
// size is reachable across varint-length boundaries. worker is always set so
// that the server does not add metadata (stored size == uploaded size).
type arShape func(n int, pad int) *pb.ActionResult

const arWorker = "w"

func arPad(ar *pb.ActionResult, pad int) {
	switch pad {
	case 1:
		ar.ExitCode = 1 // 2 bytes
	case 2:
		ar.ExitCode = 200 // 3 bytes
	}
}

var zeroHash = strings.Repeat("0", 64)

// Shared fillers: the size search of fitAR builds many candidate messages;
// slicing a shared buffer instead of allocating megabytes per candidate.
const fillerCap = 13 * lib.MiB

var (
	zeroFill = make([]byte, fillerCap)
	wFill    = strings.Repeat("W", fillerCap)
	qFill    = "last/" + strings.Repeat("q", fillerCap)
)

func fillBytes(n int) []byte {
	if n <= fillerCap {
		return zeroFill[:n:n]
	}
	return make([]byte, n)
}

func fillString(src string, n int) string {
	if n <= len(src) {
		return src[:n]
	}
	return src + strings.Repeat(src[len(src)-1:], n-len(src))
}

// shapeWorker: the filler is the worker name itself.
func shapeWorker(n, pad int) *pb.ActionResult {
	ar := &pb.ActionResult{ExecutionMetadata: &pb.ExecutedActionMetadata{Worker: fillString(wFill, n)}}
	arPad(ar, pad)
	return ar
}

// shapeSymlinks: many output symlinks (no CAS dependencies), the last path holds the filler.
func shapeSymlinks(n, pad int) *pb.ActionResult {
	ar := &pb.ActionResult{ExecutionMetadata: &pb.ExecutedActionMetadata{Worker: arWorker}}
	const per = 180
	for i := 0; i < 48 && n > per; i++ {
		ar.OutputSymlinks = append(ar.OutputSymlinks, &pb.OutputSymlink{Path: fmt.Sprintf("out/%06d/%s", i, qFill[5:5+per]), Target: "t"})
		n -= per
	}
	ar.OutputSymlinks = append(ar.OutputSymlinks, &pb.OutputSymlink{Path: fillString(qFill, 5+n), Target: "t"})
	arPad(ar, pad)
	return ar
}

func shapeInline(field string) arShape {
	return func(n, pad int) *pb.ActionResult {
		ar := &pb.ActionResult{ExecutionMetadata: &pb.ExecutedActionMetadata{Worker: arWorker}}
		filler := fillBytes(n)
		d := &pb.Digest{Hash: zeroHash, SizeBytes: int64(n)}
		switch field {
		case "stdout":
			ar.StdoutRaw, ar.StdoutDigest = filler, d
		case "stderr":
			ar.StderrRaw, ar.StderrDigest = filler, d
		default:
			ar.OutputFiles = []*pb.OutputFile{{Path: "out/f", Digest: d, Contents: filler}}
		}
		arPad(ar, pad)
		return ar
	}
}

// fitAR finds (n, pad) with proto.Size(shape(n,pad)) == target; minN is the
// smallest admissible filler. ok=false: the target is below the smallest
// instance of the shape (the smallest instance is returned instead).
func fitAR(shape arShape, target, minN int) (n, pad int, ok bool) {
	for pad = 0; pad <= 2; pad++ {
		base := proto.Size(shape(minN, pad))
		if base > target {
			continue
		}
		n = minN + (target - base)
		for it := 0; it < 8 && n >= minN; it++ {
			sz := proto.Size(shape(n, pad))
			if sz == target {
				return n, pad, true
			}
			n -= sz - target
		}
	}
	return minN, 0, false
}

// tinyAR is the smallest non-empty ActionResult (2 bytes, no worker).
func tinyAR() *pb.ActionResult { return &pb.ActionResult{ExitCode: 1} }

// fillInline replaces the placeholder filler and digest of a shapeInline result by real content.
func fillInline(ar *pb.ActionResult, field string, B []byte) {
	d := lib.DigestOf(B)
	switch field {
	case "stdout":
		ar.StdoutRaw, ar.StdoutDigest = B, d
	case "stderr":
		ar.StderrRaw, ar.StderrDigest = B, d
	default:
		ar.OutputFiles[0].Contents, ar.OutputFiles[0].Digest = B, d
	}
}

func uuidOf(rng *rand.Rand) string {
	return fmt.Sprintf("%08x-%04x-4%03x-8%03x-%012x", rng.Uint32(), rng.Uint32()&0xffff, rng.Uint32()&0xfff, rng.Uint32()&0xfff, rng.Uint64()&0xffffffffffff)
}

func zstdEncodeRand(rng *rand.Rand, b []byte) []byte {
	kp, c := 1+rng.IntN(4), 1+rng.IntN(9)
	if len(b) > 256*lib.KiB { // the slow levels only on small payloads
		kp, c = 1+rng.IntN(2), 1+rng.IntN(3)
	}
	if rng.IntN(2) == 0 {
		return lib.ZstdEncodeKPCached(b, kp)
	}
	return lib.ZstdEncodeC(b, c)
}

// Package c18 checks property C18: blob size limits are enforced on every
// ingress (max_blob_size on every write path, max_proxy_blob_size on every
// backend-read path), in-process and through the real binary.
package c18

import (
	"context"
	"fmt"
	"math/rand/v2"
	"os"
	"sort"
	"sync"
	"time"

	"verif/harness/lib"

	pb "github.com/buchgr/bazel-remote/v2/genproto/build/bazel/remote/execution/v2"
)

func init() { lib.Register("C18", run) }

var stdLimits = []int64{1, 100, 4096, lib.MiB, lib.MiB + 1, 3 * lib.MiB}

type sizePoint struct {
	rel  string
	size int64
}

func sizePoints(limit int64, far bool) []sizePoint {
	ps := []sizePoint{{"below", limit - 1}, {"at", limit}, {"above1", limit + 1}, {"above4", 4 * limit}}
	if far && limit < lib.MiB {
		ps = append(ps, sizePoint{"far", limit + lib.MiB + 12345})
	}
	return ps
}

// randomLimit draws an extra limit for the thorough tier (log-uniform in 2 .. 2 MiB).
func randomLimit(rng *rand.Rand) int64 {
	bits := 1 + rng.IntN(21)
	return int64(1)<<bits + int64(rng.IntN(1<<bits))
}

type storageCfg struct{ storage, impl string }

var storageCfgs = []storageCfg{{"zstd", "go"}, {"uncompressed", "go"}, {"zstd", "cgo"}, {"uncompressed", "cgo"}}

var idGen int

func nextID() int { idGen++; return idGen }

// uploadCases enumerates the upload workload for one limit.
// thin: the quick tier runs the 4*limit point of multi-megabyte limits on a third of the paths
// (which third rotates with the seed); everything else is a full cross product.
func thin(quick bool, limit int64, rel string, idx, seed int) bool {
	return quick && limit >= lib.MiB && rel == "above4" && (idx+seed)%3 != 0
}

func uploadCases(rng *rand.Rand, limit int64, reps int, quick bool, seed int) []upCase {
	var out []upCase
	paths := append(append(append([]string{}, casPaths...), inlinePaths...), acPaths...)
	for rep := 0; rep < reps; rep++ {
		for _, sp := range sizePoints(limit, false) {
			for pi, p := range paths {
				if thin(quick, limit, sp.rel, pi, seed) {
					continue
				}
				above := sp.size > limit
				content := lib.Pick(rng, lib.ContentKinds)
				if isZstdPath(p) {
					// above the limit: compressible (transport size can be below the limit);
					// within the limit: incompressible (transport size exceeds the logical size)
					if above {
						content = lib.Pick(rng, []string{"zero", "zero", "repetitive"})
					} else {
						content = "random"
					}
				}
				chunk := []int{0, 1 + rng.IntN(4096), 64 * lib.KiB, lib.MiB}[rng.IntN(4)]
				if sp.size > 256*lib.KiB && chunk > 0 && chunk < 4096 {
					chunk = 64 * lib.KiB
				}
				out = append(out, upCase{ID: nextID(), Path: p, Variant: "plain", Limit: limit, Rel: sp.rel, Size: int(sp.size), Content: content, Chunk: chunk})
				if above && declaredSmallApplies(p) && (sp.rel == "above1") == (rng.IntN(3) > 0) {
					out = append(out, upCase{ID: nextID(), Path: p, Variant: "declared-small", Limit: limit, Rel: sp.rel, Size: int(sp.size), Content: content, Chunk: chunk})
				}
			}
		}
	}
	return out
}

func readCases(rng *rand.Rand, plimit int64, reps int, quick bool, seed int) []rdCase {
	var out []rdCase
	ops := append(append(append([]string{}, rdCASOps...), rdACOps...), rdDepOps...)
	for rep := 0; rep < reps; rep++ {
		for _, sp := range sizePoints(plimit, true) {
			for oi, op := range ops {
				if thin(quick, plimit, sp.rel, oi, seed) {
					continue
				}
				out = append(out, rdCase{ID: nextID(), Op: op, PLimit: plimit, Rel: sp.rel, Size: int(sp.size), Content: lib.Pick(rng, lib.ContentKinds)})
			}
		}
	}
	return out
}

// checkCapabilities: GetCapabilities advertises exactly the configured max_blob_size.
func checkCapabilities(r *lib.Run, t *target) {
	if t.limit <= 0 {
		return
	}
	ctx, cancel := context.WithTimeout(context.Background(), 30*time.Second)
	defer cancel()
	caps, err := t.cl.Cap.GetCapabilities(ctx, &pb.GetCapabilitiesRequest{})
	if err != nil {
		r.Count("capabilities.unobserved")
		return
	}
	r.Eval()
	r.Distinct("capabilities", t.fixture, t.limit)
	r.Count("capabilities." + t.fixture + ".checked")
	got := caps.GetCacheCapabilities().GetMaxCasBlobSizeBytes()
	if got != t.limit {
		violate(r, t, "C18:capabilities:max_cas_blob_size_bytes", fmt.Sprintf("GetCapabilities advertises max_cas_blob_size_bytes=%d but max_blob_size is configured as %d (%s)", got, t.limit, t.cfg),
			map[string]any{"config": t.cfg, "advertised": got, "configured": t.limit})
	}
}

func runUploads(r *lib.Run, t *target, cases []upCase) {
	checkCapabilities(r, t)
	do := func(cs upCase, serial bool) {
		if dead, _ := t.died(); dead {
			return
		}
		res := execUpload(r, t, cs, serial)
		judgeUpload(r, t, cs, res)
		if cs.ID%211 == 0 {
			r.Sample(map[string]any{"part": "upload", "config": t.cfg, "case": cs, "item_logical_size": res.itemSize, "transport_size": res.transport, "status": res.status, "outcome": res.outcome})
		}
	}
	if t.fixture == "binary" {
		// Over-limit cases run alone on the binary, so that the cache's file count
		// (/status) before and after a refusal is attributable; the rest runs concurrently first.
		var within, over []upCase
		for _, cs := range cases {
			if int64(cs.Size) > cs.Limit {
				over = append(over, cs)
			} else {
				within = append(within, cs)
			}
		}
		parallel(len(within), 6, func(i int) { do(within[i], false) })
		for _, cs := range over {
			do(cs, true)
		}
	} else {
		parallel(len(cases), 8, func(i int) { do(cases[i], false) })
	}
	if dead, msg := t.died(); dead {
		r.Violation("C18:upload:server-died", "the real binary exited while upload cases were running ("+t.cfg+")", map[string]any{"config": t.cfg, "log": msg})
	}
}

func runReads(r *lib.Run, e *proxyEnv, cases []rdCase) {
	if err := e.prepare(r); err != nil {
		r.Inconclusive("proxy part set-up failed (" + e.t.cfg + "): " + err.Error())
		return
	}
	parallel(len(cases), 8, func(i int) {
		cs := cases[i]
		if dead, _ := e.t.died(); dead {
			return
		}
		res := execRead(r, e, cs)
		judgeRead(r, e, cs, res)
		if cs.ID%211 == 0 {
			r.Sample(map[string]any{"part": "proxy", "config": e.t.cfg, "case": cs, "object_logical_size": res.size, "status": res.status, "backend_gets": res.gets, "backend_heads": res.heads})
		}
	})
	if dead, msg := e.t.died(); dead {
		r.Violation("C18:proxy:server-died", "the real binary exited while backend-read cases were running ("+e.t.cfg+")", map[string]any{"config": e.t.cfg, "log": msg})
	}
}

func run(r *lib.Run) {
	r.SetRule("upload cases = fixture{inproc,binary} x max_blob_size{1,100,4096,1Mi,1Mi+1,3Mi (+random limits in thorough)} x item size{limit-1,limit,limit+1,4*limit} x write path " +
		"(HTTP PUT identity/zstd, BatchUpdateBlobs identity/zstd, ByteStream.Write blobs/compressed-blobs, SpliceBlob with/without blob_digest, FetchBlob with/without Content-Length and checksum.sri, " +
		"ActionResult with inlined stdout/stderr/output file, AC item over gRPC and HTTP (validated identity/zstd, unvalidated identity/zstd)) x variant{plain, declared size <= limit but real size > limit}; " +
		"backend cases = fixture x max_proxy_blob_size x object size{limit-1,limit,limit+1,4*limit,far} x read path (ByteStream.Read identity/zstd, BatchReadBlobs identity/zstd, HTTP GET identity/zstd, HEAD, " +
		"FindMissingBlobs single/batched, QueryWriteStatus, FetchBlob by checksum, AC/RAW lookups over gRPC/HTTP GET/HEAD, AC dependency check via file/stdout/stderr/tree/tree file/26 files/HTTP GET/HEAD); " +
		"distinct = (part, fixture, path, variant, limit, size point, relation to the limit)")
	r.Assume("an uploaded ActionResult carrying an inlined blob is itself the item: its serialized size is the case size, the inlined blob is necessarily smaller")
	r.Assume("existence checks that do not state a size (HEAD /cas, FetchBlob by checksum) are judged only when the backend reports the object's size (a HEAD on a cas.v2 object of the HTTP backend cannot)")
	r.Assume("FetchBlob: any non-OK response status counts as a refusal; everywhere else a refusal must be HTTP 4xx or gRPC InvalidArgument/OutOfRange/FailedPrecondition/ResourceExhausted")

	haveBinary := true
	if _, err := os.Stat(lib.BinPath("bazel-remote")); err != nil {
		haveBinary = false
		r.Inconclusive("real binary not built: " + err.Error())
	}
	rng := r.Rng("c18")
	reps := r.N(1, 5)
	org := newOrigin()
	defer org.close()

	// The case lists are generated up front (a pure function of seed and tier);
	// the jobs (one system under test each) then run a few at a time.
	type job struct {
		part   string
		name   string
		weight int64 // rough cost (the limit): heavy systems start first
		run    func()
	}
	var jobs []job
	seed := int(r.Seed % 4)
	if seed < 0 {
		seed = -seed
	}

	limits := append([]int64{}, stdLimits...)
	if !r.Quick {
		for i := 0; i < 10; i++ {
			limits = append(limits, randomLimit(rng))
		}
	}

	// ---------------- Part 1: max_blob_size, in-process ----------------
	for i, L := range limits {
		cfgs := []storageCfg{storageCfgs[(i+seed)%4]}
		if !r.Quick {
			cfgs = append(cfgs, storageCfgs[(i+seed+1)%4])
		}
		for _, sc := range cfgs {
			cases := uploadCases(rng, L, reps, r.Quick, seed)
			jobs = append(jobs, job{"upload-inproc", fmt.Sprintf("upload-inproc L=%d %s/%s", L, sc.storage, sc.impl), 3 * L, func() {
				t, err := inprocTarget(lib.ServerOpts{Storage: sc.storage, ZstdImpl: sc.impl, MaxBlobSize: L}, org)
				if err != nil {
					r.Inconclusive("in-process server start: " + err.Error())
					return
				}
				defer t.close()
				runUploads(r, t, cases)
			}})
		}
	}

	// ---------------- Part 2: max_blob_size through the real binary ----------------
	if haveBinary {
		var specs []binSpec
		if r.Quick {
			specs = []binSpec{
				{storage: "zstd", limit: 100, syntax: "flag"},
				{storage: "uncompressed", limit: 4096, syntax: "env"},
				{storage: "zstd", limit: lib.MiB, syntax: "yaml", zstdImpl: "cgo"},
				{storage: "zstd", limit: 4096, syntax: "flag", raw: true, depsOff: true},
			}
		} else {
			syn := []string{"flag", "env", "yaml"}
			for i, L := range limits[:8] {
				sc := storageCfgs[(i+seed)%4]
				specs = append(specs, binSpec{storage: sc.storage, zstdImpl: sc.impl, limit: L, syntax: syn[i%3]})
				if i%2 == 0 {
					specs = append(specs, binSpec{storage: storageCfgs[(i+1)%4].storage, limit: L, syntax: syn[(i+1)%3], raw: true, depsOff: true})
				}
			}
		}
		for _, s := range specs {
			cases := uploadCases(rng, s.limit, reps, r.Quick, seed)
			jobs = append(jobs, job{"upload-binary", fmt.Sprintf("upload-binary L=%d %s %s raw=%v", s.limit, s.storage, s.syntax, s.raw), 3 * s.limit, func() {
				t, err := binaryTarget(s, org)
				if err != nil {
					r.Inconclusive("cannot start the real binary: " + err.Error())
					return
				}
				defer t.close()
				runUploads(r, t, cases)
			}})
		}
	}

	// ---------------- Part 3: max_proxy_blob_size, in-process with lib.FakeProxy ----------------
	for i, P := range limits {
		cfgs := []storageCfg{storageCfgs[(i+seed+1)%4]}
		if !r.Quick {
			cfgs = append(cfgs, storageCfgs[(i+seed+2)%4])
		}
		for ci, sc := range cfgs {
			cases := readCases(rng, P, reps, r.Quick, seed)
			depsOff := i%6 == 1 && ci == 0
			jobs = append(jobs, job{"proxy-inproc", fmt.Sprintf("proxy-inproc P=%d %s/%s", P, sc.storage, sc.impl), P, func() {
				fp := lib.NewFakeProxy(sc.storage == "zstd")
				t, err := inprocTarget(lib.ServerOpts{Storage: sc.storage, ZstdImpl: sc.impl, MaxProxyBlobSize: P, Proxy: fp, NoDepsCheck: depsOff}, org)
				if err != nil {
					r.Inconclusive("in-process server start (proxy part): " + err.Error())
					return
				}
				defer t.close()
				runReads(r, &proxyEnv{t: t, b: fakeBackend{fp}}, cases)
			}})
		}
	}

	// ---------------- Part 4: max_proxy_blob_size through the real binary + HTTP backend ----------------
	if haveBinary {
		var specs []binSpec
		if r.Quick {
			specs = []binSpec{
				{storage: "zstd", plimit: 100, syntax: "flag"},
				{storage: "uncompressed", plimit: 4096, syntax: "env"},
				{storage: "zstd", plimit: lib.MiB, syntax: "yaml"},
				{storage: "uncompressed", plimit: 4096, syntax: "flag", raw: true, depsOff: true},
			}
		} else {
			syn := []string{"flag", "env", "yaml"}
			for i, P := range limits[:8] {
				sc := storageCfgs[(i+seed)%4]
				specs = append(specs, binSpec{storage: sc.storage, zstdImpl: sc.impl, plimit: P, syntax: syn[(i+2)%3]})
				if i%2 == 1 {
					specs = append(specs, binSpec{storage: storageCfgs[(i+1)%4].storage, plimit: P, syntax: syn[i%3], raw: true, depsOff: true})
				}
			}
		}
		for _, s := range specs {
			cases := readCases(rng, s.plimit, reps, r.Quick, seed)
			jobs = append(jobs, job{"proxy-binary", fmt.Sprintf("proxy-binary P=%d %s %s raw=%v", s.plimit, s.storage, s.syntax, s.raw), s.plimit, func() {
				hb := newHTTPBackend(s.storage == "zstd")
				defer hb.close()
				s.proxyURL = hb.srv.URL
				t, err := binaryTarget(s, org)
				if err != nil {
					r.Inconclusive("cannot start the real binary with an HTTP backend: " + err.Error())
					return
				}
				defer t.close()
				runReads(r, &proxyEnv{t: t, b: hb}, cases)
			}})
		}
	}

	var pmu sync.Mutex
	parts, perJob := map[string]float64{}, map[string]float64{}
	sort.SliceStable(jobs, func(a, b int) bool { return jobs[a].weight > jobs[b].weight })
	parallel(len(jobs), 5, func(i int) {
		t0 := time.Now()
		jobs[i].run()
		pmu.Lock()
		parts[jobs[i].part] += time.Since(t0).Seconds()
		perJob[jobs[i].name] = time.Since(t0).Seconds()
		pmu.Unlock()
	})
	r.Extra("busy_s_per_part", parts)
	r.Extra("busy_s_per_system", perJob)
	r.Extra("systems_under_test", len(jobs))

	vacuity(r)
}

// vacuity: a run in which a required path never reached the server, or in
// which no within-limit control object was ever served from the backend (the
// backend is not wired in at all), has observed nothing.
func vacuity(r *lib.Run) {
	for _, fx := range []string{"inproc", "binary"} {
		if fx == "binary" {
			if _, err := os.Stat(lib.BinPath("bazel-remote")); err != nil {
				continue
			}
		}
		for _, p := range append(append(append([]string{}, casPaths...), inlinePaths...), acPaths...) {
			ref := r.Counter(fmt.Sprintf("upload.%s.%s.plain/above.refused", fx, p)) + r.Counter(fmt.Sprintf("upload.%s.%s.plain/above.accepted", fx, p))
			ok := r.Counter(fmt.Sprintf("upload.%s.%s.plain/at.accepted", fx, p)) + r.Counter(fmt.Sprintf("upload.%s.%s.plain/at.refused", fx, p))
			if ref == 0 || ok == 0 {
				r.Inconclusive(fmt.Sprintf("write path %s on fixture %s was not observed both above (%d) and at (%d) the limit", p, fx, ref, ok))
			}
		}
		for _, op := range append(append(append([]string{}, rdCASOps...), rdACOps...), rdDepOps...) {
			hit := r.Counter(fmt.Sprintf("proxy.%s.%s.at.hit", fx, op)) + r.Counter(fmt.Sprintf("proxy.%s.%s.below.hit", fx, op)) +
				r.Counter(fmt.Sprintf("proxy.%s.%s.at.hit(size-blind)", fx, op)) + r.Counter(fmt.Sprintf("proxy.%s.%s.below.hit(size-blind)", fx, op))
			if hit == 0 {
				r.Inconclusive(fmt.Sprintf("backend-read path %s on fixture %s never served a within-limit control object from the backend: its refusals above the limit are vacuous", op, fx))
			}
		}
	}
}

package c18

import (
	"encoding/base64"
	"encoding/hex"
	"fmt"
	"net/http"
	"net/http/httptest"
	"os"
	"path/filepath"
	"strings"
	"sync"

	"verif/harness/lib"

	"github.com/buchgr/bazel-remote/v2/cache"
	asset "github.com/buchgr/bazel-remote/v2/genproto/build/bazel/remote/asset/v1"
	pb "github.com/buchgr/bazel-remote/v2/genproto/build/bazel/remote/execution/v2"
	bs "google.golang.org/genproto/googleapis/bytestream"
	"google.golang.org/grpc/codes"
	"google.golang.org/protobuf/proto"
)

// backend is the recording object store behind the system under test.
type backend interface {
	put(kind, hash string, content []byte) // kind: "cas" | "ac" | "raw"; content = logical bytes
	remove(kind, hash string)
	asked(kind, hash string) (gets, heads int)
	// reportsSize: does an existence check on this kind tell the front end the logical size?
	reportsSize(kind string) bool
	name() string
}

// --- lib.FakeProxy (direct cache.Proxy implementation) ---

type fakeBackend struct{ p *lib.FakeProxy }

func kindOf(k string) cache.EntryKind {
	switch k {
	case "cas":
		return cache.CAS
	case "ac":
		return cache.AC
	}
	return cache.RAW
}

func (b fakeBackend) put(kind, hash string, content []byte) {
	raw := content
	if kind == "cas" && b.p.V2 {
		raw = lib.CasWrite(content, lib.MiB, 1, func(c []byte) []byte { return lib.ZstdEncodeKPCached(c, 1) })
	}
	b.p.SetRaw(kindOf(kind), hash, raw, int64(len(content)))
}
func (b fakeBackend) remove(kind, hash string) { b.p.Delete(kindOf(kind), hash) }
func (b fakeBackend) asked(kind, hash string) (int, int) {
	return b.p.GetCalls(kindOf(kind), hash), b.p.ContainsCalls(kindOf(kind), hash)
}
func (b fakeBackend) reportsSize(string) bool { return true }
func (b fakeBackend) name() string            { return "fakeproxy" }

// --- harness HTTP server spoken to by the real binary's http_proxy client ---

type httpBackend struct {
	srv  *httptest.Server
	v2   bool // front end runs in zstd storage mode: CAS objects are cas.v2 files under /cas.v2/
	mu   sync.Mutex
	objs map[string][]byte
	gets map[string]int
	hds  map[string]int
	puts int
}

func newHTTPBackend(v2 bool) *httpBackend {
	b := &httpBackend{v2: v2, objs: map[string][]byte{}, gets: map[string]int{}, hds: map[string]int{}}
	b.srv = httptest.NewServer(http.HandlerFunc(b.handle))
	return b
}

func (b *httpBackend) path(kind, hash string) string {
	if kind == "cas" && b.v2 {
		return "/cas.v2/" + hash
	}
	return "/" + kind + "/" + hash
}

func (b *httpBackend) handle(w http.ResponseWriter, r *http.Request) {
	b.mu.Lock()
	obj, ok := b.objs[r.URL.Path]
	switch r.Method {
	case http.MethodGet:
		b.gets[r.URL.Path]++
	case http.MethodHead:
		b.hds[r.URL.Path]++
	case http.MethodPut:
		b.puts++
	}
	b.mu.Unlock()
	switch r.Method {
	case http.MethodPut: // write-through from the front end: accepted and dropped
		w.WriteHeader(200)
	case http.MethodGet, http.MethodHead:
		if !ok {
			http.NotFound(w, r)
			return
		}
		w.Header().Set("Content-Type", "application/octet-stream")
		w.Header().Set("Content-Length", fmt.Sprint(len(obj)))
		w.WriteHeader(200)
		if r.Method == http.MethodGet {
			_, _ = w.Write(obj)
		}
	default:
		w.WriteHeader(405)
	}
}

func (b *httpBackend) put(kind, hash string, content []byte) {
	raw := content
	if kind == "cas" && b.v2 {
		raw = lib.CasWrite(content, lib.MiB, 1, func(c []byte) []byte { return lib.ZstdEncodeKPCached(c, 1) })
	}
	b.mu.Lock()
	b.objs[b.path(kind, hash)] = raw
	b.mu.Unlock()
}

func (b *httpBackend) remove(kind, hash string) {
	b.mu.Lock()
	delete(b.objs, b.path(kind, hash))
	b.mu.Unlock()
}

func (b *httpBackend) asked(kind, hash string) (int, int) {
	b.mu.Lock()
	defer b.mu.Unlock()
	return b.gets[b.path(kind, hash)], b.hds[b.path(kind, hash)]
}

// A HEAD on a cas.v2 object cannot tell the logical size (the front end reports "unknown").
func (b *httpBackend) reportsSize(kind string) bool { return !(kind == "cas" && b.v2) }
func (b *httpBackend) name() string                 { return "http-backend" }
func (b *httpBackend) close()                       { b.srv.Close() }

// ---------------------------------------------------------------------------

var (
	rdCASOps = []string{"bs-read", "bs-read-zstd", "batch-read", "batch-read-zstd", "http-get", "http-get-zstd", "http-head",
		"findmissing", "findmissing-batch", "findmissing-nosize", "findmissing-batch-nosize", "qws", "fetch-sri"}
	rdACOps  = []string{"ac-get-grpc", "ac-get-http", "ac-head-http", "raw-get-http", "raw-head-http"}
	rdDepOps = []string{"dep-file", "dep-stdout", "dep-stderr", "dep-tree", "dep-treefile", "dep-file-many", "dep-file-http", "dep-file-head"}
)

type rdCase struct {
	ID      int
	Op      string
	PLimit  int64
	Rel     string // below | at | above1 | above4 | far | rand-*
	Size    int    // logical size of the backend object
	Content string
}

type rdResult struct {
	skip     string
	kind     string // kind of the backend object: cas | ac | raw
	hash     string
	size     int64
	served   bool // the object's content (or a success that depends on it) was delivered
	reported bool // the object was reported present
	status   string
	judged   bool   // false: the request did not state a size and the backend cannot report one
	acKey    string // dep ops: the local AC entry
	gets     int
	heads    int
}

// proxyEnv is a target with a backend plus a few small blobs known to be local.
type proxyEnv struct {
	t      *target
	b      backend
	locals []*pb.Digest // small blobs uploaded to the front end (present locally)
}

func (e *proxyEnv) prepare(r *lib.Run) error {
	rng := r.Rng("proxy-locals-" + e.t.cfg)
	for i := 0; i < 30; i++ {
		B := lib.GenBlob(rng, 1+rng.IntN(40), "random", fmt.Sprintf("C18-local-%d", i))
		d := lib.DigestOf(B)
		if h := e.t.httpDo("PUT", e.t.casURL()+"/cas/"+d.Hash, B, nil); h.Err != nil || h.Status != 200 {
			return fmt.Errorf("cannot upload local blob: %d %v", h.Status, h.Err)
		}
		e.locals = append(e.locals, d)
	}
	return nil
}

// fitTree builds a Tree of exactly target bytes whose root lists the given file digest.
func fitTree(target int, file *pb.Digest) (*pb.Tree, bool) {
	mk := func(n int, exec bool) *pb.Tree {
		return &pb.Tree{Root: &pb.Directory{Files: []*pb.FileNode{{Name: strings.Repeat("n", n), Digest: file, IsExecutable: exec}}}}
	}
	for _, exec := range []bool{false, true} {
		base := proto.Size(mk(1, exec))
		if base > target {
			continue
		}
		n := 1 + target - base
		for it := 0; it < 8 && n >= 1; it++ {
			sz := proto.Size(mk(n, exec))
			if sz == target {
				return mk(n, exec), true
			}
			n -= sz - target
		}
	}
	return nil, false
}

func execRead(r *lib.Run, e *proxyEnv, cs rdCase) rdResult {
	rng := caseRng(r.Seed, 1<<24+cs.ID)
	tag := fmt.Sprintf("C18-s%d-p%d", r.Seed, cs.ID)
	t, cl := e.t, e.t.cl
	res := rdResult{judged: true}
	ctx, cancel := lib.Ctx()
	defer cancel()
	if cs.Size <= 0 {
		res.skip = "empty-object"
		return res
	}

	switch {
	case contains(rdCASOps, cs.Op):
		B := lib.GenBlob(rng, cs.Size, cs.Content, tag)
		d := lib.DigestOf(B)
		res.kind, res.hash, res.size = "cas", d.Hash, d.SizeBytes
		e.b.put("cas", d.Hash, B)
		switch cs.Op {
		case "bs-read", "bs-read-zstd":
			name := lib.ResBlobs(d.Hash, d.SizeBytes)
			if cs.Op == "bs-read-zstd" {
				name = lib.ResZstd(d.Hash, d.SizeBytes)
			}
			data, err := cl.BSRead(ctx, name, 0, 0)
			res.status = fmt.Sprintf("ByteStream.Read %s, %d bytes", lib.Code(err), len(data))
			res.served = err == nil || len(data) > 0
		case "batch-read", "batch-read-zstd":
			req := &pb.BatchReadBlobsRequest{Digests: []*pb.Digest{d}}
			if cs.Op == "batch-read-zstd" {
				req.AcceptableCompressors = []pb.Compressor_Value{pb.Compressor_ZSTD}
			}
			resp, err := cl.CAS.BatchReadBlobs(ctx, req)
			if err != nil || len(resp.Responses) != 1 {
				res.status = fmt.Sprintf("BatchReadBlobs rpc %s", lib.Code(err))
			} else {
				c := codes.Code(resp.Responses[0].GetStatus().GetCode())
				res.status = fmt.Sprintf("BatchReadBlobs blob status %s, %d bytes", c, len(resp.Responses[0].Data))
				res.served = c == codes.OK || len(resp.Responses[0].Data) > 0
			}
		case "http-get", "http-get-zstd":
			hdr := map[string]string{}
			if cs.Op == "http-get-zstd" {
				hdr["Accept-Encoding"] = "zstd"
			}
			h := t.httpDo("GET", t.casURL()+"/cas/"+d.Hash, nil, hdr)
			res.status = fmt.Sprintf("GET /cas HTTP %d, %d bytes, err=%v", h.Status, len(h.Body), h.Err)
			res.served = h.Status == 200
		case "http-head":
			res.judged = e.b.reportsSize("cas")
			h := t.httpDo("HEAD", t.casURL()+"/cas/"+d.Hash, nil, nil)
			res.status = fmt.Sprintf("HEAD /cas HTTP %d err=%v", h.Status, h.Err)
			res.reported = h.Status == 200
		case "findmissing", "findmissing-nosize":
			q := d
			if cs.Op == "findmissing-nosize" {
				// an existence check that does not state the size (size_bytes = -1, which the
				// server tolerates): judged like HEAD /cas, i.e. when the backend reports the size
				q = &pb.Digest{Hash: d.Hash, SizeBytes: -1}
				res.judged = e.b.reportsSize("cas")
			}
			miss, err := cl.FindMissing(ctx, q)
			res.status = fmt.Sprintf("FindMissingBlobs(%s,%d) %s missing=%d", q.Hash[:8], q.SizeBytes, lib.Code(err), len(miss))
			res.reported = err == nil && len(miss) == 0
		case "findmissing-batch", "findmissing-batch-nosize":
			q := d
			if cs.Op == "findmissing-batch-nosize" {
				q = &pb.Digest{Hash: d.Hash, SizeBytes: -1}
				res.judged = e.b.reportsSize("cas")
			}
			var ds []*pb.Digest
			for i := 0; i < 14; i++ {
				ds = append(ds, e.locals[rng.IntN(len(e.locals))])
			}
			for i := 0; i < 15; i++ {
				ds = append(ds, &pb.Digest{Hash: lib.RandHash(rng), SizeBytes: 1 + int64(rng.IntN(50))})
			}
			pos := rng.IntN(len(ds) + 1)
			ds = append(ds[:pos], append([]*pb.Digest{q}, ds[pos:]...)...)
			miss, err := cl.FindMissing(ctx, ds...)
			listed := false
			for _, m := range miss {
				if m.Hash == d.Hash {
					listed = true
				}
			}
			res.status = fmt.Sprintf("FindMissingBlobs(30 digests, object at %d with size_bytes %d) %s missing=%d object listed=%v", pos, q.SizeBytes, lib.Code(err), len(miss), listed)
			res.reported = err == nil && !listed
		case "qws":
			resp, err := cl.BS.QueryWriteStatus(ctx, &bs.QueryWriteStatusRequest{ResourceName: lib.ResUpload(uuidOf(rng), d.Hash, d.SizeBytes)})
			res.status = fmt.Sprintf("QueryWriteStatus %s complete=%v", lib.Code(err), resp.GetComplete())
			res.reported = err == nil && resp.GetComplete()
		case "fetch-sri":
			res.judged = e.b.reportsSize("cas")
			raw, _ := hex.DecodeString(d.Hash)
			resp, err := cl.Asset.FetchBlob(ctx, &asset.FetchBlobRequest{Qualifiers: []*asset.Qualifier{{Name: "checksum.sri", Value: "sha256-" + base64.StdEncoding.EncodeToString(raw)}}})
			c := codes.Code(resp.GetStatus().GetCode())
			res.status = fmt.Sprintf("FetchBlob rpc %s response status %s", lib.Code(err), c)
			res.reported = err == nil && c == codes.OK
		}

	case contains(rdACOps, cs.Op):
		kind := "ac"
		if strings.HasPrefix(cs.Op, "raw-") {
			kind = "raw"
		}
		var body []byte
		if kind == "raw" {
			if t.rawURL == "" {
				res.skip = "no-unvalidated-handler"
				return res
			}
			body = lib.GenBlob(rng, cs.Size, cs.Content, tag)
		} else {
			if cs.Op != "ac-get-grpc" && t.acURL == "" {
				res.skip = "no-validated-handler"
				return res
			}
			n, pad, ok := fitAR(shapeWorker, cs.Size, 0)
			if !ok {
				res.skip = "ac-size-not-expressible"
				return res
			}
			ar := shapeWorker(n, pad)
			if n > 8 { // make the entry unique
				ar.ExecutionMetadata.Worker = fmt.Sprintf("%08x", rng.Uint32()) + ar.ExecutionMetadata.Worker[8:]
			}
			body, _ = proto.Marshal(ar)
		}
		key := lib.RandHash(rng)
		res.kind, res.hash, res.size = kind, key, int64(len(body))
		e.b.put(kind, key, body)
		switch cs.Op {
		case "ac-get-grpc":
			_, err := cl.AC.GetActionResult(ctx, &pb.GetActionResultRequest{ActionDigest: &pb.Digest{Hash: key, SizeBytes: 1}})
			res.status = "GetActionResult " + lib.Code(err).String()
			res.served = err == nil
		case "ac-get-http", "raw-get-http":
			u := t.acURL
			if kind == "raw" {
				u = t.rawURL
			}
			h := t.httpDo("GET", u+"/ac/"+key, nil, nil)
			res.status = fmt.Sprintf("GET /ac HTTP %d, %d bytes, err=%v", h.Status, len(h.Body), h.Err)
			res.served = h.Status == 200
		case "ac-head-http", "raw-head-http":
			u := t.acURL
			if kind == "raw" {
				u = t.rawURL
			}
			res.judged = e.b.reportsSize(kind)
			h := t.httpDo("HEAD", u+"/ac/"+key, nil, nil)
			res.status = fmt.Sprintf("HEAD /ac HTTP %d err=%v", h.Status, h.Err)
			res.reported = h.Status == 200
		}

	default: // dependency check of a local ActionResult whose referenced blob lives only in the backend
		if t.depsOff {
			res.skip = "deps-check-disabled"
			return res
		}
		if (cs.Op == "dep-file-http" || cs.Op == "dep-file-head") && t.acURL == "" {
			res.skip = "no-validated-handler"
			return res
		}
		ar := &pb.ActionResult{ExecutionMetadata: &pb.ExecutedActionMetadata{Worker: arWorker}}
		var obj []byte
		switch cs.Op {
		case "dep-tree":
			tree, ok := fitTree(cs.Size, e.locals[rng.IntN(len(e.locals))])
			if !ok {
				res.skip = "tree-size-not-expressible"
				return res
			}
			// unique content: perturb the filler name
			nm := tree.Root.Files[0].Name
			if len(nm) > 16 {
				tree.Root.Files[0].Name = fmt.Sprintf("%016x", rng.Uint64()) + nm[16:]
			}
			obj, _ = proto.Marshal(tree)
			ar.OutputDirectories = []*pb.OutputDirectory{{Path: "out/dir", TreeDigest: lib.DigestOf(obj)}}
		default:
			obj = lib.GenBlob(rng, cs.Size, cs.Content, tag)
		}
		d := lib.DigestOf(obj)
		res.kind, res.hash, res.size = "cas", d.Hash, d.SizeBytes
		switch cs.Op {
		case "dep-file", "dep-file-http", "dep-file-head":
			ar.OutputFiles = []*pb.OutputFile{{Path: "out/f", Digest: d}}
		case "dep-file-many":
			pos := rng.IntN(26)
			for i := 0; i < 26; i++ {
				dd := e.locals[i%len(e.locals)]
				if i == pos {
					dd = d
				}
				ar.OutputFiles = append(ar.OutputFiles, &pb.OutputFile{Path: fmt.Sprintf("out/f%02d", i), Digest: dd})
			}
			if rng.IntN(2) == 0 {
				ar.StdoutDigest = e.locals[0]
			}
		case "dep-stdout":
			ar.StdoutDigest = d
		case "dep-stderr":
			ar.StderrDigest = d
		case "dep-treefile":
			child := &pb.Directory{Files: []*pb.FileNode{{Name: "remote-" + tag, Digest: d}}}
			cb, _ := proto.Marshal(child)
			tree := &pb.Tree{Root: &pb.Directory{Files: []*pb.FileNode{{Name: "local", Digest: e.locals[1]}}, Directories: []*pb.DirectoryNode{{Name: "sub", Digest: lib.DigestOf(cb)}}},
				Children: []*pb.Directory{child}}
			tb, _ := proto.Marshal(tree)
			td := lib.DigestOf(tb)
			if h := t.httpDo("PUT", t.casURL()+"/cas/"+td.Hash, tb, nil); h.Err != nil || h.Status != 200 {
				res.skip = "tree-upload-failed"
				return res
			}
			ar.OutputDirectories = []*pb.OutputDirectory{{Path: "out/dir", TreeDigest: td}}
		}
		res.acKey = lib.RandHash(rng)
		if _, err := cl.AC.UpdateActionResult(ctx, &pb.UpdateActionResultRequest{ActionDigest: &pb.Digest{Hash: res.acKey, SizeBytes: 1}, ActionResult: ar}); err != nil {
			res.skip = "ac-setup-failed:" + lib.Code(err).String()
			return res
		}
		e.b.put("cas", d.Hash, obj)
		switch cs.Op {
		case "dep-file-http":
			h := t.httpDo("GET", t.acURL+"/ac/"+res.acKey, nil, nil)
			res.status = fmt.Sprintf("GET /ac HTTP %d err=%v", h.Status, h.Err)
			res.reported = h.Status == 200
		case "dep-file-head":
			h := t.httpDo("HEAD", t.acURL+"/ac/"+res.acKey, nil, nil)
			res.status = fmt.Sprintf("HEAD /ac HTTP %d err=%v", h.Status, h.Err)
			res.reported = h.Status == 200
		default:
			_, err := cl.AC.GetActionResult(ctx, &pb.GetActionResultRequest{ActionDigest: &pb.Digest{Hash: res.acKey, SizeBytes: 1}})
			res.status = "GetActionResult " + lib.Code(err).String()
			res.reported = err == nil
		}
	}
	res.gets, res.heads = e.b.asked(res.kind, res.hash)
	return res
}

// judgeRead: no object larger than max_proxy_blob_size is served, cached or reported present.
func judgeRead(r *lib.Run, e *proxyEnv, cs rdCase, res rdResult) {
	if res.skip != "" {
		r.Count("proxy.skipped." + res.skip)
		return
	}
	t := e.t
	P := cs.PLimit
	rel := relOf(res.size, P)
	// Take the object away from the backend; whatever is still answered afterwards was cached locally.
	e.b.remove(res.kind, res.hash)
	var cached []string
	switch res.kind {
	case "cas":
		p := t.probeCAS(res.hash, res.size, rel == "above") // controls: no need to read the body back
		if p.FindMissingPresent || p.HeadStatus == 200 || p.GetStatus == 200 {
			cached = append(cached, fmt.Sprintf("findmissing_present=%v head=%d get=%d", p.FindMissingPresent, p.HeadStatus, p.GetStatus))
		}
	default:
		p := t.probeAC(res.kind, res.hash)
		if p.GRPC == "OK" || p.HTTP == 200 {
			cached = append(cached, fmt.Sprintf("GetActionResult=%s http=%d", p.GRPC, p.HTTP))
		}
	}
	if t.indexed(res.hash) {
		cached = append(cached, "indexed locally")
	}
	if t.inproc != nil && rel == "above" {
		// the file, if any, would be <dir>/<kind>.v2/<hash[:2]>/<hash>...
		for _, kd := range []string{"cas.v2", "ac.v2", "raw.v2"} {
			es, _ := os.ReadDir(filepath.Join(t.inproc.Dir, kd, res.hash[:2]))
			for _, de := range es {
				if strings.Contains(de.Name(), res.hash) {
					cached = append(cached, "file "+kd+"/"+res.hash[:2]+"/"+de.Name())
				}
			}
		}
	}

	r.Eval()
	r.Distinct("proxy", t.fixture, cs.Op, fmt.Sprint(P), cs.Rel, rel)
	outcome := "miss"
	if res.served || res.reported {
		outcome = "hit"
	}
	if !res.judged {
		outcome += "(size-blind)"
	}
	r.Count(fmt.Sprintf("proxy.%s.%s.%s.%s", t.fixture, cs.Op, rel, outcome))
	r.Count("config." + t.fixture + "." + t.storage + ".backend")
	if res.gets > 0 || res.heads > 0 {
		r.Count(fmt.Sprintf("proxy.%s.%s.backend-asked", cs.Op, rel))
	}
	if len(cached) > 0 {
		r.Count(fmt.Sprintf("proxy.%s.%s.cached", cs.Op, rel))
	}
	if rel != "above" {
		return // objects within the limit are controls (they show that the path really reaches the backend)
	}
	key := "C18:proxy:" + cs.Op
	detail := map[string]any{"fixture": t.fixture, "config": t.cfg, "backend": e.b.name(), "case": cs, "object_kind": res.kind, "object_hash": res.hash, "object_logical_size": res.size,
		"status": res.status, "backend_gets": res.gets, "backend_heads": res.heads, "cached_evidence": cached, "local_ac_key": res.acKey,
		"replay_note": "object content = lib.GenBlob(PCG(seed*1000003+(1<<24)+case.ID, 0xC18), Size, Content, 'C18-s<seed>-p<ID>'); see checks/c18/proxy.go execRead"}
	if res.served {
		violate(r, t, key+":served", fmt.Sprintf("backend object of logical size %d > max_proxy_blob_size %d was served on %s: %s (%s)", res.size, P, cs.Op, res.status, t.cfg), detail)
	}
	if res.reported && res.judged {
		violate(r, t, key+":reported-present", fmt.Sprintf("backend object of logical size %d > max_proxy_blob_size %d was reported present on %s: %s (%s)", res.size, P, cs.Op, res.status, t.cfg), detail)
	}
	if len(cached) > 0 {
		violate(r, t, key+":cached", fmt.Sprintf("backend object of logical size %d > max_proxy_blob_size %d was cached locally after %s (%s): %v (%s)", res.size, P, cs.Op, res.status, cached, t.cfg), detail)
	}
}

package c18

import (
	"bytes"
	"context"
	"fmt"
	"io"
	"net/http"
	"os"
	"path/filepath"
	"strings"
	"sync"
	"time"

	"verif/harness/lib"

	asset "github.com/buchgr/bazel-remote/v2/genproto/build/bazel/remote/asset/v1"
	pb "github.com/buchgr/bazel-remote/v2/genproto/build/bazel/remote/execution/v2"
	bs "google.golang.org/genproto/googleapis/bytestream"
	"google.golang.org/grpc"
	"google.golang.org/grpc/credentials/insecure"
)

// target is one system under test seen from the client side. For the
// in-process fixture cl is the real *lib.Server; for the real binary it is a
// bare client wrapper (only the exported client fields are filled in).
type target struct {
	fixture  string // "inproc" | "binary"
	cfg      string // human readable configuration (part of every detail object)
	storage  string
	limit    int64 // max_blob_size (0 = not configured)
	plimit   int64 // max_proxy_blob_size (0 = not configured)
	depsOff  bool  // gRPC AC dependency check disabled
	cl       *lib.Server
	inproc   *lib.Server // nil for the binary
	child    *lib.Child
	acURL    string // HTTP handler with AC validation ("" = not served)
	rawURL   string // HTTP handler without AC validation ("" = not served)
	origin   *origin
	cleanups []func()
}

func (t *target) casURL() string {
	if t.acURL != "" {
		return t.acURL
	}
	return t.rawURL
}

func (t *target) close() {
	for i := len(t.cleanups) - 1; i >= 0; i-- {
		t.cleanups[i]()
	}
}

// died reports whether the system under test is gone (binary fixture).
func (t *target) died() (bool, string) {
	if t.child == nil {
		return false, ""
	}
	if t.child.Exited() {
		_, msg := t.child.Panicked()
		return true, msg + " | " + t.child.LogTail(600)
	}
	return false, ""
}

func newHTTPClient() *http.Client {
	return &http.Client{Transport: &http.Transport{MaxIdleConnsPerHost: 64, DisableCompression: true}, Timeout: 180 * time.Second}
}

// inprocTarget starts an in-process server.
func inprocTarget(o lib.ServerOpts, org *origin) (*target, error) {
	o.AssetAPI = true
	o.RawHTTP = true
	if o.MaxSize == 0 {
		o.MaxSize = 64 << 30
	}
	srv, err := lib.StartServer(o)
	if err != nil {
		return nil, err
	}
	t := &target{fixture: "inproc", storage: srv.Opts.Storage, limit: o.MaxBlobSize, plimit: o.MaxProxyBlobSize, depsOff: o.NoDepsCheck,
		cl: srv, inproc: srv, acURL: srv.HTTPURL, rawURL: srv.RawURL, origin: org}
	t.cfg = fmt.Sprintf("inproc storage=%s impl=%s max_blob_size=%d max_proxy_blob_size=%d deps_check=%v", srv.Opts.Storage, srv.Opts.ZstdImpl, o.MaxBlobSize, o.MaxProxyBlobSize, !o.NoDepsCheck)
	t.cleanups = append(t.cleanups, srv.Close)
	return t, nil
}

// binSpec describes one start of the real binary.
type binSpec struct {
	storage   string
	limit     int64  // --max_blob_size (0 = leave default)
	plimit    int64  // --max_proxy_blob_size (0 = leave default)
	syntax    string // "flag" | "env" | "yaml": how the two limits are given
	raw       bool   // --disable_http_ac_validation
	depsOff   bool   // --disable_grpc_ac_deps_check
	proxyURL  string // --http_proxy.url
	zstdImpl  string
	extraArgs []string
}

var binStartMu sync.Mutex // FreePort + start is not atomic; serialise starts within this process

// binaryTarget launches the real binary; a start that fails (e.g. the chosen
// port was taken in the meantime, or the machine is overloaded) is retried twice.
func binaryTarget(s binSpec, org *origin) (t *target, err error) {
	for attempt := 0; attempt < 3; attempt++ {
		if t, err = binaryTargetOnce(s, org); err == nil {
			return t, nil
		}
	}
	return nil, err
}

// binaryTargetOnce launches /verif/bin/bazel-remote configured by flags, environment or a YAML file.
func binaryTargetOnce(s binSpec, org *origin) (*target, error) {
	if s.zstdImpl == "" {
		s.zstdImpl = "go"
	}
	if s.syntax == "" {
		s.syntax = "flag"
	}
	dir := lib.MkTemp("c18bin")
	var child *lib.Child
	var err error
	binStartMu.Lock()
	switch s.syntax {
	case "yaml":
		httpAddr := fmt.Sprintf("127.0.0.1:%d", lib.FreePort())
		grpcAddr := fmt.Sprintf("127.0.0.1:%d", lib.FreePort())
		var y strings.Builder
		fmt.Fprintf(&y, "dir: %s\nmax_size: 1\nhttp_address: %s\ngrpc_address: %s\nstorage_mode: %s\nzstd_implementation: %s\nexperimental_remote_asset_api: true\n",
			dir, httpAddr, grpcAddr, s.storage, s.zstdImpl)
		if s.limit > 0 {
			fmt.Fprintf(&y, "max_blob_size: %d\n", s.limit)
		}
		if s.plimit > 0 {
			fmt.Fprintf(&y, "max_proxy_blob_size: %d\n", s.plimit)
		}
		if s.raw {
			y.WriteString("disable_http_ac_validation: true\n")
		}
		if s.depsOff {
			y.WriteString("disable_grpc_ac_deps_check: true\n")
		}
		if s.proxyURL != "" {
			fmt.Fprintf(&y, "http_proxy:\n  url: %s\n", s.proxyURL)
		}
		cf := filepath.Join(dir, "..", filepath.Base(dir)+".yaml")
		if werr := os.WriteFile(cf, []byte(y.String()), 0o644); werr != nil {
			binStartMu.Unlock()
			_ = os.RemoveAll(dir)
			return nil, werr
		}
		defer func() { _ = os.Remove(cf) }()
		child, err = lib.StartBinary(lib.BinaryOpts{NoDefault: true, Args: []string{"--config_file=" + cf}})
		if child != nil {
			child.HTTPAddr, child.GRPCAddr, child.Dir = httpAddr, grpcAddr, dir
			if err == nil && !(child.WaitPort(httpAddr, 60*time.Second) && child.WaitPort(grpcAddr, 60*time.Second)) {
				err = fmt.Errorf("bazel-remote (yaml config) did not start listening: %s", child.LogTail(600))
			}
		}
	default:
		args := []string{"--storage_mode=" + s.storage, "--zstd_implementation=" + s.zstdImpl, "--experimental_remote_asset_api"}
		var env []string
		if s.syntax == "env" {
			if s.limit > 0 {
				env = append(env, fmt.Sprintf("BAZEL_REMOTE_MAX_BLOB_SIZE=%d", s.limit))
			}
			if s.plimit > 0 {
				env = append(env, fmt.Sprintf("BAZEL_REMOTE_MAX_PROXY_BLOB_SIZE=%d", s.plimit))
			}
		} else {
			if s.limit > 0 {
				args = append(args, fmt.Sprintf("--max_blob_size=%d", s.limit))
			}
			if s.plimit > 0 {
				args = append(args, fmt.Sprintf("--max_proxy_blob_size=%d", s.plimit))
			}
		}
		if s.raw {
			args = append(args, "--disable_http_ac_validation")
		}
		if s.depsOff {
			args = append(args, "--disable_grpc_ac_deps_check")
		}
		if s.proxyURL != "" {
			args = append(args, "--http_proxy.url="+s.proxyURL)
		}
		args = append(args, s.extraArgs...)
		child, err = lib.StartBinary(lib.BinaryOpts{Dir: dir, Args: args, Env: env, WaitReady: 60 * time.Second})
	}
	binStartMu.Unlock()
	stop := func() {
		if child != nil && child.Cmd != nil && child.Cmd.Process != nil {
			child.Stop()
		}
		_ = os.RemoveAll(dir)
	}
	if err != nil {
		stop()
		return nil, err
	}
	conn, err := grpc.NewClient(child.GRPCAddr, grpc.WithTransportCredentials(insecure.NewCredentials()),
		grpc.WithDefaultCallOptions(grpc.MaxCallRecvMsgSize(64*lib.MiB), grpc.MaxCallSendMsgSize(64*lib.MiB)))
	if err != nil {
		stop()
		return nil, err
	}
	cl := &lib.Server{HTTPURL: "http://" + child.HTTPAddr, Conn: conn, GRPCAddr: child.GRPCAddr,
		AC: pb.NewActionCacheClient(conn), CAS: pb.NewContentAddressableStorageClient(conn), BS: bs.NewByteStreamClient(conn),
		Cap: pb.NewCapabilitiesClient(conn), Asset: asset.NewFetchClient(conn), HTTPClient: newHTTPClient()}
	t := &target{fixture: "binary", storage: s.storage, limit: s.limit, plimit: s.plimit, depsOff: s.depsOff, cl: cl, child: child, origin: org}
	if s.raw {
		t.rawURL = cl.HTTPURL
	} else {
		t.acURL = cl.HTTPURL
	}
	t.cfg = fmt.Sprintf("binary(%s) storage=%s impl=%s max_blob_size=%d max_proxy_blob_size=%d http_ac_validation=%v deps_check=%v backend=%v",
		s.syntax, s.storage, s.zstdImpl, s.limit, s.plimit, !s.raw, !s.depsOff, s.proxyURL != "")
	t.cleanups = append(t.cleanups, func() {
		_ = conn.Close()
		cl.HTTPClient.CloseIdleConnections()
		stop()
	})
	// the gRPC listener accepts before the services answer: wait for a first answer
	deadline := time.Now().Add(20 * time.Second)
	for {
		ctx, cancel := context.WithTimeout(context.Background(), 2*time.Second)
		_, err := cl.Cap.GetCapabilities(ctx, &pb.GetCapabilitiesRequest{})
		cancel()
		if err == nil {
			break
		}
		if time.Now().After(deadline) || child.Exited() {
			t.close()
			return nil, fmt.Errorf("real binary does not answer GetCapabilities: %v: %s", err, child.LogTail(600))
		}
		time.Sleep(10 * time.Millisecond)
	}
	return t, nil
}

// httpDo is lib.Server.HTTPDo with a body buffer sized from Content-Length
// (io.ReadAll's doubling dominates the cost of reading multi-megabyte blobs back).
func (t *target) httpDo(method, url string, body []byte, hdr map[string]string) lib.HTTPResult {
	var rd io.Reader
	if body != nil {
		rd = bytes.NewReader(body)
	}
	req, err := http.NewRequest(method, url, rd)
	if err != nil {
		return lib.HTTPResult{Err: err}
	}
	for k, v := range hdr {
		req.Header.Set(k, v)
	}
	resp, err := t.cl.HTTPClient.Do(req)
	if err != nil {
		return lib.HTTPResult{Err: err}
	}
	defer func() { _ = resp.Body.Close() }()
	res := lib.HTTPResult{Status: resp.StatusCode, Header: resp.Header}
	if method != "HEAD" && resp.ContentLength > 0 && resp.ContentLength < 1<<30 {
		buf := make([]byte, resp.ContentLength)
		n, rerr := io.ReadFull(resp.Body, buf)
		res.Body = buf[:n]
		if rerr != nil {
			res.BodyErr = rerr
		} else if extra, _ := io.Copy(io.Discard, resp.Body); extra > 0 {
			res.BodyErr = fmt.Errorf("%d bytes beyond Content-Length", extra)
		}
		return res
	}
	res.Body, res.BodyErr = io.ReadAll(resp.Body)
	return res
}

// probeCAS checks (hash,size) via FindMissingBlobs, HTTP HEAD and (withGet) HTTP GET.
func (t *target) probeCAS(hash string, size int64, withGet bool) lib.PresenceProbe {
	var p lib.PresenceProbe
	ctx, cancel := lib.Ctx()
	defer cancel()
	miss, err := t.cl.FindMissing(ctx, &pb.Digest{Hash: hash, SizeBytes: size})
	if err != nil {
		p.Errs = append(p.Errs, "findmissing: "+err.Error())
	} else {
		p.FindMissingPresent = len(miss) == 0
	}
	h := t.httpDo("HEAD", t.casURL()+"/cas/"+hash, nil, nil)
	if h.Err != nil {
		p.Errs = append(p.Errs, "head: "+h.Err.Error())
	}
	p.HeadStatus = h.Status
	if withGet {
		g := t.httpDo("GET", t.casURL()+"/cas/"+hash, nil, nil)
		if g.Err != nil {
			p.Errs = append(p.Errs, "get: "+g.Err.Error())
		}
		p.GetStatus, p.GetBody = g.Status, g.Body
	}
	return p
}

// parallel runs fn(i) for i in [0,n) on w workers.
func parallel(n, w int, fn func(i int)) {
	if w > n {
		w = n
	}
	var wg sync.WaitGroup
	ch := make(chan int)
	for k := 0; k < w; k++ {
		wg.Add(1)
		go func() {
			defer wg.Done()
			for i := range ch {
				fn(i)
			}
		}()
	}
	for i := 0; i < n; i++ {
		ch <- i
	}
	close(ch)
	wg.Wait()
}

// violate records a violation and counts it per fixture (the evidence shows which fixture saw it).
func violate(r *lib.Run, t *target, key, what string, detail any) {
	r.Count("violations-by-fixture." + t.fixture)
	r.Violation(key, what, detail)
}

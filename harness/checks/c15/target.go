package c15

import (
	"bytes"
	"context"
	"fmt"
	"io"
	"net/http"
	"net/url"
	"strings"
	"time"

	"verif/harness/lib"

	pb "github.com/buchgr/bazel-remote/v2/genproto/build/bazel/remote/execution/v2"
	bs "google.golang.org/genproto/googleapis/bytestream"
	"google.golang.org/grpc"
	"google.golang.org/grpc/codes"
	"google.golang.org/grpc/credentials/insecure"
	"google.golang.org/grpc/status"
)

// target is one system under test seen from the client side: up to two HTTP
// handlers on the same cache (validated -> ac namespace, unvalidated -> raw
// namespace) and gRPC.
type target struct {
	fixture  string // "inproc" | "binary" | "evict"
	cfg      string // human readable configuration
	mangle   bool
	acURL    string // validated HTTP handler ("" = not served)
	rawURL   string // unvalidated HTTP handler ("" = not served)
	ac       pb.ActionCacheClient
	cas      pb.ContentAddressableStorageClient
	bs       bs.ByteStreamClient
	hc       *http.Client
	conn     *grpc.ClientConn // owned (binary fixture)
	numItems func() int       // index size (eviction part)
}

func newHTTPClient() *http.Client {
	return &http.Client{
		Transport: &http.Transport{MaxIdleConnsPerHost: 64, DisableCompression: true},
		// Redirects (ServeMux path cleaning) are observed, never followed.
		CheckRedirect: func(*http.Request, []*http.Request) error { return http.ErrUseLastResponse },
		Timeout:       120 * time.Second,
	}
}

func targetOfServer(s *lib.Server, fixture, cfg string) *target {
	return &target{
		fixture: fixture, cfg: cfg, mangle: s.Opts.Mangle,
		acURL: s.HTTPURL, rawURL: s.RawURL,
		ac: s.AC, cas: s.CAS, bs: s.BS,
		hc:       newHTTPClient(),
		numItems: func() int { _, _, n, _ := s.Cache.Stats(); return n },
	}
}

func targetOfBinary(c *lib.Child, mangle, httpValidated bool, cfg string) (*target, error) {
	conn, err := grpc.NewClient(c.GRPCAddr, grpc.WithTransportCredentials(insecure.NewCredentials()),
		grpc.WithDefaultCallOptions(grpc.MaxCallRecvMsgSize(64*lib.MiB), grpc.MaxCallSendMsgSize(64*lib.MiB)))
	if err != nil {
		return nil, err
	}
	t := &target{
		fixture: "binary", cfg: cfg, mangle: mangle,
		ac: pb.NewActionCacheClient(conn), cas: pb.NewContentAddressableStorageClient(conn), bs: bs.NewByteStreamClient(conn),
		hc: newHTTPClient(), conn: conn,
	}
	if httpValidated {
		t.acURL = "http://" + c.HTTPAddr
	} else {
		t.rawURL = "http://" + c.HTTPAddr
	}
	// Wait until gRPC answers.
	deadline := time.Now().Add(20 * time.Second)
	for {
		ctx, cancel := context.WithTimeout(context.Background(), time.Second)
		_, err := pb.NewCapabilitiesClient(conn).GetCapabilities(ctx, &pb.GetCapabilitiesRequest{})
		cancel()
		if err == nil {
			return t, nil
		}
		if time.Now().After(deadline) || c.Exited() {
			_ = conn.Close()
			return nil, fmt.Errorf("gRPC of the binary did not come up (exited=%v): %v", c.Exited(), err)
		}
		time.Sleep(10 * time.Millisecond)
	}
}

func (t *target) close() {
	if t.conn != nil {
		_ = t.conn.Close()
	}
	t.hc.CloseIdleConnections()
}

// httpBase returns the handler that serves ns ("" if none). For the CAS either
// handler will do; pick decides.
func (t *target) httpBase(ns string, pick int) string {
	switch ns {
	case nsAC:
		return t.acURL
	case nsRAW:
		return t.rawURL
	}
	if t.acURL == "" {
		return t.rawURL
	}
	if t.rawURL == "" {
		return t.acURL
	}
	if pick%2 == 0 {
		return t.acURL
	}
	return t.rawURL
}

// instPath turns an instance name into its URL path prefix ("" -> "").
func instPath(inst string) string {
	if inst == "" {
		return ""
	}
	segs := strings.Split(inst, "/")
	for i, s := range segs {
		segs[i] = url.PathEscape(s)
	}
	return "/" + strings.Join(segs, "/")
}

// httpPath is the README's URL shape: /[instance/]{ac|cas}/<key>.
func httpPath(ns, key, inst string) string {
	dir := "ac"
	if ns == nsCAS {
		dir = "cas"
	}
	return instPath(inst) + "/" + dir + "/" + key
}

type httpRes struct {
	status int
	header http.Header
	body   []byte
	clen   int64
	err    error
}

type hideLen struct{ r io.Reader }

func (h hideLen) Read(p []byte) (int, error) { return h.r.Read(p) }

func (t *target) do(method, rawurl string, body []byte, hdr map[string]string, chunked bool) httpRes {
	var rd io.Reader
	if body != nil {
		rd = bytes.NewReader(body)
		if chunked {
			rd = hideLen{rd}
		}
	}
	req, err := http.NewRequest(method, rawurl, rd)
	if err != nil {
		return httpRes{err: err}
	}
	for k, v := range hdr {
		req.Header.Set(k, v)
	}
	resp, err := t.hc.Do(req)
	if err != nil {
		return httpRes{err: err}
	}
	defer func() { _ = resp.Body.Close() }()
	b, berr := io.ReadAll(resp.Body)
	return httpRes{status: resp.StatusCode, header: resp.Header, body: b, clen: resp.ContentLength, err: berr}
}

// httpLookup: method in GET | HEAD | GETZ (GET with Accept-Encoding: zstd).
func (t *target) httpLookup(base, path, method string) obs {
	m, hdr := method, map[string]string(nil)
	if method == "GETZ" {
		m, hdr = "GET", map[string]string{"Accept-Encoding": "zstd"}
	}
	res := t.do(m, base+path, nil, hdr, false)
	if res.err != nil {
		return obs{kind: "transport", status: res.err.Error(), length: -1}
	}
	o := obs{status: fmt.Sprint(res.status), length: -1}
	switch res.status {
	case http.StatusOK:
		o.kind = "hit"
		if m == "HEAD" {
			o.length = res.clen
			return o
		}
		o.hasBody, o.body = true, res.body
		if strings.Contains(res.header.Get("Content-Encoding"), "zstd") {
			o.zstd = true
			dec, err := lib.ZstdDecodeBoth(res.body)
			if err != nil {
				o.decErr = err.Error()
			} else {
				o.body = dec
			}
		}
		if o.body == nil {
			o.body = []byte{}
		}
	case http.StatusNotFound:
		o.kind = "miss"
	default:
		o.kind = "other"
	}
	return o
}

func codeObs(err error) obs {
	o := obs{status: lib.Code(err).String(), length: -1}
	switch lib.Code(err) {
	case codes.OK:
		o.kind = "hit"
	case codes.NotFound:
		o.kind = "miss"
	case codes.DeadlineExceeded, codes.Unavailable, codes.Canceled:
		o.kind = "transport"
	default:
		o.kind = "other"
	}
	return o
}

func (t *target) grpcGetAC(inst, key string, size int64) obs {
	ctx, cancel := lib.Ctx()
	defer cancel()
	ar, err := t.ac.GetActionResult(ctx, &pb.GetActionResultRequest{InstanceName: inst, ActionDigest: &pb.Digest{Hash: key, SizeBytes: size}})
	o := codeObs(err)
	if err == nil {
		o.ar = ar
	}
	return o
}

func (t *target) grpcPutAC(inst, key string, size int64, ar *pb.ActionResult) error {
	ctx, cancel := lib.Ctx()
	defer cancel()
	_, err := t.ac.UpdateActionResult(ctx, &pb.UpdateActionResultRequest{InstanceName: inst, ActionDigest: &pb.Digest{Hash: key, SizeBytes: size}, ActionResult: ar})
	return err
}

func (t *target) grpcFindMissing(inst, key string, size int64) obs {
	ctx, cancel := lib.Ctx()
	defer cancel()
	r, err := t.cas.FindMissingBlobs(ctx, &pb.FindMissingBlobsRequest{InstanceName: inst, BlobDigests: []*pb.Digest{{Hash: key, SizeBytes: size}}})
	o := codeObs(err)
	if err == nil && len(r.MissingBlobDigests) > 0 {
		o.kind = "miss"
	}
	return o
}

func (t *target) grpcBatchRead(inst, key string, size int64) obs {
	ctx, cancel := lib.Ctx()
	defer cancel()
	r, err := t.cas.BatchReadBlobs(ctx, &pb.BatchReadBlobsRequest{InstanceName: inst, Digests: []*pb.Digest{{Hash: key, SizeBytes: size}}})
	if err != nil {
		return codeObs(err)
	}
	if len(r.Responses) != 1 {
		return obs{kind: "other", status: fmt.Sprintf("%d responses", len(r.Responses)), length: -1}
	}
	o := codeObs(status.FromProto(r.Responses[0].Status).Err())
	if o.kind == "hit" {
		o.hasBody, o.body = true, r.Responses[0].Data
		if o.body == nil {
			o.body = []byte{}
		}
	}
	return o
}

func (t *target) grpcBatchUpdate(inst, key string, size int64, data []byte) error {
	ctx, cancel := lib.Ctx()
	defer cancel()
	r, err := t.cas.BatchUpdateBlobs(ctx, &pb.BatchUpdateBlobsRequest{InstanceName: inst, Requests: []*pb.BatchUpdateBlobsRequest_Request{{Digest: &pb.Digest{Hash: key, SizeBytes: size}, Data: data}}})
	if err != nil {
		return err
	}
	if len(r.Responses) != 1 {
		return fmt.Errorf("%d responses", len(r.Responses))
	}
	return status.FromProto(r.Responses[0].Status).Err()
}

func bsPrefix(inst string) string {
	if inst == "" {
		return ""
	}
	return inst + "/"
}

func (t *target) bsRead(inst, key string, size int64, zstd bool) obs {
	ctx, cancel := lib.Ctx()
	defer cancel()
	name := bsPrefix(inst) + lib.ResBlobs(key, size)
	if zstd {
		name = bsPrefix(inst) + lib.ResZstd(key, size)
	}
	st, err := t.bs.Read(ctx, &bs.ReadRequest{ResourceName: name})
	if err != nil {
		return codeObs(err)
	}
	var buf bytes.Buffer
	for {
		m, err := st.Recv()
		if err == io.EOF {
			break
		}
		if err != nil {
			return codeObs(err)
		}
		buf.Write(m.Data)
	}
	o := obs{kind: "hit", status: "OK", length: -1, hasBody: true, body: buf.Bytes()}
	if zstd {
		o.zstd = true
		dec, err := lib.ZstdDecodeBoth(buf.Bytes())
		if err != nil {
			o.decErr = err.Error()
		} else {
			o.body = dec
		}
	}
	if o.body == nil {
		o.body = []byte{}
	}
	return o
}

func (t *target) bsWrite(inst, uuid, key string, size int64, data []byte) error {
	ctx, cancel := lib.Ctx()
	defer cancel()
	st, err := t.bs.Write(ctx)
	if err != nil {
		return err
	}
	_ = st.Send(&bs.WriteRequest{ResourceName: bsPrefix(inst) + lib.ResUpload(uuid, key, size), Data: data, FinishWrite: true})
	_, err = st.CloseAndRecv()
	return err
}

package c15

import (
	"fmt"
	"math/rand/v2"
	"net/url"
	"path"
	"strings"
	"sync"

	"verif/harness/lib"

	pb "github.com/buchgr/bazel-remote/v2/genproto/build/bazel/remote/execution/v2"
	"google.golang.org/protobuf/proto"
)

// ---------------------------------------------------------------------------
// Instance names.

type instInfo struct {
	name   string
	class  string
	httpOK bool // expressible as a clean URL path prefix
}

var longInst = func() string {
	var sb strings.Builder
	for i := 0; i < 48; i++ {
		if i > 0 {
			sb.WriteByte('/')
		}
		fmt.Fprintf(&sb, "seg%04d", i*7919%10000)
	}
	return sb.String()
}()

// cleanInsts can be named on both front ends.
var cleanInsts = []instInfo{
	{"a", "plain", true},
	{"b", "plain", true},
	{"a/b", "nested", true},
	{"a/b/c", "nested", true},
	{"ac", "ac", true},
	{"cas", "cas", true},
	{"x/cas", "x/cas", true},
	{"x/ac", "x/ac", true},
	{"ac/cas/blobs", "ac/cas/blobs", true},
	{"cas/ac", "cas/ac", true},
	{"uploads", "uploads", true},
	{"blobs", "blobs", true},
	{"compressed-blobs/zstd", "compressed-blobs", true},
	{"café", "unicode", true},
	{"日本/ü", "unicode", true},
	{"a b", "space", true},
	{"%41", "percent", true},
	{"a+b", "plus", true},
	{"A", "case", true},
	{"cafe", "plain", true},
	{"caf%C3%A9", "percent", true},
	{"a%20b", "percent", true},
	{longInst, "long", true},
}

// instFamilies are groups of near-miss names that should meet in one sequence.
var instFamilies = [][]string{
	{"a", "A", "a/b", "b"},
	{"a", "a/b", "a/b/c", "b"},
	{"ac", "cas", "x/ac", "x/cas", "cas/ac", "ac/cas/blobs"},
	{"uploads", "blobs", "compressed-blobs/zstd", "ac/cas/blobs"},
	{"café", "cafe", "caf%C3%A9", "日本/ü"},
	{"a b", "a+b", "a%20b", "a"},
	{"%41", "A", "a", "a/b"},
}

func instByName(n string) instInfo {
	for _, i := range cleanInsts {
		if i.name == n {
			return i
		}
	}
	panic("unknown instance name " + n)
}

// grpcOnlyInsts are legitimate, distinct instance_name values whose HTTP
// spelling would be an unclean path.
var grpcOnlyInsts = []instInfo{
	{"/a", "lead-slash", false},
	{"a/", "trail-slash", false},
	{"a//b", "double-slash", false},
	{"a/../b", "dotdot", false},
	{".", "dot", false},
}

// bsSafe: the instance name may prefix a ByteStream resource name (REAPI
// forbids the keyword segments there).
func bsSafe(inst string) bool {
	for _, s := range strings.Split(inst, "/") {
		switch s {
		case "blobs", "uploads", "actions", "actionResults", "operations", "capabilities", "compressed-blobs":
			return false
		}
	}
	return !strings.HasPrefix(inst, "/") && !strings.HasSuffix(inst, "/") && !strings.Contains(inst, "//")
}

// ---------------------------------------------------------------------------

type keyInfo struct {
	hash  string
	blob  []byte // CAS content whose SHA-256 is hash (nil: no preimage known)
	class string // "cas-digest" | "random" | "empty"
}

func (k keyInfo) size() int64 {
	if k.blob != nil {
		return int64(len(k.blob))
	}
	return 7
}

type seqCtx struct {
	r     *lib.Run
	t     *target
	rng   *rand.Rand
	id    string
	m     *model
	keys  []keyInfo
	insts []instInfo
	deps  []*pb.Digest
	hist  []string
	opn   int
	valn  int
}

func (s *seqCtx) logf(format string, a ...any) {
	if len(s.hist) < 600 {
		s.hist = append(s.hist, fmt.Sprintf("#%d ", s.opn)+fmt.Sprintf(format, a...))
	}
}

func (s *seqCtx) tag(kind string) string {
	s.valn++
	return fmt.Sprintf("%s-%s-v%d-%08x", kind, s.id, s.valn, s.rng.Uint32())
}

func instClass(s *seqCtx, inst string) string {
	if inst == "" {
		return "none"
	}
	for _, i := range s.insts {
		if i.name == inst {
			return i.class
		}
	}
	return "unused"
}

// genAR makes a well-formed ActionResult that only references blobs that exist.
func (s *seqCtx) genAR(tag string) *pb.ActionResult {
	rng := s.rng
	ar := &pb.ActionResult{ExitCode: int32(rng.IntN(250)), ExecutionMetadata: &pb.ExecutedActionMetadata{Worker: tag}}
	if len(s.deps) > 0 {
		for i, n := 0, rng.IntN(3); i < n; i++ {
			ar.OutputFiles = append(ar.OutputFiles, &pb.OutputFile{Path: fmt.Sprintf("out/%d", i), Digest: s.deps[rng.IntN(len(s.deps))], IsExecutable: rng.IntN(2) == 0})
		}
		if rng.IntN(3) == 0 {
			ar.StdoutDigest = s.deps[rng.IntN(len(s.deps))]
		}
	}
	if rng.IntN(3) == 0 {
		ar.OutputSymlinks = append(ar.OutputSymlinks, &pb.OutputSymlink{Path: "ln", Target: strings.Repeat("t", 1+rng.IntN(300))})
	}
	return ar
}

// ---------------------------------------------------------------------------
// The oracle.

type opDesc struct {
	ns, key, inst string
	via, method   string
	unclean       string
}

func (d opDesc) String() string {
	u := ""
	if d.unclean != "" {
		u = " path=" + d.unclean
	}
	return fmt.Sprintf("%s %s/%s inst=%q via %s%s", d.method, d.ns, d.key[:8], clip(d.inst, 40), d.via, u)
}

func clip(s string, n int) string {
	if len(s) > n {
		return s[:n] + "..."
	}
	return s
}

func (s *seqCtx) mangleName() string {
	if s.t.mangle {
		return "mangle"
	}
	return "plain"
}

func (s *seqCtx) violation(d opDesc, kind, what string, sl *slot, k slotKey, o obs) {
	key := fmt.Sprintf("C15:%s:%s:%s:%s-%s:%s", s.t.fixture, s.mangleName(), d.ns, d.via, d.method, kind)
	hist := s.hist
	if len(hist) > 120 {
		hist = hist[len(hist)-120:]
	}
	keys := []map[string]any{}
	for _, ki := range s.keys {
		keys = append(keys, map[string]any{"hash": ki.hash, "class": ki.class, "blob_len": len(ki.blob)})
	}
	s.r.Violation(key, fmt.Sprintf("%s [%s]: %s: expected %s, observed %s", d, s.t.cfg, what, sl.describe(), o), map[string]any{
		"sequence": s.id, "fixture": s.t.fixture, "config": s.t.cfg, "op": d.String(), "slot": k.String(),
		"instance": d.inst, "key": d.key, "expected": sl.describe(), "observed": o.String(),
		"observed_value_belongs_to": s.m.whose(o), "keys": keys, "history_tail": hist,
	})
}

// judge compares one lookup with the reference map and narrows the slot.
func (s *seqCtx) judge(d opDesc, o obs) {
	sl, k := s.m.at(d.ns, d.key, d.inst)
	s.r.Eval()
	exp := "absent"
	if sl.definitelyPresent() {
		exp = "present"
	} else if sl.free || len(sl.alts) > 1 {
		exp = "open"
	}
	s.r.Count(fmt.Sprintf("%s.lookup.%s.%s-%s.%s", s.t.fixture, d.ns, d.via, d.method, o.kind))
	s.r.Distinct(s.t.fixture, s.t.cfg, d.ns, d.via, d.method, instClass(s, d.inst), exp, o.kind, s.keyClass(d.key))
	s.logf("%s -> %s (expected %s)", d, o, sl.describe())
	noteInstance(s.mangleName()+" "+instClass(s, d.inst), d.ns+"."+o.kind+"(map:"+exp+")")
	if d.ns != nsCAS && strings.HasPrefix(instClass(s, d.inst), "nearmiss-") {
		s.r.Count(fmt.Sprintf("%s.nearmiss-instance.%s.%s", s.t.fixture, s.mangleName(), o.kind))
	}

	if o.kind == "transport" {
		s.r.Count(s.t.fixture + ".transport-error")
		return
	}
	// A compressed read is only ever served from the CAS.
	if d.ns != nsCAS && o.zstd {
		s.violation(d, "zstd-encoded-answer", "a zstd-encoded answer for a non-CAS request", sl, k, o)
		sl.free = true
		return
	}
	if sl.free {
		return
	}
	if o.kind == "other" {
		// An answer without a value. Only a refutation if the map says a value must come back.
		if !sl.mayBeAbsent() {
			s.violation(d, "no-value-expected-hit", "request answered "+o.status+" although the reference map has a value", sl, k, o)
			sl.free = true
		}
		return
	}
	var keep []val
	for _, a := range sl.alts {
		if consistent(d.ns, sl, a, o) {
			keep = append(keep, a)
		}
	}
	if len(keep) == 0 {
		kind, what := "wrong-value", "a value other than the one the reference map holds"
		switch {
		case o.kind == "miss":
			kind, what = "miss-expected-hit", "not found although the reference map has a value"
		case !sl.definitelyPresent() && len(sl.alts) == 1:
			kind, what = "hit-expected-miss", "a hit where the reference map has nothing"
		}
		if o.decErr != "" {
			kind, what = "undecodable", "zstd answer does not decode"
		}
		if from := s.m.whose(o); len(from) > 0 && o.kind == "hit" {
			what += " (the value of " + strings.Join(from, ", ") + ")"
		}
		s.violation(d, kind, what, sl, k, o)
		sl.free = true
		return
	}
	sl.alts = keep
	if d.ns == nsAC && o.kind == "hit" && o.hasBody && len(keep) == 1 {
		sl.wire[keep[0].tag] = len(o.body)
	}
}

func (s *seqCtx) keyClass(hash string) string {
	for _, k := range s.keys {
		if k.hash == hash {
			return k.class
		}
	}
	return "?"
}

func (s *seqCtx) keyInfo(hash string) keyInfo {
	for _, k := range s.keys {
		if k.hash == hash {
			return k
		}
	}
	return keyInfo{hash: hash}
}

// instance-class x (namespace, outcome, expectation) hit matrix for the evidence file.
var (
	instMu     sync.Mutex
	instMatrix = map[string]map[string]int{}
)

func noteInstance(row, col string) {
	instMu.Lock()
	if instMatrix[row] == nil {
		instMatrix[row] = map[string]int{}
	}
	instMatrix[row][col]++
	instMu.Unlock()
}

// ---------------------------------------------------------------------------
// Lookups.

// vias lists the front ends that can name (ns, inst) on this target.
func (s *seqCtx) vias(ns string, inst instInfo) []string {
	var out []string
	switch ns {
	case nsCAS:
		if inst.httpOK && (s.t.acURL != "" || s.t.rawURL != "") {
			out = append(out, "http")
		}
		out = append(out, "grpc")
	case nsAC:
		if inst.httpOK && s.t.acURL != "" {
			out = append(out, "http")
		}
		out = append(out, "grpc")
	case nsRAW:
		if inst.httpOK && s.t.rawURL != "" {
			out = append(out, "http")
		}
	}
	return out
}

var httpMethods = []string{"GET", "HEAD", "GETZ"}

func (s *seqCtx) lookup(ns string, key keyInfo, inst instInfo, via, method string) {
	d := opDesc{ns: ns, key: key.hash, inst: inst.name, via: via, method: method}
	var o obs
	switch via {
	case "http":
		base := s.t.httpBase(ns, s.rng.IntN(2))
		if ns == nsCAS {
			if base == s.t.rawURL {
				d.via = "http-raw"
			} else {
				d.via = "http-ac"
			}
		}
		o = s.t.httpLookup(base, httpPath(ns, key.hash, inst.name), method)
	case "grpc":
		switch {
		case ns == nsAC:
			o = s.t.grpcGetAC(inst.name, key.hash, int64(1+s.rng.IntN(200)))
		case method == "findmissing":
			o = s.t.grpcFindMissing(inst.name, key.hash, key.size())
		case method == "batchread":
			o = s.t.grpcBatchRead(inst.name, key.hash, key.size())
		case method == "bsread":
			o = s.t.bsRead(inst.name, key.hash, key.size(), false)
		default:
			o = s.t.bsRead(inst.name, key.hash, key.size(), true)
		}
	}
	s.judge(d, o)
}

func (s *seqCtx) randomMethod(ns string, inst instInfo, via string) string {
	if via == "http" {
		return lib.Pick(s.rng, httpMethods)
	}
	if ns == nsAC {
		return "get"
	}
	ms := []string{"findmissing", "batchread"}
	if bsSafe(inst.name) {
		ms = append(ms, "bsread", "bsreadz")
	}
	return lib.Pick(s.rng, ms)
}

func (s *seqCtx) randomLookup() {
	ns := lib.Pick(s.rng, []string{nsCAS, nsAC, nsAC, nsRAW, nsRAW})
	key := lib.Pick(s.rng, s.keys)
	inst := s.pickInst(ns)
	vs := s.vias(ns, inst)
	if len(vs) == 0 {
		return
	}
	via := lib.Pick(s.rng, vs)
	s.lookup(ns, key, inst, via, s.randomMethod(ns, inst, via))
}

func (s *seqCtx) pickInst(ns string) instInfo {
	if ns == nsCAS && s.rng.IntN(2) == 0 {
		return instInfo{"", "none", true}
	}
	return lib.Pick(s.rng, s.insts)
}

// sweep looks every slot up through every front end that can name it.
func (s *seqCtx) sweep(all bool) {
	insts := append([]instInfo{}, s.insts...)
	insts = append(insts, instInfo{"zz/never-stored", "unused", true})
	for _, key := range s.keys {
		for _, ns := range []string{nsCAS, nsAC, nsRAW} {
			for _, inst := range insts {
				if ns == nsCAS && inst.name != "" && s.rng.IntN(3) != 0 {
					continue
				}
				for _, via := range s.vias(ns, inst) {
					if all && via == "http" {
						for _, m := range httpMethods {
							s.lookup(ns, key, inst, via, m)
						}
						continue
					}
					s.lookup(ns, key, inst, via, s.randomMethod(ns, inst, via))
				}
			}
		}
	}
}

// ---------------------------------------------------------------------------
// Stores.

func (s *seqCtx) storeResult(ns string, key keyInfo, inst instInfo, via, variant string, v val, ok bool, transport bool, status string, designedToFail bool) {
	outcome := "accepted"
	if transport {
		outcome = "transport"
	} else if !ok {
		outcome = "refused"
	}
	kind := "store"
	if designedToFail {
		kind = "badstore"
	}
	s.r.Count(fmt.Sprintf("%s.%s.%s.%s-%s.%s", s.t.fixture, kind, ns, via, variant, outcome))
	s.r.Distinct(s.t.fixture, s.t.cfg, kind, ns, via, variant, instClass(s, inst.name), outcome, key.class)
	s.logf("%s %s/%s inst=%q via %s/%s value=%s -> %s [%s]", kind, ns, key.hash[:8], clip(inst.name, 40), via, variant, v, outcome, status)
	switch {
	case transport:
		s.m.widen(ns, key.hash, inst.name, v, val{absent: true})
	case ok && designedToFail:
		// Not this property's business (C01/C11); what the server made of the
		// payload is unknown, so the slot it was aimed at is left open.
		sl, _ := s.m.at(ns, key.hash, inst.name)
		sl.free = true
	case ok:
		s.m.set(ns, key.hash, inst.name, v)
	default:
		// The statement says nothing about the slot a refused store was aimed at
		// (old value kept or dropped); every OTHER slot must be unaffected.
		s.m.widen(ns, key.hash, inst.name, val{absent: true})
	}
}

func (s *seqCtx) store(ns string, key keyInfo, inst instInfo, via string, bad bool) {
	rng := s.rng
	p := httpPath(ns, key.hash, inst.name)
	switch ns {
	case nsCAS:
		data := key.blob
		variant := "identity"
		if data == nil || bad {
			// no preimage known / corrupted content: the store must be refused
			bad = true
			if data == nil {
				data = lib.GenBlob(rng, minBlob+rng.IntN(600), "random", s.tag("junk"))
			} else {
				data = append([]byte(nil), data...)
				data[rng.IntN(len(data))] ^= 0x20
			}
			variant = "corrupt"
		}
		v := val{data: data, tag: s.tag("cas"), via: via}
		switch via {
		case "http":
			base := s.t.httpBase(nsCAS, rng.IntN(2))
			hdr := map[string]string{}
			body := data
			if !bad && rng.IntN(3) == 0 {
				variant = "zstd"
				body = zstdEncode(data, 1+rng.IntN(2))
				hdr["Content-Encoding"] = "zstd"
				hdr["X-Digest-SizeBytes"] = fmt.Sprint(len(data))
			}
			res := s.t.do("PUT", base+p, body, hdr, false)
			s.storeResult(ns, key, inst, via, variant, v, res.status/100 == 2, res.err != nil, fmt.Sprint(res.status, res.err), bad)
		case "grpc":
			var err error
			if !bad && bsSafe(inst.name) && rng.IntN(2) == 0 {
				variant = "bytestream"
				err = s.t.bsWrite(inst.name, fmt.Sprintf("%08x-0000-4000-8000-%012x", rng.Uint32(), rng.Uint64()&0xffffffffffff), key.hash, int64(len(data)), data)
			} else {
				if !bad {
					variant = "batch"
				}
				err = s.t.grpcBatchUpdate(inst.name, key.hash, int64(len(data)), data)
			}
			o := codeObs(err)
			s.storeResult(ns, key, inst, via, variant, v, err == nil, o.kind == "transport", o.status, bad)
		}
	case nsAC:
		tag := s.tag("ac")
		ar := s.genAR(tag)
		variant := "identity"
		if bad {
			variant = "bad-digest"
			ar.OutputFiles = append(ar.OutputFiles, &pb.OutputFile{Path: "bad", Digest: &pb.Digest{Hash: "not-a-hash", SizeBytes: 3}})
		}
		data, _ := proto.Marshal(ar)
		v := val{data: data, ar: ar, tag: tag, via: via}
		switch via {
		case "http":
			hdr := map[string]string{}
			body := data
			if bad && rng.IntN(2) == 0 {
				variant = "garbage"
				body = append([]byte{0xff, 0xff, 0xff, 0xff, 0x07}, []byte(tag)...)
				v = val{data: body, ar: &pb.ActionResult{}, tag: tag, via: via}
			} else if !bad && rng.IntN(4) == 0 {
				variant = "zstd"
				body = zstdEncode(data, 1+rng.IntN(2))
				hdr["Content-Encoding"] = "zstd"
				hdr["X-Digest-SizeBytes"] = fmt.Sprint(len(data))
			}
			res := s.t.do("PUT", s.t.acURL+p, body, hdr, false)
			s.storeResult(ns, key, inst, via, variant, v, res.status/100 == 2, res.err != nil, fmt.Sprint(res.status, res.err), bad)
		case "grpc":
			err := s.t.grpcPutAC(inst.name, key.hash, int64(1+rng.IntN(200)), proto.Clone(ar).(*pb.ActionResult))
			o := codeObs(err)
			s.storeResult(ns, key, inst, via, variant, v, err == nil, o.kind == "transport", o.status, bad)
		}
	case nsRAW:
		tag := s.tag("raw")
		var data []byte
		switch rng.IntN(4) {
		case 0: // looks like an ActionResult
			data, _ = proto.Marshal(s.genAR(tag))
		case 1: // looks like a zstd frame
			data = zstdEncode([]byte(tag), 1)
			data = append(data, []byte(tag)...)
		default:
			data = lib.GenBlob(rng, len(tag)+24+rng.IntN(3000), lib.Pick(rng, lib.ContentKinds), tag)
		}
		v := val{data: data, tag: tag, via: via}
		hdr := map[string]string{}
		body := data
		variant := "identity"
		chunked := false
		if bad {
			switch rng.IntN(3) {
			case 0:
				variant = "gzip-encoding"
				hdr["Content-Encoding"] = "gzip"
			case 1:
				variant = "zstd-garbage"
				hdr["Content-Encoding"] = "zstd"
				hdr["X-Digest-SizeBytes"] = fmt.Sprint(len(data))
				body = append([]byte("this is not a zstd frame "), []byte(tag)...)
				v.data = body
			default:
				variant = "no-content-length"
				chunked = true
			}
		} else if rng.IntN(4) == 0 {
			variant = "zstd"
			body = zstdEncode(data, 1+rng.IntN(2))
			hdr["Content-Encoding"] = "zstd"
			hdr["X-Digest-SizeBytes"] = fmt.Sprint(len(data))
		}
		res := s.t.do("PUT", s.t.rawURL+p, body, hdr, chunked)
		s.storeResult(ns, key, inst, via, variant, v, res.status/100 == 2, res.err != nil, fmt.Sprint(res.status, res.err), bad)
	}
}

func (s *seqCtx) randomStore(bad bool) {
	ns := lib.Pick(s.rng, []string{nsCAS, nsAC, nsAC, nsRAW, nsRAW})
	key := lib.Pick(s.rng, s.keys)
	if key.class == "empty" && ns == nsCAS {
		return // the empty blob is special in the CAS; its slot is left open
	}
	inst := s.pickInst(ns)
	vs := s.vias(ns, inst)
	if len(vs) == 0 {
		return
	}
	s.store(ns, key, inst, lib.Pick(s.rng, vs), bad)
}

// ---------------------------------------------------------------------------
// Unclean paths: never followed, never judged beyond "must not alias".

// uncleanShapes are path shapes built from the sequence's own instance names
// (I, J): a sloppy normaliser would map them onto a slot that is neither the
// literal nor the cleaned name. Tokens: I/J instance names, D the namespace
// directory (ac|cas), K the key, "" an empty segment.
var uncleanShapes = [][]string{
	{"", "D", "K"},
	{"I", "", "D", "K"},
	{"I", "..", "D", "K"},
	{"I", ".", "D", "K"},
	{"..", "D", "K"},
	{"I", "..", "J", "D", "K"},
	{"J", "..", "I", "D", "K"},
	{"", "I", "D", "K"},
	{"I", "", "J", "D", "K"},
	{"I", "D", "..", "D", "K"},
	{"cas", "..", "ac", "K"},
	{"ac", "..", "cas", "K"},
	{"I", "ac", "..", "cas", "K"},
	{"D", "", "K"},
	{"I", "J", "..", "..", "D", "K"},
}

// parseClean maps a cleaned path back to (dir, instance).
func parseClean(p string) (dir, inst string, ok bool) {
	segs := strings.Split(strings.TrimPrefix(p, "/"), "/")
	if len(segs) < 2 {
		return "", "", false
	}
	dir = segs[len(segs)-2]
	if dir != "ac" && dir != "cas" {
		return "", "", false
	}
	return dir, strings.Join(segs[:len(segs)-2], "/"), true
}

func (s *seqCtx) uncleanOp(readOnly bool) {
	rng := s.rng
	shape := lib.Pick(rng, uncleanShapes)
	key := lib.Pick(rng, s.keys)
	var named []string
	for _, i := range s.insts {
		if i.httpOK && i.name != "" {
			named = append(named, i.name)
		}
	}
	named = append(named, "a", "b")
	iName, jName := lib.Pick(rng, named), lib.Pick(rng, named)
	dir := lib.Pick(rng, []string{"ac", "ac", "ac", "cas"})
	var dec, esc []string // decoded and URL-escaped segments
	add := func(seg string) {
		dec = append(dec, seg)
		esc = append(esc, url.PathEscape(seg))
	}
	ldir := dir
	for _, tok := range shape {
		switch tok {
		case "I", "J":
			n := iName
			if tok == "J" {
				n = jName
			}
			for _, sg := range strings.Split(n, "/") {
				add(sg)
			}
		case "D":
			add(dir)
		case "K":
			add(key.hash)
		default:
			add(tok)
		}
	}
	ldir = dec[len(dec)-2]
	decoded := "/" + strings.Join(dec, "/")
	p := "/" + strings.Join(esc, "/")
	tmpl := strings.Join(shape, "/")
	// The instance a server that does not clean paths would see.
	literal := "-"
	if suffix := "/" + ldir + "/" + key.hash; (ldir == "ac" || ldir == "cas") && strings.HasSuffix(decoded, suffix) {
		literal = strings.TrimSuffix(decoded[1:], suffix)
		if literal == decoded[1:] { // "/ac/K" itself: no instance
			literal = ""
		}
	}
	var bases []string
	if s.t.acURL != "" {
		bases = append(bases, s.t.acURL)
	}
	if s.t.rawURL != "" {
		bases = append(bases, s.t.rawURL)
	}
	base := lib.Pick(rng, bases)
	nsOf := func(dir string) string {
		if dir == "cas" {
			return nsCAS
		}
		if base == s.t.rawURL {
			return nsRAW
		}
		return nsAC
	}
	cdir, cinst, cok := parseClean(path.Clean(decoded))
	u := struct{ tmpl, literal string }{tmpl, literal}
	method := lib.Pick(rng, []string{"GET", "HEAD", "GETZ", "PUT"})
	if readOnly {
		method = lib.Pick(rng, []string{"GET", "GET", "HEAD", "GETZ"})
	}
	s.r.Eval()
	if method == "PUT" {
		tag := s.tag("unclean")
		body := []byte(tag)
		ns := nsOf(ldir)
		v := val{data: body, tag: tag, via: "http-unclean"}
		if ns == nsAC {
			ar := s.genAR(tag)
			body, _ = proto.Marshal(ar)
			v = val{data: body, ar: ar, tag: tag, via: "http-unclean"}
		}
		res := s.t.do("PUT", base+p, body, nil, false)
		s.r.Count(fmt.Sprintf("%s.unclean.PUT.%d", s.t.fixture, res.status))
		s.r.Distinct(s.t.fixture, s.t.cfg, "unclean", u.tmpl, "PUT", res.status)
		s.logf("unclean PUT %s -> %d %v", p, res.status, res.err)
		if res.status/100 == 2 || res.err != nil {
			// Not seen with the ServeMux in place. The entry went to the literal
			// or to the cleaned name; both are left open, everything else stays strict.
			if u.literal != "-" {
				s.m.widen(nsOf(ldir), key.hash, u.literal, v)
			}
			if cok {
				s.m.widen(nsOf(cdir), key.hash, cinst, v)
			}
		}
		return
	}
	o := s.t.httpLookup(base, p, method)
	s.r.Count(fmt.Sprintf("%s.unclean.%s.%s", s.t.fixture, method, o.status))
	s.r.Distinct(s.t.fixture, s.t.cfg, "unclean", u.tmpl, method, o.status)
	s.logf("unclean %s %s -> %s", method, p, o)
	if o.kind != "hit" {
		return // 301/400/404/...: all fine
	}
	// A value came back for an unclean name: it may be the value of the literal
	// name or of the cleaned name, never that of another slot.
	var cands []slotKey
	okAny := false
	check := func(ns, inst string) {
		sl, k := s.m.at(ns, key.hash, inst)
		cands = append(cands, k)
		if ns != nsCAS && o.zstd {
			return // a compressed answer can only be the CAS's
		}
		if sl.free {
			okAny = true
		}
		for _, a := range sl.alts {
			if consistent(ns, sl, a, o) {
				okAny = true
			}
		}
	}
	if u.literal != "-" {
		check(nsOf(ldir), u.literal)
	}
	if cok {
		check(nsOf(cdir), cinst)
	}
	if !okAny {
		s.r.Violation(fmt.Sprintf("C15:%s:%s:unclean-path:%s:aliases-another-slot", s.t.fixture, s.mangleName(), method),
			fmt.Sprintf("%s %s [%s] returned %s, which is neither the value of the literal nor of the cleaned name (%v); belongs to %v", method, p, s.t.cfg, o, cands, s.m.whose(o)),
			map[string]any{"sequence": s.id, "config": s.t.cfg, "path": p, "observed": o.String(), "candidates": fmt.Sprint(cands), "belongs_to": s.m.whose(o), "history_tail": s.hist})
	}
}

package c15

import (
	"fmt"
	"math/rand/v2"
	"strings"
	"unicode/utf8"

	"verif/harness/lib"
)

// Long near-miss instance names: two or three clean names that agree on their
// first P bytes and differ only afterwards. The reference map says they are
// different slots like any other pair of distinct names; a key derivation that
// looks at a bounded part of the name (a fixed buffer, a truncated header, a
// length-limited hash input) would merge them.

// nearMissLens: length in bytes of the common prefix.
var nearMissLens = []int{32, 63, 64, 65, 127, 128, 255}

const nearMissMaxLen = 600 // total length of a name in bytes

var (
	asciiAlphabet = []rune("abcdefghijklmnopqrstuvwxyz0123456789_-")
	uniAlphabet   = []rune("üéñ日本語кß")
)

// fillName makes exactly n bytes of clean path text: non-empty segments
// separated by single slashes, never starting or ending with a slash, no "."
// or ".." segments (a segment always begins with a letter).
func fillName(rng *rand.Rand, n int, uni bool) string {
	var sb strings.Builder
	seg := 0 // runes in the current segment
	for sb.Len() < n {
		rem := n - sb.Len()
		if seg >= 3 && rem >= 2 && rng.IntN(7) == 0 {
			sb.WriteByte('/')
			seg = 0
			continue
		}
		if uni && rng.IntN(4) == 0 {
			r := lib.Pick(rng, uniAlphabet)
			if l := utf8.RuneLen(r); l <= rem {
				sb.WriteRune(r)
				seg++
				continue
			}
		}
		if seg == 0 {
			sb.WriteRune(asciiAlphabet[rng.IntN(26)]) // a letter
		} else {
			sb.WriteRune(lib.Pick(rng, asciiAlphabet))
		}
		seg++
	}
	return sb.String()
}

// straddleSets: runes that share their first k bytes, so that a common prefix
// can end inside a rune.
var straddleSets = []struct {
	k     int
	runes []string
}{
	{1, []string{"é", "è", "ê"}}, // C3 A9 / C3 A8 / C3 AA
	{2, []string{"日", "旦", "旧"}}, // E6 97 A5 / E6 97 A6 / E6 97 A7
	{1, []string{"日", "本", "月"}}, // E6 97 A5 / E6 9C AC / E6 9C 88
}

// commonPrefixLen in bytes.
func commonPrefixLen(a, b string) int {
	n := 0
	for n < len(a) && n < len(b) && a[n] == b[n] {
		n++
	}
	return n
}

// nearMissFamily returns 2-3 distinct clean names that agree on (at least)
// their first P bytes, total length <= nearMissMaxLen.
func nearMissFamily(rng *rand.Rand) []instInfo {
	p := lib.Pick(rng, nearMissLens)
	uni := rng.IntN(2) == 0
	// how long the names get: just past the split, medium, or near the cap
	tailLen := func() int {
		room := nearMissMaxLen - p - 8
		switch rng.IntN(3) {
		case 0:
			return rng.IntN(6)
		case 1:
			return rng.IntN(room/3 + 1)
		default:
			return room - rng.IntN(20)
		}
	}
	var names []string
	kind := "ascii"
	if uni && rng.IntN(2) == 0 {
		// the split falls inside a rune
		kind = "rune-split"
		set := lib.Pick(rng, straddleSets)
		head := fillName(rng, p-set.k, true)
		shared := fillName(rng, tailLen(), true)
		for _, r := range set.runes {
			tail := shared // identical tails: the names differ in a single byte
			if rng.IntN(2) == 0 {
				tail = fillName(rng, tailLen(), true)
			}
			if tail != "" && rng.IntN(2) == 0 {
				tail = "/" + tail
			}
			names = append(names, head+r+tail)
		}
	} else {
		if uni {
			kind = "unicode"
		}
		head := fillName(rng, p, uni)
		for _, mark := range []string{"x", "y"} {
			tail := fillName(rng, tailLen(), uni)
			sep := ""
			if rng.IntN(2) == 0 {
				sep = "/" // the difference starts a new path segment
			}
			names = append(names, head+sep+mark+tail)
		}
		if rng.IntN(2) == 0 {
			names = append(names, head) // the common prefix itself is a name too
		}
	}
	rng.Shuffle(len(names), func(i, j int) { names[i], names[j] = names[j], names[i] })
	var out []instInfo
	for _, n := range names {
		if len(n) > nearMissMaxLen {
			n = n[:nearMissMaxLen]
			for !utf8.ValidString(n) || strings.HasSuffix(n, "/") {
				n = n[:len(n)-1]
			}
		}
		out = append(out, instInfo{name: n, class: fmt.Sprintf("nearmiss-%s-p%d", kind, p), httpOK: true})
	}
	// self-check of the generator: valid UTF-8 (gRPC string field), clean, distinct, common prefix >= p
	for i, a := range out {
		if !utf8.ValidString(a.name) || strings.Contains(a.name, "//") || strings.HasPrefix(a.name, "/") || strings.HasSuffix(a.name, "/") {
			panic("c15: near-miss generator made an unclean name: " + a.name)
		}
		for _, b := range out[:i] {
			if a.name == b.name || commonPrefixLen(a.name, b.name) < p {
				panic(fmt.Sprintf("c15: near-miss generator: %q vs %q (p=%d)", a.name, b.name, p))
			}
		}
	}
	return out
}

// Package c15 checks property C15: the CAS, the validated action cache and the
// raw action cache are independent namespaces, a compressed read is only ever
// served from the CAS, and AC key instance mangling separates action results
// by instance name identically on both front ends.
//
// Technique: runtime monitoring against a reference map
// (namespace, key, instance-or-none) -> value that knows nothing about the
// server's key derivation. Random histories of stores, overwrites, refused
// stores and lookups use the same 64-hex key in all three namespaces, through
// two HTTP handlers and gRPC on one cache; a second part puts a tiny cache
// under eviction pressure so that exactly one namespace loses the key; a third
// part replays the workload against the real binary (ServeMux in front).
package c15

import (
	"fmt"
	"math/rand/v2"
	"os"
	"strings"
	"sync"
	"time"

	"verif/harness/lib"
)

func init() { lib.Register("C15", run) }

func run(r *lib.Run) {
	r.SetRule("distinct = (fixture, configuration{mangle,deps-check,storage}, namespace, front end, method/store variant, instance-name class, what the reference map expected {present,absent,open}, outcome, key class {cas-digest,random,empty}); non-trivial = the request reached the server and was compared with the reference map")
	r.Assume("instance names given to HTTP are clean paths (README); unclean spellings are only required not to alias another slot")
	r.Assume("ActionResults reference only blobs that stay in the CAS, so validated lookups of a stored entry hit")

	// Development knob only (which part catches a seeded change); default: all parts.
	parts := os.Getenv("VERIF_C15_PARTS")
	on := func(p string) bool { return parts == "" || strings.Contains(parts, p) }
	t0 := time.Now()
	if on("inproc") {
		runInproc(r)
	}
	t1 := time.Now()
	if on("evict") {
		runEvict(r)
	}
	t2 := time.Now()
	if on("binary") {
		runBinary(r)
	}
	r.Extra("wall_s_by_part", map[string]float64{"inproc": t1.Sub(t0).Seconds(), "evict": t2.Sub(t1).Seconds(), "binary": time.Since(t2).Seconds()})

	if n := headLenUnexplained.Load(); n > 0 {
		r.CountN("lookup.ac.http-HEAD.content-length-unexplained(not-judged)", n)
	}
	instMu.Lock()
	r.Extra("instance_class_matrix", instMatrix)
	instMu.Unlock()

	// A run that did not exercise what it claims is not a pass.
	need := []string{
		"inproc.store.cas.http-identity.accepted", "inproc.store.cas.grpc-batch.accepted",
		"inproc.store.ac.http-identity.accepted", "inproc.store.ac.grpc-identity.accepted",
		"inproc.store.raw.http-identity.accepted",
		"inproc.lookup.ac.http-GET.hit", "inproc.lookup.ac.grpc-get.hit", "inproc.lookup.raw.http-GETZ.hit",
		"inproc.lookup.cas.http-ac-GETZ.hit", "inproc.lookup.ac.grpc-get.miss",
		"evict.victim-evicted-others-strict",
		"binary.lookup.ac.grpc-get.hit",
		"inproc.nearmiss-instance.mangle.hit", "inproc.nearmiss-instance.mangle.miss", "inproc.nearmiss-instance.plain.hit",
		"binary.nearmiss-instance.mangle.hit", "binary.nearmiss-instance.mangle.miss",
	}
	for _, k := range need {
		if !on(strings.SplitN(k, ".", 2)[0]) {
			continue
		}
		if r.Counter(k) == 0 {
			r.Inconclusive("required observation never made: " + k)
		}
	}
}

// ---------------------------------------------------------------------------

// minBlob: every generated blob is long enough to carry its unique stamp
// (tag + 64 random bits), so that blobs of different sequences sharing one
// server can never have the same digest.
const minBlob = 64

func parallel(n, workers int, f func(i int)) {
	var wg sync.WaitGroup
	ch := make(chan int)
	for w := 0; w < workers; w++ {
		wg.Add(1)
		go func() {
			defer wg.Done()
			for i := range ch {
				f(i)
			}
		}()
	}
	for i := 0; i < n; i++ {
		ch <- i
	}
	close(ch)
	wg.Wait()
}

func pickInsts(rng *rand.Rand, nClean int, grpcOnly bool) []instInfo {
	out := []instInfo{{"", "none", true}}
	if rng.IntN(3) == 0 {
		// long names that agree on their first 32..255 bytes
		fam := nearMissFamily(rng)
		for i := 0; i < nClean && i < len(fam); i++ {
			out = append(out, fam[i])
		}
	} else if rng.IntN(2) == 0 {
		fam := lib.Pick(rng, instFamilies)
		perm := rng.Perm(len(fam))
		for i := 0; i < nClean && i < len(fam); i++ {
			out = append(out, instByName(fam[perm[i]]))
		}
	} else {
		perm := rng.Perm(len(cleanInsts))
		for i := 0; i < nClean; i++ {
			out = append(out, cleanInsts[perm[i]])
		}
	}
	if grpcOnly {
		g := lib.Pick(rng, grpcOnlyInsts)
		out = append(out, g)
		// its clean near-miss, so that the two meet in one sequence
		if c, ok := map[string]string{"/a": "a", "a/": "a", "a//b": "a/b", "a/../b": "b"}[g.name]; ok {
			have := false
			for _, i := range out {
				have = have || i.name == c
			}
			if !have {
				out = append(out, instByName(c))
			}
		}
	}
	return out
}

// newSequence prepares keys (the same key is used in every namespace),
// dependency blobs and instance names.
func newSequence(r *lib.Run, t *target, id string, rng *rand.Rand) *seqCtx {
	s := &seqCtx{r: r, t: t, rng: rng, id: id, m: newModel(t.mangle)}
	for i := 0; i < 2; i++ {
		b := lib.GenBlob(rng, minBlob+rng.IntN(3000), lib.Pick(rng, lib.ContentKinds), fmt.Sprintf("%s-k%d", id, i))
		s.keys = append(s.keys, keyInfo{hash: lib.Sha256Hex(b), blob: b, class: "cas-digest"})
	}
	s.keys = append(s.keys, keyInfo{hash: lib.RandHash(rng), class: "random"})
	s.insts = pickInsts(rng, 3, rng.IntN(2) == 0)
	return s
}

func (s *seqCtx) storeDeps() bool {
	for i := 0; i < 2; i++ {
		b := lib.GenBlob(s.rng, minBlob+s.rng.IntN(500), "random", fmt.Sprintf("%s-dep%d", s.id, i))
		d := lib.DigestOf(b)
		if err := s.t.grpcBatchUpdate("", d.Hash, d.SizeBytes, b); err != nil {
			s.r.Count(s.t.fixture + ".setup-failed")
			s.r.Inconclusive(fmt.Sprintf("%s: could not store a dependency blob: %v", s.id, err))
			return false
		}
		s.deps = append(s.deps, d)
	}
	return true
}

func runSequence(r *lib.Run, t *target, id string, rng *rand.Rand) {
	s := newSequence(r, t, id, rng)
	if !s.storeDeps() {
		return
	}
	nops := 12 + rng.IntN(19)
	for s.opn = 1; s.opn <= nops; s.opn++ {
		switch p := rng.IntN(100); {
		case p < 40:
			s.randomLookup()
		case p < 76:
			s.randomStore(false)
		case p < 88:
			s.randomStore(true)
		case p < 96:
			s.uncleanOp(false)
		default:
			s.randomLookup()
			s.randomLookup()
		}
	}
	s.opn = 999
	s.sweep(rng.IntN(5) == 0)
	for i := 0; i < 4; i++ {
		s.uncleanOp(true) // with values in place: an unclean spelling must not reach another slot
	}
	r.Count(t.fixture + ".sequences")
	var insts []string
	for _, i := range s.insts {
		insts = append(insts, clip(i.name, 30))
	}
	h := s.hist
	if len(h) > 8 {
		h = h[:8]
	}
	r.Sample(map[string]any{"sequence": id, "fixture": t.fixture, "config": t.cfg, "key0": s.keys[0].hash, "instances": insts, "first_ops": h})
}

// ---------------------------------------------------------------------------
// Part 1: in-process, one cache behind two HTTP handlers and gRPC.

func runInproc(r *lib.Run) {
	type cfgT struct {
		mangle, noDeps bool
		storage        string
	}
	var cfgs []cfgT
	for _, m := range []bool{true, false} {
		for _, nd := range []bool{false, true} {
			for _, st := range []string{"zstd", "uncompressed"} {
				cfgs = append(cfgs, cfgT{m, nd, st})
			}
		}
	}
	var targets []*target
	var servers []*lib.Server
	for _, c := range cfgs {
		srv, err := lib.StartServer(lib.ServerOpts{MaxSize: 4 << 30, Storage: c.storage, Mangle: c.mangle, NoDepsCheck: c.noDeps, RawHTTP: true})
		if err != nil {
			r.Inconclusive("cannot start in-process server: " + err.Error())
			continue
		}
		servers = append(servers, srv)
		targets = append(targets, targetOfServer(srv, "inproc", fmt.Sprintf("mangle=%v grpc-deps-check=%v storage=%s http=validated+raw", c.mangle, !c.noDeps, c.storage)))
	}
	defer func() {
		for i, s := range servers {
			targets[i].close()
			s.Close()
		}
	}()
	if len(targets) == 0 {
		return
	}
	n := r.N(300, 6000)
	parallel(n, 8, func(i int) {
		runSequence(r, targets[i%len(targets)], fmt.Sprintf("p%d", i), r.Rng(fmt.Sprintf("inproc-%d", i)))
	})
	// The empty-blob key (special in the CAS) on private servers: one sequence
	// each, so that nobody else uses that key's ac/raw slots.
	ne := r.N(4, 40)
	for i := 0; i < ne; i++ {
		rng := r.Rng(fmt.Sprintf("inproc-empty-%d", i))
		srv, err := lib.StartServer(lib.ServerOpts{MaxSize: 1 << 30, Storage: lib.Pick(rng, []string{"zstd", "uncompressed"}), Mangle: i%2 == 0, RawHTTP: true})
		if err != nil {
			r.Inconclusive("cannot start in-process server: " + err.Error())
			return
		}
		t := targetOfServer(srv, "inproc", fmt.Sprintf("mangle=%v grpc-deps-check=true storage=%s http=validated+raw private", i%2 == 0, srv.Opts.Storage))
		runSequenceWithEmpty(r, t, fmt.Sprintf("e%d", i), rng)
		t.close()
		srv.Close()
	}
}

// runSequenceWithEmpty forces the empty-blob key into the key set.
func runSequenceWithEmpty(r *lib.Run, t *target, id string, rng *rand.Rand) {
	s := newSequence(r, t, id, rng)
	s.keys = append(s.keys, keyInfo{hash: lib.EmptySha256, blob: []byte{}, class: "empty"})
	sl, _ := s.m.at(nsCAS, lib.EmptySha256, "")
	sl.free = true
	if !s.storeDeps() {
		return
	}
	nops := 20 + rng.IntN(11)
	empty := s.keys[len(s.keys)-1]
	for s.opn = 1; s.opn <= nops; s.opn++ {
		if rng.IntN(3) == 0 {
			// bias towards the special key
			ns := lib.Pick(rng, []string{nsAC, nsRAW})
			inst := s.pickInst(ns)
			if vs := s.vias(ns, inst); len(vs) > 0 {
				if rng.IntN(2) == 0 {
					s.store(ns, empty, inst, lib.Pick(rng, vs), false)
				} else {
					via := lib.Pick(rng, vs)
					s.lookup(ns, empty, inst, via, s.randomMethod(ns, inst, via))
				}
			}
			continue
		}
		switch p := rng.IntN(100); {
		case p < 45:
			s.randomLookup()
		case p < 85:
			s.randomStore(false)
		default:
			s.randomStore(true)
		}
	}
	s.opn = 999
	s.sweep(true)
	r.Count(t.fixture + ".sequences-empty-key")
}

// ---------------------------------------------------------------------------
// Part 2: eviction. A tiny cache; recency is arranged so that the next
// eviction hits key k in one namespace only.

type evSlot struct {
	ns   string
	inst instInfo
}

func runEvict(r *lib.Run) {
	pool := lib.NewDirPool("c15-evict")
	defer pool.Close()
	n := r.N(40, 600)
	parallel(n, 8, func(i int) {
		evictCase(r, pool, fmt.Sprintf("v%d", i), r.Rng(fmt.Sprintf("evict-%d", i)))
	})
}

func evictCase(r *lib.Run, pool *lib.DirPool, id string, rng *rand.Rand) {
	capN := 12 + rng.IntN(8)
	mangle := rng.IntN(3) != 0
	storage := lib.Pick(rng, []string{"zstd", "uncompressed"})
	noDeps := rng.IntN(2) == 0
	dir := pool.Get()
	srv, err := lib.StartServer(lib.ServerOpts{Dir: dir, MaxSize: int64(capN) * lib.Block, Storage: storage, Mangle: mangle, NoDepsCheck: noDeps, RawHTTP: true})
	if err != nil {
		r.Inconclusive("cannot start tiny in-process server: " + err.Error())
		pool.Put(dir)
		return
	}
	t := targetOfServer(srv, "evict", fmt.Sprintf("mangle=%v grpc-deps-check=%v storage=%s max_size=%d*4096", mangle, !noDeps, storage, capN))
	defer func() {
		t.close()
		srv.Close()
		lib.WaitEvictionsDrained(srv.Cache, 5e9)
		pool.Put(dir)
	}()

	s := &seqCtx{r: r, t: t, rng: rng, id: id, m: newModel(mangle)}
	b := lib.GenBlob(rng, minBlob+rng.IntN(800), lib.Pick(rng, lib.ContentKinds), id+"-k")
	k := keyInfo{hash: lib.Sha256Hex(b), blob: b, class: "cas-digest"}
	s.keys = []keyInfo{k}
	s.insts = pickInsts(rng, 1+rng.IntN(2), false)

	// The distinct slots of key k.
	var slots []evSlot
	seen := map[slotKey]bool{}
	for _, ns := range []string{nsCAS, nsAC, nsRAW} {
		for _, in := range s.insts {
			nk := s.m.norm(ns, k.hash, in.name)
			if !seen[nk] {
				seen[nk] = true
				slots = append(slots, evSlot{ns, in})
			}
		}
	}
	slotOf := func(e evSlot) *slot { sl, _ := s.m.at(e.ns, k.hash, e.inst.name); return sl }
	// touch reads a slot through a path that counts as a use (a full read).
	touch := func(e evSlot) {
		inst := e.inst
		if !mangle || e.ns == nsCAS {
			inst = lib.Pick(rng, s.insts) // the instance has no effect here
		}
		via := lib.Pick(rng, s.vias(e.ns, inst))
		m := "GET"
		if via == "grpc" {
			m = "get"
			if e.ns == nsCAS {
				m = "batchread"
			}
		}
		s.lookup(e.ns, k, inst, via, m)
	}
	var fillers []keyInfo
	fillerN := 0
	// probeFillers reads every filler (a use) and forgets the evicted ones.
	probeFillers := func() {
		var alive []keyInfo
		for _, f := range fillers {
			o := t.httpLookup(t.rawURL, "/cas/"+f.hash, "GET")
			if o.kind == "hit" {
				alive = append(alive, f)
			}
		}
		fillers = alive
	}
	// present: how many slots of k the reference map holds (and whether it is sure).
	present := func() (n int, definite bool) {
		definite = true
		for _, e := range slots {
			sl := slotOf(e)
			if sl.free || len(sl.alts) != 1 {
				definite = false
			} else if !sl.alts[0].absent {
				n++
			}
		}
		return
	}
	loosenAll := func(why string) {
		r.Count("evict.unattributed." + why)
		for _, e := range slots {
			s.m.widen(e.ns, k.hash, e.inst.name, val{absent: true})
		}
	}
	// reconcile re-establishes a known recency order after a store: every
	// filler is read, then every slot of k (judged). Slots of k are always more
	// recently used than the fillers, so under the cache's LRU policy a store can
	// only have pushed out a slot of k if no filler is left; as long as one
	// filler survives the slots stay strict. Without such a witness the index
	// size decides: it must be the live fillers plus what the reference map has.
	reconcile := func(when string) {
		probeFillers()
		// Which entry a store pushes out is the replacement policy's business (C05), not
		// this property's: the witness is the index size alone - it must be the live
		// fillers plus what the reference map holds; otherwise some slot of k may be gone.
		np, def := present()
		if !def || t.numItems() != np+len(fillers) {
			loosenAll(when)
		}
		for _, e := range slots {
			touch(e)
		}
	}

	rounds := 3 + rng.IntN(3)
	for round := 0; round < rounds; round++ {
		s.opn = round*100 + 1
		// (a) stores / overwrites of slots of k, through random front ends.
		nst := 1 + rng.IntN(2)
		if round == 0 {
			nst = len(slots)
		}
		order := rng.Perm(len(slots))
		for j := 0; j < nst; j++ {
			e := slots[order[j%len(slots)]]
			if round > 0 {
				e = lib.Pick(rng, slots)
			}
			inst := e.inst
			if !mangle || e.ns == nsCAS {
				inst = lib.Pick(rng, s.insts)
			}
			s.store(e.ns, k, inst, lib.Pick(rng, s.vias(e.ns, inst)), false)
			s.opn++
			reconcile("after-store")
		}
		// (b) victim: one slot of k that is certainly there.
		var cand []evSlot
		for _, e := range slots {
			if slotOf(e).definitelyPresent() {
				cand = append(cand, e)
			}
		}
		if len(cand) == 0 {
			r.Count("evict.no-candidate")
			continue
		}
		victim := lib.Pick(rng, cand)
		// (c) recency: everything except the victim is used now.
		probeFillers()
		for _, i := range rng.Perm(len(slots)) {
			if slots[i] != victim {
				touch(slots[i])
			}
		}
		old := map[string]bool{}
		for _, f := range fillers {
			old[f.hash] = true
		}
		if np, def := present(); !def || t.numItems() != np+len(fillers) {
			r.Count("evict.index-size-unexplained")
		}
		// (d) pressure: new CAS blobs until the index stops growing, i.e. until
		// exactly one entry has been evicted.
		n0 := t.numItems()
		evicted := -1
		for j := 0; j < capN+6; j++ {
			fillerN++
			fb := lib.GenBlob(rng, 100+rng.IntN(800), "random", fmt.Sprintf("%s-f%d", id, fillerN))
			f := keyInfo{hash: lib.Sha256Hex(fb), blob: fb, class: "filler"}
			res := t.do("PUT", t.rawURL+"/cas/"+f.hash, fb, nil, false)
			if res.err != nil || res.status != 200 {
				r.Count("evict.pressure-put-refused")
				break
			}
			fillers = append(fillers, f)
			n1 := t.numItems()
			if n1 == n0+1 {
				n0 = n1
				continue
			}
			evicted = n0 + 1 - n1
			break
		}
		s.logf("pressure: victim %s/%q, %d fillers live, evicted=%d", victim.ns, clip(victim.inst.name, 30), len(fillers), evicted)
		r.Count(fmt.Sprintf("evict.pressure.evicted=%d", evicted))
		// (e) which entries went? Recency was: victim (oldest), the old fillers,
		// the other slots of k, the new fillers. The other slots of k can only
		// have been evicted by the pressure if every older entry went first: as
		// long as one old filler is alive (or exactly one entry went and it was
		// the victim) they must answer as before.
		s.opn = round*100 + 50
		probeFillers()
		oldAlive := 0
		for _, f := range fillers {
			if old[f.hash] {
				oldAlive++
			}
		}
		s.m.widen(victim.ns, k.hash, victim.inst.name, val{absent: true})
		touch(victim)
		gone := len(slotOf(victim).alts) == 1 && slotOf(victim).alts[0].absent
		r.Eval()
		r.Distinct("evict", t.cfg, "victim", victim.ns, victim.inst.class, gone, oldAlive > 0, evicted)
		if gone {
			r.Count("evict.victim-evicted." + victim.ns)
		} else {
			r.Count("evict.victim-survived." + victim.ns) // LRU order is C05's business
		}
		// Policy-independent witness only: exactly one entry left the index and the victim
		// is gone, hence every other slot is still there. (That an old filler survives says
		// something about the others only under exact LRU - C05's subject - so it is counted
		// but not used.)
		if evicted == 1 && gone {
			r.Count("evict.victim-evicted-others-strict")
			r.Count("evict.others-strict")
		} else {
			if oldAlive > 0 {
				r.Count("evict.lru-order-witness-only(not-used)")
			}
			loosenAll("no-witness")
		}
		// (f) every other slot must answer as before, on every front end and method.
		for _, e := range slots {
			for _, in := range s.insts {
				if (mangle && e.ns != nsCAS) && in.name != e.inst.name {
					continue
				}
				for _, via := range s.vias(e.ns, in) {
					if via == "http" {
						for _, m := range httpMethods {
							s.lookup(e.ns, k, in, via, m)
						}
					} else {
						s.lookup(e.ns, k, in, via, s.randomMethod(e.ns, in, via))
					}
				}
			}
		}
		// an instance nobody stored under must still be empty
		if mangle {
			never := instInfo{"zz/never-stored", "unused", true}
			s.lookup(nsAC, k, never, "http", "GET")
			s.lookup(nsAC, k, never, "grpc", "get")
			s.lookup(nsRAW, k, never, "http", "GETZ")
		}
	}
	r.Count("evict.cases")
	if rng.IntN(10) == 0 {
		h := s.hist
		if len(h) > 12 {
			h = h[:12]
		}
		r.Sample(map[string]any{"sequence": id, "fixture": "evict", "config": t.cfg, "key": k.hash, "first_ops": h})
	}
}

// ---------------------------------------------------------------------------
// Part 3: the real binary (ServeMux path cleaning in front of the handler).

func runBinary(r *lib.Run) {
	if _, err := os.Stat(lib.BinPath("bazel-remote")); err != nil {
		r.Inconclusive("real binary not built: " + err.Error())
		return
	}
	per := r.N(12, 150)
	for ci, c := range []struct{ mangle, validated, asset bool }{{true, true, false}, {true, false, false}, {false, true, true}, {false, false, false}} {
		args := []string{}
		if c.asset {
			// an unrelated switch next to the mangling one in the gRPC wiring
			args = append(args, "--experimental_remote_asset_api")
		}
		if c.mangle {
			args = append(args, "--enable_ac_key_instance_mangling")
		}
		if !c.validated {
			args = append(args, "--disable_http_ac_validation")
		}
		cfg := fmt.Sprintf("binary mangle=%v http=%s asset-api=%v", c.mangle, map[bool]string{true: "validated(ac)", false: "unvalidated(raw)"}[c.validated], c.asset)
		// The machine is shared: a port picked as free may be taken by somebody
		// else before the binary binds it. Retry with fresh ports.
		var child *lib.Child
		var t *target
		var err error
		for attempt := 0; attempt < 4; attempt++ {
			child, err = lib.StartBinary(lib.BinaryOpts{Args: args})
			if err == nil {
				t, err = targetOfBinary(child, c.mangle, c.validated, cfg)
				if err == nil && child.Exited() {
					t.close()
					err = fmt.Errorf("the real binary exited right after start: %s", child.LogTail(300))
				}
			}
			if err == nil {
				break
			}
			r.Count("binary.start-retry")
			if child != nil {
				if child.Cmd != nil && child.Cmd.Process != nil {
					child.Stop()
				}
				if child.Dir != "" {
					_ = os.RemoveAll(child.Dir)
				}
			}
			child, t = nil, nil
		}
		if err != nil {
			r.Inconclusive("cannot start the real binary: " + err.Error())
			continue
		}
		{
			parallel(per, 4, func(i int) {
				runSequence(r, t, fmt.Sprintf("b%d.%d", ci, i), r.Rng(fmt.Sprintf("binary-%d-%d", ci, i)))
			})
			if child.Exited() {
				r.Inconclusive("the real binary exited during the workload: " + child.LogTail(400))
			}
			t.close()
		}
		child.Stop()
		_ = os.RemoveAll(child.Dir)
	}
}

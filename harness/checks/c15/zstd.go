package c15

import (
	"sync"

	"github.com/klauspost/compress/zstd"
)

// Cached encoders (creating one per call costs megabytes of cleared tables).
var (
	encOnce sync.Once
	encs    [4]*zstd.Encoder
)

// zstdEncode compresses with klauspost at level 1..4.
func zstdEncode(b []byte, level int) []byte {
	encOnce.Do(func() {
		for i := range encs {
			encs[i], _ = zstd.NewWriter(nil, zstd.WithEncoderLevel(zstd.EncoderLevel(i+1)), zstd.WithEncoderConcurrency(2))
		}
	})
	if level < 1 || level > 4 {
		level = 2
	}
	return encs[level-1].EncodeAll(b, nil)
}

package c15

import (
	"bytes"
	"crypto/sha256"
	"encoding/hex"
	"fmt"
	"sync/atomic"

	pb "github.com/buchgr/bazel-remote/v2/genproto/build/bazel/remote/execution/v2"
	"google.golang.org/protobuf/proto"
)

// The reference map of the C15 statement:
//
//	(namespace in {cas, ac, raw}, key, instance-or-none) -> value
//
// It knows nothing about how the server derives its storage keys. The CAS has
// no instance component; with mangling off the instance component of ac/raw
// is dropped; instance "" and "no instance" are the same slot.

const (
	nsCAS = "cas"
	nsAC  = "ac"
	nsRAW = "raw"
)

// val is one acceptable state of a slot.
type val struct {
	absent bool
	data   []byte           // cas/raw: exact bytes; ac: the client's own encoding of ar
	ar     *pb.ActionResult // ac only
	tag    string           // unique, human readable: who stored it
	via    string           // front end that stored it
}

func (v val) String() string {
	if v.absent {
		return "absent"
	}
	return fmt.Sprintf("%s(%s via %s)", summarize(v.data), v.tag, v.via)
}

// slot holds the set of states the statement allows at this moment. A single
// alternative is the normal case; more than one only after an operation whose
// effect on *this* slot the statement leaves open (a store that was refused,
// a transport error, an eviction that cannot be attributed).
type slot struct {
	alts []val
	free bool           // anything is acceptable (after a reported violation, or where the statement is silent)
	wire map[string]int // value tag -> length of the server-side encoding seen on a verified GET (ac only)
}

type slotKey struct {
	ns, key, inst string
}

func (k slotKey) String() string {
	if k.ns == nsCAS {
		return "cas/" + k.key[:8]
	}
	return fmt.Sprintf("%s/%s@%q", k.ns, k.key[:8], k.inst)
}

type model struct {
	mangle bool
	slots  map[slotKey]*slot
}

func newModel(mangle bool) *model {
	return &model{mangle: mangle, slots: map[slotKey]*slot{}}
}

func (m *model) norm(ns, key, inst string) slotKey {
	if ns == nsCAS || !m.mangle {
		inst = ""
	}
	return slotKey{ns, key, inst}
}

func (m *model) at(ns, key, inst string) (*slot, slotKey) {
	k := m.norm(ns, key, inst)
	s := m.slots[k]
	if s == nil {
		s = &slot{alts: []val{{absent: true}}, wire: map[string]int{}}
		m.slots[k] = s
	}
	return s, k
}

// set records a successful store.
func (m *model) set(ns, key, inst string, v val) {
	s, _ := m.at(ns, key, inst)
	s.alts = []val{v}
	s.free = false
}

// widen adds acceptable alternatives to a slot (own-slot effects that the
// statement leaves open).
func (m *model) widen(ns, key, inst string, vs ...val) {
	s, _ := m.at(ns, key, inst)
	for _, v := range vs {
		dup := false
		for _, a := range s.alts {
			if a.absent == v.absent && a.tag == v.tag {
				dup = true
			}
		}
		if !dup {
			s.alts = append(s.alts, v)
		}
	}
}

// definitelyPresent: exactly one alternative and it is a value.
func (s *slot) definitelyPresent() bool {
	return !s.free && len(s.alts) == 1 && !s.alts[0].absent
}

func (s *slot) mayBeAbsent() bool {
	if s.free {
		return true
	}
	for _, a := range s.alts {
		if a.absent {
			return true
		}
	}
	return false
}

func (s *slot) describe() string {
	if s.free {
		return "any"
	}
	out := ""
	for i, a := range s.alts {
		if i > 0 {
			out += " | "
		}
		out += a.String()
	}
	return out
}

// obs is what one lookup returned.
type obs struct {
	kind    string // "hit" | "miss" | "other" (an answer that carries no value: 4xx/5xx, gRPC error) | "transport"
	status  string // HTTP status / gRPC code, for the record
	hasBody bool
	body    []byte           // decoded payload (GET, BatchRead, ByteStream)
	ar      *pb.ActionResult // GetActionResult
	length  int64            // HEAD Content-Length (-1: not given)
	zstd    bool             // the answer was zstd encoded
	decErr  string           // zstd payload did not decode
}

func (o obs) String() string {
	s := o.kind + "[" + o.status + "]"
	if o.hasBody {
		s += " " + summarize(o.body)
	}
	if o.ar != nil {
		s += " ar.worker=" + o.ar.GetExecutionMetadata().GetWorker()
	}
	if o.length >= 0 && !o.hasBody {
		s += fmt.Sprintf(" content-length=%d", o.length)
	}
	if o.zstd {
		s += " zstd-encoded"
	}
	if o.decErr != "" {
		s += " decode-error=" + o.decErr
	}
	return s
}

// headLenUnexplained counts HEAD /ac hits whose Content-Length is neither the client's
// encoding nor a length seen on a verified GET (observation only).
var headLenUnexplained atomic.Int64

// consistent: could a slot in state v have produced o?
func consistent(ns string, sl *slot, v val, o obs) bool {
	switch o.kind {
	case "miss", "other":
		return v.absent
	case "hit":
		if v.absent {
			return false
		}
	default:
		return true
	}
	if o.decErr != "" {
		return false
	}
	if ns == nsAC {
		if o.ar != nil {
			return proto.Equal(o.ar, v.ar)
		}
		if o.hasBody {
			got := &pb.ActionResult{}
			if err := proto.Unmarshal(o.body, got); err != nil {
				return false
			}
			return proto.Equal(got, v.ar)
		}
		if o.length >= 0 {
			if int(o.length) == len(v.data) {
				return true
			}
			if n, ok := sl.wire[v.tag]; ok && n == int(o.length) {
				return true
			}
			// The byte length of the server's re-serialisation of a validated ActionResult
			// is not fixed by the statement: a hit of unexplained length is counted only.
			headLenUnexplained.Add(1)
			return true
		}
		return true
	}
	if o.hasBody {
		return bytes.Equal(o.body, v.data)
	}
	if o.length >= 0 {
		return int(o.length) == len(v.data)
	}
	return true
}

// whose finds the slots of the model that hold the observed payload (to say
// where a misdirected answer came from).
func (m *model) whose(o obs) []string {
	var out []string
	for k, s := range m.slots {
		for _, a := range s.alts {
			if a.absent {
				continue
			}
			match := false
			if o.hasBody && bytes.Equal(o.body, a.data) {
				match = true
			}
			if !match && a.ar != nil {
				got := o.ar
				if got == nil && o.hasBody {
					x := &pb.ActionResult{}
					if proto.Unmarshal(o.body, x) == nil && x.GetExecutionMetadata().GetWorker() != "" {
						got = x
					}
				}
				if got != nil && proto.Equal(got, a.ar) {
					match = true
				}
			}
			if match {
				out = append(out, k.String()+"="+a.tag)
			}
		}
	}
	return out
}

func summarize(b []byte) string {
	h := sha256.Sum256(b)
	head := b
	if len(head) > 28 {
		head = head[:28]
	}
	return fmt.Sprintf("%dB:%s:%q", len(b), hex.EncodeToString(h[:4]), head)
}

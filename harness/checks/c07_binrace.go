package checks

import (
	"bytes"
	"encoding/base64"
	"fmt"
	"math/rand/v2"
	"os"
	"path/filepath"
	"sync"
	"sync/atomic"
	"time"

	"verif/harness/lib"

	pb "github.com/buchgr/bazel-remote/v2/genproto/build/bazel/remote/execution/v2"
	"google.golang.org/protobuf/proto"
)

// M-race on the real executable: package main (auth wrappers and caches, idle timer, metrics wrappers, interceptor
// chains, status page) is not linked into the check binary, so the race child cannot see it. Here the real
// bazel-remote, built from /repo's working tree with -race, serves a concurrent mixed HTTP/gRPC workload over a few
// shared keys; every race report with a bazel-remote frame is a violation ("no interleaving depends on
// unsynchronised memory access"). The workload's own oracle: CAS reads must match their digest.
func runC07BinaryRace(r *lib.Run) {
	if _, err := os.Stat(lib.BinPath("bazel-remote-race")); err != nil {
		r.Inconclusive("race-built server binary missing: " + lib.BinPath("bazel-remote-race") + " (run.sh builds it for C07)")
		return
	}
	type cfg struct {
		name string
		args []string
		auth bool
	}
	hdir := lib.MkTemp("c07-htpasswd")
	defer func() { _ = os.RemoveAll(hdir) }()
	// user "u" / password "p" ({SHA} form is supported by the htpasswd provider)
	htp := filepath.Join(hdir, "htpasswd")
	_ = os.WriteFile(htp, []byte("u:{SHA}"+lib.Sha1Base64("p")+"\n"), 0o600)
	cfgs := []cfg{
		{"plain-zstd-metrics-mangle", []string{"--enable_endpoint_metrics", "--enable_ac_key_instance_mangling", "--experimental_remote_asset_api", "--idle_timeout=1h", "--storage_mode=zstd"}, false},
		{"htpasswd-unauth-reads-uncompressed", []string{"--htpasswd_file=" + htp, "--allow_unauthenticated_reads", "--storage_mode=uncompressed", "--idle_timeout=1h"}, true},
	}
	seen := map[string]bool{}
	total := 0
	for ci, c := range cfgs {
		rdir := lib.MkTemp("c07-binrace")
		child, err := lib.StartBinary(lib.BinaryOpts{Exe: "bazel-remote-race", Args: c.args, Env: []string{"GORACE=halt_on_error=0 log_path=" + filepath.Join(rdir, "race")}, WaitReady: 90 * time.Second})
		if err != nil {
			stopChild(child)
			_ = os.RemoveAll(rdir)
			r.Inconclusive("race-built server did not start (" + c.name + "): " + err.Error())
			return
		}
		started := time.Now()
		srv := lib.AttachServer(child.HTTPAddr, child.GRPCAddr)
		var hdr map[string]string
		if c.auth {
			hdr = map[string]string{"Authorization": "Basic " + base64.StdEncoding.EncodeToString([]byte("u:p"))}
		}
		// shared keys
		rng := rand.New(rand.NewPCG(uint64(r.Seed), uint64(0xB1+ci)))
		type blob struct {
			hash string
			data []byte
		}
		var blobs []blob
		for i, sz := range []int{1, 300, 5000, 70000, lib.MiB + 17} {
			b := lib.GenBlob(rng, sz, lib.Pick(rng, lib.ContentKinds), fmt.Sprintf("C07-binrace-s%d-%d-%d", r.Seed, ci, i))
			blobs = append(blobs, blob{lib.Sha256Hex(b), b})
		}
		acKeys := []string{lib.RandHash(rng), lib.RandHash(rng)}
		workers, opsEach := 16, r.N(48, 480)
		var wg sync.WaitGroup
		var ops, bad atomic.Int64
		for wk := 0; wk < workers; wk++ {
			wg.Add(1)
			wrng := rand.New(rand.NewPCG(uint64(r.Seed)*31+uint64(ci), uint64(wk)))
			go func() {
				defer wg.Done()
				for i := 0; i < opsEach; i++ {
					b := blobs[wrng.IntN(len(blobs))]
					ctx, cancel := lib.Ctx()
					switch wrng.IntN(18) {
					case 0, 1:
						srv.HTTPPut("/cas/"+b.hash, b.data, hdr)
					case 2, 3:
						if g := srv.HTTPGet("/cas/"+b.hash, nil); g.Status == 200 && !bytes.Equal(g.Body, b.data) {
							bad.Add(1)
							r.Violation("C07:binary-race:wrong-bytes:http-get", fmt.Sprintf("GET /cas/%s from the race-built server under concurrency returned %d bytes not matching the digest", b.hash, len(g.Body)), map[string]any{"config": c.name})
						}
					case 4:
						srv.HTTPHead("/cas/" + b.hash)
					case 5:
						ar := &pb.ActionResult{ExitCode: int32(wrng.IntN(3)), OutputFiles: []*pb.OutputFile{{Path: "o", Digest: &pb.Digest{Hash: b.hash, SizeBytes: int64(len(b.data))}}}}
						body, _ := proto.Marshal(ar)
						srv.HTTPPut("/inst"+fmt.Sprint(wrng.IntN(2))+"/ac/"+acKeys[wrng.IntN(2)], body, hdr)
					case 6:
						srv.HTTPGet("/inst"+fmt.Sprint(wrng.IntN(2))+"/ac/"+acKeys[wrng.IntN(2)], nil)
					case 7:
						_, _ = srv.FindMissing(ctx, &pb.Digest{Hash: b.hash, SizeBytes: int64(len(b.data))}, &pb.Digest{Hash: lib.RandHash(wrng), SizeBytes: 5})
					case 8:
						if !c.auth {
							_, _ = srv.BSWrite(ctx, lib.ResUpload(uuidOf(wrng), b.hash, int64(len(b.data))), b.data, 64*lib.KiB)
						} else {
							srv.HTTPPut("/cas/"+b.hash, b.data, map[string]string{"Authorization": "Basic " + base64.StdEncoding.EncodeToString([]byte("u:wrong"))})
						}
					case 9:
						if data, err := srv.BSRead(ctx, lib.ResBlobs(b.hash, int64(len(b.data))), 0, 0); err == nil && !bytes.Equal(data, b.data) {
							bad.Add(1)
							r.Violation("C07:binary-race:wrong-bytes:bs-read", fmt.Sprintf("ByteStream.Read of %s from the race-built server under concurrency returned %d bytes not matching the digest", b.hash, len(data)), map[string]any{"config": c.name})
						}
					case 10, 17:
						req := &pb.BatchReadBlobsRequest{Digests: []*pb.Digest{{Hash: b.hash, SizeBytes: int64(len(b.data))}}}
						if wrng.IntN(3) != 0 {
							req.AcceptableCompressors = []pb.Compressor_Value{pb.Compressor_ZSTD}
						}
						if resp, err := srv.CAS.BatchReadBlobs(ctx, req); err == nil && len(resp.Responses) == 1 && resp.Responses[0].GetStatus().GetCode() == 0 {
							data, derr := resp.Responses[0].Data, error(nil)
							if resp.Responses[0].Compressor == pb.Compressor_ZSTD {
								data, derr = lib.ZstdDecodeKP(data)
							}
							r.Count("binary-race.checked.batchread")
							if derr != nil || !bytes.Equal(data, b.data) {
								bad.Add(1)
								r.Violation("C07:binary-race:wrong-bytes:batch-read", fmt.Sprintf("BatchReadBlobs of %s from the race-built server under concurrency returned %d bytes (compressor %v, decode err %v) not matching the digest", b.hash, len(data), resp.Responses[0].Compressor, derr), map[string]any{"config": c.name})
							}
						}
					case 14:
						if !c.auth {
							_, err := srv.BSWrite(ctx, lib.ResUploadZstd(uuidOf(wrng), b.hash, int64(len(b.data))), zstdEncodeRand(wrng, b.data), 64*lib.KiB)
							r.Count("binary-race.bswrite-zstd." + okStr(err == nil))
						} else {
							srv.HTTPGet("/cas/"+b.hash, map[string]string{"Accept-Encoding": "zstd"})
						}
					case 15:
						if data, err := srv.BSRead(ctx, lib.ResZstd(b.hash, int64(len(b.data))), 0, 0); err == nil {
							dec, derr := lib.ZstdDecodeKP(data)
							r.Count("binary-race.checked.bsread-zstd")
							if derr != nil || !bytes.Equal(dec, b.data) {
								bad.Add(1)
								r.Violation("C07:binary-race:wrong-bytes:bs-read-zstd", fmt.Sprintf("ByteStream.Read (compressed-blobs/zstd) of %s from the race-built server under concurrency returned %d bytes that do not decode to the blob (decode err %v)", b.hash, len(data), derr), map[string]any{"config": c.name})
							}
						}
					case 16:
						if !c.auth && len(b.data) < 100000 {
							resp, err := srv.CAS.BatchUpdateBlobs(ctx, &pb.BatchUpdateBlobsRequest{Requests: []*pb.BatchUpdateBlobsRequest_Request{{Digest: &pb.Digest{Hash: b.hash, SizeBytes: int64(len(b.data))}, Data: zstdEncodeRand(wrng, b.data), Compressor: pb.Compressor_ZSTD}}})
							r.Count("binary-race.batchupdate-zstd." + okStr(err == nil && len(resp.Responses) == 1 && resp.Responses[0].GetStatus().GetCode() == 0))
						} else {
							srv.HTTPPut("/cas/"+b.hash, zstdEncodeRand(wrng, b.data), func() map[string]string {
								h := map[string]string{"Content-Encoding": "zstd", "X-Digest-SizeBytes": fmt.Sprint(len(b.data))}
								for k, v := range hdr {
									h[k] = v
								}
								return h
							}())
						}
					case 11:
						_, _ = srv.AC.GetActionResult(ctx, &pb.GetActionResultRequest{InstanceName: "inst" + fmt.Sprint(wrng.IntN(2)), ActionDigest: &pb.Digest{Hash: acKeys[wrng.IntN(2)], SizeBytes: 1}})
					case 12:
						_, _ = srv.Cap.GetCapabilities(ctx, &pb.GetCapabilitiesRequest{})
						srv.HTTPGet("/status", hdr)
					case 13:
						srv.HTTPGet("/metrics", hdr)
						if !c.auth && len(b.data) < 100000 {
							_, _ = srv.CAS.BatchUpdateBlobs(ctx, &pb.BatchUpdateBlobsRequest{Requests: []*pb.BatchUpdateBlobsRequest_Request{{Digest: &pb.Digest{Hash: b.hash, SizeBytes: int64(len(b.data))}, Data: b.data}}})
						}
					}
					cancel()
					ops.Add(1)
				}
			}()
		}
		wg.Wait()
		if !r.Quick && ci == 0 {
			// thorough tier: the periodic goroutines of the executable (metric period shift every 30 s, cache-age poll
			// every 60 s) must get to run under the race detector while requests are served: keep this instance
			// alive under light traffic until it is at least 66 s old
			for time.Since(started) < 66*time.Second && !child.Exited() {
				b := blobs[rng.IntN(len(blobs))]
				srv.HTTPHead("/cas/" + b.hash)
				srv.HTTPPut("/cas/"+b.hash, b.data, hdr)
				srv.HTTPGet("/metrics", hdr)
				r.Count("binary-race." + c.name + ".light-traffic-rounds")
				time.Sleep(400 * time.Millisecond)
			}
			r.CountN("binary-race."+c.name+".alive_s", int64(time.Since(started).Seconds()))
		}
		srv.CloseClient()
		died := child.Exited()
		logTail := child.LogTail(3000)
		child.Stop()
		r.CountN("binary-race."+c.name+".requests", ops.Load())
		r.EvalN(int(ops.Load()))
		if died {
			r.Violation("C07:binary-race:server-died", "the race-built server process exited during the concurrent workload ("+c.name+")", map[string]any{"log_tail": logTail})
		}
		for _, blk := range parseRaceLogs(rdir) {
			total++
			sig, br, _ := raceSignature(blk)
			if seen[sig] {
				continue
			}
			seen[sig] = true
			if br {
				r.Count("binary-race.reports.bazel-remote")
				r.Violation("C07:data-race:binary:"+sig, "race detector (real executable, "+c.name+"): unsynchronised memory access with a bazel-remote frame: "+sig, map[string]any{"report": blk})
			} else {
				r.Count("binary-race.reports.foreign")
				r.Extra("foreign_race_binary_"+fmt.Sprint(len(seen)), sig)
			}
		}
		_ = os.RemoveAll(rdir)
		r.Distinct("binary-race", c.name)
	}
	r.CountN("binary-race.report_blocks_total", int64(total))
}

package checks

import (
	"bytes"
	"context"
	"fmt"
	"io"
	"math/rand/v2"
	"sort"
	"sync"
	"sync/atomic"

	"verif/harness/lib"

	"github.com/buchgr/bazel-remote/v2/cache"
	"github.com/buchgr/bazel-remote/v2/cache/disk"
	pb "github.com/buchgr/bazel-remote/v2/genproto/build/bazel/remote/execution/v2"
	"google.golang.org/protobuf/proto"
)

// C05 — eviction is LRU-first and only under space pressure.
// M-lru: the harness keeps its own recency list (uses = accepted writes and
// lookups that hit) and judges, for every operation of a sequential history,
// the set of entries that disappeared: prefix of the model's oldest-first
// order, last eviction necessary, success => present, oversize => refused
// without evicting, lookups evict nothing.
//
// The statement orders USES, not the individual index operations one request performs: every key one request uses
// (a FindMissingBlobs call over many digests; an ActionResult lookup with its output files, tree, tree files,
// stdout, stderr) forms one same-age class. The model gives every use a rank (the number of the request); the
// prefix rule is maxRank(evicted) <= minRank(survivors), and the necessity rule reads "the last one evicted"
// existentially (the largest member of the youngest evicted class).

type lruKey struct {
	kind cache.EntryKind
	hash string
}

func (k lruKey) String() string { return cache.LookupKey(k.kind, k.hash) }

type lruWorld struct {
	r          *lib.Run
	c          disk.Cache
	max        int64
	storage    string
	caseID     string
	cas        []acctItem
	acKeys     []string
	acVals     map[string][]byte // current value per AC/RAW lookup key (for validated gets)
	order      []string          // model recency: index 0 = most recently used; lookup keys "kind/hash" (ties of one rank in no particular order)
	rank       map[string]int64  // request number of the key's last use
	clock      int64             // number of the current request
	hist       []string
	last       *snapInfo           // what the previous judged operation left behind
	trees      map[string][]string // hash of a Tree blob of the pool -> hashes of the files it lists
	byHash     map[string]acctItem
	treeHashes []string
	ageOpen    map[string]bool // keys the operation being judged may or may not have used before it made room (left open by the statement)
	removed    []string        // lru.removed events since last drain (cross-check)
	remMu      sync.Mutex
	px         *lib.FakeProxy // nil: no backend
	srv        *lib.Server    // nil: disk API only
}

func (w *lruWorld) log(f string, a ...any) {
	if len(w.hist) < 600 {
		w.hist = append(w.hist, fmt.Sprintf(f, a...))
	}
}

// touch records a use of a key the model holds (a lookup that hit). Keys the model does not hold are left alone:
// a lookup never creates an entry.
func (w *lruWorld) touch(k string) {
	for i, x := range w.order {
		if x == k {
			copy(w.order[1:i+1], w.order[:i])
			w.order[0] = k
			w.rank[k] = w.clock
			return
		}
	}
}

// add records a write (or a completed fetch): the key is present and most recently used.
func (w *lruWorld) add(k string) {
	if w.has(k) {
		w.touch(k)
		return
	}
	w.order = append([]string{k}, w.order...)
	w.rank[k] = w.clock
}

// begin opens a new request: its uses get a new rank. It returns the state before the request and checks that nothing
// changed since the previous judged operation ended (entries only ever leave during an operation that brings an item in).
func (w *lruWorld) begin() snapInfo {
	w.clock++
	s := w.snap()
	if w.last != nil {
		var gone, came []string
		for k := range w.last.sizes {
			if _, ok := s.sizes[k]; !ok {
				gone = append(gone, k)
			}
		}
		for k := range s.sizes {
			if _, ok := w.last.sizes[k]; !ok {
				came = append(came, k)
			}
		}
		if len(gone)+len(came) > 0 {
			sort.Strings(gone)
			sort.Strings(came)
			w.r.Violation("C05:changed-between-operations", fmt.Sprintf("the set of entries changed while no operation was running: gone %v, new %v", gone, came), w.detail(map[string]any{"gone": gone, "new": came}))
			for _, k := range gone {
				w.drop(k)
			}
		}
	}
	w.remMu.Lock()
	w.removed = nil
	w.remMu.Unlock()
	return s
}

func (w *lruWorld) drop(k string) {
	for i, x := range w.order {
		if x == k {
			w.order = append(w.order[:i], w.order[i+1:]...)
			delete(w.rank, k)
			return
		}
	}
}

func (w *lruWorld) has(k string) bool {
	for _, x := range w.order {
		if x == k {
			return true
		}
	}
	return false
}

func (w *lruWorld) detail(extra any) map[string]any {
	return map[string]any{"case": w.caseID, "max_size": w.max, "storage": w.storage, "history": append([]string(nil), w.hist...),
		"model_recency_most_recent_first": append([]string(nil), w.order...), "observed": extra}
}

type snapInfo struct {
	sizes map[string]int64 // key -> rounded on-disk size
	raw   map[string]int64 // key -> on-disk size
	total int64
}

func (w *lruWorld) snap() snapInfo {
	s := lib.Snapshot(w.c)
	si := snapInfo{sizes: map[string]int64{}, raw: map[string]int64{}, total: s.CurrentSize}
	for _, e := range s.Entries {
		si.sizes[e.Key] = lib.RoundUp4k(e.SizeOnDisk)
		si.raw[e.Key] = e.SizeOnDisk
	}
	return si
}

// judge evaluates one operation. written: key brought in ("" for lookups);
// L: declared logical size of the incoming item (0 for lookups); ok: the
// operation reported success (for a fetch: the item is held afterwards).
func (w *lruWorld) judge(op string, before, after snapInfo, written string, L int64, ok bool) {
	w.r.Eval()
	w.last = &after
	// E = keys that disappeared. The written key is set aside when the new version took its place; when the operation
	// FAILED, its old version is an entry like any other: it may go only as a legitimate least-recently-used victim.
	_, hadOld := before.sizes[written]
	oldJudged := written != "" && !ok && hadOld
	var E []string
	for k := range before.sizes {
		if _, still := after.sizes[k]; !still && (k != written || oldJudged) {
			E = append(E, k)
		}
	}
	sort.Strings(E)
	if oldJudged {
		w.r.Count("old-version-of-failed-write.judged")
		if _, still := after.sizes[written]; !still {
			w.r.Count("old-version-of-failed-write.gone")
		}
	}
	if written == "" && len(E) > 0 {
		w.r.Violation("C05:lookup-evicts:"+op, fmt.Sprintf("%d entr(y/ies) disappeared during an operation that brings nothing in (%s): %v", len(E), op, E), w.detail(E))
	}
	if written != "" && L > w.max {
		w.r.Count("oversize." + op)
		// (input class for the finding key: does the item, as stored, fit although its logical size does not?)
		class := ""
		if d, is := after.raw[written]; is && ok && lib.RoundUp4k(d) <= w.max {
			class = ":on-disk-size-fits"
		}
		if ok {
			w.r.Violation("C05:oversize-accepted:"+op+class, fmt.Sprintf("item of logical size %d > max_size %d was accepted (on disk: %d bytes)", L, w.max, after.raw[written]), w.detail(nil))
		}
		if len(E) > 0 {
			w.r.Violation("C05:oversize-evicts:"+op+class, fmt.Sprintf("item of logical size %d > max_size %d evicted %v", L, w.max, E), w.detail(E))
		}
		if hadOld {
			w.r.Count("oversize-over-present-key." + op)
			if _, is := after.sizes[written]; !is {
				w.r.Violation("C05:oversize-drops-old-version:"+op, "rejected oversize upload removed the existing version of the key", w.detail(nil))
			}
		}
	}
	if len(E) > 0 && written != "" {
		w.r.CountN("evictions."+op, int64(len(E)))
		inE := map[string]bool{}
		maxRankE := int64(-1)
		for _, k := range E {
			inE[k] = true
			maxRankE = max(maxRankE, w.rank[k])
		}
		// 1. prefix: nothing evicted was used more recently than a survivor (uses of one request are of one age)
		var survivor string
		minRankS := int64(-1)
		for k := range before.sizes {
			if inE[k] || k == written || w.ageOpen[k] {
				continue
			}
			if rk, known := w.rank[k]; known && (minRankS < 0 || rk < minRankS) {
				minRankS, survivor = rk, k
			}
		}
		if minRankS >= 0 && maxRankE > minRankS {
			var younger []string
			for _, k := range E {
				if w.rank[k] > minRankS {
					younger = append(younger, k)
				}
			}
			w.r.Violation("C05:not-lru-order:"+op, fmt.Sprintf("evicted %v (last used by request %d) while the less recently used %s (request %d) survives", younger, maxRankE, survivor, minRankS), w.detail(E))
		}
		if minRankS >= 0 && maxRankE == minRankS {
			w.r.Count("prefix.cut-inside-one-request's-uses")
		}
		// 2. necessity: without the last of the evicted entries the item would not have fitted. Which member of the
		// youngest evicted class went last is not determined: take the largest (if even that one was not needed, none was).
		var lastEvicted string
		for _, k := range E {
			if w.rank[k] == maxRankE && (lastEvicted == "" || before.sizes[k] > before.sizes[lastEvicted]) {
				lastEvicted = k
			}
		}
		var sumP int64
		for _, k := range E {
			if k != lastEvicted {
				sumP += before.sizes[k]
			}
		}
		need := L
		if d, is := after.raw[written]; is && ok && lib.RoundUp4k(d) > need {
			need = lib.RoundUp4k(d)
		}
		// accounted size as the statement defines it for a sequential history (nothing in flight): the indexed
		// entries' rounded on-disk sizes, summed by the harness - not the cache's own counter
		var A int64
		for _, v := range before.sizes {
			A += v
		}
		if A-sumP+need <= w.max {
			w.r.Violation("C05:evicted-more-than-needed:"+op, fmt.Sprintf("entries account for %d (cache's own counter: %d), item needs %d (larger of logical %d and on-disk), max %d: evicting %v was enough, yet %s went too",
				A, before.total, need, L, w.max, diff(E, lastEvicted), lastEvicted), w.detail(E))
		}
		w.r.Count("boundary.slack_blocks." + fmt.Sprint(min((A-sumP+need-w.max+4095)/4096, 3)))
	}
	if written != "" && L <= w.max && len(E) == 0 {
		w.r.Count("no_eviction." + op)
	}
	// 3. presence after accepted upload
	if written != "" && ok {
		if _, is := after.sizes[written]; !is {
			w.r.Violation("C05:accepted-not-present:"+op, "an accepted upload is not present immediately afterwards", w.detail(nil))
		}
	}
	if after.total > w.max {
		w.r.Violation("C05:over-max:"+op, fmt.Sprintf("accounted size %d > max %d", after.total, w.max), w.detail(nil))
	}
	// cross-check with the removal events of the index: everything that disappeared was removed during this very
	// operation, and nothing else was removed (the written key may have been evicted before its new version came in)
	w.remMu.Lock()
	ev := w.removed
	w.removed = nil
	w.remMu.Unlock()
	w.r.CountN("hook.lru.removed", int64(len(ev)))
	evSet := map[string]bool{}
	for _, k := range ev {
		evSet[k] = true
	}
	var noEvent, noDisappearance []string
	for _, k := range E {
		if !evSet[k] {
			noEvent = append(noEvent, k)
		}
	}
	for k := range evSet {
		if _, was := before.sizes[k]; was && k != written {
			if _, still := after.sizes[k]; still {
				noDisappearance = append(noDisappearance, k)
			}
		}
	}
	w.r.Count("removal-events.compared")
	if len(noEvent)+len(noDisappearance) > 0 {
		sort.Strings(noDisappearance)
		w.r.Violation("C05:removals-disagree-with-presence:"+op, fmt.Sprintf("entries gone without a removal from the index during the operation: %v; removed from the index during the operation yet present afterwards: %v", noEvent, noDisappearance),
			w.detail(map[string]any{"events": ev, "disappeared": E}))
	}
	// update model presence
	for _, k := range E {
		w.drop(k)
	}
}

func sumSizes(s snapInfo) int64 {
	var t int64
	for _, v := range s.sizes {
		t += v
	}
	return t
}

func diff(xs []string, x string) []string {
	var out []string
	for _, y := range xs {
		if y != x {
			out = append(out, y)
		}
	}
	return out
}

// resync re-touches every key in a fixed order through a lookup kind that hits, so that model and system agree again
// after an operation whose effect on recency the statement leaves open.
func (w *lruWorld) resync() {
	ctx := context.Background()
	present := w.snap()
	w.last = nil
	keys := make([]string, 0, len(present.sizes))
	for k := range present.sizes {
		keys = append(keys, k)
	}
	sort.Strings(keys)
	for _, k := range keys {
		kind, hash := splitKey(k)
		w.clock++
		ok, _ := w.c.Contains(ctx, kind, hash, -1)
		if ok {
			w.add(k)
		}
	}
	// drop model keys that are not present
	for _, k := range append([]string(nil), w.order...) {
		if _, ok := present.sizes[k]; !ok {
			w.drop(k)
		}
	}
	w.r.Count("resync")
}

func splitKey(k string) (cache.EntryKind, string) {
	switch {
	case len(k) > 4 && k[:4] == "cas/":
		return cache.CAS, k[4:]
	case len(k) > 3 && k[:3] == "ac/":
		return cache.AC, k[3:]
	default:
		return cache.RAW, k[4:]
	}
}

func (w *lruWorld) put(op string, kind cache.EntryKind, hash string, content []byte, declared int64, rd io.Reader, expectOK bool) bool {
	k := cache.LookupKey(kind, hash)
	before := w.begin()
	err := w.c.Put(context.Background(), kind, hash, declared, rd)
	lib.WaitEvictionsDrained(w.c, 0)
	after := w.snap()
	ok := err == nil
	w.log("%s %s L=%d -> ok=%v (accounted %d -> %d)", op, k[:12], declared, ok, before.total, after.total)
	w.r.Count("op." + op + "." + map[bool]string{true: "ok", false: "err"}[ok])
	w.judge(op, before, after, k, declared, ok)
	if _, is := after.sizes[k]; !is {
		w.drop(k)
	} else if ok {
		w.add(k)
	} else {
		// whether a refused write over an existing version counts as a use of that version is left open by the
		// statement: one lookup that hits puts model and system in agreement again
		w.clock++
		if found, _ := w.c.Contains(context.Background(), kind, hash, -1); found {
			w.touch(k)
		}
		w.r.Count("retouch-after-refused-overwrite")
	}
	// acceptance of fitting well-formed uploads
	if expectOK && !ok && declared+declared/100+8192 <= w.max {
		w.r.Violation("C05:fitting-upload-refused:"+op, fmt.Sprintf("well-formed upload of %d bytes into a cache of %d was refused: %v", declared, w.max, err), w.detail(nil))
	}
	w.r.Distinct(w.storage, op, lib.SizeClassName(int(declared)), len(before.sizes), len(after.sizes) < len(before.sizes))
	return ok
}

func (w *lruWorld) step(rng *rand.Rand) {
	ctx := context.Background()
	ops := []string{"put", "put", "put", "put-exact-fit", "put-one-over", "put-ac", "put-raw", "put-ac", "overwrite-cas", "put-badhash", "put-oversize", "overwrite-oldest", "put-zero",
		"get", "get-unknown", "getzstd", "contains", "findmissing", "getvalidated", "getvalidated", "refresh-oldest", "refresh-oldest", "contains-wrongsize", "get-miss", "put-oversize-present", "put-fail-present"}
	if w.px != nil {
		ops = append(ops, "fetch", "fetch", "fetch-unknown", "fetch-unknown", "fetch-miss", "fetch-miss", "fetch-ac")
	}
	op := ops[rng.IntN(len(ops))]
	switch op {
	case "put", "overwrite-cas":
		it := w.cas[rng.IntN(len(w.cas))]
		if op == "overwrite-cas" {
			// prefer a key that is present (any age)
			var present []acctItem
			for _, k := range w.order {
				if kind, h := splitKey(k); kind == cache.CAS {
					if c, ok := w.byHash[h]; ok {
						present = append(present, c)
					}
				}
			}
			if len(present) > 0 {
				it = present[rng.IntN(len(present))]
				w.r.Count("overwrite-cas.present-key")
			}
		}
		w.put(op, cache.CAS, it.hash, it.content, int64(len(it.content)), bytes.NewReader(it.content), true)
	case "put-exact-fit", "put-one-over":
		// an incoming item sized so that accounted + need lands exactly on max_size / one byte over
		s := w.snap()
		room := w.max - s.total
		if op == "put-one-over" {
			room++
		}
		if room < 1 || room > w.max {
			return
		}
		content := "random"
		if w.storage != "uncompressed" && room > 256 {
			if rng.IntN(2) == 0 {
				room -= 64 // header; incompressible content: on-disk ~ logical + header (+ a few bytes); stays within the block in most cases
			} else {
				content = "text" // compressible: the logical size is the larger one and decides
			}
		}
		b := lib.GenBlob(rng, int(room), content, w.caseID+fmt.Sprint(len(w.hist)))
		w.put(op, cache.CAS, lib.Sha256Hex(b), b, int64(len(b)), bytes.NewReader(b), true)
	case "put-zero":
		// zero-length values are legal in the raw key space and at the disk API
		kind := []cache.EntryKind{cache.RAW, cache.AC}[rng.IntN(2)]
		h := w.acKeys[rng.IntN(len(w.acKeys))]
		if w.put(op, kind, h, nil, 0, bytes.NewReader(nil), true) {
			w.acVals[cache.LookupKey(kind, h)] = nil
		}
	case "overwrite-oldest":
		// the key written is the least recently used one, i.e. the next eviction victim
		if len(w.order) == 0 {
			return
		}
		k := w.order[len(w.order)-1]
		kind, h := splitKey(k)
		if kind == cache.CAS {
			for _, c := range w.cas {
				if c.hash == h {
					w.put(op, kind, h, c.content, int64(len(c.content)), bytes.NewReader(c.content), true)
				}
			}
			return
		}
		val := w.makeValidAR(rng)
		if w.put(op, kind, h, val, int64(len(val)), bytes.NewReader(val), true) {
			w.acVals[k] = val // (a refused upload leaves the previous value in place)
		}
	case "put-ac", "put-raw":
		kind := cache.AC
		if op == "put-raw" {
			kind = cache.RAW
		}
		h := w.acKeys[rng.IntN(len(w.acKeys))]
		val := w.makeValidAR(rng)
		if w.put(op, kind, h, val, int64(len(val)), bytes.NewReader(val), true) {
			w.acVals[cache.LookupKey(kind, h)] = val // (a refused upload leaves the previous value in place)
		}
	case "put-badhash":
		it := w.cas[rng.IntN(len(w.cas))]
		bad := append([]byte(nil), it.content...)
		bad[rng.IntN(len(bad))] ^= 0x10
		w.put(op, cache.CAS, it.hash, bad, int64(len(bad)), bytes.NewReader(bad), false)
	case "put-oversize":
		big := w.max + 1 + rng.Int64N(10000)
		// the reader holds fewer bytes than declared: an oversize upload must be refused before anything is read or evicted
		w.put(op, cache.CAS, lib.RandHash(rng), nil, big, bytes.NewReader([]byte("x")), false)
	case "put-oversize-present", "put-fail-present":
		// an upload over a key that is PRESENT (any age, all three kinds) which is refused: because it is oversize (the
		// bytes really arrive for AC/RAW; a CAS key is a digest, so there the declared size lies), or because it breaks
		// off (CAS: wrong bytes; AC/RAW: the reader fails part-way). The version held must stay, unless it goes as the
		// legitimate least recently used victim of the room made for the newcomer.
		if len(w.order) == 0 {
			return
		}
		k := w.order[rng.IntN(len(w.order))]
		kind, h := splitKey(k)
		if op == "put-oversize-present" {
			big := w.max + 1 + rng.Int64N(w.max)
			if kind == cache.CAS {
				w.put(op+"-cas", kind, h, nil, big, bytes.NewReader([]byte("x")), false)
			} else {
				w.put(op+"-"+kind.String(), kind, h, nil, big, bytes.NewReader(bytes.Repeat([]byte{'B'}, int(big))), false)
			}
			return
		}
		if kind == cache.CAS {
			c, ok := w.byHash[h]
			if !ok {
				return
			}
			bad := append([]byte(nil), c.content...)
			bad[rng.IntN(len(bad))] ^= 0x20
			w.put(op+"-cas", kind, h, bad, int64(len(bad)), bytes.NewReader(bad), false)
		} else {
			val := bytes.Repeat([]byte{'F'}, 1+rng.IntN(int(min(w.max, 300000))))
			w.put(op+"-"+kind.String(), kind, h, val, int64(len(val)), &errAfterReader{data: val, fail: rng.IntN(len(val))}, false)
		}
	case "get", "get-unknown", "getzstd", "contains", "get-miss", "contains-wrongsize", "refresh-oldest":
		var k string
		if len(w.order) > 0 {
			k = w.order[rng.IntN(len(w.order))]
			if op == "refresh-oldest" {
				k = w.order[len(w.order)-1]
			}
		}
		if k == "" || op == "get-miss" {
			h := lib.RandHash(rng)
			before := w.begin()
			rc, _, _ := w.c.Get(ctx, cache.CAS, h, 123, 0)
			if rc != nil {
				_ = rc.Close()
			}
			if w.px != nil {
				// with a backend a sized local miss is an attempted fetch of 123 bytes: room may be made for it
				lib.WaitEvictionsDrained(w.c, 0)
				w.judge("get-miss-backend", before, w.snap(), "cas/"+h, 123, false)
			} else {
				w.judge("get-miss", before, w.snap(), "", 0, false)
			}
			w.r.Count("op.get-miss")
			return
		}
		kind, hash := splitKey(k)
		size := int64(-1)
		if kind == cache.CAS {
			if c, ok := w.byHash[hash]; ok {
				size = int64(len(c.content))
			}
		}
		how := op
		if op == "refresh-oldest" {
			how = []string{"get", "get-unknown", "getzstd", "contains", "findmissing1"}[rng.IntN(5)]
			if kind != cache.CAS && (how == "getzstd" || how == "findmissing1") {
				how = "get-unknown"
			}
			w.r.Count("refresh-oldest.via." + how)
		}
		if kind != cache.CAS && how == "getzstd" {
			how = "get"
		}
		if w.srv != nil && how != "contains-wrongsize" && rng.IntN(3) != 0 {
			// the same lookups through the HTTP and gRPC front ends
			switch kind {
			case cache.CAS:
				how = []string{"http-get", "http-get-zstd", "http-head", "grpc-findmissing", "grpc-bsread", "grpc-bsread-zstd", "grpc-batchread"}[rng.IntN(7)]
			case cache.RAW:
				how = []string{"http-raw-get", "http-raw-head"}[rng.IntN(2)]
			}
		}
		before := w.begin()
		hit := false
		cctx, ccancel := lib.Ctx()
		defer ccancel()
		switch how {
		case "http-get":
			hit = w.srv.HTTPGet("/cas/"+hash, nil).Status == 200
		case "http-get-zstd":
			hit = w.srv.HTTPGet("/cas/"+hash, map[string]string{"Accept-Encoding": "zstd"}).Status == 200
		case "http-head":
			hit = w.srv.HTTPHead("/cas/"+hash).Status == 200
		case "http-raw-get":
			hit = w.srv.HTTPDo("GET", w.srv.RawURL+"/ac/"+hash, nil, nil).Status == 200
		case "http-raw-head":
			hit = w.srv.HTTPDo("HEAD", w.srv.RawURL+"/ac/"+hash, nil, nil).Status == 200
		case "grpc-findmissing":
			miss, err := w.srv.FindMissing(cctx, &pb.Digest{Hash: hash, SizeBytes: size})
			hit = err == nil && len(miss) == 0
		case "grpc-bsread":
			_, err := w.srv.BSRead(cctx, lib.ResBlobs(hash, size), 0, 0)
			hit = err == nil
		case "grpc-bsread-zstd":
			_, err := w.srv.BSRead(cctx, lib.ResZstd(hash, size), 0, 0)
			hit = err == nil
		case "grpc-batchread":
			rsp, err := w.srv.CAS.BatchReadBlobs(cctx, &pb.BatchReadBlobsRequest{Digests: []*pb.Digest{{Hash: hash, SizeBytes: size}}})
			hit = err == nil && len(rsp.Responses) == 1 && rsp.Responses[0].GetStatus().GetCode() == 0
		case "get", "get-unknown", "getzstd":
			sz := size
			if how == "get-unknown" {
				sz = -1
			}
			var rc io.ReadCloser
			var err error
			if how == "getzstd" {
				rc, _, err = w.c.GetZstd(ctx, hash, sz, 0)
			} else {
				rc, _, err = w.c.Get(ctx, kind, hash, sz, 0)
			}
			if err == nil && rc != nil {
				_, _ = io.Copy(io.Discard, rc)
				_ = rc.Close()
				hit = true
			}
		case "contains":
			hit, _ = w.c.Contains(ctx, kind, hash, size)
		case "findmissing1":
			miss, err := w.c.FindMissingCasBlobs(ctx, []*pb.Digest{{Hash: hash, SizeBytes: size}})
			hit = err == nil && len(miss) == 0
		case "contains-wrongsize":
			if kind != cache.CAS {
				return
			}
			ok, _ := w.c.Contains(ctx, kind, hash, size+1)
			w.log("contains-wrongsize %s -> %v", k[:12], ok)
			if ok {
				w.r.Violation("C05:wrong-size-hit", "Contains with a mismatching size reported present", w.detail(nil))
			}
			w.judge(op, before, w.snap(), "", 0, false)
			w.resync() // recency effect of a size-mismatched lookup is left open by the statement
			return
		}
		w.log("%s(%s) %s -> hit=%v", op, how, k[:12], hit)
		w.r.Count("op." + how + "." + map[bool]string{true: "hit", false: "miss"}[hit])
		w.judge(how, before, w.snap(), "", 0, false)
		if hit {
			w.touch(k)
		} else {
			// the model believed the key present: a miss here is another property's business (C07/C02); re-synchronise
			w.resync()
		}
	case "fetch", "fetch-unknown", "fetch-miss":
		// an item that arrives through a backend fetch: a CAS blob of the pool that is not held locally
		var cands []acctItem
		for _, c := range w.cas {
			if !w.has("cas/" + c.hash) {
				cands = append(cands, c)
			}
		}
		if len(cands) == 0 {
			return
		}
		it := cands[rng.IntN(len(cands))]
		k := "cas/" + it.hash
		L := int64(len(it.content))
		if op == "fetch-miss" {
			w.px.Delete(cache.CAS, it.hash) // neither here nor there: the attempted fetch ends in a miss
		} else {
			w.px.SetBlob(cache.CAS, it.hash, it.content)
		}
		sz := L
		if op == "fetch-unknown" {
			sz = -1
		}
		before := w.begin()
		var rc io.ReadCloser
		var err error
		if rng.IntN(2) == 0 && w.storage == "zstd" {
			rc, _, err = w.c.GetZstd(ctx, it.hash, sz, 0)
		} else {
			rc, _, err = w.c.Get(ctx, cache.CAS, it.hash, sz, 0)
		}
		hit := err == nil && rc != nil
		if rc != nil {
			_, _ = io.Copy(io.Discard, rc)
			_ = rc.Close()
		}
		lib.WaitEvictionsDrained(w.c, 0)
		after := w.snap()
		w.log("%s %s L=%d -> hit=%v err=%v (entries account for %d -> %d)", op, k[:12], L, hit, err, sumSizes(before), sumSizes(after))
		w.r.Count("op." + op + "." + map[bool]string{true: "hit", false: "nohit"}[hit])
		_, held := after.sizes[k]
		w.judge(op, before, after, k, L, held)
		if held {
			w.add(k)
		}
		if op != "fetch-miss" && !hit && err == nil && L+L/100+8192 <= w.max {
			w.r.Violation("C05:fitting-fetch-missed:"+op, fmt.Sprintf("backend holds %d bytes, cache of %d: local miss was not answered from the backend", L, w.max), w.detail(nil))
		}
		w.px.Delete(cache.CAS, it.hash)
		w.r.Distinct(w.storage, op, lib.SizeClassName(int(L)), len(before.sizes), len(after.sizes) < len(before.sizes))
	case "fetch-ac":
		h := lib.RandHash(rng)
		val := w.makeValidAR(rng)
		kind := []cache.EntryKind{cache.AC, cache.RAW}[rng.IntN(2)]
		if rng.IntN(6) == 0 {
			// a value larger than the whole cache
			ar := &pb.ActionResult{StdoutRaw: bytes.Repeat([]byte{'o'}, int(w.max+1+rng.Int64N(w.max)))}
			val, _ = proto.Marshal(ar)
			op = "fetch-ac-oversize"
		}
		w.px.SetBlob(kind, h, val)
		k := cache.LookupKey(kind, h)
		before := w.begin()
		rc, _, err := w.c.Get(ctx, kind, h, -1, 0)
		hit := err == nil && rc != nil
		if rc != nil {
			_, _ = io.Copy(io.Discard, rc)
			_ = rc.Close()
		}
		lib.WaitEvictionsDrained(w.c, 0)
		after := w.snap()
		w.log("%s %s L=%d -> hit=%v", op, k[:12], len(val), hit)
		w.r.Count("op." + op + "." + map[bool]string{true: "hit", false: "nohit"}[hit])
		_, held := after.sizes[k]
		w.judge(op, before, after, k, int64(len(val)), held)
		if held {
			w.add(k)
			w.acVals[k] = val
		}
		w.px.Delete(kind, h)
	case "findmissing":
		var ds []*pb.Digest
		var ks []string
		n := 1 + rng.IntN(30)
		for i := 0; i < n; i++ {
			x := w.cas[rng.IntN(len(w.cas))]
			ds = append(ds, &pb.Digest{Hash: x.hash, SizeBytes: int64(len(x.content))})
			ks = append(ks, "cas/"+x.hash)
		}
		before := w.begin()
		_, err := w.c.FindMissingCasBlobs(ctx, ds)
		w.judge(op, before, w.snap(), "", 0, false)
		if err == nil {
			for _, k := range ks {
				w.touch(k) // (one request: one age for all of them)
			}
		} else {
			w.resync()
		}
		w.log("findmissing n=%d", n)
		w.r.Count("op.findmissing")
	case "getvalidated":
		// AC dependency check: a hit refreshes the action result and every referenced blob held locally
		var acs []string
		for _, k := range w.order {
			if kind, _ := splitKey(k); kind == cache.AC {
				acs = append(acs, k)
			}
		}
		if len(acs) == 0 {
			return
		}
		k := acs[rng.IntN(len(acs))]
		_, hash := splitKey(k)
		before := w.begin()
		// the value held for the key names what the lookup has to check; with a backend, a Tree blob that is not held
		// locally is looked for there: an attempted fetch, for which room may be made
		held := &pb.ActionResult{}
		_ = proto.Unmarshal(w.acVals[k], held)
		var absentTree *pb.Digest
		if w.px != nil {
			for _, d := range held.OutputDirectories {
				if _, is := before.sizes["cas/"+d.TreeDigest.Hash]; !is {
					absentTree = d.TreeDigest
					break
				}
			}
		}
		var ar *pb.ActionResult
		var err error
		via := "disk"
		if w.srv != nil && rng.IntN(3) != 0 {
			via = []string{"grpc", "http-get", "http-head"}[rng.IntN(3)]
		}
		cctx, ccancel := lib.Ctx()
		defer ccancel()
		switch via {
		case "disk":
			ar, _, err = w.c.GetValidatedActionResult(ctx, hash)
		case "grpc":
			ar, err = w.srv.AC.GetActionResult(cctx, &pb.GetActionResultRequest{ActionDigest: &pb.Digest{Hash: hash, SizeBytes: 1},
				InlineStdout: true, InlineStderr: true}) // (inlined fields requested inline: the server de-inlines nothing, i.e. writes nothing)
			if err != nil {
				ar, err = nil, nil // NotFound: a miss
			}
		case "http-get", "http-head":
			var res lib.HTTPResult
			if via == "http-get" {
				res = w.srv.HTTPGet("/ac/"+hash, nil)
			} else {
				res = w.srv.HTTPHead("/ac/" + hash)
			}
			if res.Status == 200 {
				ar = held
			}
		}
		w.r.Count("getvalidated.via." + via)
		if absentTree != nil {
			// (the lookup found the action result itself, and Tree blobs listed before the absent one, before it went to
			// the backend: whether those finds are uses although the lookup as a whole misses is left open)
			w.r.Count("getvalidated.tree-looked-for-at-backend")
			w.ageOpen = map[string]bool{k: true}
			for _, d := range held.OutputDirectories {
				w.ageOpen["cas/"+d.TreeDigest.Hash] = true
			}
			w.judge("getvalidated-tree-fetch", before, w.snap(), "cas/"+absentTree.Hash, absentTree.SizeBytes, false)
			w.ageOpen = nil
		} else {
			w.judge(op, before, w.snap(), "", 0, false)
		}
		if err == nil && ar != nil {
			// a hit: the action result and everything it references was found, i.e. used - by one request
			w.touch(k)
			nrefs := 0
			use := func(d *pb.Digest) {
				if d != nil && d.SizeBytes > 0 {
					w.touch("cas/" + d.Hash)
					nrefs++
				}
			}
			for _, f := range held.OutputFiles {
				if len(f.Contents) == 0 {
					use(f.Digest)
				}
			}
			for _, d := range held.OutputDirectories {
				use(d.TreeDigest)
				for _, fh := range w.trees[d.TreeDigest.Hash] {
					if c, ok := w.byHash[fh]; ok {
						use(&pb.Digest{Hash: fh, SizeBytes: int64(len(c.content))})
					}
				}
				w.r.Count("getvalidated.hit.with-tree")
			}
			use(held.StdoutDigest)
			use(held.StderrDigest)
			if held.StderrDigest != nil {
				w.r.Count("getvalidated.hit.with-stderr-digest")
			}
			w.r.Count("op.getvalidated.hit")
			w.r.CountN("getvalidated.hit.references", int64(nrefs))
		} else {
			w.r.Count("op.getvalidated.miss")
			w.resync() // partial touches of a missing lookup are left open by the statement
		}
		w.log("getvalidated(%s) %s -> hit=%v", via, k[:12], ar != nil)
	}
}

// makeValidAR builds an action result over the pool: output files, an output directory (a Tree blob of the pool and
// the files it lists), stdout and stderr by digest. References prefer blobs that are held, so that lookups hit.
func (w *lruWorld) makeValidAR(rng *rand.Rand) []byte {
	var present []acctItem
	var presentTrees []string
	for _, k := range w.order {
		if kind, h := splitKey(k); kind == cache.CAS {
			if c, ok := w.byHash[h]; ok {
				present = append(present, c)
				if _, isTree := w.trees[h]; isTree {
					presentTrees = append(presentTrees, h)
				}
			}
		}
	}
	pick := func() acctItem {
		if len(present) > 0 && rng.IntN(4) != 0 {
			return present[rng.IntN(len(present))]
		}
		return w.cas[rng.IntN(len(w.cas))]
	}
	dg := func(it acctItem) *pb.Digest { return &pb.Digest{Hash: it.hash, SizeBytes: int64(len(it.content))} }
	ar := &pb.ActionResult{ExitCode: int32(rng.IntN(3)), ExecutionMetadata: &pb.ExecutedActionMetadata{Worker: w.caseID}}
	n := rng.IntN(3)
	for i := 0; i < n; i++ {
		ar.OutputFiles = append(ar.OutputFiles, &pb.OutputFile{Path: fmt.Sprintf("o/%d", i), Digest: dg(pick())})
	}
	if len(w.treeHashes) > 0 && rng.IntN(3) == 0 {
		th := w.treeHashes[rng.IntN(len(w.treeHashes))]
		if len(presentTrees) > 0 && rng.IntN(4) != 0 {
			th = presentTrees[rng.IntN(len(presentTrees))]
		}
		ar.OutputDirectories = append(ar.OutputDirectories, &pb.OutputDirectory{Path: "dir", TreeDigest: dg(w.byHash[th])})
	}
	if rng.IntN(3) == 0 {
		ar.StdoutDigest = dg(pick())
	}
	switch rng.IntN(4) {
	case 0:
		ar.StderrRaw = bytes.Repeat([]byte{'e'}, []int{10, 3000, 9000}[rng.IntN(3)])
	case 1:
		ar.StderrDigest = dg(pick())
	}
	b, _ := proto.Marshal(ar)
	return b
}

// addTrees adds Tree blobs to the pool: a root directory and a child directory listing files of the pool.
func (w *lruWorld) addTrees(rng *rand.Rand, n int) {
	files := append([]acctItem(nil), w.cas...)
	for t := 0; t < n; t++ {
		var listed []string
		node := func(i int) *pb.FileNode {
			it := files[rng.IntN(len(files))]
			listed = append(listed, it.hash)
			return &pb.FileNode{Name: fmt.Sprintf("f%d", i), Digest: &pb.Digest{Hash: it.hash, SizeBytes: int64(len(it.content))}}
		}
		root := &pb.Directory{}
		for i := 0; i < 1+rng.IntN(2); i++ {
			root.Files = append(root.Files, node(i))
		}
		tree := &pb.Tree{Root: root}
		if rng.IntN(2) == 0 {
			child := &pb.Directory{Files: []*pb.FileNode{node(9)}}
			cb, _ := proto.Marshal(child)
			root.Directories = append(root.Directories, &pb.DirectoryNode{Name: "sub", Digest: &pb.Digest{Hash: lib.Sha256Hex(cb), SizeBytes: int64(len(cb))}})
			tree.Children = append(tree.Children, child)
		}
		b, _ := proto.Marshal(tree)
		h := lib.Sha256Hex(b)
		if _, dup := w.byHash[h]; dup {
			continue
		}
		it := acctItem{kind: cache.CAS, hash: h, content: b}
		w.cas = append(w.cas, it)
		w.byHash[h] = it
		w.trees[h] = listed
		w.treeHashes = append(w.treeHashes, h)
	}
}

func runC05(r *lib.Run) {
	r.SetRule("sequential histories (puts incl. exact-fit/one-over boundaries, overwrites, failing and oversize uploads, every lookup kind as refresher) on caches of 8 KiB..6 MiB in both storage modes; " +
		"each operation judged by the eviction oracle against the harness's own recency model. distinct = (storage, op kind, size class, #entries before, evicted?)")
	r.Assume("presence/sizes observed via the tag-guarded index snapshot (does not perturb recency)")
	nHist := r.N(250, 6000)
	maxOps := r.N(60, 150)
	rng := r.Rng("c05")
	pool := lib.NewDirPool("c05")
	defer pool.Close()
	var cur atomic.Pointer[lruWorld] // (the hook runs on the goroutines of the server's handlers as well)
	disk.VerifSetHook(func(point, key string, n int64) {
		if point != "lru.removed" {
			return
		}
		if w := cur.Load(); w != nil {
			w.remMu.Lock()
			w.removed = append(w.removed, key)
			w.remMu.Unlock()
		}
	})
	defer disk.VerifSetHook(nil)
	for i := 0; i < nHist; i++ {
		storage := []string{"zstd", "uncompressed"}[rng.IntN(2)]
		// (max_size need not be a multiple of the 4 KiB accounting block)
		maxes := []int64{8 * lib.KiB, 16 * lib.KiB, 20 * lib.KiB, 64 * lib.KiB, 100 * lib.KiB, 512 * lib.KiB, 2 * lib.MiB, 6 * lib.MiB, 10000, 20479, 65537, 100*lib.KiB + 123, 2*lib.MiB + 4095}
		max := maxes[rng.IntN(len(maxes))]
		dir := pool.Get()
		o := lib.ServerOpts{Dir: dir, MaxSize: max, Storage: storage, ZstdImpl: []string{"go", "cgo"}[rng.IntN(2)]}
		var px *lib.FakeProxy
		if rng.IntN(4) == 0 {
			px = lib.NewFakeProxy(storage == "zstd")
			o.Proxy = px
			r.Count("histories.with-backend")
		}
		var c disk.Cache
		var srv *lib.Server
		var err error
		if rng.IntN(4) == 0 {
			o.RawHTTP = true
			srv, err = lib.StartServer(o)
			if err == nil {
				c = srv.Cache
			}
			r.Count("histories.with-front-ends")
		} else {
			c, _, err = lib.NewCache(o)
		}
		if err != nil {
			r.Inconclusive("cache start: " + err.Error())
			return
		}
		w := &lruWorld{r: r, c: c, max: max, storage: storage, caseID: fmt.Sprintf("C05-s%d-h%d", r.Seed, i), acVals: map[string][]byte{}, px: px, srv: srv,
			rank: map[string]int64{}, trees: map[string][]string{}, byHash: map[string]acctItem{}}
		cur.Store(w)
		nk := 4 + rng.IntN(9)
		sizes := []int64{1, 100, 4095, 4096, 4097, max / 16, max / 8, max / 8, max / 4, max / 4, max / 3, max / 2, max - 8192, max - 4096}
		for k := 0; k < nk; k++ {
			sz := sizes[rng.IntN(len(sizes))]
			if sz < 1 {
				sz = 1
			}
			b := lib.GenBlob(rng, int(sz), lib.Pick(rng, lib.ContentKinds), fmt.Sprintf("%s-k%d", w.caseID, k))
			w.cas = append(w.cas, acctItem{kind: cache.CAS, hash: lib.Sha256Hex(b), content: b})
			w.byHash[w.cas[k].hash] = w.cas[k]
		}
		// Tree blobs listing files of the pool (referenced by action results as output directories)
		w.addTrees(rng, 1+rng.IntN(2))
		// items larger than the whole cache (max+1 .. 2*max), compressible and not: on every path a pool item takes
		// (upload, fetch with known / unknown size, reference of an action result) they must be refused without evicting
		if rng.IntN(2) == 0 {
			for _, kind := range []string{"text", "random"} {
				if rng.IntN(3) == 0 {
					continue
				}
				b := lib.GenBlob(rng, int(max+1+rng.Int64N(max)), kind, w.caseID+"-oversize-"+kind)
				it := acctItem{kind: cache.CAS, hash: lib.Sha256Hex(b), content: b}
				w.cas = append(w.cas, it)
				w.byHash[it.hash] = it
				r.Count("pool.oversize-item." + kind)
			}
		}
		for k := 0; k < 2+rng.IntN(3); k++ {
			w.acKeys = append(w.acKeys, lib.RandHash(rng))
		}
		nops := 10 + rng.IntN(maxOps)
		for s := 0; s < nops; s++ {
			w.step(rng)
		}
		r.Count("histories")
		if i < 2 {
			r.Sample(w.detail(nil))
		}
		cur.Store(nil)
		lib.WaitEvictionsDrained(c, 0)
		if srv != nil {
			srv.Close()
		}
		pool.Put(dir)
		if r.Violations() > 8 {
			break
		}
	}
}

func init() { lib.Register("C05", runC05) }

package c20

import (
	"bytes"
	"context"
	"fmt"
	"io"
	"net"
	"net/http"
	"net/http/httptest"
	"strconv"
	"strings"
	"sync"
	"time"

	"verif/harness/lib"

	asset "github.com/buchgr/bazel-remote/v2/genproto/build/bazel/remote/asset/v1"
	pb "github.com/buchgr/bazel-remote/v2/genproto/build/bazel/remote/execution/v2"
	"github.com/johannesboyne/gofakes3"
	"github.com/johannesboyne/gofakes3/backend/s3mem"
	bs "google.golang.org/genproto/googleapis/bytestream"
	"google.golang.org/grpc"
	"google.golang.org/grpc/codes"
	"google.golang.org/grpc/status"
	"google.golang.org/protobuf/proto"
)

// Recording back ends (harness code): dumb object stores keyed by the exact
// name the proxy used, which log every (operation, name) they see.

type event struct {
	op   string // put | get | head | findmissing | fetchblob | update-ar | get-ar
	name string
	hit  bool
	note string // e.g. host, bucket, digest size
}

type recorder struct {
	mu     sync.Mutex
	events []event
	store  map[string][]byte
}

func newRecorder() *recorder { return &recorder{store: map[string][]byte{}} }

func (r *recorder) add(e event) {
	r.mu.Lock()
	r.events = append(r.events, e)
	r.mu.Unlock()
}

func (r *recorder) mark() int { r.mu.Lock(); defer r.mu.Unlock(); return len(r.events) }

func (r *recorder) since(mark int) []event {
	r.mu.Lock()
	defer r.mu.Unlock()
	return append([]event(nil), r.events[mark:]...)
}

// waitFor waits (bounded; expiry = inconclusive) for an event after mark that
// satisfies pred.
func (r *recorder) waitFor(mark int, pred func(event) bool) (event, bool) {
	deadline := time.Now().Add(settleMax)
	for {
		for _, e := range r.since(mark) {
			if pred(e) {
				return e, true
			}
		}
		if time.Now().After(deadline) {
			return event{}, false
		}
		time.Sleep(200 * time.Microsecond)
	}
}

func (r *recorder) put(name string, b []byte) {
	r.mu.Lock()
	r.store[name] = b
	r.mu.Unlock()
}

func (r *recorder) get(name string) ([]byte, bool) {
	r.mu.Lock()
	defer r.mu.Unlock()
	b, ok := r.store[name]
	return b, ok
}

// ---------------------------------------------------------------------------
// HTTP backend (httptest server).

type httpBackend struct {
	*recorder
	srv *httptest.Server
}

func newHTTPBackend() *httpBackend {
	b := &httpBackend{recorder: newRecorder()}
	b.srv = httptest.NewServer(http.HandlerFunc(func(w http.ResponseWriter, req *http.Request) {
		name := req.URL.Path
		switch req.Method {
		case http.MethodPut:
			body, _ := io.ReadAll(req.Body)
			b.put(name, body)
			b.add(event{op: "put", name: name, hit: true})
			w.WriteHeader(200)
		case http.MethodGet, http.MethodHead:
			data, ok := b.get(name)
			op := "get"
			if req.Method == http.MethodHead {
				op = "head"
			}
			b.add(event{op: op, name: name, hit: ok})
			if !ok {
				http.Error(w, "not found", 404)
				return
			}
			w.Header().Set("Content-Length", strconv.Itoa(len(data)))
			w.WriteHeader(200)
			if req.Method == http.MethodGet {
				_, _ = w.Write(data)
			}
		default:
			w.WriteHeader(405)
		}
	}))
	return b
}

func (b *httpBackend) close() { b.srv.Close() }

// ---------------------------------------------------------------------------
// S3 backend: gofakes3 with a recording in-memory store.

type s3RecBackend struct {
	*s3mem.Backend
	rec *recorder
}

func (b *s3RecBackend) PutObject(bucketName, objectName string, meta map[string]string, input io.Reader, size int64) (gofakes3.PutObjectResult, error) {
	res, err := b.Backend.PutObject(bucketName, objectName, meta, input, size)
	b.rec.add(event{op: "put", name: objectName, hit: err == nil, note: bucketName})
	return res, err
}

func (b *s3RecBackend) GetObject(bucketName, objectName string, rng *gofakes3.ObjectRangeRequest) (*gofakes3.Object, error) {
	o, err := b.Backend.GetObject(bucketName, objectName, rng)
	b.rec.add(event{op: "get", name: objectName, hit: err == nil, note: bucketName})
	return o, err
}

func (b *s3RecBackend) HeadObject(bucketName, objectName string) (*gofakes3.Object, error) {
	o, err := b.Backend.HeadObject(bucketName, objectName)
	b.rec.add(event{op: "head", name: objectName, hit: err == nil, note: bucketName})
	return o, err
}

type s3Backend struct {
	*recorder
	srv    *httptest.Server
	bucket string
}

func newS3Backend() (*s3Backend, error) {
	b := &s3Backend{recorder: newRecorder(), bucket: "verif-bucket"}
	mem := s3mem.New()
	if err := mem.CreateBucket(b.bucket); err != nil {
		return nil, err
	}
	faker := gofakes3.New(&s3RecBackend{Backend: mem, rec: b.recorder}, gofakes3.WithLogger(gofakes3.DiscardLog()))
	b.srv = httptest.NewServer(faker.Server())
	return b, nil
}

func (b *s3Backend) endpoint() string { return strings.TrimPrefix(b.srv.URL, "http://") }
func (b *s3Backend) close()           { b.srv.Close() }

// ---------------------------------------------------------------------------
// Azure: recording transport (policy.Transporter).

type azTransport struct {
	*recorder
}

func (t *azTransport) Do(req *http.Request) (*http.Response, error) {
	name := req.URL.Path
	resp := &http.Response{Proto: "HTTP/1.1", ProtoMajor: 1, ProtoMinor: 1, Header: http.Header{}, Request: req, Body: http.NoBody}
	resp.Header.Set("x-ms-request-id", "verif")
	switch req.Method {
	case http.MethodPut:
		var body []byte
		if req.Body != nil {
			body, _ = io.ReadAll(req.Body)
			_ = req.Body.Close()
		}
		if req.URL.Query().Get("comp") != "" {
			// metadata / block-list operations: not an object write
			t.add(event{op: "other", name: name, note: req.URL.Host + "?" + req.URL.RawQuery})
			resp.StatusCode, resp.Status = 200, "200 OK"
			return resp, nil
		}
		t.put(name, body)
		t.add(event{op: "put", name: name, hit: true, note: req.URL.Host})
		resp.StatusCode, resp.Status = 201, "201 Created"
		resp.Header.Set("ETag", `"0x1"`)
		resp.Header.Set("Last-Modified", time.Now().UTC().Format(http.TimeFormat))
	case http.MethodGet, http.MethodHead:
		data, ok := t.get(name)
		op := "get"
		if req.Method == http.MethodHead {
			op = "head"
		}
		t.add(event{op: op, name: name, hit: ok, note: req.URL.Host})
		if !ok {
			resp.StatusCode, resp.Status = 404, "404 The specified blob does not exist."
			resp.Header.Set("x-ms-error-code", "BlobNotFound")
			return resp, nil
		}
		resp.StatusCode, resp.Status = 200, "200 OK"
		resp.Header.Set("Content-Length", strconv.Itoa(len(data)))
		resp.Header.Set("Content-Type", "application/octet-stream")
		resp.Header.Set("ETag", `"0x1"`)
		resp.Header.Set("Last-Modified", time.Now().UTC().Format(http.TimeFormat))
		resp.Header.Set("x-ms-blob-type", "BlockBlob")
		resp.ContentLength = int64(len(data))
		if req.Method == http.MethodGet {
			resp.Body = io.NopCloser(bytes.NewReader(data))
		}
	default:
		resp.StatusCode, resp.Status = 405, "405 Method Not Allowed"
	}
	return resp, nil
}

// ---------------------------------------------------------------------------
// gRPC backend: ByteStream / CAS / ActionCache / Capabilities / Fetch, minimal.

type grpcBackend struct {
	*recorder
	srv  *grpc.Server
	conn *grpc.ClientConn

	pb.UnimplementedActionCacheServer
	pb.UnimplementedContentAddressableStorageServer
	pb.UnimplementedCapabilitiesServer
	asset.UnimplementedFetchServer
	bs.UnimplementedByteStreamServer
}

func newGRPCBackend() (*grpcBackend, error) {
	b := &grpcBackend{recorder: newRecorder()}
	ln, err := net.Listen("tcp", "127.0.0.1:0")
	if err != nil {
		return nil, err
	}
	b.srv = grpc.NewServer(grpc.MaxRecvMsgSize(64*lib.MiB), grpc.MaxSendMsgSize(64*lib.MiB))
	pb.RegisterActionCacheServer(b.srv, b)
	pb.RegisterContentAddressableStorageServer(b.srv, b)
	pb.RegisterCapabilitiesServer(b.srv, b)
	asset.RegisterFetchServer(b.srv, b)
	bs.RegisterByteStreamServer(b.srv, b)
	go func() { _ = b.srv.Serve(ln) }()
	b.conn, err = grpc.NewClient(ln.Addr().String(), grpc.WithTransportCredentials(insecureCreds()),
		grpc.WithDefaultCallOptions(grpc.MaxCallRecvMsgSize(64*lib.MiB), grpc.MaxCallSendMsgSize(64*lib.MiB)))
	return b, err
}

func (b *grpcBackend) close() {
	if b.conn != nil {
		_ = b.conn.Close()
	}
	b.srv.Stop()
}

func (b *grpcBackend) GetCapabilities(ctx context.Context, _ *pb.GetCapabilitiesRequest) (*pb.ServerCapabilities, error) {
	return &pb.ServerCapabilities{CacheCapabilities: &pb.CacheCapabilities{
		DigestFunctions:               []pb.DigestFunction_Value{pb.DigestFunction_SHA256},
		ActionCacheUpdateCapabilities: &pb.ActionCacheUpdateCapabilities{UpdateEnabled: true},
		SupportedCompressors:          []pb.Compressor_Value{pb.Compressor_ZSTD},
	}}, nil
}

// stripUpload removes "uploads/<uuid>/" and returns the uuid.
func stripUpload(res string) (rest, uuid string, ok bool) {
	parts := strings.SplitN(res, "/", 3)
	if len(parts) != 3 || parts[0] != "uploads" {
		return res, "", false
	}
	return parts[2], parts[1], true
}

func (b *grpcBackend) Write(stream bs.ByteStream_WriteServer) error {
	var res string
	var buf bytes.Buffer
	for {
		m, err := stream.Recv()
		if err == io.EOF {
			break
		}
		if err != nil {
			return err
		}
		if res == "" {
			res = m.ResourceName
		}
		buf.Write(m.Data)
		if m.FinishWrite {
			break
		}
	}
	rest, _, _ := stripUpload(res)
	b.put("bs:"+rest, buf.Bytes())
	b.add(event{op: "put", name: res, hit: true})
	return stream.SendAndClose(&bs.WriteResponse{CommittedSize: int64(buf.Len())})
}

func (b *grpcBackend) Read(req *bs.ReadRequest, stream bs.ByteStream_ReadServer) error {
	data, ok := b.get("bs:" + req.ResourceName)
	b.add(event{op: "get", name: req.ResourceName, hit: ok, note: fmt.Sprintf("offset=%d limit=%d", req.ReadOffset, req.ReadLimit)})
	if !ok {
		return status.Error(codes.NotFound, "not found")
	}
	for _, c := range lib.Chunk(data, 256*lib.KiB) {
		if err := stream.Send(&bs.ReadResponse{Data: c}); err != nil {
			return err
		}
	}
	return nil
}

// hasDigest: is any ByteStream object stored for (hash, size)?
func (b *grpcBackend) hasDigest(hash string, size int64) (int64, bool) {
	b.mu.Lock()
	defer b.mu.Unlock()
	for name := range b.store {
		if !strings.HasPrefix(name, "bs:") {
			continue
		}
		parts := strings.Split(name, "/")
		if len(parts) >= 2 && parts[len(parts)-2] == hash {
			n, _ := strconv.ParseInt(parts[len(parts)-1], 10, 64)
			if size < 0 || n == size {
				return n, true
			}
		}
	}
	return -1, false
}

func (b *grpcBackend) FindMissingBlobs(ctx context.Context, req *pb.FindMissingBlobsRequest) (*pb.FindMissingBlobsResponse, error) {
	resp := &pb.FindMissingBlobsResponse{}
	for _, d := range req.BlobDigests {
		_, ok := b.hasDigest(d.Hash, d.SizeBytes)
		b.add(event{op: "findmissing", name: fmt.Sprintf("%s/%d", d.Hash, d.SizeBytes), hit: ok})
		if !ok {
			resp.MissingBlobDigests = append(resp.MissingBlobDigests, d)
		}
	}
	return resp, nil
}

func (b *grpcBackend) FetchBlob(ctx context.Context, req *asset.FetchBlobRequest) (*asset.FetchBlobResponse, error) {
	var names []string
	for _, q := range req.Qualifiers {
		names = append(names, q.Name+"="+q.Value)
	}
	name := strings.Join(names, ";")
	// answer from the store: find the sha256 named by checksum.sri
	for _, q := range req.Qualifiers {
		if q.Name == "checksum.sri" && strings.HasPrefix(q.Value, "sha256-") {
			if hash, ok := sriToHex(strings.TrimPrefix(q.Value, "sha256-")); ok {
				if n, ok := b.hasDigest(hash, -1); ok {
					b.add(event{op: "fetchblob", name: name, hit: true})
					return &asset.FetchBlobResponse{Status: status.New(codes.OK, "").Proto(), BlobDigest: &pb.Digest{Hash: hash, SizeBytes: n}}, nil
				}
			}
		}
	}
	b.add(event{op: "fetchblob", name: name, hit: false})
	return &asset.FetchBlobResponse{Status: status.New(codes.NotFound, "not found").Proto()}, nil
}

func (b *grpcBackend) UpdateActionResult(ctx context.Context, req *pb.UpdateActionResultRequest) (*pb.ActionResult, error) {
	data, _ := proto.Marshal(req.ActionResult)
	b.put("ac:"+req.ActionDigest.GetHash(), data)
	b.add(event{op: "update-ar", name: req.ActionDigest.GetHash(), hit: true, note: fmt.Sprintf("size=%d instance=%q", req.ActionDigest.GetSizeBytes(), req.InstanceName)})
	return req.ActionResult, nil
}

func (b *grpcBackend) GetActionResult(ctx context.Context, req *pb.GetActionResultRequest) (*pb.ActionResult, error) {
	data, ok := b.get("ac:" + req.ActionDigest.GetHash())
	b.add(event{op: "get-ar", name: req.ActionDigest.GetHash(), hit: ok, note: fmt.Sprintf("size=%d instance=%q", req.ActionDigest.GetSizeBytes(), req.InstanceName)})
	if !ok {
		return nil, status.Error(codes.NotFound, "not found")
	}
	ar := &pb.ActionResult{}
	if err := proto.Unmarshal(data, ar); err != nil {
		return nil, status.Error(codes.Internal, err.Error())
	}
	return ar, nil
}

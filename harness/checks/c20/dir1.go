package c20

import (
	"context"
	"fmt"
	"math/rand/v2"
	"strings"
	"sync"

	"verif/harness/lib"

	"github.com/buchgr/bazel-remote/v2/cache/disk"
	pb "github.com/buchgr/bazel-remote/v2/genproto/build/bazel/remote/execution/v2"
	"google.golang.org/protobuf/proto"
)

// Direction 1: an independent implementation lays out a cache directory in the
// published v2 format; this build must open it and serve every entry
// byte-exactly through every read path, now and after a restart.

// d1File is one entry written by the independent writer.
type d1File struct {
	id     string
	kind   string // cas | ac | raw
	repr   string // cas-zstd | cas-identity-hdr | cas-v1 | ac | raw
	hash   string
	data   []byte // logical content
	chunk  int    // chunk size stated in the header (cas-zstd / cas-identity-hdr)
	enc    string
	suffix string
	rel    string
	onDisk int64
	ar     *pb.ActionResult
	sect   string // evidence / finding-key section: "dir1" (default) or "golden"
	winLo  uint64 // smallest / largest window advertised by the file's chunk frames
	winHi  uint64
}

func (f *d1File) section() string {
	if f.sect == "" {
		return "dir1"
	}
	return f.sect
}

func (f *d1File) describe() map[string]any {
	return map[string]any{"id": f.id, "file": f.rel, "representation": f.repr, "logical_size": len(f.data), "header_chunk_size": f.chunk, "encoder": f.enc, "suffix": f.suffix, "size_on_disk": f.onDisk, "chunk_frame_window_min": f.winLo, "chunk_frame_window_max": f.winHi}
}

// d1Sizes: size classes of DESIGN §3, weighted towards the cheaper ones.
func d1Size(rng *rand.Rand) int {
	switch rng.IntN(10) {
	case 0, 1:
		return lib.Pick(rng, []int{2 * lib.MiB, 2*lib.MiB + 4097, 3*lib.MiB + 1, 5*lib.MiB + 17, 8*lib.MiB + 5, 9*lib.MiB + 1})
	case 2, 3:
		return lib.Pick(rng, []int{lib.MiB - 1, lib.MiB, lib.MiB + 1})
	case 4:
		return 1 + rng.IntN(300*lib.KiB)
	}
	return lib.Pick(rng, []int{1, 2, 4095, 4096, 4097, 8192, 8193, 12345, 12346, 64*lib.KiB - 1, 64 * lib.KiB, 64*lib.KiB + 1, 200_001})
}

// genD1File generates one file; forceLog > 0 makes it a multi-chunk cas.v2
// file whose chunk frames advertise a window of 2^forceLog bytes.
func genD1File(rng *rand.Rand, id string, forceLog int) (*d1File, []byte) {
	f := &d1File{id: id, suffix: randSuffix(rng)}
	v := rng.IntN(20)
	if forceLog > 0 {
		v = 0
	}
	switch {
	case v < 12:
		f.kind, f.repr = "cas", "cas-zstd"
	case v < 14:
		f.kind, f.repr = "cas", "cas-identity-hdr"
	case v < 17:
		f.kind, f.repr = "cas", "cas-v1"
	case v < 19:
		f.kind, f.repr = "ac", "ac"
	default:
		f.kind, f.repr = "raw", "raw"
	}
	var file []byte
	switch f.repr {
	case "cas-zstd":
		n := d1Size(rng)
		f.chunk = lib.Pick(rng, chunkSizes)
		if forceLog > 0 {
			n = lib.Pick(rng, []int{lib.MiB + 1, 2*lib.MiB + 4097})
			f.chunk = lib.Pick(rng, []int{256 * lib.KiB, lib.MiB, 2 * lib.MiB})
		}
		f.data = lib.GenBlob(rng, n, lib.Pick(rng, lib.ContentKinds), id)
		f.hash = lib.Sha256Hex(f.data)
		e := newChunkEnc(rng, n, forceLog)
		f.enc = e.name
		fn, span := winStats.observe(e.fn)
		file = lib.CasWrite(f.data, f.chunk, 1, fn)
		e.done()
		f.winLo, f.winHi = span()
		f.rel = lib.CacheFileName("cas", f.hash, int64(n), false, f.suffix)
	case "cas-identity-hdr":
		n := d1Size(rng)
		f.data = lib.GenBlob(rng, n, lib.Pick(rng, lib.ContentKinds), id)
		f.hash = lib.Sha256Hex(f.data)
		f.chunk = lib.Pick(rng, chunkSizes)
		f.enc = "none"
		file = lib.CasWrite(f.data, f.chunk, 0, nil)
		f.rel = lib.CacheFileName("cas", f.hash, int64(n), false, f.suffix)
	case "cas-v1":
		n := d1Size(rng)
		f.data = lib.GenBlob(rng, n, lib.Pick(rng, lib.ContentKinds), id)
		f.hash = lib.Sha256Hex(f.data)
		f.enc = "none"
		file = f.data
		f.rel = lib.CacheFileName("cas", f.hash, -1, true, f.suffix)
	case "ac":
		f.ar, f.data = makeAR(rng, id, lib.Pick(rng, []int{0, 10, 5000, 40000}))
		f.hash = lib.RandHash(rng)
		f.enc = "none"
		file = f.data
		f.rel = lib.CacheFileName("ac", f.hash, -1, false, f.suffix)
	default:
		n := lib.Pick(rng, []int{1, 100, 4096, 40000, 70001})
		f.data = lib.GenBlob(rng, n, lib.Pick(rng, lib.ContentKinds), id)
		f.hash = lib.RandHash(rng)
		f.enc = "none"
		file = f.data
		f.rel = lib.CacheFileName("raw", f.hash, -1, false, f.suffix)
	}
	f.onDisk = int64(len(file))
	return f, file
}

func runDir1(r *lib.Run) {
	nBlobs := r.N(150, 3000)
	perDir := 25
	nDirs := (nBlobs + perDir - 1) / perDir

	sem := make(chan struct{}, r.N(6, 8)) // directories in flight
	var wg sync.WaitGroup
	for d := 0; d < nDirs; d++ {
		wg.Add(1)
		sem <- struct{}{}
		go func() {
			defer wg.Done()
			defer func() { <-sem }()
			rng := r.Rng(fmt.Sprintf("dir1/%d", d))
			n := min(perDir, nBlobs-d*perDir)
			dir1Case(r, rng, d, n)
		}()
	}
	wg.Wait()
}

func dir1Case(r *lib.Run, rng *rand.Rand, d int, n int) {
	dir := dirs.Get()
	defer dirs.Put(dir)

	var files []*d1File
	want := map[string]int64{}
	keys := map[string]bool{}
	for i := 0; i < n; i++ {
		// The first two files of every directory pin both ends of the
		// window bound (2^27 and 2^10).
		force := map[int]int{0: maxWindowLog, 1: minWindowLog}[i]
		f, b := genD1File(rng, fmt.Sprintf("d1-%d-%d-s%d", d, i, r.Seed), force)
		for keys[f.kind+"/"+f.hash] { // one file per key (tiny blobs have few possible values)
			f, b = genD1File(rng, fmt.Sprintf("d1-%d-%d-s%d", d, i, r.Seed), force)
		}
		keys[f.kind+"/"+f.hash] = true
		if err := writeFile(dir, f.rel, b); err != nil {
			r.Inconclusive("dir1: cannot write scratch file: " + err.Error())
			return
		}
		// Self-check of the harness: the name and (for cas.v2 files) the file
		// must be accepted by the independent reader.
		if _, err := lib.ParseCacheFileName(f.rel); err != nil {
			r.Inconclusive("dir1: harness produced a name its own grammar rejects: " + err.Error())
			return
		}
		files = append(files, f)
		want[f.rel] = int64(len(b))
		r.Count("dir1.file")
		r.Count("dir1.repr." + f.repr)
		if f.chunk > 0 {
			r.Count("dir1.chunk." + chunkClass(f.chunk))
		}
		if f.repr == "cas-zstd" {
			r.Count("dir1.enc." + encFamily(f.enc))
			r.Count("dir1.window." + windowClass(f.winHi))
		}
	}

	// Two generations: open, read everything; restart under another
	// configuration, read again.
	// (every file is read by both zstd implementations)
	first := cfgs[(d+int(r.Seed))%len(cfgs)]
	second := cfg{lib.Pick(rng, []string{"zstd", "uncompressed"}), map[string]string{"go": "cgo", "cgo": "go"}[first.impl]}
	for gen, c := range []cfg{first, second} {
		phase := "open"
		if gen == 1 {
			phase = "restart"
		}
		ok := dir1Open(r, rng, dir, d, c, phase, files, want)
		if !ok {
			return
		}
	}
}

// dir1Open opens the directory with the build and judges every read path.
func dir1Open(r *lib.Run, rng *rand.Rand, dir string, d int, c cfg, phase string, files []*d1File, want map[string]int64) bool {
	sect := "dir1"
	if len(files) > 0 {
		sect = files[0].section()
	}
	srv, err, timedOut := startBounded(lib.ServerOpts{Dir: dir, MaxSize: bigCache, Storage: c.storage, ZstdImpl: c.impl, RawHTTP: true, KeepDir: true})
	if timedOut {
		r.Inconclusive(fmt.Sprintf("%s: opening directory %d under %s did not finish within %s", sect, d, c, openMax))
		return false
	}
	r.Eval()
	if err != nil {
		r.Violation("C20:"+sect+":"+phase+":directory-rejected", "a cache directory laid out in the published v2 format could not be opened: "+short(err.Error()),
			map[string]any{"cfg": c.String(), "dir_index": d, "files": describeAll(files)})
		return false
	}
	defer srv.Close()
	r.Count(sect + "." + phase + "." + c.String())

	// Index: every file indexed under its key with the logical size.
	snap := lib.Snapshot(srv.Cache)
	byKey := map[string]disk.VerifEntry{}
	for _, e := range snap.Entries {
		byKey[e.Key] = e
	}
	for _, f := range files {
		r.Eval()
		e, ok := byKey[f.kind+"/"+f.hash]
		switch {
		case !ok:
			r.Violation("C20:"+sect+":"+f.repr+":index:not-loaded", "file laid out in the v2 format was not indexed at start-up", map[string]any{"cfg": c.String(), "phase": phase, "file": f.describe()})
		case e.Size != int64(len(f.data)) || e.Path != f.rel:
			r.Violation("C20:"+sect+":"+f.repr+":index:wrong-entry", fmt.Sprintf("indexed as path=%s size=%d, expected path=%s size=%d", e.Path, e.Size, f.rel, len(f.data)), map[string]any{"cfg": c.String(), "phase": phase, "file": f.describe()})
		default:
			r.Count(sect + ".index.ok")
		}
	}

	for _, f := range files {
		dir1Reads(r, rng, srv, c, phase, f)
	}

	// Reading must not have removed or rewritten anything.
	srv.Settle(settleMax)
	got, err := lib.ListFiles(dir)
	r.Eval()
	if err == nil {
		for rel, sz := range want {
			if gsz, ok := got[rel]; !ok || gsz != sz {
				r.Violation("C20:"+sect+":directory-changed", fmt.Sprintf("file %s (size %d) laid out in the v2 format is gone or changed after reads (now present=%v size=%d)", rel, sz, ok, gsz), map[string]any{"cfg": c.String(), "phase": phase})
			}
		}
		for rel := range got {
			if _, ok := want[rel]; !ok {
				r.Violation("C20:"+sect+":directory-changed", "unexpected file appeared in a directory that was only read: "+rel, map[string]any{"cfg": c.String(), "phase": phase})
			}
		}
	}
	return true
}

// encFamily strips the per-case parameters from an encoder name.
func encFamily(name string) string {
	for _, p := range []string{"kp-stream", "kp-all-nosingle", "kp-all-single", "c-stream"} {
		if strings.HasPrefix(name, p) {
			return p
		}
	}
	return name
}

func describeAll(files []*d1File) []any {
	var out []any
	for i, f := range files {
		if i >= 30 {
			break
		}
		out = append(out, f.describe())
	}
	return out
}

// dir1Reads judges all read paths for one file.
func dir1Reads(r *lib.Run, rng *rand.Rand, srv *lib.Server, c cfg, phase string, f *d1File) {
	n := int64(len(f.data))
	sc := lib.SizeClassName(len(f.data))
	sect := f.section()
	r.Distinct(sect, f.repr, f.chunk, encFamily(f.enc), windowClass(f.winHi), sc, c.String(), phase)
	if phase == "open" {
		r.Sample(map[string]any{"section": sect, "cfg": c.String(), "file": f.describe()})
	}

	bad := func(path, what, msg string, extra map[string]any) {
		det := map[string]any{"cfg": c.String(), "phase": phase, "file": f.describe(), "path": path}
		for k, v := range extra {
			det[k] = v
		}
		r.Violation("C20:"+sect+":"+f.repr+":"+path+":"+what, fmt.Sprintf("%s of %s (chunk size %d, %s): %s", path, f.repr, f.chunk, phase, msg), det)
	}
	judge := func(path string, o readOut, wantData []byte, extra map[string]any) bool {
		r.Eval()
		if p := o.problem(); p != "" {
			bad(path, p, short(o.err+o.panic), extra)
			return false
		}
		if o.size != n {
			bad(path, "wrong-size", fmt.Sprintf("reported size %d, logical size %d", o.size, n), extra)
			return false
		}
		if !sameBytes(o.data, wantData) {
			bad(path, "wrong-bytes", firstDiff(o.data, wantData), extra)
			return false
		}
		r.Count(sect + "." + phase + "." + path + ".ok")
		return true
	}

	// --- disk API -------------------------------------------------------
	r.Eval()
	var okc bool
	var szc int64
	if p := safely(func() { okc, szc = srv.Cache.Contains(context.Background(), entryKind(f.kind), f.hash, n) }); p != "" || !okc || szc != n {
		bad("api-contains", "wrong-answer", fmt.Sprintf("Contains(size)=(%v,%d) panic=%q", okc, szc, p), nil)
	} else {
		r.Count(sect + "." + phase + ".api-contains.ok")
	}
	r.Eval()
	if p := safely(func() { okc, szc = srv.Cache.Contains(context.Background(), entryKind(f.kind), f.hash, -1) }); p != "" || !okc || szc != n {
		bad("api-contains", "wrong-answer", fmt.Sprintf("Contains(-1)=(%v,%d) panic=%q", okc, szc, p), nil)
	}

	if f.kind != "cas" {
		judge("api-get", apiGet(srv.Cache, f.kind, f.hash, -1, 0, false, false), f.data, nil)
		judge("api-get", apiGet(srv.Cache, f.kind, f.hash, n, 0, false, false), f.data, nil)
		if n > 1 {
			off := 1 + rng.Int64N(n-1)
			judge("api-get-offset", apiGet(srv.Cache, f.kind, f.hash, n, off, false, false), f.data[off:], map[string]any{"offset": off})
		}
		dir1NonCasServer(r, srv, c, phase, f, bad)
		return
	}

	maxOffsets := 11
	if phase == "restart" {
		maxOffsets = 4
	}
	if f.winHi > 32*lib.MiB {
		// every read of such a file makes the decoder set up a window of up
		// to 128 MiB: fewer offsets, same paths
		maxOffsets = min(maxOffsets, 4)
	}
	offs := offsetsFor(rng, len(f.data), f.chunk, maxOffsets)
	// Offsets repeated through the servers. A handler panic in the
	// in-process gRPC server would take the check process down, so every
	// (offset, form) sent over gRPC is first probed through the disk API on
	// this goroutine (where a panic is caught and reported) and skipped if
	// that panicked.
	srvOffs := []int64{0}
	inSrv := map[int64]bool{0: true}
	for _, off := range offs {
		if off > 0 && len(srvOffs) < 4 && (offsetClass(off, len(f.data), f.chunk) != "inside" || rng.IntN(3) == 0) {
			srvOffs = append(srvOffs, off)
			inSrv[off] = true
		}
	}
	panicked := map[int64]bool{}
	judge("api-get-unknown-size", apiGet(srv.Cache, "cas", f.hash, -1, 0, false, false), f.data, nil)
	for i, off := range offs {
		oc := offsetClass(off, len(f.data), f.chunk)
		ex := map[string]any{"offset": off, "offset_class": oc}
		o := apiGet(srv.Cache, "cas", f.hash, n, off, false, false)
		if o.panic != "" {
			panicked[off] = true
		}
		path := "api-get"
		if off > 0 {
			path = "api-get-offset"
		}
		if judge(path, o, f.data[off:], ex) {
			r.Count(sect + ".offset." + oc)
		}
		if inSrv[off] || i%2 == 0 {
			o := apiGet(srv.Cache, "cas", f.hash, n, off, true, i%4 == 0)
			if o.panic != "" {
				panicked[off] = true
			}
			path := "api-getzstd"
			if off > 0 {
				path = "api-getzstd-offset"
			}
			judge(path, o, f.data[off:], ex)
		}
	}

	// --- server read paths ----------------------------------------------
	ctx, cancel := lib.Ctx()
	defer cancel()
	if panicked[0] {
		return
	}
	for i, off := range srvOffs {
		if panicked[off] {
			continue
		}
		ex := map[string]any{"offset": off}
		b, err := bsRead(ctx, srv, lib.ResBlobs(f.hash, n), off, 0, len(f.data))
		o := readOut{data: b, size: n, found: true}
		if err != nil {
			o.err = err.Error()
		}
		path := "bs-read"
		if off > 0 {
			path = "bs-read-offset"
		}
		judge(path, o, f.data[off:], ex)

		if i < 3 {
			zb, err := bsRead(ctx, srv, lib.ResZstd(f.hash, n), off, 0, len(f.data))
			o := readOut{size: n, found: true}
			if err != nil {
				o.err = err.Error()
			} else if dec, derr := decodeBoth(zb, len(f.data)); derr != nil {
				o.err = "returned stream is not legal zstd: " + derr.Error()
			} else {
				o.data = dec
			}
			path := "bs-read-zstd"
			if off > 0 {
				path = "bs-read-zstd-offset"
			}
			judge(path, o, f.data[off:], ex)
		}
	}
	if n > 10 {
		// bounded read (read_limit = exactly what remains) at a probed offset
		off := srvOffs[rng.IntN(len(srvOffs))]
		lim := n - off
		if !panicked[off] {
			b, err := bsRead(ctx, srv, lib.ResBlobs(f.hash, n), off, lim, len(f.data))
			if err == nil {
				judge("bs-read-limit", readOut{data: b, size: n, found: true}, f.data[off:], map[string]any{"offset": off, "limit": lim})
			} else {
				r.Count(sect + ".bs-read-limit.refused")
			}
		}
	}

	// HTTP
	g := srv.HTTPGet("/cas/"+f.hash, nil)
	o := readOut{data: g.Body, size: n, found: g.Status != 404}
	if g.Err != nil {
		o.err = g.Err.Error()
	} else if g.Status != 200 && g.Status != 404 {
		o.err = fmt.Sprintf("status %d: %s", g.Status, short(string(g.Body)))
	} else if g.BodyErr != nil {
		o.err = "body: " + g.BodyErr.Error()
	}
	if judge("http-get", o, f.data, nil) {
		r.Eval()
		if cl := g.Header.Get("Content-Length"); cl != fmt.Sprint(n) {
			bad("http-get", "wrong-size", "Content-Length "+cl, nil)
		}
	}
	gz := srv.HTTPGet("/cas/"+f.hash, map[string]string{"Accept-Encoding": "zstd"})
	o = readOut{size: n, found: gz.Status != 404}
	switch {
	case gz.Err != nil:
		o.err = gz.Err.Error()
	case gz.Status != 200 && gz.Status != 404:
		o.err = fmt.Sprintf("status %d: %s", gz.Status, short(string(gz.Body)))
	case gz.BodyErr != nil:
		o.err = "body: " + gz.BodyErr.Error()
	case gz.Status == 200:
		if gz.Header.Get("Content-Encoding") == "zstd" {
			dec, derr := decodeBoth(gz.Body, len(f.data))
			if derr != nil {
				o.err = "returned stream is not legal zstd: " + derr.Error()
			}
			o.data = dec
		} else {
			o.data = gz.Body
		}
	}
	judge("http-get-zstd", o, f.data, nil)
	r.Eval()
	if h := srv.HTTPHead("/cas/" + f.hash); h.Status != 200 || h.Header.Get("Content-Length") != fmt.Sprint(n) {
		bad("http-head", "wrong-answer", fmt.Sprintf("status %d Content-Length %q err=%v", h.Status, h.Header.Get("Content-Length"), h.Err), nil)
	} else {
		r.Count(sect + "." + phase + ".http-head.ok")
	}

	// gRPC CAS
	r.Eval()
	if miss, err := srv.FindMissing(ctx, &pb.Digest{Hash: f.hash, SizeBytes: n}); err != nil || len(miss) != 0 {
		bad("findmissing", "wrong-answer", fmt.Sprintf("reported missing=%d err=%v", len(miss), err), nil)
	} else {
		r.Count(sect + "." + phase + ".findmissing.ok")
	}
	if n <= 3*lib.MiB {
		for _, comp := range [][]pb.Compressor_Value{nil, {pb.Compressor_ZSTD}} {
			path := "batch-read"
			if comp != nil {
				path = "batch-read-zstd"
			}
			resp, err := srv.CAS.BatchReadBlobs(ctx, &pb.BatchReadBlobsRequest{Digests: []*pb.Digest{{Hash: f.hash, SizeBytes: n}}, AcceptableCompressors: comp})
			o := readOut{size: n, found: true}
			switch {
			case err != nil:
				o.err = err.Error()
			case len(resp.Responses) != 1:
				o.err = fmt.Sprintf("%d responses", len(resp.Responses))
			case resp.Responses[0].GetStatus().GetCode() == 5:
				o.found = false
			case resp.Responses[0].GetStatus().GetCode() != 0:
				o.err = fmt.Sprintf("status %d %s", resp.Responses[0].GetStatus().GetCode(), resp.Responses[0].GetStatus().GetMessage())
			case resp.Responses[0].Compressor == pb.Compressor_ZSTD:
				dec, derr := decodeBoth(resp.Responses[0].Data, len(f.data))
				if derr != nil {
					o.err = "returned data is not legal zstd: " + derr.Error()
				}
				o.data = dec
			default:
				o.data = resp.Responses[0].Data
			}
			judge(path, o, f.data, nil)
		}
	}
}

// dir1NonCasServer reads AC / RAW entries through the servers.
func dir1NonCasServer(r *lib.Run, srv *lib.Server, c cfg, phase string, f *d1File, bad func(path, what, msg string, extra map[string]any)) {
	ctx, cancel := lib.Ctx()
	defer cancel()
	sect := f.section()
	if f.kind == "ac" {
		r.Eval()
		g := srv.HTTPGet("/ac/"+f.hash, nil)
		switch {
		case g.Err != nil || g.Status != 200:
			bad("http-get-ac", "error", fmt.Sprintf("status %d err=%v", g.Status, g.Err), nil)
		case !sameBytes(g.Body, f.data):
			bad("http-get-ac", "wrong-bytes", firstDiff(g.Body, f.data), nil)
		default:
			r.Count(sect + "." + phase + ".http-get-ac.ok")
		}
		r.Eval()
		ar, err := srv.AC.GetActionResult(ctx, &pb.GetActionResultRequest{ActionDigest: &pb.Digest{Hash: f.hash, SizeBytes: 42}})
		switch {
		case err != nil:
			bad("grpc-get-ar", "error", short(err.Error()), nil)
		case !proto.Equal(ar, f.ar):
			bad("grpc-get-ar", "wrong-bytes", "ActionResult differs from the stored message", nil)
		default:
			r.Count(sect + "." + phase + ".grpc-get-ar.ok")
		}
		return
	}
	r.Eval()
	g := srv.HTTPDo("GET", srv.RawURL+"/ac/"+f.hash, nil, nil)
	switch {
	case g.Err != nil || g.Status != 200:
		bad("http-get-raw", "error", fmt.Sprintf("status %d err=%v", g.Status, g.Err), nil)
	case !sameBytes(g.Body, f.data):
		bad("http-get-raw", "wrong-bytes", firstDiff(g.Body, f.data), nil)
	default:
		r.Count(sect + "." + phase + ".http-get-raw.ok")
	}
	r.Eval()
	h := srv.HTTPDo("HEAD", srv.RawURL+"/ac/"+f.hash, nil, nil)
	if h.Status != 200 || h.Header.Get("Content-Length") != fmt.Sprint(len(f.data)) {
		bad("http-head-raw", "wrong-answer", fmt.Sprintf("status %d Content-Length %q", h.Status, h.Header.Get("Content-Length")), nil)
	}
}

package c20

import (
	"bytes"
	"context"
	"fmt"
	"io"
	"math/rand/v2"
	"os"
	"path/filepath"
	"sync"

	"verif/harness/lib"

	"github.com/buchgr/bazel-remote/v2/cache"
	pb "github.com/buchgr/bazel-remote/v2/genproto/build/bazel/remote/execution/v2"
	"google.golang.org/protobuf/proto"
)

// Direction 2: everything this build writes — local files after uploads
// through every ingress path, local files after fetches from a backend, and
// the objects it pushes to the backend — is parsed by the independent reader
// and compared with the original bytes.

// d2Proxy is lib.FakeProxy for reads; write-throughs are captured per key
// (and dropped once judged, to bound memory).
type d2Proxy struct {
	*lib.FakeProxy
	mu   sync.Mutex
	puts map[string]lib.ProxyPut
}

func (p *d2Proxy) Put(ctx context.Context, kind cache.EntryKind, hash string, logicalSize int64, sizeOnDisk int64, rc io.ReadCloser) {
	data, err := io.ReadAll(rc)
	_ = rc.Close()
	p.mu.Lock()
	p.puts[kind.String()+"/"+hash] = lib.ProxyPut{Kind: kind, Hash: hash, LogicalSize: logicalSize, SizeOnDisk: sizeOnDisk, Data: data, ReadErr: err}
	p.mu.Unlock()
}

func (p *d2Proxy) take(kind, hash string) (lib.ProxyPut, bool) {
	p.mu.Lock()
	defer p.mu.Unlock()
	k := kind + "/" + hash
	v, ok := p.puts[k]
	delete(p.puts, k)
	return v, ok
}

type d2Entry struct {
	id   string
	kind string
	hash string
	data []byte // expected logical bytes (CAS, RAW, AC via api); dropped for CAS once judged
	size int64
	ar   *pb.ActionResult
	path string
}

// release drops the content of a judged CAS entry (its sha256 is the key, so
// the restart pass can still verify it) to bound memory in the thorough tier.
func (e *d2Entry) release() {
	if e.kind == "cas" {
		e.size = int64(len(e.data))
		e.data = nil
	}
}

var d2UploadPaths = []string{
	"api-put", "http-put", "http-put-zstd", "bs-write", "bs-write-zstd", "batch-update", "batch-update-zstd",
	"http-put-ac", "grpc-update-ar", "api-put-ac", "http-put-raw", "api-put-raw",
}

var d2FetchPaths = []string{
	"fetch-api-get", "fetch-api-get-unknown", "fetch-api-getzstd", "fetch-http-get", "fetch-http-get-zstd",
	"fetch-bs-read", "fetch-bs-read-offset", "fetch-bs-read-zstd", "fetch-batch-read",
	"fetch-http-ac", "fetch-grpc-ar", "fetch-api-ac", "fetch-http-raw", "fetch-api-raw",
}

func d2Kind(path string) string {
	switch path {
	case "http-put-ac", "grpc-update-ar", "api-put-ac", "fetch-http-ac", "fetch-grpc-ar", "fetch-api-ac":
		return "ac"
	case "http-put-raw", "api-put-raw", "fetch-http-raw", "fetch-api-raw":
		return "raw"
	}
	return "cas"
}

func d2Size(rng *rand.Rand, path string) int {
	big := []int{2 * lib.MiB, 2*lib.MiB + 4097, 3*lib.MiB + 1, 5*lib.MiB + 17}
	if path == "batch-update" || path == "batch-update-zstd" || path == "fetch-batch-read" {
		big = []int{2 * lib.MiB, 2*lib.MiB + 4097}
	}
	switch rng.IntN(10) {
	case 0:
		return lib.Pick(rng, big)
	case 1, 2, 3:
		return lib.Pick(rng, []int{lib.MiB - 1, lib.MiB, lib.MiB + 1})
	case 4:
		return 1 + rng.IntN(300*lib.KiB)
	}
	return lib.Pick(rng, []int{1, 2, 4095, 4096, 4097, 64*lib.KiB - 1, 64 * lib.KiB, 64*lib.KiB + 1})
}

func randUUID(rng *rand.Rand) string {
	return fmt.Sprintf("%08x-%04x-4%03x-8%03x-%012x", rng.Uint32(), rng.Uint32()&0xffff, rng.Uint32()&0xfff, rng.Uint32()&0xfff, rng.Uint64()&0xffffffffffff)
}

func runDir2(r *lib.Run) {
	n := r.N(150, 3000)
	var wg sync.WaitGroup
	for i, c := range cfgs {
		wg.Add(1)
		go func() {
			defer wg.Done()
			dir2Cfg(r, c, i, (n+len(cfgs)-1)/len(cfgs))
		}()
	}
	wg.Wait()
}

type d2World struct {
	r    *lib.Run
	c    cfg
	rng  *rand.Rand
	srv  *lib.Server
	px   *d2Proxy
	dir  string
	all  []*d2Entry
	keys map[string]bool // every key a case touched (for the final sweep)
	zstd bool
}

func dir2Cfg(r *lib.Run, c cfg, ci int, n int) {
	rng := r.Rng("dir2/" + c.String())
	px := &d2Proxy{FakeProxy: lib.NewFakeProxy(c.storage == "zstd"), puts: map[string]lib.ProxyPut{}}
	dir := dirs.Get()
	defer dirs.Put(dir)
	srv, err := lib.StartServer(lib.ServerOpts{Dir: dir, MaxSize: bigCache, Storage: c.storage, ZstdImpl: c.impl, Proxy: px, RawHTTP: true, KeepDir: true})
	if err != nil {
		r.Inconclusive("dir2: cannot start server: " + err.Error())
		return
	}
	w := &d2World{r: r, c: c, rng: rng, srv: srv, px: px, dir: dir, zstd: c.storage == "zstd", keys: map[string]bool{}}

	// Every path is visited round-robin (offset by the cfg index and seed so
	// that size classes rotate over paths), uploads and fetches alternating.
	for i := 0; i < n; i++ {
		id := fmt.Sprintf("d2-%s-%d-s%d", c.String(), i, r.Seed)
		if i%2 == 0 {
			w.upload(id, d2UploadPaths[(i/2+ci)%len(d2UploadPaths)])
		} else {
			w.fetch(id, d2FetchPaths[(i/2+ci)%len(d2FetchPaths)])
		}
	}

	// Sweep: every file in the directory follows the naming grammar and
	// belongs to a key written above.
	srv.Settle(settleMax)
	keys := w.keys
	files, err := lib.ListFiles(dir)
	if err == nil {
		for rel := range files {
			r.Eval()
			pn, perr := lib.ParseCacheFileName(filepath.ToSlash(rel))
			switch {
			case perr != nil:
				r.Violation("C20:dir2:sweep:name-not-in-grammar", "the build left a file whose name is not in the published v2 grammar: "+rel, map[string]any{"cfg": c.String(), "file": rel})
			case !keys[pn.Key()]:
				r.Violation("C20:dir2:sweep:stray-file", "file for a key that was never written: "+rel, map[string]any{"cfg": c.String(), "file": rel})
			default:
				r.Count("dir2.sweep.ok")
			}
		}
	}
	srv.Close()

	// Restart without backend under the other zstd implementation: what the
	// build wrote must still be served byte-exactly.
	other := cfg{c.storage, map[string]string{"go": "cgo", "cgo": "go"}[c.impl]}
	c2, err, timedOut := openBounded(lib.ServerOpts{Dir: dir, MaxSize: bigCache, Storage: other.storage, ZstdImpl: other.impl})
	if timedOut {
		r.Inconclusive(fmt.Sprintf("dir2: reopening the directory written under %s did not finish within %s", c, openMax))
		return
	}
	r.Eval()
	if err != nil {
		r.Violation("C20:dir2:restart:directory-rejected", "the build cannot reopen the directory it wrote: "+short(err.Error()), map[string]any{"cfg": c.String()})
		return
	}
	for _, e := range w.all {
		r.Eval()
		o := apiGet(c2, e.kind, e.hash, -1, 0, false, false)
		want := e.data
		switch {
		case o.problem() != "":
			r.Violation("C20:dir2:restart:"+e.kind+":"+o.problem(), "entry written by the build is not served after a restart: "+short(o.err+o.panic), map[string]any{"cfg": c.String(), "entry": e.id, "written_via": e.path, "hash": e.hash})
		case e.kind == "cas" && want == nil:
			if int64(len(o.data)) != e.size || lib.Sha256Hex(o.data) != e.hash {
				r.Violation("C20:dir2:restart:cas:wrong-bytes", fmt.Sprintf("after a restart the entry reads as %d bytes with sha256 %s, expected %d bytes with sha256 %s", len(o.data), lib.Sha256Hex(o.data), e.size, e.hash), map[string]any{"cfg": c.String(), "entry": e.id, "written_via": e.path, "hash": e.hash})
			} else {
				r.Count("dir2.restart.ok")
			}
		case e.ar != nil && want == nil:
			got := &pb.ActionResult{}
			if proto.Unmarshal(o.data, got) != nil || !proto.Equal(got, e.ar) {
				r.Violation("C20:dir2:restart:ac:wrong-bytes", "ActionResult differs after a restart", map[string]any{"cfg": c.String(), "entry": e.id, "written_via": e.path})
			} else {
				r.Count("dir2.restart.ok")
			}
		case !sameBytes(o.data, want):
			r.Violation("C20:dir2:restart:"+e.kind+":wrong-bytes", firstDiff(o.data, want), map[string]any{"cfg": c.String(), "entry": e.id, "written_via": e.path, "hash": e.hash})
		default:
			r.Count("dir2.restart.ok")
		}
	}
}

func (w *d2World) violation(key, what string, e *d2Entry, extra map[string]any) {
	det := map[string]any{"cfg": w.c.String(), "entry": e.id, "path": e.path, "kind": e.kind, "hash": e.hash, "logical_size": len(e.data)}
	for k, v := range extra {
		det[k] = v
	}
	w.r.Violation(key, what, det)
}

// newEntry generates the content for one case. Keys are unique within the
// world (tiny blobs have few possible values: a repeated digest would be an
// upload of an existing blob, which the server rightly short-circuits).
func (w *d2World) newEntry(id, path string) *d2Entry {
	for try := 0; ; try++ {
		e := &d2Entry{id: id, path: path, kind: d2Kind(path)}
		switch e.kind {
		case "cas":
			size := d2Size(w.rng, path)
			if try > 20 {
				size += 3 + try
			}
			e.data = lib.GenBlob(w.rng, size, lib.Pick(w.rng, lib.ContentKinds), id)
			e.hash = lib.Sha256Hex(e.data)
		case "ac":
			e.ar, e.data = makeAR(w.rng, id, lib.Pick(w.rng, []int{0, 10, 5000, 40000}))
			e.hash = lib.RandHash(w.rng)
		default:
			e.data = lib.GenBlob(w.rng, lib.Pick(w.rng, []int{1, 100, 4096, 40000, 70001}), lib.Pick(w.rng, lib.ContentKinds), id)
			e.hash = lib.RandHash(w.rng)
		}
		if !w.keys[e.kind+"/"+e.hash] {
			w.keys[e.kind+"/"+e.hash] = true
			return e
		}
	}
}

func (w *d2World) zstdPayload(data []byte) []byte {
	if w.rng.IntN(2) == 0 {
		return encodeKP(data, 1+w.rng.IntN(3))
	}
	return lib.ZstdEncodeC(data, lib.Pick(w.rng, []int{1, 3, 7}))
}

// upload sends one entry through an ingress path and judges what was stored.
func (w *d2World) upload(id, path string) {
	r := w.r
	e := w.newEntry(id, path)
	n := int64(len(e.data))
	ctx, cancel := lib.Ctx()
	defer cancel()
	var fail string
	okHTTP := func(res lib.HTTPResult) {
		if res.Err != nil {
			fail = res.Err.Error()
		} else if res.Status != 200 {
			fail = fmt.Sprintf("status %d: %s", res.Status, short(string(res.Body)))
		}
	}
	switch path {
	case "api-put", "api-put-ac", "api-put-raw":
		var err error
		if p := safely(func() { err = w.srv.Cache.Put(ctx, entryKind(e.kind), e.hash, n, bytes.NewReader(e.data)) }); p != "" {
			fail = "panic: " + p
		} else if err != nil {
			fail = err.Error()
		}
	case "http-put":
		okHTTP(w.srv.HTTPPut("/cas/"+e.hash, e.data, nil))
	case "http-put-zstd":
		okHTTP(w.srv.HTTPPut("/cas/"+e.hash, w.zstdPayload(e.data), map[string]string{"Content-Encoding": "zstd", "X-Digest-SizeBytes": fmt.Sprint(n)}))
	case "bs-write":
		_, err := w.srv.BSWrite(ctx, lib.ResUpload(randUUID(w.rng), e.hash, n), e.data, lib.Pick(w.rng, []int{0, 1000, 64 * lib.KiB, lib.MiB}))
		if err != nil {
			fail = err.Error()
		}
	case "bs-write-zstd":
		_, err := w.srv.BSWrite(ctx, lib.ResUploadZstd(randUUID(w.rng), e.hash, n), w.zstdPayload(e.data), lib.Pick(w.rng, []int{0, 1000, 64 * lib.KiB}))
		if err != nil {
			fail = err.Error()
		}
	case "batch-update", "batch-update-zstd":
		req := &pb.BatchUpdateBlobsRequest_Request{Digest: &pb.Digest{Hash: e.hash, SizeBytes: n}, Data: e.data}
		if path == "batch-update-zstd" {
			req.Data, req.Compressor = w.zstdPayload(e.data), pb.Compressor_ZSTD
		}
		resp, err := w.srv.CAS.BatchUpdateBlobs(ctx, &pb.BatchUpdateBlobsRequest{Requests: []*pb.BatchUpdateBlobsRequest_Request{req}})
		switch {
		case err != nil:
			fail = err.Error()
		case len(resp.Responses) != 1 || resp.Responses[0].GetStatus().GetCode() != 0:
			fail = fmt.Sprintf("batch status %v", resp.Responses)
		}
	case "http-put-ac":
		okHTTP(w.srv.HTTPPut("/ac/"+e.hash, e.data, nil))
		e.data = nil // stored bytes are the server's re-marshalled message; judged as a message
	case "grpc-update-ar":
		_, err := w.srv.AC.UpdateActionResult(ctx, &pb.UpdateActionResultRequest{ActionDigest: &pb.Digest{Hash: e.hash, SizeBytes: 42}, ActionResult: proto.Clone(e.ar).(*pb.ActionResult)})
		if err != nil {
			fail = err.Error()
		}
		e.data = nil
	case "http-put-raw":
		okHTTP(w.srv.HTTPDo("PUT", w.srv.RawURL+"/ac/"+e.hash, e.data, nil))
	}
	r.Count("dir2.upload." + path)
	if fail != "" {
		// Not a format question (the statement is about what IS stored); but
		// the case then observed nothing.
		r.Count("dir2.upload.refused")
		r.Inconclusive(fmt.Sprintf("dir2: upload via %s (%s, %d bytes) was refused: %s", path, w.c, n, short(fail)))
		return
	}
	w.srv.Settle(settleMax)
	w.all = append(w.all, e)
	defer e.release()
	r.Distinct("dir2", w.c.String(), path, e.kind, lib.SizeClassName(int(n)))
	r.Sample(map[string]any{"section": "dir2", "cfg": w.c.String(), "path": path, "kind": e.kind, "hash": e.hash, "size": n})

	if w.checkStored(e, "upload") {
		r.Count("dir2.upload.checked")
		r.Count("dir2.upload." + path + ".ok")
	}

	// Write-through object handed to the backend: "same format as on disk".
	r.Eval()
	put, ok := w.px.take(e.kind, e.hash)
	switch {
	case !ok:
		w.violation("C20:dir2:"+e.kind+":backend-put:missing", "no write-through to the backend after a successful upload", e, nil)
	case put.ReadErr != nil:
		w.violation("C20:dir2:"+e.kind+":backend-put:unreadable", "backend object stream failed: "+put.ReadErr.Error(), e, nil)
	default:
		if w.judgeStoredBytes(e, put.Data, "backend-put", e.kind == "cas" && w.zstd, nil) {
			if put.SizeOnDisk != int64(len(put.Data)) || (e.data != nil && put.LogicalSize != int64(len(e.data))) {
				w.violation("C20:dir2:"+e.kind+":backend-put:wrong-size", fmt.Sprintf("announced logical=%d onDisk=%d, object has %d bytes", put.LogicalSize, put.SizeOnDisk, len(put.Data)), e, nil)
			} else {
				r.Count("dir2.backend-put.ok")
			}
		}
	}
}

// checkStored locates the file of an entry and judges name and content.
func (w *d2World) checkStored(e *d2Entry, origin string) bool {
	r := w.r
	r.Eval()
	files := filesFor(w.dir, e.kind, e.hash)
	if len(files) != 1 {
		w.violation("C20:dir2:"+e.kind+":"+origin+":file-count", fmt.Sprintf("expected exactly one file for the key after %s via %s, found %v", origin, e.path, files), e, map[string]any{"files": files})
		return false
	}
	rel := filepath.ToSlash(files[0])
	pn, err := lib.ParseCacheFileName(rel)
	r.Eval()
	if err != nil {
		w.violation("C20:dir2:"+e.kind+":"+origin+":name-not-in-grammar", "file name written by the build is not in the published v2 grammar: "+rel, e, map[string]any{"file": rel})
		return false
	}
	compressed := e.kind == "cas" && w.zstd
	wantLegacy := e.kind == "cas" && !w.zstd
	r.Eval()
	if pn.Kind != e.kind || pn.Hash != e.hash || pn.Legacy != wantLegacy || (compressed && e.data != nil && pn.LogicalSize != int64(len(e.data))) || (!compressed && pn.LogicalSize != -1) {
		w.violation("C20:dir2:"+e.kind+":"+origin+":wrong-name", fmt.Sprintf("file %s parses as %+v; expected kind=%s legacy=%v logical size %d in the name iff compressed CAS", rel, pn, e.kind, wantLegacy, len(e.data)), e, map[string]any{"file": rel})
		return false
	}
	b, err := os.ReadFile(filepath.Join(w.dir, files[0]))
	if err != nil {
		r.Inconclusive("dir2: cannot read back " + rel + ": " + err.Error())
		return false
	}
	return w.judgeStoredBytes(e, b, origin, compressed, map[string]any{"file": rel})
}

// judgeStoredBytes parses stored bytes with the independent reader.
func (w *d2World) judgeStoredBytes(e *d2Entry, b []byte, origin string, compressed bool, extra map[string]any) bool {
	r := w.r
	r.Eval()
	content := b
	if compressed {
		dec, h, err := lib.CasRead(b)
		if err != nil {
			w.violation("C20:dir2:cas:"+origin+":independent-reader-rejects", "cas.v2 bytes written by the build are rejected by the independent reader: "+short(err.Error()), e, extra)
			return false
		}
		if h.LogicalSize != int64(len(e.data)) {
			w.violation("C20:dir2:cas:"+origin+":header-logical-size", fmt.Sprintf("header logical size %d, blob has %d bytes", h.LogicalSize, len(e.data)), e, extra)
			return false
		}
		r.Count(fmt.Sprintf("dir2.%s.header.compression%d.chunk%s", origin, h.Compression, chunkClass(int(h.ChunkSize))))
		content = dec
	}
	if e.data == nil && e.ar != nil {
		got := &pb.ActionResult{}
		if err := proto.Unmarshal(content, got); err != nil || !proto.Equal(got, e.ar) {
			w.violation("C20:dir2:ac:"+origin+":wrong-bytes", fmt.Sprintf("stored ActionResult differs from the uploaded message (unmarshal err=%v)", err), e, extra)
			return false
		}
		return true
	}
	if !sameBytes(content, e.data) {
		w.violation("C20:dir2:"+e.kind+":"+origin+":wrong-bytes", "stored bytes decode differently: "+firstDiff(content, e.data), e, extra)
		return false
	}
	return true
}

// fetch places an object in the backend (laid out by the independent codec),
// reads it through the front end and judges the answer and the local file.
func (w *d2World) fetch(id, path string) {
	r := w.r
	e := w.newEntry(id, path)
	n := int64(len(e.data))
	ctx, cancel := lib.Ctx()
	defer cancel()

	object := e.data
	cs := 0
	encName := "none"
	if e.kind == "cas" && w.zstd {
		cs = lib.Pick(w.rng, chunkSizes)
		if w.rng.IntN(8) == 0 {
			object = lib.CasWrite(e.data, cs, 0, nil)
			encName = "identity-hdr"
		} else {
			enc := newChunkEnc(w.rng, len(e.data), 0)
			fn, span := winStats.observe(enc.fn)
			object = lib.CasWrite(e.data, cs, 1, fn)
			enc.done()
			encName = enc.name
			_, hi := span()
			w.r.Count("dir2.fetch.object-window." + windowClass(hi))
		}
	}
	w.px.SetRaw(entryKind(e.kind), e.hash, object, n)
	extra := map[string]any{"backend_object_chunk_size": cs, "backend_object_encoder": encName}

	want := e.data
	var o readOut
	o.size = n
	switch path {
	case "fetch-api-get", "fetch-api-ac", "fetch-api-raw":
		sz := n
		if e.kind != "cas" {
			sz = -1
		}
		o = apiGet(w.srv.Cache, e.kind, e.hash, sz, 0, false, false)
	case "fetch-api-get-unknown":
		o = apiGet(w.srv.Cache, e.kind, e.hash, -1, 0, false, false)
	case "fetch-api-getzstd":
		o = apiGet(w.srv.Cache, "cas", e.hash, n, 0, true, w.rng.IntN(2) == 0)
	case "fetch-http-get", "fetch-http-get-zstd", "fetch-http-ac", "fetch-http-raw":
		var hdr map[string]string
		url := w.srv.HTTPURL + "/" + map[string]string{"cas": "cas", "ac": "ac", "raw": "ac"}[e.kind] + "/" + e.hash
		if e.kind == "raw" {
			url = w.srv.RawURL + "/ac/" + e.hash
		}
		if path == "fetch-http-get-zstd" {
			hdr = map[string]string{"Accept-Encoding": "zstd"}
		}
		g := w.srv.HTTPDo("GET", url, nil, hdr)
		o.found = g.Status != 404
		o.data = g.Body
		switch {
		case g.Err != nil:
			o.err = g.Err.Error()
		case g.Status != 200 && g.Status != 404:
			o.err = fmt.Sprintf("status %d: %s", g.Status, short(string(g.Body)))
		case g.BodyErr != nil:
			o.err = "body: " + g.BodyErr.Error()
		case g.Status == 200 && g.Header.Get("Content-Encoding") == "zstd":
			dec, derr := decodeBoth(g.Body, len(e.data))
			if derr != nil {
				o.err = "returned stream is not legal zstd: " + derr.Error()
			}
			o.data = dec
		}
	case "fetch-bs-read", "fetch-bs-read-offset":
		off := int64(0)
		if path == "fetch-bs-read-offset" && n > 1 {
			// The fetch itself happens through the disk API at the offset (a
			// panic is caught here; inside the in-process gRPC server it would
			// end the run); the ByteStream read then repeats the offset.
			off = lib.Pick(w.rng, offsetsFor(w.rng, len(e.data), cs, 0))
			extra["offset"] = off
			r.Eval()
			o1 := apiGet(w.srv.Cache, "cas", e.hash, n, off, false, false)
			if o1.problem() != "" || !sameBytes(o1.data, e.data[off:]) {
				what := o1.problem()
				if what == "" {
					what = "wrong-bytes"
				}
				w.violation("C20:dir2:cas:fetch-answer:"+what, fmt.Sprintf("backend object in the v2 format fetched with Get at offset %d: %s %s", off, short(o1.err+o1.panic), firstDiff(o1.data, e.data[off:])), e, extra)
				return
			}
			r.Count("dir2.fetch.fetch-api-get-offset.ok")
		}
		b, err := bsRead(ctx, w.srv, lib.ResBlobs(e.hash, n), off, 0, len(e.data))
		o.found, o.data = true, b
		want = e.data[off:]
		if err != nil {
			o.err = err.Error()
		}
	case "fetch-bs-read-zstd":
		b, err := bsRead(ctx, w.srv, lib.ResZstd(e.hash, n), 0, 0, len(e.data))
		o.found = true
		if err != nil {
			o.err = err.Error()
		} else if dec, derr := decodeBoth(b, len(e.data)); derr != nil {
			o.err = "returned stream is not legal zstd: " + derr.Error()
		} else {
			o.data = dec
		}
	case "fetch-batch-read":
		resp, err := w.srv.CAS.BatchReadBlobs(ctx, &pb.BatchReadBlobsRequest{Digests: []*pb.Digest{{Hash: e.hash, SizeBytes: n}}})
		o.found = true
		switch {
		case err != nil:
			o.err = err.Error()
		case len(resp.Responses) != 1 || resp.Responses[0].GetStatus().GetCode() != 0:
			o.err = fmt.Sprintf("batch status %v", resp.Responses[0].GetStatus())
		default:
			o.data = resp.Responses[0].Data
		}
	case "fetch-grpc-ar":
		ar, err := w.srv.AC.GetActionResult(ctx, &pb.GetActionResultRequest{ActionDigest: &pb.Digest{Hash: e.hash, SizeBytes: 42}})
		o.found = true
		if err != nil {
			o.err = err.Error()
		} else if !proto.Equal(ar, e.ar) {
			o.data = []byte("different message")
		} else {
			o.data = e.data
		}
	}
	r.Count("dir2.fetch." + path)
	r.Eval()
	switch {
	case o.problem() != "":
		w.violation("C20:dir2:"+e.kind+":fetch-answer:"+o.problem(), fmt.Sprintf("backend object in the v2 format is not served through %s: %s", path, short(o.err+o.panic)), e, extra)
		return
	case !sameBytes(o.data, want):
		w.violation("C20:dir2:"+e.kind+":fetch-answer:wrong-bytes", fmt.Sprintf("%s: %s", path, firstDiff(o.data, want)), e, extra)
		return
	}
	w.srv.Settle(settleMax)
	w.all = append(w.all, e)
	defer e.release()
	r.Distinct("dir2", w.c.String(), path, e.kind, lib.SizeClassName(int(n)), chunkClass(cs))
	if !w.checkStored(e, "fetch") {
		return
	}
	r.Count("dir2.fetch.checked")
	r.Count("dir2.fetch." + path + ".ok")

	// Local hit afterwards (the backend object is gone): offset read across a
	// boundary of the fetched file's chunk size.
	w.px.Delete(entryKind(e.kind), e.hash)
	off := int64(0)
	if e.kind == "cas" && n > 1 {
		off = lib.Pick(w.rng, offsetsFor(w.rng, len(e.data), cs, 0))
	}
	sz := n
	if e.kind != "cas" {
		sz = -1
	}
	r.Eval()
	o2 := apiGet(w.srv.Cache, e.kind, e.hash, sz, off, false, false)
	ex2 := map[string]any{"offset": off, "backend_object_chunk_size": cs, "backend_object_encoder": encName}
	switch {
	case o2.problem() != "":
		w.violation("C20:dir2:"+e.kind+":fetched-local-read:"+o2.problem(), "entry fetched from the backend is not served locally afterwards: "+short(o2.err+o2.panic), e, ex2)
	case !sameBytes(o2.data, e.data[off:]):
		w.violation("C20:dir2:"+e.kind+":fetched-local-read:wrong-bytes", firstDiff(o2.data, e.data[off:]), e, ex2)
	default:
		r.Count("dir2.fetch.local-read.ok")
	}
}

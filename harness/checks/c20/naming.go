package c20

import (
	"bytes"
	"context"
	"encoding/base64"
	"encoding/hex"
	"fmt"
	"io"
	"math/rand/v2"
	"net/http"
	"net/url"
	"regexp"
	"strings"
	"sync"

	"verif/harness/lib"

	"github.com/buchgr/bazel-remote/v2/cache"
	"github.com/buchgr/bazel-remote/v2/cache/azblobproxy"
	"github.com/buchgr/bazel-remote/v2/cache/grpcproxy"
	"github.com/buchgr/bazel-remote/v2/cache/httpproxy"
	"github.com/buchgr/bazel-remote/v2/cache/s3proxy"
	pb "github.com/buchgr/bazel-remote/v2/genproto/build/bazel/remote/execution/v2"
	"github.com/minio/minio-go/v7"
	"github.com/minio/minio-go/v7/pkg/credentials"
	"google.golang.org/grpc/credentials/insecure"
	"google.golang.org/protobuf/proto"

	grpccreds "google.golang.org/grpc/credentials"
)

func insecureCreds() grpccreds.TransportCredentials { return insecure.NewCredentials() }

func sriToHex(b64 string) (string, bool) {
	raw, err := base64.StdEncoding.DecodeString(b64)
	if err != nil || len(raw) != 32 {
		return "", false
	}
	return hex.EncodeToString(raw), true
}

// ---------------------------------------------------------------------------
// Pinned naming functions, written from the published layout (DESIGN §3 C20),
// not from the code:
//
//	HTTP backend   <base>/cas.v2/<hash>               CAS, zstd mode
//	               <base>/<kind>/<hash>               otherwise (kind = ac|cas|raw)
//	S3 bucket      [prefix/]cas.v2/<hh>/<hash>        CAS, zstd mode
//	               [prefix/]<kind>/<hh>/<hash>        otherwise
//	Azure          /<container>/ + the S3 form, with a non-empty prefix applied
//	               twice (<prefix>/<prefix>/...): behaviour of the unchanged build
//	gRPC backend   compressed-blobs/zstd/<hash>/<size> | blobs/<hash>/<size>  (read)
//	               uploads/<uuid>/ + the read name                             (write)
//	               action digests by hash; FindMissingBlobs (hash,size);
//	               FetchBlob qualifier checksum.sri=sha256-<base64 of the hash>

func pinHTTPPath(basePath, kind, hash, mode string) string {
	if kind == "cas" && mode == "zstd" {
		return basePath + "/cas.v2/" + hash
	}
	return basePath + "/" + kind + "/" + hash
}

// pinNormPrefix: the configured prefix as every 2.x release applies it - empty and "." segments dropped (a trailing
// slash, a doubled slash or a leading "./" in the configured value do not change any object name).
func pinNormPrefix(prefix string) string {
	var segs []string
	for _, sg := range strings.Split(prefix, "/") {
		if sg != "" && sg != "." {
			segs = append(segs, sg)
		}
	}
	return strings.Join(segs, "/")
}

func pinObjectKey(prefix, kind, hash, mode string) string {
	prefix = pinNormPrefix(prefix)
	k := kind + "/" + hash[:2] + "/" + hash
	if kind == "cas" && mode == "zstd" {
		k = "cas.v2/" + hash[:2] + "/" + hash
	}
	if prefix != "" {
		k = prefix + "/" + k
	}
	return k
}

func pinAzurePath(container, prefix, kind, hash, mode string) string {
	k := pinObjectKey(prefix, kind, hash, mode)
	if prefix != "" {
		// (the second application is verbatim: what the releases do, pinned as observed on the unchanged build)
		k = prefix + "/" + k
	}
	return "/" + container + "/" + k
}

func pinGRPCRead(hash string, size int64, mode string) string {
	if mode == "zstd" {
		return fmt.Sprintf("compressed-blobs/zstd/%s/%d", hash, size)
	}
	return fmt.Sprintf("blobs/%s/%d", hash, size)
}

var reUUID = regexp.MustCompile(`^[0-9a-fA-F]{8}-[0-9a-fA-F]{4}-[0-9a-fA-F]{4}-[0-9a-fA-F]{4}-[0-9a-fA-F]{12}$`)

func pinSRI(hash string) string {
	raw, _ := hex.DecodeString(hash)
	return "checksum.sri=sha256-" + base64.StdEncoding.EncodeToString(raw)
}

// ---------------------------------------------------------------------------

// nTuple is one (backend, kind, hash, mode, prefix) case.
type nTuple struct {
	backend, kind, hash, mode, prefix string
	identity                          string // what the name must be an injective function of
	payload                           []byte // logical content (unique per identity)
	object                            []byte // bytes handed to Proxy.Put ("same format as on disk")
	ar                                *pb.ActionResult
	putName                           string
}

func (t *nTuple) detail() map[string]any {
	return map[string]any{"backend": t.backend, "kind": t.kind, "hash": t.hash, "storage_mode": t.mode, "prefix": t.prefix, "logical_size": len(t.payload)}
}

type seekCloser struct{ *bytes.Reader }

func (seekCloser) Close() error { return nil }

// nInstance is one configured proxy.
type nInstance struct {
	backend, mode, prefix string
	proxy                 cache.Proxy
	rec                   *recorder
	expect                func(t *nTuple, op string) string // pinned name for put/get/head
	tuples                []*nTuple
}

type nameWorld struct {
	r  *lib.Run
	mu sync.Mutex
	// name -> identity, per backend namespace
	seen map[string]map[string]string
}

func (w *nameWorld) claim(t *nTuple, name string) {
	w.mu.Lock()
	defer w.mu.Unlock()
	m := w.seen[t.backend]
	if m == nil {
		m = map[string]string{}
		w.seen[t.backend] = m
	}
	w.r.Eval()
	if prev, ok := m[name]; ok && prev != t.identity {
		w.r.Violation("C20:naming:"+t.backend+":not-injective", fmt.Sprintf("two distinct (key space, hash, prefix, format) tuples map to the backend name %q: %s and %s", name, prev, t.identity), t.detail())
		return
	}
	m[name] = t.identity
}

func prefixClass(p string) string {
	switch {
	case p == "":
		return "none"
	case p != pinNormPrefix(p):
		return "not-normalised"
	case strings.Contains(p, "/"):
		return "p/q"
	}
	return "p"
}

func runNaming(r *lib.Run) {
	total := r.N(400, 10000)
	// http, s3, azure: 2 modes x 3 prefixes x 3 kinds = 18 tuples per hash;
	// grpc: 2 modes x 3 kinds = 6 tuples per hash.
	hashesPer := max(2, total*27/100/18)
	hashesGRPC := max(4, total*19/100/6)
	w := &nameWorld{r: r, seen: map[string]map[string]string{}}

	var wg sync.WaitGroup
	for _, backend := range []string{"http", "s3", "azure", "grpc"} {
		wg.Add(1)
		go func() {
			defer wg.Done()
			n := hashesPer
			if backend == "grpc" {
				n = hashesGRPC
			}
			// Fresh prefixes (and proxy instances) for every group of hashes.
			group := 0
			for done := 0; done < n; group++ {
				k := min(25, n-done)
				w.backendGroup(backend, group, k)
				done += k
			}
		}()
	}
	wg.Wait()
}

// backendGroup runs k hashes against fresh instances of one backend.
func (w *nameWorld) backendGroup(backend string, group, k int) {
	r := w.r
	rng := r.Rng(fmt.Sprintf("naming/%s/%d", backend, group))
	word := func() string {
		if rng.IntN(4) == 0 {
			return lib.Pick(rng, []string{"cas", "ac", "raw", "cas.v2", "blobs"}) // prefixes that look like key spaces
		}
		n := 1 + rng.IntN(10)
		b := make([]byte, n)
		for i := range b {
			b[i] = alnum[rng.IntN(len(alnum))]
		}
		return string(b)
	}
	p := word()
	prefixes := []string{"", p, p + "/" + word()}
	if backend == "grpc" {
		prefixes = []string{""}
	}
	if backend == "s3" || backend == "azure" {
		// configured values that are not in normal form (own words, so that no two instances share a name space)
		prefixes = append(prefixes, word()+"x/", word()+"y//"+word(), "./"+word()+"z")
	}

	// hashes: random, plus pairs sharing their first two characters
	var hashes []string
	for i := 0; i < k; i++ {
		h := lib.RandHash(rng)
		if i%3 == 2 {
			h = hashes[i-1][:2] + h[2:]
		}
		hashes = append(hashes, h)
	}

	var insts []*nInstance
	var closers []func()
	defer func() {
		for _, c := range closers {
			c()
		}
	}()
	switch backend {
	case "http":
		be := newHTTPBackend()
		closers = append(closers, be.close)
		for _, mode := range []string{"zstd", "uncompressed"} {
			for _, pre := range prefixes {
				basePath := ""
				if pre != "" {
					basePath = "/" + pre
				}
				raw := be.srv.URL + basePath
				if rng.IntN(2) == 0 {
					raw += "/" // a trailing slash in the configured URL does not change names
				}
				u, _ := url.Parse(raw)
				px, err := httpproxy.New(u, mode, &http.Client{}, lib.DiscardLogger, lib.DiscardLogger, 2, 100)
				if err != nil {
					r.Inconclusive("naming: httpproxy.New: " + err.Error())
					return
				}
				insts = append(insts, &nInstance{backend: backend, mode: mode, prefix: pre, proxy: px, rec: be.recorder,
					expect: func(t *nTuple, op string) string { return pinHTTPPath(basePath, t.kind, t.hash, t.mode) }})
			}
		}
	case "s3":
		be, err := newS3Backend()
		if err != nil {
			r.Inconclusive("naming: cannot start gofakes3: " + err.Error())
			return
		}
		closers = append(closers, be.close)
		for _, mode := range []string{"zstd", "uncompressed"} {
			for _, pre := range prefixes {
				px := s3proxy.New(be.endpoint(), be.bucket, minio.BucketLookupPath, pre,
					credentials.NewStaticV4("verif-access", "verif-secret", ""), true, false, "us-east-1", 8,
					mode, lib.DiscardLogger, lib.DiscardLogger, 2, 100)
				insts = append(insts, &nInstance{backend: backend, mode: mode, prefix: pre, proxy: px, rec: be.recorder,
					expect: func(t *nTuple, op string) string { return pinObjectKey(t.prefix, t.kind, t.hash, t.mode) }})
			}
		}
	case "azure":
		tr := &azTransport{recorder: newRecorder()}
		for _, mode := range []string{"zstd", "uncompressed"} {
			for _, pre := range prefixes {
				px, err := azblobproxy.VerifNew(tr, "verifacct", "verifcontainer", pre, false, mode, lib.DiscardLogger, lib.DiscardLogger, 2, 100)
				if err != nil {
					r.Inconclusive("naming: azblobproxy.VerifNew: " + err.Error())
					return
				}
				insts = append(insts, &nInstance{backend: backend, mode: mode, prefix: pre, proxy: px, rec: tr.recorder,
					expect: func(t *nTuple, op string) string {
						return pinAzurePath("verifcontainer", t.prefix, t.kind, t.hash, t.mode)
					}})
			}
		}
	case "grpc":
		be, err := newGRPCBackend()
		if err != nil {
			r.Inconclusive("naming: cannot start the gRPC backend: " + err.Error())
			return
		}
		closers = append(closers, be.close)
		clients := grpcproxy.NewGrpcClients(be.conn)
		for _, mode := range []string{"zstd", "uncompressed"} {
			if err := clients.CheckCapabilities(mode == "zstd"); err != nil {
				r.Inconclusive("naming: grpc capabilities: " + err.Error())
				return
			}
			px := grpcproxy.New(clients, mode, lib.DiscardLogger, lib.DiscardLogger, 2, 100)
			insts = append(insts, &nInstance{backend: backend, mode: mode, proxy: px, rec: be.recorder})
		}
	}

	// Tuples. The payload is a function of the identity, so that two tuples
	// sharing a name legitimately (AC/RAW in both modes) agree on the content
	// and any other sharing shows up as foreign content on read-back.
	for _, in := range insts {
		for hi, h := range hashes {
			for _, kind := range []string{"cas", "ac", "raw"} {
				t := &nTuple{backend: backend, kind: kind, hash: h, mode: in.mode, prefix: in.prefix}
				format := "raw"
				if kind == "cas" && in.mode == "zstd" {
					format = "cas.v2"
				}
				idKind := kind
				if backend == "grpc" && kind == "raw" {
					idKind = "ac" // documented: RAW entries are stored as AC entries on a gRPC backend
				}
				t.identity = fmt.Sprintf("(%s, %s, prefix=%q, %s)", idKind, h, in.prefix, format)
				prng := rand.New(rand.NewPCG(uint64(r.Seed), fnv(t.identity)))
				if kind == "cas" {
					t.payload = lib.GenBlob(prng, 50+hi*7, "text", t.identity)
					if backend == "grpc" {
						// the gRPC resource name carries the digest size: make it part of the identity
						t.identity += fmt.Sprintf(" size=%d", len(t.payload))
					}
					t.object = t.payload
					if format == "cas.v2" {
						t.object = lib.CasWrite(t.payload, 4*lib.KiB, 1, encoders[1].fn)
					}
				} else {
					t.ar, t.payload = makeAR(prng, t.identity, 10)
					t.object = t.payload
				}
				in.tuples = append(in.tuples, t)
			}
		}
	}

	// Phase 1: write-through of every tuple; phase 2: contains + read-back.
	for _, in := range insts {
		for _, t := range in.tuples {
			w.putTuple(in, t)
		}
	}
	for _, in := range insts {
		for _, t := range in.tuples {
			w.readTuple(in, t, rng)
		}
	}
}

func fnv(s string) uint64 {
	h := uint64(1469598103934665603)
	for _, c := range []byte(s) {
		h ^= uint64(c)
		h *= 1099511628211
	}
	return h
}

func (w *nameWorld) mismatch(t *nTuple, op, got, want string) {
	d := t.detail()
	d["operation"], d["observed_name"], d["pinned_name"] = op, got, want
	w.r.Violation("C20:naming:"+t.backend+":"+t.kind+":"+t.mode+":"+op+":name-differs",
		fmt.Sprintf("%s backend, %s %s in %s mode, prefix %q: observed name %q, pinned name %q", t.backend, op, t.kind, t.mode, t.prefix, got, want), d)
}

func (w *nameWorld) putTuple(in *nInstance, t *nTuple) {
	r := w.r
	r.Count("naming.tuple")
	r.Count("naming." + t.backend + "." + t.kind + "." + t.mode + ".prefix-" + prefixClass(t.prefix))
	r.Distinct("naming", t.backend, t.kind, t.mode, prefixClass(t.prefix), t.hash)
	r.Sample(map[string]any{"section": "naming", "tuple": t.detail()})

	mark := in.rec.mark()
	if p := safely(func() {
		in.proxy.Put(context.Background(), entryKind(t.kind), t.hash, int64(len(t.payload)), int64(len(t.object)), seekCloser{bytes.NewReader(t.object)})
	}); p != "" {
		r.Inconclusive("naming: Proxy.Put panicked: " + p)
		return
	}
	wantOp := "put"
	if t.backend == "grpc" && t.kind != "cas" {
		wantOp = "update-ar"
	}
	// (the HTTP proxy skips the upload when a HEAD for the same name hits)
	e, ok := in.rec.waitFor(mark, func(e event) bool { return e.op == wantOp || (t.backend == "http" && e.op == "head" && e.hit) })
	if !ok {
		r.Inconclusive(fmt.Sprintf("naming: no write-through observed at the %s backend for %v", t.backend, t.detail()))
		return
	}
	t.putName = e.name
	r.Eval()
	switch {
	case t.backend == "grpc" && t.kind == "cas":
		rest, uuid, isUpload := stripUpload(e.name)
		want := pinGRPCRead(t.hash, int64(len(t.payload)), t.mode)
		if !isUpload || !reUUID.MatchString(uuid) || rest != want {
			w.mismatch(t, "put", e.name, "uploads/<uuid>/"+want)
			return
		}
		w.claim(t, rest)
	case t.backend == "grpc":
		if e.name != t.hash {
			w.mismatch(t, "put", e.name, t.hash)
			return
		}
		w.claim(t, "ac:"+e.name)
	default:
		if want := in.expect(t, "put"); e.name != want {
			w.mismatch(t, "put", e.name, want)
			return
		}
		if t.backend == "s3" && e.note != "verif-bucket" {
			w.mismatch(t, "put-bucket", e.note, "verif-bucket")
		}
		if t.backend == "azure" && e.note != "verifacct.blob.core.windows.net" {
			w.mismatch(t, "put-host", e.note, "verifacct.blob.core.windows.net")
		}
		w.claim(t, e.name)
	}
	r.Count("naming." + t.backend + ".put.ok")
}

func (w *nameWorld) readTuple(in *nInstance, t *nTuple, rng *rand.Rand) {
	r := w.r
	ctx, cancel := lib.Ctx()
	defer cancel()
	size := int64(len(t.payload))

	// Contains (gRPC: CAS with known size -> FindMissingBlobs; with unknown
	// size -> FetchBlob; AC/RAW -> GetActionResult).
	askSize := size
	unknown := t.backend == "grpc" && t.kind == "cas" && rng.IntN(3) == 0
	if unknown {
		askSize = -1
	}
	mark := in.rec.mark()
	var found bool
	if p := safely(func() { found, _ = in.proxy.Contains(ctx, entryKind(t.kind), t.hash, askSize) }); p != "" {
		r.Inconclusive("naming: Proxy.Contains panicked: " + p)
		return
	}
	r.Eval()
	evs := in.rec.since(mark)
	var got, want, op string
	switch {
	case t.backend == "grpc" && t.kind == "cas" && unknown:
		op, want = "fetchblob", pinSRI(t.hash)
	case t.backend == "grpc" && t.kind == "cas":
		op, want = "findmissing", fmt.Sprintf("%s/%d", t.hash, size)
	case t.backend == "grpc":
		op, want = "get-ar", t.hash
	default:
		op, want = "head", in.expect(t, "head")
	}
	for _, e := range evs {
		if e.op == op {
			got = e.name
		}
	}
	switch {
	case got != want:
		w.mismatch(t, "contains", got, want)
	case !found:
		d := t.detail()
		d["written_as"] = t.putName
		r.Violation("C20:naming:"+t.backend+":"+t.kind+":contains-misses-written-object", "the object written through the proxy is not found by Contains under the name it asks for", d)
	default:
		r.Count("naming." + t.backend + ".contains.ok")
	}

	// Get
	mark = in.rec.mark()
	var rc io.ReadCloser
	var gsz int64
	var gerr error
	if p := safely(func() { rc, gsz, gerr = in.proxy.Get(ctx, entryKind(t.kind), t.hash, askSize) }); p != "" {
		r.Inconclusive("naming: Proxy.Get panicked: " + p)
		return
	}
	var data []byte
	if rc != nil {
		// (grpcproxy's stream reader answers n = -1 together with an error,
		// which io.ReadAll does not survive; read defensively)
		buf := make([]byte, 64*lib.KiB)
		for {
			n, err := rc.Read(buf)
			if n > 0 {
				data = append(data, buf[:n]...)
			}
			if err != nil {
				if err != io.EOF {
					gerr = err
				}
				break
			}
		}
		_ = rc.Close()
	}
	r.Eval()
	evs = in.rec.since(mark)
	got = ""
	switch {
	case t.backend == "grpc" && t.kind == "cas":
		op, want = "get", pinGRPCRead(t.hash, size, t.mode)
	case t.backend == "grpc":
		op, want = "get-ar", t.hash
	default:
		op, want = "get", in.expect(t, "get")
	}
	for _, e := range evs {
		if e.op == op {
			got = e.name
		}
	}
	if unknown {
		r.Eval()
		sri := ""
		for _, e := range evs {
			if e.op == "fetchblob" {
				sri = e.name
			}
		}
		if sri != pinSRI(t.hash) {
			w.mismatch(t, "get-size-lookup", sri, pinSRI(t.hash))
		}
	}
	if got != want {
		w.mismatch(t, "get", got, want)
		return
	}
	// read-back: the content stored under that name is this tuple's
	okContent := gerr == nil && rc != nil && gsz == size
	if okContent {
		switch {
		case t.kind == "cas" && t.mode == "zstd":
			dec, _, err := lib.CasRead(data)
			okContent = err == nil && sameBytes(dec, t.payload)
		case t.backend == "grpc" && t.kind != "cas":
			ar := &pb.ActionResult{}
			okContent = proto.Unmarshal(data, ar) == nil && proto.Equal(ar, t.ar)
		default:
			okContent = sameBytes(data, t.payload)
		}
	}
	r.Eval()
	if !okContent {
		d := t.detail()
		d["written_as"], d["read_as"], d["get_error"], d["get_size"] = t.putName, got, fmt.Sprint(gerr), gsz
		r.Violation("C20:naming:"+t.backend+":"+t.kind+":read-back-differs", "the object read back under the tuple's name is not what was written for the tuple (name shared with another tuple, or size/name mismatch between write and read)", d)
		return
	}
	r.Count("naming." + t.backend + ".get.ok")
}

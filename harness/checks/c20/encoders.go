package c20

import (
	"bytes"
	"fmt"
	"math/bits"
	"math/rand/v2"
	"sync"

	"verif/harness/lib"

	"github.com/klauspost/compress/zstd"
	"github.com/valyala/gozstd"
)

// Chunk encoders of the independent writer beyond one-shot EncodeAll /
// CompressLevel: "any zstd encoder settings" includes streaming encoders
// (frames without content size, with a Window_Descriptor instead of the
// single-segment flag), explicit window sizes, checksums on or off. Every
// chunk is exactly ONE zstd frame. The advertised window of every generated
// chunk is read back with klauspost's zstd.Header and recorded, so that the
// evidence shows which windows the build was really confronted with.
//
// Bound: advertised windows from 1 KiB (the format's minimum) up to 128 MiB
// (2^27). The format allows more, but the reference decoders refuse larger
// windows with default settings (libzstd: ZSTD_WINDOWLOG_LIMIT_DEFAULT = 27),
// so nothing above 2^27 is a fair demand on the build.
const (
	minWindowLog = 10
	maxWindowLog = 27
)

// chunkEnc is one encoder configuration, instantiated per file.
type chunkEnc struct {
	name string
	fn   lib.CasEncoder
	done func()
}

// frameInfo is what zstd.Header reports for a generated chunk.
type frameInfo struct {
	window        uint64
	singleSegment bool
	hasFCS        bool
	hasCRC        bool
}

func inspectFrame(frame []byte) (frameInfo, error) {
	var h zstd.Header
	if err := h.Decode(frame); err != nil {
		return frameInfo{}, err
	}
	if h.Skippable || h.DictionaryID != 0 {
		return frameInfo{}, fmt.Errorf("unexpected frame kind (skippable=%v dict=%d)", h.Skippable, h.DictionaryID)
	}
	fi := frameInfo{window: h.WindowSize, singleSegment: h.SingleSegment, hasFCS: h.HasFCS, hasCRC: h.HasCheckSum}
	if h.SingleSegment {
		fi.window = h.FrameContentSize
	}
	return fi, nil
}

// windowLogOf is ceil(log2(window)), clamped below at 0.
func windowLogOf(w uint64) int {
	if w <= 1 {
		return 0
	}
	return bits.Len64(w - 1)
}

// raiseWindow rewrites the Window_Descriptor of a frame that has one so that
// it advertises exactly 2^log (+ mantissa/8) bytes, if that is MORE than it
// advertises now. A frame stays legal when it declares a larger window than
// its encoder needed (the checksum covers the content, not the header); this
// is how an encoder configured with a large window but fed a small chunk looks.
func raiseWindow(frame []byte, log int, mantissa int) []byte {
	if len(frame) < 6 || frame[4]&0x20 != 0 { // single segment: no descriptor
		return frame
	}
	if log == maxWindowLog {
		mantissa = 0
	}
	cur := frame[5]
	want := byte((log-10)<<3 | mantissa&7)
	if want <= cur { // (exponent, mantissa) order is the order of window sizes
		return frame
	}
	out := append([]byte(nil), frame...)
	out[5] = want
	return out
}

// A fixed set of klauspost encoder configurations beyond the defaults of
// c20.go (setting one up costs large tables, so they are created once and
// serialised): the streaming writer (frames with a Window_Descriptor and no
// content size), EncodeAll with the single-segment flag forced off (descriptor
// + content size) or forced on (window = chunk size, whatever the size).
type kpConfig struct {
	level, windowLog int
	mode             string // stream | all-nosingle | all-single
	crc              bool
}

var kpConfigs = []kpConfig{
	{1, 10, "stream", true}, {1, 17, "stream", false}, {2, 20, "stream", true}, {2, 23, "stream", false} /* the library default: 8 MiB */, {3, 22, "stream", true},
	{1, 24, "stream", false}, {2, 15, "stream", false},
	{1, 20, "all-nosingle", true}, {2, 23, "all-nosingle", false}, {3, 17, "all-nosingle", true},
	{2, 23, "all-single", true}, {1, 22, "all-single", false},
}

var (
	kpStreamMu  sync.Mutex
	kpStreamers = map[kpConfig]*kpStreamer{}
)

type kpStreamer struct {
	mu  sync.Mutex
	cfg kpConfig
	enc *zstd.Encoder
	buf bytes.Buffer
}

func getKPStreamer(k kpConfig) *kpStreamer {
	kpStreamMu.Lock()
	defer kpStreamMu.Unlock()
	if s := kpStreamers[k]; s != nil {
		return s
	}
	s := &kpStreamer{cfg: k}
	opts := []zstd.EOption{zstd.WithEncoderLevel(zstd.EncoderLevel(k.level)), zstd.WithWindowSize(1 << k.windowLog),
		zstd.WithEncoderCRC(k.crc), zstd.WithEncoderConcurrency(1), zstd.WithLowerEncoderMem(true)}
	switch k.mode {
	case "all-nosingle":
		opts = append(opts, zstd.WithSingleSegment(false))
	case "all-single":
		opts = append(opts, zstd.WithSingleSegment(true))
	}
	enc, err := zstd.NewWriter(nil, opts...)
	if err != nil {
		panic(err)
	}
	s.enc = enc
	kpStreamers[k] = s
	return s
}

func (s *kpStreamer) encode(chunk []byte) []byte {
	s.mu.Lock()
	defer s.mu.Unlock()
	if s.cfg.mode != "stream" {
		return s.enc.EncodeAll(chunk, nil)
	}
	s.buf.Reset()
	s.enc.Reset(&s.buf)
	// written in pieces, as a streaming producer would
	for _, p := range lib.Chunk(chunk, 100_000) {
		if _, err := s.enc.Write(p); err != nil {
			panic(err)
		}
	}
	if err := s.enc.Close(); err != nil {
		panic(err)
	}
	return append([]byte(nil), s.buf.Bytes()...)
}

// newChunkEnc draws an encoder configuration for a file of size bytes.
// forceLog > 0 forces the advertised window (where the frame has a
// descriptor) to 2^forceLog: used to guarantee both ends of the bound in
// every run.
func newChunkEnc(rng *rand.Rand, size int, forceLog int) chunkEnc {
	kind := rng.IntN(10)
	if forceLog > 0 {
		kind = 4 + rng.IntN(6) // a streaming encoder (frames with a descriptor)
	}
	switch {
	case kind < 4: // the one-shot encoders
		e := pickEncoder(rng, size)
		return chunkEnc{name: e.name, fn: e.fn, done: func() {}}

	case kind < 8: // klauspost streaming writer / EncodeAll with explicit flags
		k := kpConfigs[rng.IntN(len(kpConfigs))]
		if forceLog > 0 {
			k = kpConfigs[1] // streaming, 128 KiB window
			if forceLog == minWindowLog {
				k = kpConfigs[0] // streaming, 1 KiB window
			}
		}
		adv, mant := 0, 0
		if forceLog > 0 {
			adv = forceLog
		} else if rng.IntN(3) == 0 && k.mode != "all-single" {
			adv, mant = k.windowLog+1+rng.IntN(maxWindowLog-k.windowLog), rng.IntN(8)
		}
		s := getKPStreamer(k)
		name := fmt.Sprintf("kp-%s-l%d-w%d", k.mode, k.level, k.windowLog)
		if k.crc {
			name += "-crc"
		}
		if adv > 0 {
			name += fmt.Sprintf("-adv%d", adv)
		}
		return chunkEnc{name: name, done: func() {}, fn: func(c []byte) []byte {
			f := s.encode(c)
			if adv > 0 {
				f = raiseWindow(f, adv, mant)
			}
			return f
		}}

	default: // libzstd streaming writer with an explicit window log
		level := lib.Pick(rng, []int{1, 3, 6, 9})
		wlog := lib.Pick(rng, []int{10, 13, 17, 20, 22, 23, 24, 25})
		if forceLog > 0 {
			wlog = forceLog
		} else if rng.IntN(12) == 0 {
			wlog = maxWindowLog
		}
		var buf bytes.Buffer
		params := &gozstd.WriterParams{CompressionLevel: level, WindowLog: wlog}
		zw := gozstd.NewWriterParams(&buf, params)
		var mu sync.Mutex
		return chunkEnc{name: fmt.Sprintf("c-stream-l%d-wlog%d", level, wlog), done: zw.Release, fn: func(c []byte) []byte {
			mu.Lock()
			defer mu.Unlock()
			buf.Reset()
			zw.ResetWriterParams(&buf, params)
			for _, p := range lib.Chunk(c, 100_000) {
				if _, err := zw.Write(p); err != nil {
					panic(err)
				}
			}
			if err := zw.Close(); err != nil {
				panic(err)
			}
			return append([]byte(nil), buf.Bytes()...)
		}}
	}
}

// windowStats accumulates the advertised windows of generated chunks.
type windowStats struct {
	mu       sync.Mutex
	min, max uint64
	byLog    map[int]int64
	flags    map[string]int64
	bad      []string
}

func newWindowStats() *windowStats {
	return &windowStats{byLog: map[int]int64{}, flags: map[string]int64{}}
}

// observe wraps an encoder so that every produced chunk is inspected.
func (ws *windowStats) observe(fn lib.CasEncoder) (lib.CasEncoder, func() (lo, hi uint64)) {
	var lo, hi uint64
	return func(c []byte) []byte {
			f := fn(c)
			fi, err := inspectFrame(f)
			ws.mu.Lock()
			defer ws.mu.Unlock()
			if err != nil {
				if len(ws.bad) < 5 {
					ws.bad = append(ws.bad, err.Error())
				}
				return f
			}
			if lo == 0 || fi.window < lo {
				lo = fi.window
			}
			if fi.window > hi {
				hi = fi.window
			}
			if ws.min == 0 || fi.window < ws.min {
				ws.min = fi.window
			}
			if fi.window > ws.max {
				ws.max = fi.window
			}
			ws.byLog[windowLogOf(fi.window)]++
			switch {
			case fi.singleSegment:
				ws.flags["single-segment"]++
			case fi.hasFCS:
				ws.flags["window+content-size"]++
			default:
				ws.flags["window-only"]++
			}
			if fi.hasCRC {
				ws.flags["checksum"]++
			}
			return f
		}, func() (uint64, uint64) {
			ws.mu.Lock()
			defer ws.mu.Unlock()
			return lo, hi
		}
}

func windowClass(w uint64) string {
	switch {
	case w == 0:
		return "n/a"
	case w <= 128*lib.KiB:
		return "<=128K"
	case w <= 4*lib.MiB:
		return "128K..4M"
	case w <= 8*lib.MiB:
		return "4M..8M"
	case w <= 32*lib.MiB:
		return "8M..32M"
	}
	return "32M..128M"
}

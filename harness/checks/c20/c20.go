// Package c20 checks property C20 "Stored format stays compatible":
//
//	direction 1: directories laid out by the independent codec (lib.CasWrite /
//	             lib.CacheFileName) are read back byte-exactly by this build
//	             through the disk API and the HTTP/gRPC read paths, and again
//	             after a restart;
//	direction 2: everything this build writes (uploads through several paths,
//	             proxy fetches, write-through to the backend) is parsed by the
//	             independent reader (lib.CasRead / lib.ParseCacheFileName) and
//	             compared with the original bytes;
//	goldens:     files produced by the unchanged build (testdata/) must still
//	             be readable and the build must still write a structurally
//	             identical header for the same input;
//	naming:      recording back ends observe the object / resource names used
//	             by httpproxy, grpcproxy, s3proxy and azblobproxy and compare
//	             them with pinned naming functions + injectivity.
package c20

import (
	"bytes"
	"context"
	"fmt"
	"io"
	"math/rand/v2"
	"os"
	"path/filepath"
	"runtime/debug"
	"sort"
	"strings"
	"sync"
	"time"

	"verif/harness/lib"

	"github.com/buchgr/bazel-remote/v2/cache"
	"github.com/buchgr/bazel-remote/v2/cache/disk"
	pb "github.com/buchgr/bazel-remote/v2/genproto/build/bazel/remote/execution/v2"
	"github.com/klauspost/compress/zstd"
	"github.com/valyala/gozstd"
	bspb "google.golang.org/genproto/googleapis/bytestream"
	"google.golang.org/protobuf/proto"
)

func init() { lib.Register("C20", run) }

// cfg is one (storage mode, zstd implementation) configuration of the build.
type cfg struct{ storage, impl string }

func (c cfg) String() string { return c.storage + "/" + c.impl }

var cfgs = []cfg{{"zstd", "go"}, {"zstd", "cgo"}, {"uncompressed", "go"}, {"uncompressed", "cgo"}}

const bigCache = int64(16) << 30 // never evict

// dirs recycles cache-directory skeletons (768 sub-directories each) between
// cases; created in run, removed at its end.
var dirs *lib.DirPool

// winStats records the windows advertised by the chunks the independent
// writer generated in this run (read back with zstd.Header).
var winStats *windowStats

// settleMax bounds waits for quiescence (expiry is never a verdict).
const settleMax = 20 * time.Second

func run(r *lib.Run) {
	r.SetRule("distinct tuples: dir1 = (representation, chunk size, encoder, size class, open cfg); dir2 = (cfg, path, kind, size class); golden = (golden id, cfg, direction); naming = (backend, kind, mode, prefix class, hash)")
	r.Assume("'any 2.x release' is represented by the published format definition (independent codec in lib/casfmt.go) plus golden files written by the unchanged build; no historical binaries are available offline")
	r.Assume("'any zstd encoder settings' is bounded to chunk frames advertising windows from 1 KiB (the format's minimum) to 128 MiB (2^27): both reference decoders (klauspost, libzstd) accept these with default settings, libzstd refuses larger ones by default (ZSTD_WINDOWLOG_LIMIT_DEFAULT = 27); chunk sizes 4 KiB to 8 MiB; every chunk is one zstd frame")
	r.Assume("naming injectivity is judged on (key space, hash, prefix, stored format): AC/RAW names do not depend on the storage mode because their stored bytes do not; the gRPC backend has no prefix and maps RAW onto AC (documented in grpcproxy)")
	r.Assume("azblobproxy applies a non-empty prefix twice (<prefix>/<prefix>/...); that is the behaviour of the unchanged build and is what deployed containers hold, so it is what is pinned")

	dirs = lib.NewDirPool("c20")
	defer dirs.Close()
	winStats = newWindowStats()
	// Many multi-megabyte buffers are in flight; a soft limit keeps the
	// collector from letting the heap double on top of them.
	defer debug.SetMemoryLimit(debug.SetMemoryLimit(2500 << 20))

	var wg sync.WaitGroup
	sections := []func(*lib.Run){runGoldens, runDir1, runDir2, runNaming}
	if os.Getenv("VERIF_C20_ONLY") != "" { // development aid: run one section
		only := os.Getenv("VERIF_C20_ONLY")
		m := map[string]func(*lib.Run){"goldens": runGoldens, "dir1": runDir1, "dir2": runDir2, "naming": runNaming}
		sections = nil
		for _, s := range strings.Split(only, ",") {
			if f := m[s]; f != nil {
				sections = append(sections, f)
			}
		}
	}
	for _, f := range sections {
		wg.Add(1)
		go func() {
			defer wg.Done()
			f(r)
		}()
	}
	wg.Wait()

	reportWindows(r)

	// A run in which one of the directions observed nothing is not a pass.
	if os.Getenv("VERIF_C20_ONLY") == "" {
		for _, need := range []string{"dir1.file", "dir2.upload.checked", "dir2.fetch.checked", "golden.read.ok", "golden.write.ok", "naming.tuple"} {
			if r.Counter(need) == 0 {
				r.Inconclusive("no observation for " + need)
			}
		}
	}
}

// reportWindows puts the advertised-window histogram into the evidence and
// requires that direction 1 really covered both ends of the stated bound.
func reportWindows(r *lib.Run) {
	ws := winStats
	ws.mu.Lock()
	defer ws.mu.Unlock()
	hist := map[string]int64{}
	for l, n := range ws.byLog {
		hist[fmt.Sprintf("2^%02d", l)] = n
		r.CountN(fmt.Sprintf("gen.chunk-window.2^%02d", l), n)
	}
	for k, n := range ws.flags {
		r.CountN("gen.chunk-frame."+k, n)
	}
	r.Extra("generated_chunk_windows", map[string]any{"min": ws.min, "max": ws.max, "by_log2": hist, "frame_kinds": ws.flags})
	for _, b := range ws.bad {
		r.Inconclusive("harness: a generated chunk is not a plain zstd frame: " + b)
	}
	if os.Getenv("VERIF_C20_ONLY") == "" || strings.Contains(os.Getenv("VERIF_C20_ONLY"), "dir1") {
		if ws.min == 0 || ws.min > 1<<minWindowLog || ws.max < 1<<maxWindowLog {
			r.Inconclusive(fmt.Sprintf("generated chunk windows span %d..%d bytes, not the stated 1 KiB..128 MiB", ws.min, ws.max))
		}
	}
}

// ---------------------------------------------------------------------------
// Small helpers shared by the sections.

// openMax bounds the start-up of a cache on an existing directory. (The
// start-up scan of the code under test can block forever on some of its error
// paths; that is a matter for C09, here an expiry is inconclusive.)
const openMax = 120 * time.Second

// startBounded is lib.StartServer with a watchdog.
func startBounded(o lib.ServerOpts) (srv *lib.Server, err error, timedOut bool) {
	type res struct {
		s *lib.Server
		e error
	}
	ch := make(chan res, 1)
	go func() {
		s, e := lib.StartServer(o)
		ch <- res{s, e}
	}()
	select {
	case x := <-ch:
		return x.s, x.e, false
	case <-time.After(openMax):
		go func() { // do not leak a server that eventually comes up
			if x := <-ch; x.s != nil {
				x.s.Close()
			}
		}()
		return nil, nil, true
	}
}

// openBounded is lib.NewCache with a watchdog.
func openBounded(o lib.ServerOpts) (c disk.Cache, err error, timedOut bool) {
	type res struct {
		c disk.Cache
		e error
	}
	ch := make(chan res, 1)
	go func() {
		c, _, e := lib.NewCache(o)
		ch <- res{c, e}
	}()
	select {
	case x := <-ch:
		return x.c, x.e, false
	case <-time.After(openMax):
		return nil, nil, true
	}
}

// safely runs f and converts a panic of the code under test into a value
// (direct disk-API calls run on the caller's goroutine).
func safely(f func()) (panicked string) {
	defer func() {
		if p := recover(); p != nil {
			panicked = fmt.Sprint(p)
		}
	}()
	f()
	return ""
}

// readOut is the outcome of one read through the disk API.
type readOut struct {
	data  []byte
	size  int64
	found bool
	err   string
	panic string
}

func (o readOut) problem() string {
	switch {
	case o.panic != "":
		return "panic"
	case o.err != "":
		return "error"
	case !o.found:
		return "notfound"
	}
	return ""
}

func entryKind(kind string) cache.EntryKind {
	switch kind {
	case "cas":
		return cache.CAS
	case "ac":
		return cache.AC
	}
	return cache.RAW
}

// apiGet reads through disk.Cache.Get / GetZstd (zstd output is decoded with
// one of the two standard decoders, alternating).
func apiGet(c disk.Cache, kind string, hash string, size, offset int64, zstd bool, useC bool) readOut {
	var o readOut
	o.panic = safely(func() {
		var rc io.ReadCloser
		var err error
		if zstd {
			rc, o.size, err = c.GetZstd(context.Background(), hash, size, offset)
		} else {
			rc, o.size, err = c.Get(context.Background(), entryKind(kind), hash, size, offset)
		}
		if rc != nil {
			defer func() { _ = rc.Close() }()
		}
		if err != nil {
			o.err = err.Error()
			return
		}
		if rc == nil {
			return
		}
		o.found = true
		hint := int64(4096)
		if o.size > offset {
			hint += o.size - offset + o.size/128
		}
		buf := bytes.NewBuffer(make([]byte, 0, hint))
		if _, err = buf.ReadFrom(rc); err != nil {
			o.err = "read: " + err.Error()
			return
		}
		b := buf.Bytes()
		if zstd {
			var d []byte
			if useC {
				d, err = decodeC(b, int(o.size-offset))
			} else {
				d, err = decodeKP(b, int(o.size-offset))
			}
			if err != nil {
				o.err = "returned stream is not legal zstd: " + err.Error()
				return
			}
			b = d
		}
		o.data = b
	})
	return o
}

// Decoders with a capacity hint (the two standard decoders of lib/blob.go;
// growing the output buffer geometrically dominated the run time).
var kpDec, _ = zstd.NewReader(nil)

func decodeKP(b []byte, hint int) ([]byte, error) {
	return kpDec.DecodeAll(b, make([]byte, 0, hint+1024))
}

func decodeC(b []byte, hint int) ([]byte, error) {
	zr := gozstd.NewReader(bytes.NewReader(b))
	defer zr.Release()
	out := bytes.NewBuffer(make([]byte, 0, hint+4096))
	_, err := out.ReadFrom(zr)
	return out.Bytes(), err
}

// decodeBoth decodes a complete zstd stream with both standard decoders and
// requires agreement.
func decodeBoth(b []byte, hint int) ([]byte, error) {
	a, err := decodeKP(b, hint)
	if err != nil {
		return nil, fmt.Errorf("klauspost: %w", err)
	}
	c, err := decodeC(b, hint)
	if err != nil {
		return nil, fmt.Errorf("libzstd: %w", err)
	}
	if !bytes.Equal(a, c) {
		return nil, fmt.Errorf("decoders disagree: klauspost %d bytes, libzstd %d bytes", len(a), len(c))
	}
	return a, nil
}

// bsRead is ByteStream.Read into a buffer sized for the expected answer.
func bsRead(ctx context.Context, srv *lib.Server, resource string, offset, limit int64, hint int) ([]byte, error) {
	st, err := srv.BS.Read(ctx, &bspb.ReadRequest{ResourceName: resource, ReadOffset: offset, ReadLimit: limit})
	if err != nil {
		return nil, err
	}
	buf := make([]byte, 0, hint+1024)
	for {
		m, err := st.Recv()
		if err == io.EOF {
			return buf, nil
		}
		if err != nil {
			return buf, err
		}
		buf = append(buf, m.Data...)
	}
}

// firstDiff describes where two byte strings start to differ.
func firstDiff(got, want []byte) string {
	n := min(len(got), len(want))
	for i := 0; i < n; i++ {
		if got[i] != want[i] {
			return fmt.Sprintf("len got=%d want=%d, first difference at byte %d (got %#02x want %#02x)", len(got), len(want), i, got[i], want[i])
		}
	}
	return fmt.Sprintf("len got=%d want=%d, common prefix equal", len(got), len(want))
}

// makeAR builds a dependency-free, valid ActionResult of roughly pad bytes.
func makeAR(rng *rand.Rand, tag string, pad int) (*pb.ActionResult, []byte) {
	ar := &pb.ActionResult{
		ExitCode:          int32(rng.IntN(200)),
		ExecutionMetadata: &pb.ExecutedActionMetadata{Worker: "w-" + tag + "-" + strings.Repeat("x", pad)},
	}
	for i := 0; i < rng.IntN(3); i++ {
		ar.OutputSymlinks = append(ar.OutputSymlinks, &pb.OutputSymlink{Path: fmt.Sprintf("out/l%d", i), Target: fmt.Sprintf("t%d", rng.IntN(1000))})
	}
	b, err := proto.Marshal(ar)
	if err != nil {
		panic(err)
	}
	return ar, b
}

const alnum = "0123456789abcdefghijklmnopqrstuvwxyzABCDEFGHIJKLMNOPQRSTUVWXYZ"

// randSuffix draws a suffix from the published grammar [0-9a-zA-Z]+.
func randSuffix(rng *rand.Rand) string {
	switch rng.IntN(6) {
	case 0: // what current releases produce: 9 digits
		return fmt.Sprintf("%09d", rng.IntN(1_000_000_000))
	case 1: // migration suffixes of earlier releases
		return lib.Pick(rng, []string{"222444666", "556677", "112233"})
	case 2: // one character
		return string(alnum[rng.IntN(len(alnum))])
	}
	n := 1 + rng.IntN(24)
	b := make([]byte, n)
	for i := range b {
		b[i] = alnum[rng.IntN(len(alnum))]
	}
	return string(b)
}

// encoder describes one zstd encoder setting of the independent writer.
type encoder struct {
	name string
	fn   lib.CasEncoder
	slow bool
}

// kpEncoders: one shared klauspost encoder per level (EncodeAll is safe for
// concurrent use; creating an encoder per chunk costs megabytes of cleared
// tables each time).
var kpEncoders = func() map[int]*zstd.Encoder {
	m := map[int]*zstd.Encoder{}
	for lv := 1; lv <= 4; lv++ {
		e, err := zstd.NewWriter(nil, zstd.WithEncoderLevel(zstd.EncoderLevel(lv)), zstd.WithEncoderConcurrency(3))
		if err != nil {
			panic(err)
		}
		m[lv] = e
	}
	return m
}()

func encodeKP(b []byte, level int) []byte { return kpEncoders[level].EncodeAll(b, nil) }

var encoders = []encoder{
	{"kp1", func(c []byte) []byte { return encodeKP(c, 1) }, false},
	{"kp2", func(c []byte) []byte { return encodeKP(c, 2) }, false},
	{"kp3", func(c []byte) []byte { return encodeKP(c, 3) }, false},
	{"kp4", func(c []byte) []byte { return encodeKP(c, 4) }, true},
	{"c1", func(c []byte) []byte { return lib.ZstdEncodeC(c, 1) }, false},
	{"c3", func(c []byte) []byte { return lib.ZstdEncodeC(c, 3) }, false},
	{"c9", func(c []byte) []byte { return lib.ZstdEncodeC(c, 9) }, false},
	{"c19", func(c []byte) []byte { return lib.ZstdEncodeC(c, 19) }, true},
}

func pickEncoder(rng *rand.Rand, size int) encoder {
	for {
		e := encoders[rng.IntN(len(encoders))]
		if e.slow && size > 300*lib.KiB {
			continue
		}
		return e
	}
}

// Chunk sizes of the independent writer: 4 KiB ... 8 MiB, powers of two and
// odd values (the header states the chunk size; nothing restricts it).
var chunkSizes = []int{4 * lib.KiB, 4*lib.KiB + 1, 8 * lib.KiB, 12345, 64 * lib.KiB, 100_000, 256 * lib.KiB, 512 * lib.KiB, lib.MiB - 1, lib.MiB, lib.MiB + 1, 2 * lib.MiB, 3 * lib.MiB, 4 * lib.MiB, 6 * lib.MiB, 8 * lib.MiB}

func chunkClass(cs int) string {
	switch {
	case cs == lib.MiB:
		return "=1M"
	case cs < 64*lib.KiB:
		return "4K..64K"
	case cs < lib.MiB:
		return "64K..1M"
	default:
		return ">1M"
	}
}

// offsetsFor returns the read offsets judged for a blob of n bytes stored with
// chunk size cs: start, end, and chunk boundaries +-1 of the FILE's chunk size
// and of the build's own default (1 MiB).
func offsetsFor(rng *rand.Rand, n int, cs int, max int) []int64 {
	set := map[int64]bool{0: true}
	add := func(v int) {
		if v >= 0 && v < n {
			set[int64(v)] = true
		}
	}
	add(1)
	add(n - 1)
	add(n / 2)
	if n > 2 {
		add(1 + rng.IntN(n-1))
	}
	for _, unit := range []int{cs, lib.MiB} {
		if unit <= 0 {
			continue
		}
		nb := (n - 1) / unit // number of interior boundaries
		ks := map[int]bool{}
		for _, k := range []int{1, 2, nb / 2, nb} {
			if k >= 1 && k <= nb {
				ks[k] = true
			}
		}
		if nb > 3 {
			ks[1+rng.IntN(nb)] = true
		}
		for k := range ks {
			add(k*unit - 1)
			add(k * unit)
			add(k*unit + 1)
		}
	}
	out := make([]int64, 0, len(set))
	for o := range set {
		out = append(out, o)
	}
	sort.Slice(out, func(i, j int) bool { return out[i] < out[j] })
	if max > 0 && len(out) > max {
		// keep offset 0 and a deterministic random subset of the rest
		rest := out[1:]
		rng.Shuffle(len(rest), func(i, j int) { rest[i], rest[j] = rest[j], rest[i] })
		out = append([]int64{0}, rest[:max-1]...)
		sort.Slice(out, func(i, j int) bool { return out[i] < out[j] })
	}
	return out
}

func offsetClass(off int64, n int, cs int) string {
	switch {
	case off == 0:
		return "0"
	case cs > 0 && off%int64(cs) == 0:
		return "boundary"
	case cs > 0 && (off%int64(cs) == 1 || off%int64(cs) == int64(cs)-1):
		return "boundary+-1"
	}
	return "inside"
}

// writeFile creates parent dirs and writes the file.
func writeFile(dir, rel string, b []byte) error {
	p := filepath.Join(dir, rel)
	if err := os.MkdirAll(filepath.Dir(p), 0o755); err != nil {
		return err
	}
	return os.WriteFile(p, b, 0o644)
}

// filesFor lists the files stored for (kind, hash) in a cache dir.
func filesFor(dir, kind, hash string) []string {
	sub := filepath.Join(kind+".v2", hash[:2])
	des, _ := os.ReadDir(filepath.Join(dir, sub))
	var out []string
	for _, de := range des {
		if strings.HasPrefix(de.Name(), hash) {
			out = append(out, filepath.Join(sub, de.Name()))
		}
	}
	sort.Strings(out)
	return out
}

func sameBytes(a, b []byte) bool { return bytes.Equal(a, b) }

// short trims long strings for violation details.
func short(s string) string {
	if len(s) > 300 {
		return s[:300] + "..."
	}
	return s
}

package c17

import (
	"sync"
	"sync/atomic"
	"time"

	"github.com/buchgr/bazel-remote/v2/cache/disk"
)

// The tag-guarded hook of package disk is process-global while histories run
// in parallel on separate caches, so hook events are routed to the history
// that owns the key: every history registers the hash of each item before it
// is sent (contents embed the case id, so no two histories share a hash).

// gate controls the background remover of one cache at "evict.beforeUnlink".
// closed: the remover parks before each unlink unless a permit is available.
// The callback never calls into the cache and the harness never waits on the
// remover without a deadline, so a forgotten gate cannot hang the harness;
// release() (always deferred) opens the gate for good.
type gate struct {
	mu       sync.Mutex
	cond     *sync.Cond
	open     bool
	permits  int
	parked   int
	released bool

	before   atomic.Int64 // evict.beforeUnlink hits
	after    atomic.Int64 // evict.afterUnlink hits
	afterB   atomic.Int64 // bytes reported by evict.afterUnlink
	removedN atomic.Int64 // lru.removed events (counted only; runs under the cache mutex)
}

func newGate() *gate {
	g := &gate{open: true}
	g.cond = sync.NewCond(&g.mu)
	return g
}

func (g *gate) beforeUnlink() {
	g.before.Add(1)
	g.mu.Lock()
	for !g.open && g.permits == 0 {
		g.parked++
		g.cond.Wait()
		g.parked--
	}
	if !g.open {
		g.permits--
	}
	g.mu.Unlock()
}

func (g *gate) afterUnlink(n int64) {
	g.afterB.Add(n)
	g.after.Add(1)
}

// closeGate makes the remover park before its next unlink.
func (g *gate) closeGate() {
	g.mu.Lock()
	if !g.released {
		g.open = false
		g.permits = 0
	}
	g.mu.Unlock()
}

// openGate lets the remover run freely.
func (g *gate) openGate() {
	g.mu.Lock()
	g.open = true
	g.permits = 0
	g.cond.Broadcast()
	g.mu.Unlock()
}

// release opens the gate permanently (end of a history, any exit path).
func (g *gate) release() {
	g.mu.Lock()
	g.released = true
	g.open = true
	g.cond.Broadcast()
	g.mu.Unlock()
}

func (g *gate) isClosed() bool {
	g.mu.Lock()
	defer g.mu.Unlock()
	return !g.open
}

func (g *gate) isParked() bool {
	g.mu.Lock()
	defer g.mu.Unlock()
	return g.parked > 0
}

// allow lets exactly n more unlinks happen and waits (bounded) until they did.
func (g *gate) allow(n int, max time.Duration) bool {
	target := g.after.Load() + int64(n)
	g.mu.Lock()
	g.permits += n
	g.cond.Broadcast()
	g.mu.Unlock()
	deadline := time.Now().Add(max)
	for g.after.Load() < target {
		if time.Now().After(deadline) {
			return false
		}
		time.Sleep(50 * time.Microsecond)
	}
	return true
}

// waitParked waits (bounded) until the remover is parked at the gate.
func (g *gate) waitParked(max time.Duration) bool {
	deadline := time.Now().Add(max)
	for !g.isParked() {
		if time.Now().After(deadline) {
			return false
		}
		time.Sleep(50 * time.Microsecond)
	}
	return true
}

// router dispatches hook events by the hash at the end of the lookup key.
type router struct {
	byHash       sync.Map // hash -> *gate
	unregistered atomic.Int64
	collisions   atomic.Int64
	hits         sync.Map // point -> *atomic.Int64
}

func (ro *router) register(hash string, g *gate) {
	if old, loaded := ro.byHash.Swap(hash, g); loaded && old.(*gate) != g {
		og := old.(*gate)
		og.mu.Lock()
		live := !og.released
		og.mu.Unlock()
		if live {
			ro.collisions.Add(1) // two running histories use the same key: events would be misrouted
		}
	}
}

func (ro *router) unregisterAll(hashes []string, g *gate) {
	for _, h := range hashes {
		ro.byHash.CompareAndDelete(h, g)
	}
}

func (ro *router) hit(point string) {
	c, ok := ro.hits.Load(point)
	if !ok {
		c, _ = ro.hits.LoadOrStore(point, new(atomic.Int64))
	}
	c.(*atomic.Int64).Add(1)
}

func (ro *router) cb(point, key string, n int64) {
	switch point {
	case "evict.beforeUnlink", "evict.afterUnlink", "lru.removed":
	default:
		return
	}
	ro.hit(point)
	if len(key) < 64 {
		ro.unregistered.Add(1)
		return
	}
	v, ok := ro.byHash.Load(key[len(key)-64:])
	if !ok {
		if point != "lru.removed" {
			ro.unregistered.Add(1)
		}
		return
	}
	g := v.(*gate)
	switch point {
	case "lru.removed":
		g.removedN.Add(1) // under the cache mutex: count only
	case "evict.beforeUnlink":
		g.beforeUnlink()
	case "evict.afterUnlink":
		g.afterUnlink(n)
	}
}

func (ro *router) install() { disk.VerifSetHook(ro.cb) }
func (ro *router) remove()  { disk.VerifSetHook(nil) }

func (ro *router) hitCounts() map[string]int64 {
	out := map[string]int64{}
	ro.hits.Range(func(k, v any) bool {
		out[k.(string)] = v.(*atomic.Int64).Load()
		return true
	})
	return out
}

package c17

import (
	"fmt"

	"verif/harness/lib"

	"github.com/buchgr/bazel-remote/v2/cache"
	pb "github.com/buchgr/bazel-remote/v2/genproto/build/bazel/remote/execution/v2"
)

func (it *item) digest() *pb.Digest { return &pb.Digest{Hash: it.Hash, SizeBytes: it.size()} }

func batchReq(its ...*item) *pb.BatchUpdateBlobsRequest {
	req := &pb.BatchUpdateBlobsRequest{}
	for _, it := range its {
		req.Requests = append(req.Requests, &pb.BatchUpdateBlobsRequest_Request{Digest: it.digest(), Data: it.Data})
	}
	return req
}

// maxItem is the largest item generated: with compressed storage an incompressible blob of
// exactly max_size does not fit max_size on disk (header and frame overhead) and is rejected
// for that reason, which is not this property's subject.
func (w *world) maxItem() int64 {
	if w.cfg.Storage == "zstd" {
		return w.cfg.Max - 2*lib.Block
	}
	return w.cfg.Max
}

func (w *world) classSize() int64 {
	max := w.maxItem()
	var lo, hi int64
	switch w.cfg.ItemClass {
	case "small":
		lo, hi = 1, 2*lib.Block
	case "medium":
		lo, hi = max/32, max/8
	default:
		lo, hi = max/8, max/3
	}
	if lo < 1 {
		lo = 1
	}
	if hi <= lo {
		hi = lo + 1
	}
	n := lo + w.rng.Int64N(hi-lo)
	switch w.rng.IntN(8) {
	case 0:
		n = lib.RoundUp4k(n) // exactly whole blocks
	case 1:
		n = lib.RoundUp4k(n) + 1
	}
	if n > max {
		n = max
	}
	return n
}

// plainPath picks a path that takes an item of freely chosen size.
func (w *world) plainPath() string {
	x := w.rng.IntN(20)
	switch {
	case x < 5:
		return pathRaw
	case x < 6:
		return pathHTTPAC
	case x < 7:
		return pathUpdateAC
	}
	return casPaths[w.rng.IntN(len(casPaths))]
}

func (w *world) allProbePaths() []string {
	ps := append([]string(nil), casPaths...)
	ps = append(ps, pathRaw, pathHTTPAC, pathUpdateAC, pathACInline, pathSplice, pathSpliceND, pathBatchPair)
	if w.px != nil {
		ps = append(ps, proxyPaths...)
		ps = append(ps, proxyPaths...) // few proxy histories: weight them up
		ps = append(ps, proxyPaths...)
	}
	return ps
}

// script is the adaptive history of the execution with the option set.
func (w *world) script() error {
	if err := w.observe(true); err != nil {
		return err
	}
	max := w.cfg.Max
	// 1. fill with the remover running
	target := int64(w.cfg.FillFrac * float64(max))
	var sent int64
	for i := 0; i < 60 && sent < target; i++ {
		n := w.classSize()
		p := w.plainPath()
		it := w.newItemFor(p, n)
		if it == nil {
			p = pathRaw
			it = w.newRaw(n, "")
		}
		if err := w.upload(p, it, "fill"); err != nil {
			return err
		}
		sent += lib.RoundUp4k(n)
	}
	if err := w.observe(true); err != nil {
		return err
	}
	w.logf("filled: accounted=%d entries=%d", w.cur.Total, w.cur.NumItems)

	paths := w.allProbePaths()
	w.rng.Shuffle(len(paths), func(i, j int) { paths[i], paths[j] = paths[j], paths[i] })
	pi := 0
	nextPath := func() string { p := paths[pi%len(paths)]; pi++; return p }

	for round := 0; round < w.cfg.Rounds; round++ {
		// 2. hold the remover, build a backlog
		if err := w.stepClose(); err != nil {
			return err
		}
		mode := w.rng.IntN(5) // 0: no backlog ops; else mixtures
		nops := 0
		if mode > 0 {
			nops = 1 + w.rng.IntN(6)
		}
		for i := 0; i < 14; i++ {
			if i >= nops && !(w.cfg.LimitKind == "2max" && w.slack() >= w.maxItem() && mode > 0) {
				break
			}
			if err := w.backlogOp(mode); err != nil {
				return err
			}
		}
		if w.cur.BacklogCount > 1 && w.rng.IntN(3) == 0 {
			if err := w.stepAllow(1 + w.rng.IntN(w.cur.BacklogCount)); err != nil {
				return err
			}
		}
		// 3. probes that must be refused: every one leaves the state unchanged,
		// so several write paths are probed at the same measured state
		nref := 3 + w.rng.IntN(3)
		refusedBefore := len(w.refused)
		for i := 0; i < nref; i++ {
			if err := w.probe(nextPath(), true); err != nil {
				return err
			}
		}
		overload := len(w.refused) > refusedBefore
		// 4. reads and existence checks while writes are refused
		if err := w.stepReads(w.pickReadable(3), overload); err != nil {
			return err
		}
		if overload {
			w.proxyExistence()
		}
		// 5. probes that must be admitted (at / just under the limit), then once more over it
		for i := 0; i < 1+w.rng.IntN(2); i++ {
			if err := w.probe(nextPath(), false); err != nil {
				return err
			}
		}
		if w.cur.BacklogCount > 2 && w.rng.IntN(2) == 0 {
			if err := w.stepAllow(1 + w.rng.IntN(w.cur.BacklogCount-1)); err != nil {
				return err
			}
		}
		if err := w.probe(nextPath(), true); err != nil {
			return err
		}
		// 6. let the deletions catch up, retry what was refused
		if err := w.stepOpen(); err != nil {
			return err
		}
		if err := w.retries(); err != nil {
			return err
		}
	}
	if w.r != nil && w.cfg.ID != "" {
		w.r.Sample(map[string]any{"case": w.cfg.ID, "config": w.cfg, "history_head": head(w.hist, 12)})
	}
	return nil
}

func head(s []string, n int) []string {
	if len(s) > n {
		return s[:n]
	}
	return s
}

// backlogOp: something that queues deletions while the remover is held.
func (w *world) backlogOp(mode int) error {
	max := w.maxItem()
	raws := w.indexedItems(cache.RAW)
	x := w.rng.IntN(10)
	switch {
	case mode != 2 && len(raws) > 0 && x < 4:
		// overwrite: the old file of the key is queued for deletion
		old := raws[w.rng.IntN(len(raws))]
		n := w.classSize()
		if w.rng.IntN(3) == 0 {
			n = old.size()
		}
		return w.upload(pathRaw, w.newRaw(n, old.Hash), "backlog")
	case w.px != nil && x == 4:
		return w.unknownSizeGet(w.newCAS(w.classSize()))
	default:
		// an upload big enough to need evictions (if it is admitted at all)
		free := w.cfg.Max - w.cur.Total
		if free < 0 {
			free = 0
		}
		n := free + 1 + w.rng.Int64N(4*w.classSize())
		if w.cfg.ItemClass == "small" && w.rng.IntN(2) == 0 {
			n = free + 1 + w.rng.Int64N(max/2) // one upload evicting many small files
		}
		if n > max {
			n = max
		}
		p := w.plainPath()
		it := w.newItemFor(p, n)
		if it == nil {
			p, it = pathRaw, w.newRaw(n, "")
		}
		return w.upload(p, it, "backlog")
	}
}

func (w *world) pickReadable(k int) []*item {
	var all []*item
	for _, kind := range []cache.EntryKind{cache.CAS, cache.RAW, cache.AC} {
		its := w.indexedItems(kind)
		if len(its) > 0 {
			all = append(all, its[w.rng.IntN(len(its))])
		}
	}
	if len(all) > k {
		all = all[:k]
	}
	return all
}

// probe sends one item sized relative to the measured state: over the limit
// (refuse) or at / under it (admit), by one byte, one block, or an arbitrary amount.
func (w *world) probe(path string, over bool) error {
	max := w.maxItem()
	slack := w.slack()
	var delta int64
	if over {
		switch w.rng.IntN(6) {
		case 0, 1, 2:
			delta = 1
		case 3:
			delta = lib.Block
		case 4:
			delta = 2 + w.rng.Int64N(lib.Block-2)
		default:
			delta = lib.Block + 1 + w.rng.Int64N(max/4+1)
		}
	} else {
		switch w.rng.IntN(6) {
		case 0, 1, 2:
			delta = 0
		case 3:
			delta = -1
		case 4:
			delta = -lib.Block
		default:
			delta = -(2 + w.rng.Int64N(lib.Block-2))
		}
	}
	n := slack + delta
	lo := minSizeFor(path)
	if path == pathSplice || path == pathSpliceND {
		return w.spliceProbe(path, delta)
	}
	if path == pathBatchPair {
		if !over || n < 1 || n > max || slack < 1 {
			path = "batch"
		} else {
			b := 1 + w.rng.Int64N(slack)
			if b > max {
				b = max
			}
			if b < minCASSize {
				b = minCASSize
			}
			if n >= minCASSize && b <= slack {
				return w.batchPair(w.newCAS(n), w.newCAS(b), "probe")
			}
			path = "batch"
		}
	}
	if n > max {
		// the limit cannot be reached with an item that fits max_size: largest item, far under
		w.r.Count("probe.limit-out-of-reach")
		n = max - w.rng.Int64N(max/4+1)
	}
	if n >= 1 && n < lo {
		// too small to be unique / constructible on this path: the raw HTTP path takes any size
		path, lo = pathRaw, 1
	}
	if n < lo {
		if !over {
			w.r.Count("probe.no-room-for-admit")
			return nil
		}
		// already over the limit without any item: everything must be refused
		n = []int64{lo, lib.Block, lo + w.rng.Int64N(max-lo+1)}[w.rng.IntN(3)]
	}
	it := w.newItemFor(path, n)
	if it == nil {
		w.r.Count("probe.size-not-constructible." + path)
		path = pathRaw
		it = w.newRaw(n, "")
	}
	return w.upload(path, it, "probe")
}

// spliceProbe: SpliceBlob needs its chunks in the CAS, so the item size cannot be chosen after
// measuring. Two fresh chunks a, b are uploaded first; for uncompressed storage their sizes
// are solved so that afterwards accounted + backlog + (a+b) = limit + delta exactly (each
// chunk adds its 4 KiB-rounded size to the accounted size). Wherever it lands, the probe
// is judged on the state measured after the chunk uploads.
func (w *world) spliceProbe(path string, delta int64) error {
	max := w.maxItem()
	T := w.cfg.Limit + delta - w.cur.Total - w.cur.BacklogFiles
	var a, b int64
	solved := false
	if T >= 3*lib.Block {
		a0 := w.rng.Int64N(lib.Block)
		for i := int64(0); i < lib.Block && !solved; i++ {
			a = 1 + (a0+i)%lib.Block
			if a < minCASSize {
				continue
			}
			U := T - a - lib.Block
			if U < 2 {
				continue
			}
			k := (U + 2*lib.Block - 1) / (2 * lib.Block)
			b = U - k*lib.Block
			if b >= minCASSize && b > (k-1)*lib.Block && b <= k*lib.Block && a+b <= max {
				solved = true
			}
		}
	}
	var chunks []*item
	if solved {
		w.r.Count("splice.sizes-solved")
		ca, cb := w.newCAS(a), w.newCAS(b)
		for _, c := range []*item{ca, cb} {
			if err := w.upload("http-put", c, "splice-chunk"); err != nil {
				return err
			}
		}
		chunks = []*item{ca, cb}
	} else {
		// any two indexed CAS blobs
		its := w.indexedItems(cache.CAS)
		if len(its) < 2 {
			w.r.Count("splice.no-chunks")
			return nil
		}
		i := w.rng.IntN(len(its))
		j := (i + 1 + w.rng.IntN(len(its)-1)) % len(its)
		chunks = []*item{its[i], its[j]}
		w.r.Count("splice.existing-chunks")
	}
	for _, c := range chunks {
		if !w.indexed(c) {
			w.r.Count("splice.chunk-refused-or-evicted")
			return nil
		}
	}
	if chunks[0].size()+chunks[1].size() > max {
		return nil
	}
	data := append(append([]byte(nil), chunks[0].Data...), chunks[1].Data...)
	it := &item{Kind: cache.CAS, Hash: lib.Sha256Hex(data), Data: data, Chunks: chunks}
	return w.upload(path, it, "probe")
}

// retries: after the drain, the refused requests of the round are sent again.
func (w *world) retries() error {
	ref := w.refused
	w.refused = nil
	if len(ref) == 0 {
		return nil
	}
	// prefer the ones that fit now; keep one that still does not
	var fit, nofit []op
	for _, o := range ref {
		if w.cur.Total+o.It.size() <= w.cfg.Limit {
			fit = append(fit, o)
		} else {
			nofit = append(nofit, o)
		}
	}
	if len(fit) > 5 {
		w.rng.Shuffle(len(fit), func(i, j int) { fit[i], fit[j] = fit[j], fit[i] })
		fit = fit[:5]
	}
	if len(nofit) > 1 {
		nofit = nofit[:1]
	}
	for _, o := range append(fit, nofit...) {
		if o.It.Inline != nil && w.indexedKey(o.It.key()) {
			continue // first stage had been stored: a retry would be an overwrite
		}
		if err := w.upload(o.Path, o.It, "retry"); err != nil {
			return err
		}
	}
	return nil
}

func (w *world) indexedKey(k string) bool { _, ok := w.cur.entries[k]; return ok }

// replayOps re-executes the recorded history on a server without the option.
func (w *world) replayOps(ops []op) error {
	if err := w.observe(false); err != nil {
		return err
	}
	for _, o := range ops {
		var err error
		switch o.Kind {
		case "upload":
			err = w.upload(o.Path, o.It, o.Phase)
		case "batch-pair":
			err = w.batchPair(o.It, o.It2, o.Phase)
		case "close":
			err = w.stepClose()
		case "open":
			err = w.stepOpen()
		case "allow":
			err = w.stepAllow(o.N)
		case "reads":
			err = w.stepReads(o.Items, false)
		case "unknown-size-get":
			err = w.unknownSizeGet(o.It)
		default:
			err = fmt.Errorf("unknown op %q", o.Kind)
		}
		if err != nil {
			return err
		}
	}
	return w.stepOpen()
}

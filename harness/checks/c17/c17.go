// Package c17 checks property C17 (max_size_hard_limit): with the option set,
// an upload or known-size backend fetch is admitted iff accounted size +
// bytes of evicted-but-not-yet-deleted files + declared size of the new item
// <= limit; a refusal is 507 / RESOURCE_EXHAUSTED on every write path, stores
// and evicts nothing, and the same request succeeds once the deletions have
// caught up; reads and existence checks keep working; without the option no
// request is refused for this reason.
//
// The background remover is held at the tag-guarded point evict.beforeUnlink,
// so the deletion backlog is under harness control. The oracle never uses the
// code's own backlog counter: the backlog is measured as the bytes of files
// on disk that are not in the index.
package c17

import (
	"encoding/json"
	"errors"
	"fmt"
	"math/rand/v2"
	"os"
	"path/filepath"
	"sort"
	"strings"
	"sync"
	"time"

	"verif/harness/lib"

	"github.com/buchgr/bazel-remote/v2/cache"
)

func init() { lib.Register("C17", run) }

var maxSizes = []int64{64 * lib.KiB, 128 * lib.KiB, 256 * lib.KiB, 512 * lib.KiB, lib.MiB, 2 * lib.MiB, 4 * lib.MiB}

// the larger caches are drawn half as often (cost is dominated by bytes moved)
var maxSizeDraw = []int{0, 0, 1, 1, 2, 2, 3, 3, 4, 4, 5, 6}
var limitKinds = []string{"max", "max+block", "1.05max", "2max"}

func limitOf(kind string, max int64) int64 {
	switch kind {
	case "max":
		return max
	case "max+block":
		return max + lib.Block
	case "1.05max":
		return max * 105 / 100
	default:
		return 2 * max
	}
}

func genConfigs(r *lib.Run, n int) []config {
	rng := r.Rng("configs")
	nProxy := n / 5
	if nProxy > 100 {
		nProxy = 100 // every cache with a backend starts 512 goroutines that never stop
	}
	every := 0
	if nProxy > 0 {
		every = n / nProxy
	}
	var out []config
	proxySeen := 0
	for i := 0; i < n; i++ {
		c := config{
			ID:        fmt.Sprintf("s%d-h%d", r.Seed, i),
			LimitKind: limitKinds[i%len(limitKinds)],
			Storage:   []string{"uncompressed", "zstd"}[(i/len(limitKinds))%2],
			ZstdImpl:  []string{"go", "cgo"}[rng.IntN(2)],
			Seed:      rng.Uint64(),
			Rounds:    1 + rng.IntN(2),
		}
		c.Max = maxSizes[maxSizeDraw[rng.IntN(len(maxSizeDraw))]]
		c.Proxy = every > 0 && i%every == every-1
		// a third of the histories, and every other proxy history, run behind the
		// endpoint-metrics decorator (every oracle must hold identically)
		c.Metrics = i%3 == 1
		if c.Proxy {
			c.Metrics = proxySeen%2 == 0
			proxySeen++
		}
		if c.Proxy && c.Max > lib.MiB {
			c.Max = maxSizes[rng.IntN(5)]
		}
		c.Limit = limitOf(c.LimitKind, c.Max)
		c.ItemClass = []string{"small", "medium", "medium", "large"}[rng.IntN(4)]
		if c.ItemClass == "small" && c.Max > 512*lib.KiB {
			c.Max = maxSizes[rng.IntN(4)] // many-file backlogs on the smaller caches
			c.Limit = limitOf(c.LimitKind, c.Max)
		}
		fr := []float64{0, 0.3, 0.6, 0.9, 1.0, 1.0, 1.3}
		if c.LimitKind == "2max" {
			fr = []float64{0.6, 0.9, 1.0, 1.0, 1.3}
		}
		c.FillFrac = fr[rng.IntN(len(fr))]
		out = append(out, c)
	}
	return out
}

func run(r *lib.Run) {
	r.SetRule("distinct tuple = (write path, limit kind, storage, proxy, endpoint-metrics decorator, phase, expected admit/refuse, where accounted+backlog+item lands relative to the limit, backlog file-count class, gate closed); " +
		"non-trivial = the request reached the server and the cache was re-measured (Stats, index snapshot, directory listing) afterwards")
	r.Assume("accounted size = Stats().totalSize (4 KiB blocks of indexed entries + reservations, C03); backlog = raw bytes of files in the cache directory that are not in the index; item = declared logical size")
	r.Assume("a retry after the backlog drained is judged by the same admission formula with backlog 0 (a request that does not fit accounted+item <= limit stays refused; counted as retry.still-over-limit)")
	r.Assume("items larger than max_size and the empty blob are not generated (refused / short-circuited before admission for other reasons); proxy fetches of unknown size are executed but not judged")

	n := r.N(200, 4000)
	cfgs := genConfigs(r, n)

	ro := &router{}
	ro.install()
	defer ro.remove()
	org := newOrigin()
	defer org.close()
	pool := newDirPool()
	defer pool.close()

	workers := r.N(8, 12)
	ch := make(chan config)
	var wg sync.WaitGroup
	var incMu sync.Mutex
	inconclusive := map[string]int{}
	for i := 0; i < workers; i++ {
		wg.Add(1)
		go func() {
			defer wg.Done()
			for cfg := range ch {
				if err := runHistory(r, ro, org, pool, cfg); err != nil {
					incMu.Lock()
					inconclusive[err.Error()]++
					incMu.Unlock()
				}
			}
		}()
	}
	for _, c := range cfgs {
		ch <- c
	}
	close(ch)
	wg.Wait()

	hits := ro.hitCounts()
	r.Extra("hook_hits", hits)
	r.Extra("histories", n)
	for why, k := range inconclusive {
		r.Inconclusive(fmt.Sprintf("%d histor(y/ies): %s", k, why))
	}
	if u := ro.unregistered.Load(); u > 0 {
		r.Inconclusive(fmt.Sprintf("%d remover events for keys no history had registered (backlog not under harness control)", u))
	}
	if c := ro.collisions.Load(); c > 0 {
		r.Inconclusive(fmt.Sprintf("%d keys were used by two running histories at once (hook events misrouted)", c))
	}
	if hits["evict.beforeUnlink"] == 0 || hits["evict.afterUnlink"] == 0 {
		r.Inconclusive("the remover gate was never reached")
	}
	for _, p := range proxyPaths {
		for _, m := range []bool{false, true} {
			if k := fmt.Sprintf("metrics-decorator.%v.%s.refuse", m, p); r.Counter(k) == 0 {
				r.Inconclusive("required observation never made: " + k)
			}
		}
	}
	for _, need := range []string{"gate.parked-with-backlog", "expect.refuse", "expect.admit", "retry.judged", "reads.during-overload", "replay.uploads"} {
		if r.Counter(need) == 0 {
			r.Inconclusive("required observation never made: " + need)
		}
	}
}

func runHistory(r *lib.Run, ro *router, org *origin, pool *dirPool, cfg config) (rerr error) {
	w, err := newWorld(r, ro, org, pool, cfg, cfg.Limit, false)
	if err != nil {
		return err
	}
	err = w.script()
	ops := w.ops
	viol := w.violations
	w.close(pool)
	if err != nil {
		if errors.Is(err, errInconclusive) {
			if viol > 0 {
				return nil // already reported something concrete for this history
			}
			return err
		}
		return fmt.Errorf("%w: %v", errInconclusive, err)
	}
	// the same history without the option
	w2, err := newWorld(r, ro, org, pool, cfg, 0, true)
	if err != nil {
		return err
	}
	err = w2.replayOps(ops)
	viol = w2.violations
	w2.close(pool)
	if err != nil && viol == 0 {
		if errors.Is(err, errInconclusive) {
			return err
		}
		return fmt.Errorf("%w: %v", errInconclusive, err)
	}
	return nil
}

func newWorld(r *lib.Run, ro *router, org *origin, pool *dirPool, cfg config, limit int64, replay bool) (*world, error) {
	w := &world{r: r, cfg: cfg, limit: limit, replay: replay, ro: ro, origin: org, g: newGate(), items: map[string]*item{}}
	sd := cfg.Seed
	if replay {
		sd ^= 0x9e3779b97f4a7c15
	}
	w.rng = rand.New(rand.NewPCG(sd, 17))
	opts := lib.ServerOpts{Dir: pool.get(), MaxSize: cfg.Max, Storage: cfg.Storage, ZstdImpl: cfg.ZstdImpl, HardLimit: limit, RawHTTP: true, AssetAPI: true, EndpointMetrics: cfg.Metrics}
	if cfg.Proxy {
		w.px = lib.NewFakeProxy(cfg.Storage == "zstd")
		opts.Proxy = w.px
	}
	srv, err := lib.StartServer(opts)
	if err != nil {
		pool.put(opts.Dir, nil)
		return nil, fmt.Errorf("%w: server start: %v", errInconclusive, err)
	}
	w.srv = srv
	w.logf("server: max_size=%d hard_limit=%d storage=%s/%s proxy=%v endpoint_metrics=%v", cfg.Max, limit, cfg.Storage, cfg.ZstdImpl, cfg.Proxy, cfg.Metrics)
	return w, nil
}

func (w *world) close(pool *dirPool) {
	w.g.release()
	// let the remover finish before the directory is recycled (bounded, no verdict)
	deadline := time.Now().Add(30 * time.Second)
	for time.Now().Before(deadline) {
		if w.g.before.Load() == w.g.after.Load() {
			if o, _, err := w.measureOnce(w.srv.Cache, true); err != nil || (o.BacklogCount == 0 && w.g.before.Load() == w.g.after.Load()) {
				break
			}
		}
		time.Sleep(200 * time.Microsecond)
	}
	w.srv.Close()
	w.ro.unregisterAll(w.hashes, w.g)
	pool.put(w.srv.Dir, w.dirs)
}

// dirPool recycles cache directories (768 sub-directories each). A history only ever
// creates files in the sub-directories of its registered keys (cross-checked once per
// history by a full walk), so only those are emptied on return.
type dirPool struct {
	mu   sync.Mutex
	base string
	free []string
}

func newDirPool() *dirPool { return &dirPool{base: lib.MkTemp("c17")} }

func (p *dirPool) get() string {
	p.mu.Lock()
	defer p.mu.Unlock()
	if n := len(p.free); n > 0 {
		d := p.free[n-1]
		p.free = p.free[:n-1]
		return d
	}
	d, err := os.MkdirTemp(p.base, "c")
	if err != nil {
		panic(err)
	}
	return d
}

func (p *dirPool) put(dir string, used map[string]bool) {
	for d := range used {
		ents, err := os.ReadDir(filepath.Join(dir, d))
		if err != nil {
			continue
		}
		for _, e := range ents {
			_ = os.RemoveAll(filepath.Join(dir, d, e.Name()))
		}
	}
	p.mu.Lock()
	p.free = append(p.free, dir)
	p.mu.Unlock()
}

func (p *dirPool) close() { _ = os.RemoveAll(p.base) }

// ---------------------------------------------------------------------------
// observation helpers

// observe measures; with the gate open it first waits for the remover to catch up.
func (w *world) observe(list bool) error {
	if !list {
		o, err := w.measure(false)
		if err != nil {
			return err
		}
		w.cur = o
		return nil
	}
	deadline := time.Now().Add(240 * time.Second)
	var lastMove = time.Now()
	var lastAfter = w.g.after.Load()
	for {
		o, err := w.measure(true)
		if err != nil {
			return err
		}
		if w.g.isClosed() || (o.BacklogCount == 0 && w.g.before.Load() == w.g.after.Load()) {
			if w.g.isClosed() && o.BacklogCount > 0 {
				if w.g.waitParked(2 * time.Second) {
					w.r.Count("gate.parked-with-backlog")
				} else {
					w.r.Count("gate.not-parked-with-backlog")
				}
			}
			w.cur = o
			return nil
		}
		if a := w.g.after.Load(); a != lastAfter {
			lastAfter, lastMove = a, time.Now()
		}
		if time.Now().After(deadline) || time.Since(lastMove) > 60*time.Second {
			w.g.mu.Lock()
			gs := fmt.Sprintf("open=%v permits=%d parked=%d released=%v before=%d after=%d removed=%d", w.g.open, w.g.permits, w.g.parked, w.g.released, w.g.before.Load(), w.g.after.Load(), w.g.removedN.Load())
			w.g.mu.Unlock()
			b, _ := json.MarshalIndent(w.detail(map[string]any{"stuck_files": o.extra, "gate": gs, "state": o.summary(), "unregistered_events": w.ro.unregistered.Load()}), "", " ")
			dir := filepath.Join(lib.VerifRoot(), "replays")
			_ = os.MkdirAll(dir, 0o755)
			_ = os.WriteFile(filepath.Join(dir, fmt.Sprintf("C17-inconclusive-%s-%s.json", w.cfg.ID, w.mode())), b, 0o644)
			return fmt.Errorf("%w: files outside the index did not disappear with the gate open (%d files, %d bytes)", errInconclusive, o.BacklogCount, o.BacklogFiles)
		}
		time.Sleep(200 * time.Microsecond)
	}
}

func (w *world) slack() int64 { return w.cfg.Limit - w.cur.Total - w.cur.BacklogFiles }

func (w *world) violation(key, what string, extra map[string]any) {
	w.violations++
	w.r.Violation(key, what, w.detail(extra))
}

// indexed returns the item if the observation has it in the index with its size.
func (w *world) indexed(it *item) bool {
	e, ok := w.cur.entries[it.key()]
	return ok && e.Size == it.size()
}

func (w *world) indexedItems(kind cache.EntryKind) []*item {
	var out []*item
	for k, it := range w.items {
		if it.Kind == kind && w.indexed(it) && k == it.key() {
			out = append(out, it)
		}
	}
	sort.Slice(out, func(i, j int) bool { return out[i].Hash < out[j].Hash })
	return out
}

// ---------------------------------------------------------------------------
// one judged write

// skipsWhenPresent: paths that answer OK without writing when the blob is already indexed.
func skipsWhenPresent(path string) bool {
	return strings.HasPrefix(path, "bs-write") || strings.HasPrefix(path, "fetchblob") || strings.HasPrefix(path, "splice") || strings.HasPrefix(path, "proxy-")
}

func (w *world) upload(path string, it *item, phase string) error {
	if it == nil {
		return nil
	}
	if len(it.Chunks) > 0 {
		for _, c := range it.Chunks {
			if !w.indexed(c) {
				w.r.Count("skip.splice-chunk-not-indexed")
				return nil
			}
		}
	}
	chunk := w.chunkFor(path, it.size())
	if !w.replay {
		w.ops = append(w.ops, op{Kind: "upload", Path: path, It: it, Phase: phase})
	}
	w.reg(it)
	before := w.cur
	N := it.size()
	closed := w.g.isClosed()
	present := w.indexed(it)

	out := w.doUpload(path, it, chunk)
	if out.Transport {
		// no answer of the server was observed (transport error, the harness's own watchdog,
		// connection lost): neither an admission nor a refusal, and what the request did to
		// the state is unknown: the history ends here, inconclusive - never a verdict
		w.r.Count("unobserved-transport." + path)
		w.logf("%s %s %s/%d: %s (%s): not judged, history abandoned", phase, path, it.key()[:12], N, out.Status, out.Note)
		return fmt.Errorf("%w: %s answered %q (%s): transport error / watchdog, not a verdict", errInconclusive, path, out.Status, out.Note)
	}
	if phase == "fill" {
		// set-up with the remover running: executed, not measured, not judged here
		// (in the no-option replay it still must not be refused)
		w.r.Count("fill.uploads." + okStr(out.OK))
		if out.OK {
			w.items[it.key()] = it
		}
		if w.replay && !out.OK {
			w.r.Eval()
			k := "failed"
			if out.Refused {
				k = "refused"
			}
			w.violation("C17:"+path+":no-option:"+k, fmt.Sprintf("without max_size_hard_limit a %d-byte item (max_size %d) was answered %q", it.size(), w.cfg.Max, out.Status),
				map[string]any{"path": path, "phase": phase, "item": it.key(), "observed_status": out.Status, "note": out.Note})
		}
		return nil
	}
	if err := w.observe(!w.replay); err != nil {
		return err
	}
	after := w.cur
	w.r.Eval()
	w.r.Count("status." + path + "." + strings.ReplaceAll(out.Status, " ", "-"))

	sum := before.Total + before.BacklogFiles + N
	admit := w.limit <= 0 || sum <= w.limit
	cls := "no-limit"
	if w.limit > 0 {
		cls = slackClass(sum - w.limit)
	}
	expect := "admit"
	if !admit {
		expect = "refuse"
	}
	w.logf("%s %s %s/%d: accounted=%d backlog=%d(files %d, counter %d) item=%d sum=%d limit=%d expect=%s -> %s | after: accounted=%d backlog=%d(%d files)",
		phase, path, it.key()[:12], N, before.Total, before.BacklogFiles, before.BacklogCount, before.BacklogCounter, N, sum, w.limit, expect, out.Status,
		after.Total, after.BacklogFiles, after.BacklogCount)
	ex := map[string]any{"path": path, "phase": phase, "item": it.key(), "declared_size": N, "before": before.summary(), "after": after.summary(),
		"sum": sum, "expected": expect, "observed_status": out.Status, "note": out.Note, "gate_closed": closed,
		"admit_by_code_counter": w.limit <= 0 || before.Total+before.BacklogCounter+N <= w.limit}
	if !w.replay && before.BacklogCounter != before.BacklogFiles {
		w.r.Count("backlog.counter-differs-from-files")
	}

	if len(it.Chunks) > 0 && !out.OK && !out.Refused {
		// making room for the spliced blob may evict its own chunks (they are ordinary LRU
		// entries): the request then fails for want of a chunk, which is not a refusal
		for _, c := range it.Chunks {
			if !w.indexed(c) {
				w.r.Count("notjudged.splice-chunk-evicted-meanwhile")
				return nil
			}
		}
	}

	if w.replay {
		w.r.Count("replay.uploads")
		w.r.Count("replay." + path + "." + okStr(out.OK))
		w.r.Distinct(path, "no-option", w.cfg.Storage, w.cfg.Proxy, w.cfg.Metrics, phase, backlogClass(before.BacklogCount), closed)
		if !out.OK {
			k := "failed"
			if out.Refused {
				k = "refused"
			}
			w.violation("C17:"+path+":no-option:"+k, fmt.Sprintf("without max_size_hard_limit a %d-byte item (max_size %d) was answered %q", N, w.cfg.Max, out.Status), ex)
		} else {
			w.items[it.key()] = it
			if it.Inline != nil {
				w.items[it.Inline.key()] = it.Inline
			}
		}
		return nil
	}

	if present && skipsWhenPresent(path) {
		// the server answers from the index without writing: no admission takes place
		w.r.Count("notjudged.already-present." + path)
		return nil
	}

	w.r.Count("expect." + expect)
	w.r.Count(fmt.Sprintf("probe.%s.%s.%s", path, expect, cls))
	w.r.Count("backlogfiles." + backlogClass(before.BacklogCount) + "." + expect)
	w.r.Count("limitkind." + w.cfg.LimitKind + "." + expect)
	w.r.Distinct(path, w.cfg.LimitKind, w.cfg.Storage, w.cfg.Proxy, w.cfg.Metrics, phase, expect, cls, backlogClass(before.BacklogCount), closed)
	w.r.Count(fmt.Sprintf("metrics-decorator.%v.%s.%s", w.cfg.Metrics, path, expect))

	if it.Inline != nil && admit {
		// second stage: the inlined blob is stored in the CAS after the AC entry
		n2 := it.Inline.size()
		clearly := before.Total+before.BacklogFiles+lib.RoundUp4k(N)+n2 <= w.limit
		if !clearly {
			w.r.Count("notjudged.ac-inline-second-stage-in-between")
			if !out.OK && !out.Refused {
				w.violation("C17:"+path+":refusal-status", fmt.Sprintf("request failed with %q, neither success nor RESOURCE_EXHAUSTED", out.Status), ex)
			}
			return nil
		}
	}

	retryKey := ""
	if phase == "retry" {
		retryKey = ":retry-after-drain"
		w.r.Count("retry.judged")
		w.r.Count("retry." + path + "." + expect + "." + okStr(out.OK))
	}
	switch {
	case admit && out.OK:
		w.items[it.key()] = it
		if it.Inline != nil {
			w.items[it.Inline.key()] = it.Inline
		}
		if e, ok := after.entries[it.key()]; !ok || e.Size != N {
			w.r.Count("admitted.not-indexed-afterwards." + path)
			w.logf("  note: admitted item not in the index afterwards (present=%v size=%d)", ok, e.Size)
		}
	case admit && !out.OK:
		what := fmt.Sprintf("accounted %d + backlog %d + item %d = %d <= limit %d, but the request was answered %q", before.Total, before.BacklogFiles, N, sum, w.limit, out.Status)
		if phase == "retry" {
			what = "retry after the deletion backlog drained: " + what
		}
		w.violation("C17:"+path+retryKey+":refused-within-limit", what, ex)
	case !admit && out.OK:
		w.items[it.key()] = it
		w.violation("C17:"+path+retryKey+":admitted-over-limit", fmt.Sprintf("accounted %d + backlog %d (files on disk not in the index) + item %d = %d > limit %d, but the request was admitted (%s)",
			before.Total, before.BacklogFiles, N, sum, w.limit, out.Status), ex)
	default: // refusal expected and observed
		if !out.Refused {
			w.violation("C17:"+path+":refusal-status", fmt.Sprintf("over the limit (sum %d > %d): refused with %q instead of 507 Insufficient Storage / RESOURCE_EXHAUSTED", sum, w.limit, out.Status), ex)
		}
		if same, why := sameState(before, after); !same {
			ex["state_change"] = why
			w.violation("C17:"+path+":refusal-changed-state", "a refused request stored or evicted something: "+why, ex)
		}
		if phase != "retry" {
			w.refused = append(w.refused, op{Kind: "upload", Path: path, It: it})
		} else if before.BacklogFiles == 0 {
			w.r.Count("retry.still-over-limit")
		}
	}
	return nil
}

func okStr(b bool) string {
	if b {
		return "ok"
	}
	return "not-ok"
}

// batchPair: one BatchUpdateBlobs with [a (over the limit), b (fits)]: the refusal of a
// leaves the state unchanged, so b is judged on the same observation; per-blob statuses.
func (w *world) batchPair(a, b *item, phase string) error {
	if !w.replay {
		w.ops = append(w.ops, op{Kind: "batch-pair", Path: pathBatchPair, It: a, It2: b, Phase: phase})
	}
	w.reg(a)
	w.reg(b)
	before := w.cur
	ctx, cancel := lib.Ctx()
	defer cancel()
	resp, err := w.srv.CAS.BatchUpdateBlobs(ctx, batchReq(a, b))
	if oerr := w.observe(!w.replay); oerr != nil {
		return oerr
	}
	after := w.cur
	w.r.Eval()
	ex := map[string]any{"path": pathBatchPair, "phase": phase, "items": []string{a.key(), b.key()}, "sizes": []int64{a.size(), b.size()}, "before": before.summary(), "after": after.summary()}
	if err != nil && (transportCode(lib.Code(err)) || ctx.Err() != nil) {
		w.r.Count("unobserved-transport." + pathBatchPair)
		return fmt.Errorf("%w: %s answered %v: transport error / watchdog, not a verdict", errInconclusive, pathBatchPair, err)
	}
	if err != nil || len(resp.Responses) != 2 {
		w.r.Count("status.batch-pair.rpc-error")
		w.violation("C17:batch-pair:rpc-failed", fmt.Sprintf("BatchUpdateBlobs with one over-limit and one fitting blob failed as a whole: %v", err), ex)
		return nil
	}
	oa := blobStatusOutcome(resp.Responses[0].Status.GetCode(), "")
	ob := blobStatusOutcome(resp.Responses[1].Status.GetCode(), "")
	ex["observed_status"] = []string{oa.Status, ob.Status}
	w.logf("%s batch-pair [%d, %d]: accounted=%d backlog=%d limit=%d -> [%s, %s]", phase, a.size(), b.size(), before.Total, before.BacklogFiles, w.limit, oa.Status, ob.Status)
	w.r.Count("status.batch-pair." + strings.ReplaceAll(oa.Status, " ", "-") + "+" + strings.ReplaceAll(ob.Status, " ", "-"))
	if w.replay {
		w.r.Count("replay.uploads")
		w.r.Distinct(pathBatchPair, "no-option", w.cfg.Storage, w.cfg.Proxy, phase)
		if !oa.OK || !ob.OK {
			w.violation("C17:batch-pair:no-option:refused", fmt.Sprintf("without the option the blobs were answered [%s, %s]", oa.Status, ob.Status), ex)
		}
		return nil
	}
	admitA := before.Total+before.BacklogFiles+a.size() <= w.limit
	admitB := before.Total+before.BacklogFiles+b.size() <= w.limit
	if admitA || !admitB {
		w.r.Count("notjudged.batch-pair-shape")
		return nil
	}
	w.r.Count("expect.refuse")
	w.r.Count("expect.admit")
	w.r.Count("probe.batch-pair.refuse+admit")
	w.r.Distinct(pathBatchPair, w.cfg.LimitKind, w.cfg.Storage, w.cfg.Proxy, phase, backlogClass(before.BacklogCount))
	if oa.OK {
		w.violation("C17:batch-pair:admitted-over-limit", fmt.Sprintf("first blob (%d bytes) is over the limit (accounted %d + backlog %d, limit %d) but got %s", a.size(), before.Total, before.BacklogFiles, w.limit, oa.Status), ex)
	} else if !oa.Refused {
		w.violation("C17:batch-pair:refusal-status", fmt.Sprintf("over-limit blob refused with %q instead of RESOURCE_EXHAUSTED", oa.Status), ex)
	}
	if !ob.OK {
		w.violation("C17:batch-pair:refused-within-limit", fmt.Sprintf("second blob (%d bytes) fits (accounted %d + backlog %d, limit %d) but got %s", b.size(), before.Total, before.BacklogFiles, w.limit, ob.Status), ex)
	} else {
		w.items[b.key()] = b
	}
	if !oa.OK {
		if _, ok := after.entries[a.key()]; ok {
			w.violation("C17:batch-pair:refusal-changed-state", "the refused blob is in the index", ex)
		}
		w.refused = append(w.refused, op{Kind: "upload", Path: "batch", It: a})
	}
	return nil
}

// ---------------------------------------------------------------------------
// gate steps, reads

func (w *world) stepClose() error {
	if !w.replay {
		w.ops = append(w.ops, op{Kind: "close"})
	}
	w.g.closeGate()
	w.logf("gate closed (remover held before each unlink)")
	return nil
}

func (w *world) stepOpen() error {
	if !w.replay {
		w.ops = append(w.ops, op{Kind: "open"})
	}
	if w.replay {
		if err := w.observe(true); err != nil {
			return err
		}
	}
	b := w.cur
	w.g.openGate()
	if err := w.observe(true); err != nil {
		return err
	}
	if !w.replay && !w.walked {
		// once per history: the targeted listing must agree with a walk of the whole tree
		w.walked = true
		if ok, why := w.fullWalkAgrees(); !ok {
			return fmt.Errorf("%w: directory cross-check: %s", errInconclusive, why)
		}
	}
	w.logf("gate opened: backlog %d bytes / %d files drained; accounted=%d counter=%d", b.BacklogFiles, b.BacklogCount, w.cur.Total, w.cur.BacklogCounter)
	w.r.Count("gate.drains")
	if b.BacklogCount > 0 {
		w.r.Count("gate.drains-with-backlog")
	}
	return nil
}

func (w *world) stepAllow(n int) error {
	if !w.replay {
		w.ops = append(w.ops, op{Kind: "allow", N: n})
	}
	if w.replay {
		if err := w.observe(true); err != nil {
			return err
		}
	}
	if n > w.cur.BacklogCount {
		n = w.cur.BacklogCount
	}
	if n <= 0 || !w.g.isClosed() {
		return nil
	}
	if !w.g.allow(n, 20*time.Second) {
		return fmt.Errorf("%w: remover did not perform %d permitted unlinks", errInconclusive, n)
	}
	b := w.cur
	if err := w.observe(true); err != nil {
		return err
	}
	w.r.Count("gate.partial-drains")
	w.logf("gate: %d unlink(s) permitted: backlog %d/%d files -> %d/%d; counter %d", n, b.BacklogFiles, b.BacklogCount, w.cur.BacklogFiles, w.cur.BacklogCount, w.cur.BacklogCounter)
	return nil
}

// stepReads: reads and existence checks of indexed items (while writes are being refused).
func (w *world) stepReads(its []*item, overload bool) error {
	if !w.replay {
		w.ops = append(w.ops, op{Kind: "reads", Items: its})
	}
	for _, it := range its {
		if !w.indexed(it) || w.items[it.key()] != it {
			continue // evicted, or (replay) replaced by a later version of the key
		}
		w.r.Eval()
		bad := w.readItem(it)
		if overload {
			w.r.Count("reads.during-overload")
		} else {
			w.r.Count("reads.other")
		}
		w.r.Distinct("read", it.Kind.String(), w.cfg.Storage, w.cfg.Proxy, w.cfg.Metrics, overload, w.mode())
		if overload {
			w.r.Count(fmt.Sprintf("reads.during-overload.metrics-decorator.%v", w.cfg.Metrics))
		}
		if len(bad) > 0 {
			for _, b := range bad {
				p := b[:strings.Index(b, ":")]
				w.violation("C17:read:"+p, fmt.Sprintf("indexed item %s (%d bytes) not served (overload=%v): %s", it.key(), it.size(), overload, b),
					map[string]any{"item": it.key(), "failures": bad, "state": w.cur.summary()})
			}
		}
	}
	// reads move recency only; sizes, entries and files must be what they were
	b := w.cur
	if err := w.observe(!w.replay); err != nil {
		return err
	}
	if same, why := sameState(b, w.cur); !same {
		w.violation("C17:read:changed-state", "reads / existence checks changed the stored state: "+why, map[string]any{"before": b.summary(), "after": w.cur.summary()})
	}
	return nil
}

// proxyExistence: FindMissing of a blob that only the backend has (existence check through the proxy).
func (w *world) proxyExistence() {
	if w.px == nil {
		return
	}
	it := w.newCAS(minCASSize + int64(w.rng.IntN(5000)))
	w.proxySet(it)
	ctx, cancel := lib.Ctx()
	defer cancel()
	miss, err := w.srv.FindMissing(ctx, it.digest())
	if err != nil && (transportCode(lib.Code(err)) || ctx.Err() != nil) {
		w.r.Count("read.findmissing-proxy.unobserved-transport")
		w.px.Delete(cache.CAS, it.Hash)
		return
	}
	w.r.Eval()
	if err != nil || len(miss) != 0 {
		w.r.Count("read.findmissing-proxy.FAILED")
		w.violation("C17:read:findmissing-proxy", fmt.Sprintf("existence check of a backend-only blob failed during overload: err=%v missing=%d", err, len(miss)), map[string]any{"item": it.key()})
	} else {
		w.r.Count("read.findmissing-proxy.ok")
	}
	w.px.Delete(cache.CAS, it.Hash)
}

// unknownSizeGet: HTTP GET of a blob only the backend has: size unknown to the server, so
// no admission can take place (executed for state diversity, not judged).
func (w *world) unknownSizeGet(it *item) error {
	if w.px == nil {
		return nil
	}
	if !w.replay {
		w.ops = append(w.ops, op{Kind: "unknown-size-get", It: it})
	}
	w.reg(it)
	w.proxySet(it)
	res := w.srv.HTTPGet("/cas/"+it.Hash, nil)
	w.r.Count(fmt.Sprintf("notjudged.unknown-size-proxy-get.http-%d", res.Status))
	w.logf("unknown-size proxy GET %s/%d -> http %d (not judged)", it.key()[:12], it.size(), res.Status)
	if res.Status == 200 {
		w.items[it.key()] = it
	}
	return w.observe(!w.replay)
}

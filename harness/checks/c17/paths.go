package c17

import (
	"bytes"
	"encoding/base64"
	"encoding/hex"
	"errors"
	"fmt"
	"io"
	"math/rand/v2"
	"net/http"
	"net/http/httptest"
	"strconv"
	"strings"
	"sync"

	"verif/harness/lib"

	"github.com/klauspost/compress/zstd"

	"github.com/buchgr/bazel-remote/v2/cache"
	asset "github.com/buchgr/bazel-remote/v2/genproto/build/bazel/remote/asset/v1"
	pb "github.com/buchgr/bazel-remote/v2/genproto/build/bazel/remote/execution/v2"

	"google.golang.org/grpc/codes"
	"google.golang.org/protobuf/proto"
)

// outcome of one write (or known-size fetch) at the client boundary.
type outcome struct {
	OK      bool   // acknowledged / served
	Refused bool   // answered with exactly 507 / RESOURCE_EXHAUSTED (cache.Error{507} for the direct Get)
	Status  string // what was seen, e.g. "http 507", "grpc ResourceExhausted", "blob-status NotFound"
	Note    string
	// Transport: no answer of the server was observed (HTTP transport error, the client's
	// own watchdog expired, connection lost): neither an admission nor a refusal; the
	// history ends inconclusive, it is never a verdict.
	Transport bool
}

// transportCode: gRPC codes produced by the client side when its watchdog (lib.Ctx)
// expires or the connection fails; the same set C15/C16/C18 treat as "unobserved".
func transportCode(c codes.Code) bool {
	return c == codes.DeadlineExceeded || c == codes.Unavailable || c == codes.Canceled
}

func httpOutcome(res lib.HTTPResult) outcome {
	if res.Err != nil {
		return outcome{Status: "http transport error", Note: res.Err.Error(), Transport: true}
	}
	o := outcome{Status: fmt.Sprintf("http %d", res.Status)}
	o.OK = res.Status == 200
	o.Refused = res.Status == http.StatusInsufficientStorage
	if !o.OK {
		o.Note = strings.TrimSpace(string(trunc(res.Body, 200)))
	}
	return o
}

func grpcOutcome(err error) outcome {
	c := lib.Code(err)
	o := outcome{Status: "grpc " + c.String(), OK: c == codes.OK, Refused: c == codes.ResourceExhausted}
	o.Transport = err != nil && transportCode(c)
	if err != nil {
		o.Note = string(trunc([]byte(err.Error()), 200))
	}
	return o
}

func blobStatusOutcome(code int32, msg string) outcome {
	c := codes.Code(code)
	return outcome{Status: "blob-status " + c.String(), OK: c == codes.OK, Refused: c == codes.ResourceExhausted, Note: msg}
}

func trunc(b []byte, n int) []byte {
	if len(b) > n {
		return b[:n]
	}
	return b
}

// Write paths. Those in casPaths take any CAS item of freely chosen size.
var casPaths = []string{
	"http-put", "http-put-zstd", "batch", "batch-zstd",
	"bs-write", "bs-write-chunked", "bs-write-zstd", "bs-write-zstd-chunked",
	"fetchblob", "fetchblob-nocl",
}
var proxyPaths = []string{"proxy-get", "proxy-bsread", "proxy-bsread-zstd", "proxy-batchread"}

const (
	pathRaw       = "http-put-raw"
	pathHTTPAC    = "http-put-ac"
	pathUpdateAC  = "update-ac"
	pathACInline  = "update-ac-inline"
	pathSplice    = "splice"
	pathSpliceND  = "splice-nodigest"
	pathBatchPair = "batch-pair"
)

func pathKind(path string) cache.EntryKind {
	switch path {
	case pathRaw:
		return cache.RAW
	case pathHTTPAC, pathUpdateAC, pathACInline:
		return cache.AC
	}
	return cache.CAS
}

func uuid(rng *rand.Rand) string {
	return fmt.Sprintf("%08x-%04x-4%03x-8%03x-%012x", rng.Uint32(), rng.Uint32()&0xffff, rng.Uint32()&0xfff, rng.Uint32()&0xfff, rng.Uint64()&0xffffffffffff)
}

// doUpload performs one write of it over the named path.
func (w *world) doUpload(path string, it *item, chunk int) (out outcome) {
	ctx, cancel := lib.Ctx()
	defer cancel()
	defer func() {
		// the watchdog expired while the call ran: whatever was returned is the harness's
		// own cancellation (also for the direct cache call and FetchBlob's folded statuses)
		if ctx.Err() != nil && !out.OK {
			out.Transport = true
			out.Note = "lib.Ctx watchdog expired: " + out.Note
		}
	}()
	s := w.srv
	switch path {
	case "http-put":
		return httpOutcome(s.HTTPPut("/cas/"+it.Hash, it.Data, nil))
	case "http-put-zstd":
		z := zstdKP(it.Data)
		return httpOutcome(s.HTTPPut("/cas/"+it.Hash, z, map[string]string{"Content-Encoding": "zstd", "X-Digest-SizeBytes": strconv.FormatInt(it.size(), 10)}))
	case pathRaw:
		return httpOutcome(s.HTTPDo("PUT", s.RawURL+"/ac/"+it.Hash, it.Data, nil))
	case pathHTTPAC:
		return httpOutcome(s.HTTPPut("/ac/"+it.Hash, it.Data, nil))
	case "batch", "batch-zstd":
		req := &pb.BatchUpdateBlobsRequest_Request{Digest: &pb.Digest{Hash: it.Hash, SizeBytes: it.size()}, Data: it.Data}
		if path == "batch-zstd" {
			req.Data = lib.ZstdEncodeC(it.Data, 3)
			req.Compressor = pb.Compressor_ZSTD
		}
		resp, err := s.CAS.BatchUpdateBlobs(ctx, &pb.BatchUpdateBlobsRequest{Requests: []*pb.BatchUpdateBlobsRequest_Request{req}})
		if err != nil {
			o := grpcOutcome(err)
			o.Refused = false // the refusal belongs in the per-blob status
			o.Status = "rpc-" + o.Status
			return o
		}
		if len(resp.Responses) != 1 || resp.Responses[0].Status == nil {
			return outcome{Status: "malformed batch response"}
		}
		return blobStatusOutcome(resp.Responses[0].Status.Code, resp.Responses[0].Status.Message)
	case "bs-write", "bs-write-chunked":
		_, err := s.BSWrite(ctx, lib.ResUpload(uuid(w.rng), it.Hash, it.size()), it.Data, chunk)
		return grpcOutcome(err)
	case "bs-write-zstd", "bs-write-zstd-chunked":
		z := zstdKP(it.Data)
		if it.size()%2 == 0 {
			z = lib.ZstdEncodeC(it.Data, 1)
		}
		_, err := s.BSWrite(ctx, lib.ResUploadZstd(uuid(w.rng), it.Hash, it.size()), z, chunk)
		return grpcOutcome(err)
	case pathUpdateAC, pathACInline:
		ar := &pb.ActionResult{}
		if err := proto.Unmarshal(it.Data, ar); err != nil {
			return outcome{Status: "harness: bad AR", Note: err.Error()}
		}
		_, err := s.AC.UpdateActionResult(ctx, &pb.UpdateActionResultRequest{
			ActionDigest: &pb.Digest{Hash: it.Hash, SizeBytes: 1}, ActionResult: ar})
		return grpcOutcome(err)
	case pathSplice, pathSpliceND:
		req := &pb.SpliceBlobRequest{}
		for _, c := range it.Chunks {
			req.ChunkDigests = append(req.ChunkDigests, &pb.Digest{Hash: c.Hash, SizeBytes: c.size()})
		}
		if path == pathSplice {
			req.BlobDigest = &pb.Digest{Hash: it.Hash, SizeBytes: it.size()}
		}
		_, err := s.CAS.SpliceBlob(ctx, req)
		return grpcOutcome(err)
	case "fetchblob", "fetchblob-nocl":
		sum, _ := hex.DecodeString(it.Hash)
		pfx := "/cl/"
		if path == "fetchblob-nocl" {
			pfx = "/nocl/"
		}
		w.origin.put(it.Hash, it.Data)
		defer w.origin.del(it.Hash)
		resp, err := s.Asset.FetchBlob(ctx, &asset.FetchBlobRequest{
			Uris:       []string{w.origin.url + pfx + it.Hash},
			Qualifiers: []*asset.Qualifier{{Name: "checksum.sri", Value: "sha256-" + base64.StdEncoding.EncodeToString(sum)}},
		})
		if err != nil {
			o := grpcOutcome(err)
			o.Refused = false // FetchBlob reports through the response status
			o.Status = "rpc-" + o.Status
			return o
		}
		if resp.Status == nil {
			return outcome{Status: "fetchblob response without status"}
		}
		o := blobStatusOutcome(resp.Status.Code, resp.Status.Message)
		o.Status = "fetch-status " + codes.Code(resp.Status.Code).String()
		if o.OK && (resp.BlobDigest == nil || resp.BlobDigest.Hash != it.Hash || resp.BlobDigest.SizeBytes != it.size()) {
			o.OK = false
			o.Status += " wrong digest"
		}
		return o
	case "proxy-get":
		w.proxySet(it)
		rc, sz, err := s.Cache.Get(ctx, cache.CAS, it.Hash, it.size(), 0)
		if rc != nil {
			defer func() { _ = rc.Close() }()
		}
		if err != nil {
			var ce *cache.Error
			if errors.As(err, &ce) {
				return outcome{Status: fmt.Sprintf("cache.Error %d", ce.Code), Refused: ce.Code == http.StatusInsufficientStorage, Note: ce.Text}
			}
			return outcome{Status: "error", Note: err.Error()}
		}
		if rc == nil {
			return outcome{Status: "miss"}
		}
		b, rerr := io.ReadAll(rc)
		if rerr != nil || sz != it.size() || !bytes.Equal(b, it.Data) {
			return outcome{Status: "served wrong bytes", Note: fmt.Sprint(rerr)}
		}
		return outcome{OK: true, Status: "served"}
	case "proxy-bsread", "proxy-bsread-zstd":
		w.proxySet(it)
		res := lib.ResBlobs(it.Hash, it.size())
		if path == "proxy-bsread-zstd" {
			res = lib.ResZstd(it.Hash, it.size())
		}
		b, err := s.BSRead(ctx, res, 0, 0)
		o := grpcOutcome(err)
		if o.OK {
			if path == "proxy-bsread-zstd" {
				b, err = lib.ZstdDecodeKP(b)
			}
			if err != nil || !bytes.Equal(b, it.Data) {
				o.OK = false
				o.Status += " wrong bytes"
			}
		}
		return o
	case "proxy-batchread":
		w.proxySet(it)
		resp, err := s.CAS.BatchReadBlobs(ctx, &pb.BatchReadBlobsRequest{Digests: []*pb.Digest{{Hash: it.Hash, SizeBytes: it.size()}}})
		if err != nil {
			o := grpcOutcome(err)
			o.Refused = false
			o.Status = "rpc-" + o.Status
			return o
		}
		if len(resp.Responses) != 1 || resp.Responses[0].Status == nil {
			return outcome{Status: "malformed batch response"}
		}
		o := blobStatusOutcome(resp.Responses[0].Status.Code, resp.Responses[0].Status.Message)
		if o.OK && !bytes.Equal(resp.Responses[0].Data, it.Data) {
			o.OK = false
			o.Status += " wrong bytes"
		}
		return o
	}
	return outcome{Status: "harness: unknown path " + path}
}

// One shared klauspost encoder (EncodeAll is safe for concurrent use); creating one per
// call costs megabytes of zeroed buffers.
var kpEnc, _ = zstd.NewWriter(nil, zstd.WithEncoderLevel(zstd.SpeedFastest), zstd.WithEncoderConcurrency(8))

func zstdKP(b []byte) []byte { return kpEnc.EncodeAll(b, nil) }

// proxySet makes the blob available on the fake backend in the front end's storage format.
func (w *world) proxySet(it *item) {
	if w.px.V2 {
		raw := lib.CasWrite(it.Data, lib.MiB, 1, func(c []byte) []byte { return lib.ZstdEncodeC(c, 1) })
		w.px.SetRaw(cache.CAS, it.Hash, raw, it.size())
		return
	}
	w.px.SetRaw(cache.CAS, it.Hash, it.Data, it.size())
}

// ---------------------------------------------------------------------------
// item construction

func (w *world) tag() string {
	w.seq++
	return fmt.Sprintf("%s/%s/%d", w.cfg.ID, w.mode(), w.seq)
}

func (w *world) contentKind() string {
	if w.rng.IntN(3) == 0 {
		return "text"
	}
	return "random"
}

func (w *world) newCAS(n int64) *item {
	d := lib.GenBlob(w.rng, int(n), w.contentKind(), w.tag())
	return &item{Kind: cache.CAS, Hash: lib.Sha256Hex(d), Data: d}
}

func (w *world) newRaw(n int64, hash string) *item {
	if hash == "" {
		hash = lib.RandHash(w.rng)
	}
	return &item{Kind: cache.RAW, Hash: hash, Data: lib.GenBlob(w.rng, int(n), w.contentKind(), w.tag())}
}

const minACSize = 24

// CAS blobs smaller than this are not generated: their content (hence their key) would not
// be unique across histories, and hook events are routed to histories by key.
const minCASSize = 16

func minSizeFor(path string) int64 {
	switch pathKind(path) {
	case cache.RAW:
		return 1
	case cache.AC:
		return minACSize
	}
	return minCASSize
}

// newAC builds an ActionResult whose serialisation is exactly n bytes (n >= minACSize):
// exit code + execution metadata whose worker name is padded. The worker is
// non-empty, so neither front end rewrites the message before storing it.
func (w *world) newAC(n int64, inline bool) *item {
	pad := func(l int) string {
		const al = "abcdefghijklmnopqrstuvwxyz0123456789"
		b := make([]byte, l)
		for i := range b {
			b[i] = al[w.rng.IntN(len(al))]
		}
		return string(b)
	}
	for _, exit := range []int32{0, 1, 300, 70000} {
		l := int(n) - 8
		for try := 0; try < 8 && l >= 1; try++ {
			ar := &pb.ActionResult{ExitCode: exit}
			var in *item
			if inline {
				ar.ExecutionMetadata = &pb.ExecutedActionMetadata{Worker: "w"}
				ar.StdoutRaw = []byte(pad(l))
				in = &item{Kind: cache.CAS, Hash: lib.Sha256Hex(ar.StdoutRaw), Data: ar.StdoutRaw}
			} else {
				ar.ExecutionMetadata = &pb.ExecutedActionMetadata{Worker: pad(l)}
			}
			b, err := proto.Marshal(ar)
			if err != nil {
				return nil
			}
			if int64(len(b)) == n {
				return &item{Kind: cache.AC, Hash: lib.RandHash(w.rng), Data: b, Inline: in}
			}
			l += int(n) - len(b)
		}
	}
	return nil
}

// newItemFor builds an item of logical size n suitable for path (nil if impossible).
func (w *world) newItemFor(path string, n int64) *item {
	if n < 1 {
		return nil
	}
	if n < minSizeFor(path) {
		return nil
	}
	switch pathKind(path) {
	case cache.RAW:
		return w.newRaw(n, "")
	case cache.AC:
		return w.newAC(n, path == pathACInline)
	}
	return w.newCAS(n)
}

func (w *world) chunkFor(path string, n int64) int {
	if strings.HasSuffix(path, "-chunked") {
		c := int(n/3) + 1
		if c > 64*lib.KiB {
			c = 64*lib.KiB - 7
		}
		return c
	}
	return 0
}

// ---------------------------------------------------------------------------
// reads and existence checks of one indexed item; returns failures (empty = all served)

func (w *world) readItem(it *item) []string {
	ctx, cancel := lib.Ctx()
	defer cancel()
	s := w.srv
	var bad []string
	fail := func(path, f string, a ...any) {
		bad = append(bad, path+": "+fmt.Sprintf(f, a...))
		w.r.Count("read." + path + ".FAILED")
	}
	okc := func(path string) { w.r.Count("read." + path + ".ok") }
	// unobserved: no answer of the server was seen (transport error, the client's own
	// watchdog): not a served read, not a refused one - counted, never judged
	unobserved := func(path string, herr, gerr error) bool {
		if herr != nil || (gerr != nil && (transportCode(lib.Code(gerr)) || ctx.Err() != nil)) {
			w.r.Count("read." + path + ".unobserved-transport")
			w.unobservedReads++
			return true
		}
		return false
	}
	switch it.Kind {
	case cache.CAS:
		g := s.HTTPGet("/cas/"+it.Hash, nil)
		if unobserved("http-get", firstErr(g.Err, g.BodyErr), nil) {
		} else if g.Status != 200 || !bytes.Equal(g.Body, it.Data) {
			fail("http-get", "status %d err %v, %d bytes", g.Status, g.Err, len(g.Body))
		} else {
			okc("http-get")
		}
		h := s.HTTPHead("/cas/" + it.Hash)
		if unobserved("http-head", h.Err, nil) {
		} else if h.Status != 200 {
			fail("http-head", "status %d err %v", h.Status, h.Err)
		} else {
			okc("http-head")
		}
		miss, err := s.FindMissing(ctx, &pb.Digest{Hash: it.Hash, SizeBytes: it.size()})
		if unobserved("findmissing", nil, err) {
		} else if err != nil || len(miss) != 0 {
			fail("findmissing", "err %v missing %d", err, len(miss))
		} else {
			okc("findmissing")
		}
		b, err := s.BSRead(ctx, lib.ResBlobs(it.Hash, it.size()), 0, 0)
		if unobserved("bs-read", nil, err) {
		} else if err != nil || !bytes.Equal(b, it.Data) {
			fail("bs-read", "err %v, %d bytes", err, len(b))
		} else {
			okc("bs-read")
		}
		zb, err := s.BSRead(ctx, lib.ResZstd(it.Hash, it.size()), 0, 0)
		var dec []byte
		tr := unobserved("bs-read-zstd", nil, err)
		if err == nil {
			dec, err = lib.ZstdDecodeKP(zb)
		}
		if tr {
		} else if err != nil || !bytes.Equal(dec, it.Data) {
			fail("bs-read-zstd", "err %v, %d bytes", err, len(dec))
		} else {
			okc("bs-read-zstd")
		}
		resp, err := s.CAS.BatchReadBlobs(ctx, &pb.BatchReadBlobsRequest{Digests: []*pb.Digest{{Hash: it.Hash, SizeBytes: it.size()}}})
		if unobserved("batch-read", nil, err) {
		} else if err != nil || len(resp.Responses) != 1 || resp.Responses[0].Status.GetCode() != 0 || !bytes.Equal(resp.Responses[0].Data, it.Data) {
			fail("batch-read", "err %v", err)
		} else {
			okc("batch-read")
		}
	case cache.RAW:
		g := s.HTTPDo("GET", s.RawURL+"/ac/"+it.Hash, nil, nil)
		if unobserved("http-get-raw", firstErr(g.Err, g.BodyErr), nil) {
		} else if g.Status != 200 || !bytes.Equal(g.Body, it.Data) {
			fail("http-get-raw", "status %d err %v, %d bytes", g.Status, g.Err, len(g.Body))
		} else {
			okc("http-get-raw")
		}
		h := s.HTTPDo("HEAD", s.RawURL+"/ac/"+it.Hash, nil, nil)
		if unobserved("http-head-raw", h.Err, nil) {
		} else if h.Status != 200 {
			fail("http-head-raw", "status %d err %v", h.Status, h.Err)
		} else {
			okc("http-head-raw")
		}
	case cache.AC:
		if it.Inline != nil {
			// served only while the inlined blob is in the CAS too (C06's business)
			return nil
		}
		want := &pb.ActionResult{}
		_ = proto.Unmarshal(it.Data, want)
		got, err := s.AC.GetActionResult(ctx, &pb.GetActionResultRequest{ActionDigest: &pb.Digest{Hash: it.Hash, SizeBytes: 1}})
		if unobserved("get-action-result", nil, err) {
		} else if err != nil || !proto.Equal(got, want) {
			fail("get-action-result", "err %v", err)
		} else {
			okc("get-action-result")
		}
		g := s.HTTPGet("/ac/"+it.Hash, nil)
		if unobserved("http-get-ac", firstErr(g.Err, g.BodyErr), nil) {
		} else if g.Status != 200 || !bytes.Equal(g.Body, it.Data) {
			fail("http-get-ac", "status %d err %v, %d bytes", g.Status, g.Err, len(g.Body))
		} else {
			okc("http-get-ac")
		}
		h := s.HTTPHead("/ac/" + it.Hash)
		if unobserved("http-head-ac", h.Err, nil) {
		} else if h.Status != 200 {
			fail("http-head-ac", "status %d err %v", h.Status, h.Err)
		} else {
			okc("http-head-ac")
		}
	}
	return bad
}

func firstErr(errs ...error) error {
	for _, e := range errs {
		if e != nil {
			return e
		}
	}
	return nil
}

// ---------------------------------------------------------------------------
// origin server for Remote Asset FetchBlob (harness code)

type origin struct {
	mu    sync.Mutex
	blobs map[string][]byte
	srv   *httptest.Server
	url   string
}

func newOrigin() *origin {
	o := &origin{blobs: map[string][]byte{}}
	o.srv = httptest.NewServer(http.HandlerFunc(func(rw http.ResponseWriter, rq *http.Request) {
		p := rq.URL.Path
		nocl := strings.HasPrefix(p, "/nocl/")
		h := p[strings.LastIndex(p, "/")+1:]
		o.mu.Lock()
		b, ok := o.blobs[h]
		o.mu.Unlock()
		if !ok {
			http.NotFound(rw, rq)
			return
		}
		if nocl {
			// no Content-Length: force chunked transfer by flushing first
			rw.WriteHeader(200)
			if f, ok := rw.(http.Flusher); ok {
				f.Flush()
			}
		} else {
			rw.Header().Set("Content-Length", strconv.Itoa(len(b)))
		}
		_, _ = rw.Write(b)
	}))
	o.url = o.srv.URL
	return o
}

func (o *origin) put(h string, b []byte) { o.mu.Lock(); o.blobs[h] = b; o.mu.Unlock() }
func (o *origin) del(h string)           { o.mu.Lock(); delete(o.blobs, h); o.mu.Unlock() }
func (o *origin) close()                 { o.srv.Close() }

package c17

import (
	"errors"
	"fmt"
	"math/rand/v2"
	"os"
	"path/filepath"
	"sort"
	"strings"
	"time"

	"verif/harness/lib"

	"github.com/buchgr/bazel-remote/v2/cache"
	"github.com/buchgr/bazel-remote/v2/cache/disk"
)

// errInconclusive aborts a history without a verdict (watchdogs, harness trouble).
var errInconclusive = errors.New("inconclusive")

type config struct {
	ID        string
	Max       int64
	LimitKind string // "max" | "max+block" | "1.05max" | "2max"
	Limit     int64  // bytes; the no-option replay runs with 0
	Storage   string
	ZstdImpl  string
	Proxy     bool
	Metrics   bool // enable_endpoint_metrics: the cache is wrapped in the metrics decorator
	FillFrac  float64
	ItemClass string // "small" (many files) | "medium" | "large"
	Rounds    int
	Seed      uint64
}

// item is one uploadable object.
type item struct {
	Kind cache.EntryKind
	Hash string // lookup hash (CAS: sha256 of Data; AC/RAW: the chosen key)
	Data []byte // logical bytes (AC: the marshalled ActionResult)
	// update-ac-inline: the inlined stdout blob stored separately in the CAS
	Inline *item
	// splice: digests of the chunks (must be indexed)
	Chunks []*item
}

func (it *item) size() int64 { return int64(len(it.Data)) }
func (it *item) key() string { return cache.LookupKey(it.Kind, it.Hash) }

// obs is one measurement of the cache at a quiescent point, in the units of
// the statement: accounted size (Stats.totalSize = blocks of indexed entries
// + reservations), and the deletion backlog measured two independent ways.
type obs struct {
	Total          int64 // Stats().totalSize
	Reserved       int64
	NumItems       int
	BacklogCounter int64 // the code's own counter (VerifQueuedEvictions)
	BacklogFiles   int64 // raw bytes of files on disk that are not in the index
	BacklogCount   int   // number of such files
	MissingFiles   int   // index entries without a file (not this property; recorded)
	entries        map[string]disk.VerifEntry
	files          map[string]int64
	extra          []string
}

// op is one recorded step of a history (replayed without the option).
type op struct {
	Kind  string // "upload" | "close" | "open" | "allow" | "reads" | "unknown-size-get"
	Path  string
	It    *item
	It2   *item   // batch-pair: the second blob
	Items []*item // reads
	N     int     // allow: number of unlinks
	Phase string  // fill | backlog | probe | retry
	Chunk int     // bs-write chunk size
}

type world struct {
	r      *lib.Run
	cfg    config
	limit  int64 // effective limit of this execution (0 = option off)
	replay bool
	srv    *lib.Server
	px     *lib.FakeProxy
	g      *gate
	ro     *router
	rng    *rand.Rand
	origin *origin
	hashes []string
	dirs   map[string]bool // sub-directories (relative) in which files of this history's keys can live
	hist   []string
	cur    *obs
	// items believed indexed (by lookup key) -> item, for reads / overwrites / splice chunks
	items map[string]*item
	ops   []op // recorded (first execution only)
	seq   int
	// uploads refused in the current round: retried after the drain
	refused    []op
	violations int
	walked     bool
	// reads whose answer was not observed (transport error / watchdog): counted only
	unobservedReads int
}

func (w *world) logf(f string, a ...any) {
	if len(w.hist) < 400 {
		w.hist = append(w.hist, fmt.Sprintf(f, a...))
	}
}

func (w *world) mode() string {
	if w.replay {
		return "no-option"
	}
	return "limit"
}

func (w *world) detail(extra map[string]any) map[string]any {
	d := map[string]any{
		"case": w.cfg.ID, "config": w.cfg, "execution": w.mode(), "effective_limit": w.limit,
		"history": append([]string(nil), w.hist...),
	}
	for k, v := range extra {
		d[k] = v
	}
	return d
}

func (w *world) reg(it *item) {
	if it == nil {
		return
	}
	w.ro.register(it.Hash, w.g)
	w.hashes = append(w.hashes, it.Hash)
	if w.dirs == nil {
		w.dirs = map[string]bool{}
	}
	w.dirs[kindDir(it.Kind)+"/"+it.Hash[:2]] = true
	if it.Inline != nil {
		w.reg(it.Inline)
	}
}

func kindDir(k cache.EntryKind) string {
	switch k {
	case cache.CAS:
		return "cas.v2"
	case cache.AC:
		return "ac.v2"
	}
	return "raw.v2"
}

// measure observes the cache; the remover must be parked or idle and no request in flight.
// list=false skips the directory (no-option replay: only the index is needed).
func (w *world) measure(list bool) (*obs, error) {
	if st := w.srv.Settle(30 * time.Second); st != "ok" {
		// handlers gone but reservations left would be C03's finding; here we cannot measure
		w.r.Count("settle." + st)
		return nil, fmt.Errorf("%w: server did not settle (%s)", errInconclusive, st)
	}
	c := w.srv.Cache
	for attempt := 0; attempt < 200; attempt++ {
		o, stable, err := w.measureOnce(c, list)
		if err != nil {
			return nil, err
		}
		if stable {
			return o, nil
		}
		// the remover moved during the measurement (gate open): look again
		w.r.Count("measure.unstable-retry")
		time.Sleep(200 * time.Microsecond)
	}
	return nil, fmt.Errorf("%w: measurement never stabilised", errInconclusive)
}

// listTargeted lists the regular files of the sub-directories that can hold this history's
// keys (every key is registered before it is sent). Sizes of files that the index knows
// are taken from the index; files outside the index are stat'ed.
func (w *world) listTargeted(dir string, indexed map[string]int64) (map[string]int64, error) {
	files := map[string]int64{}
	for d := range w.dirs {
		ents, err := os.ReadDir(filepath.Join(dir, d))
		if err != nil {
			if os.IsNotExist(err) {
				continue
			}
			return nil, err
		}
		for _, e := range ents {
			if e.IsDir() {
				continue
			}
			rel := d + "/" + e.Name()
			if sz, ok := indexed[rel]; ok {
				files[rel] = sz
				continue
			}
			info, err := e.Info()
			if err != nil {
				if os.IsNotExist(err) {
					continue // raced with a removal (gate open)
				}
				return nil, err
			}
			files[rel] = info.Size()
		}
	}
	return files, nil
}

func (w *world) measureOnce(c disk.Cache, list bool) (*obs, bool, error) {
	q1 := disk.VerifQueuedEvictions(c)
	u1 := w.g.after.Load()
	snap := lib.Snapshot(c)
	total, reserved, n, _ := c.Stats()
	o := &obs{Total: total, Reserved: reserved, NumItems: n, BacklogCounter: q1, entries: map[string]disk.VerifEntry{}}
	byPath := map[string]int64{}
	for _, e := range snap.Entries {
		o.entries[e.Key] = e
		byPath[e.Path] = e.SizeOnDisk
	}
	if list {
		files, err := w.listTargeted(snap.Dir, byPath)
		if err != nil {
			return nil, false, fmt.Errorf("%w: listing: %v", errInconclusive, err)
		}
		o.files = files
		for p := range byPath {
			if _, ok := files[p]; !ok {
				o.MissingFiles++
			}
		}
		for p, sz := range files {
			if _, ok := byPath[p]; !ok {
				o.BacklogFiles += sz
				o.BacklogCount++
				o.extra = append(o.extra, p)
			}
		}
		sort.Strings(o.extra)
	} else {
		o.BacklogFiles, o.BacklogCount = -1, -1
	}
	stable := total == snap.CurrentSize && n == len(snap.Entries) && q1 == snap.QueuedEvictions &&
		q1 == disk.VerifQueuedEvictions(c) && u1 == w.g.after.Load()
	return o, stable, nil
}

// fullWalkAgrees cross-checks the targeted listing against a walk of the whole cache directory.
func (w *world) fullWalkAgrees() (bool, string) {
	all, err := lib.ListFiles(w.srv.Dir)
	if err != nil {
		return false, err.Error()
	}
	for p := range all {
		i := strings.LastIndex(p, "/")
		if i < 0 || !w.dirs[p[:i]] {
			return false, "file outside the listed sub-directories: " + p
		}
	}
	return true, ""
}

func (o *obs) summary() map[string]any {
	return map[string]any{"accounted_total": o.Total, "reserved": o.Reserved, "entries": o.NumItems,
		"backlog_bytes_files": o.BacklogFiles, "backlog_files": o.BacklogCount, "backlog_bytes_counter": o.BacklogCounter}
}

// sameState: nothing stored, nothing evicted, nothing deleted between two observations.
func sameState(a, b *obs) (bool, string) {
	if a.Total != b.Total || a.Reserved != b.Reserved {
		return false, fmt.Sprintf("accounted size %d(+%d reserved) -> %d(+%d reserved)", a.Total, a.Reserved, b.Total, b.Reserved)
	}
	if len(a.entries) != len(b.entries) {
		return false, fmt.Sprintf("index had %d entries, now %d", len(a.entries), len(b.entries))
	}
	for k, e := range a.entries {
		f, ok := b.entries[k]
		if !ok {
			return false, "entry disappeared from the index: " + k
		}
		if e.Size != f.Size || e.SizeOnDisk != f.SizeOnDisk || e.Random != f.Random {
			return false, "entry replaced in the index: " + k
		}
	}
	if a.files == nil || b.files == nil {
		return true, ""
	}
	if len(a.files) != len(b.files) {
		return false, fmt.Sprintf("directory had %d files, now %d", len(a.files), len(b.files))
	}
	for p, sz := range a.files {
		if sz2, ok := b.files[p]; !ok || sz2 != sz {
			return false, "file changed or disappeared: " + p
		}
	}
	return true, ""
}

func backlogClass(n int) string {
	switch {
	case n == 0:
		return "0"
	case n == 1:
		return "1"
	case n <= 5:
		return "2-5"
	case n <= 20:
		return "6-20"
	default:
		return ">20"
	}
}

// slackClass names where total+backlog+N lands relative to the limit (d = sum - limit).
func slackClass(d int64) string {
	switch {
	case d == 0:
		return "at-limit"
	case d == 1:
		return "over+1B"
	case d == -1:
		return "under-1B"
	case d == lib.Block:
		return "over+1blk"
	case d == -lib.Block:
		return "under-1blk"
	case d > 0 && d < lib.Block:
		return "over<1blk"
	case d > lib.Block:
		return "over>1blk"
	case d < 0 && d > -lib.Block:
		return "under<1blk"
	default:
		return "under>1blk"
	}
}

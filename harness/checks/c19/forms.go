package c19

import (
	"fmt"
	"math/rand/v2"
	"strconv"
	"strings"

	"verif/harness/lib"
)

// The forms slice of the equivalence phase: settings that have two spellings —
// a listener address and its deprecated host/port form — given BOTH AT ONCE, in
// every combination of value kinds including the special values (explicitly
// empty, "none", port 0, port -1). The statement says nothing about which of
// the two spellings wins; the oracle is the same as everywhere in the
// equivalence phase: whatever the combination means, it means the same as
// flags, as environment variables and as a YAML document.
//
// The space is finite and enumerated completely in every tier (the thorough
// tier repeats it over other base sets).

type listenerFamily struct {
	Name                 string // http | grpc | profile
	Addr, Host, Port     string // setting names
	Path                 string // effective field
	AddrKinds, HostKinds []string
}

var portKinds = []string{"omitted", "zero", "minus-one", "positive"}

var listenerFamilies = []listenerFamily{
	{Name: "http", Addr: "http_address", Host: "host", Port: "port", Path: "http_address",
		AddrKinds: []string{"omitted", "empty", "tcp", "tcp-anyhost", "unix", "none"},
		HostKinds: []string{"omitted", "empty", "ipv4", "ipv6"}},
	{Name: "grpc", Addr: "grpc_address", Host: "host", Port: "grpc_port", Path: "grpc_address",
		AddrKinds: []string{"omitted", "empty", "none", "tcp", "tcp-anyhost", "unix"},
		HostKinds: []string{"omitted", "empty", "ipv4", "ipv6"}},
	{Name: "profile", Addr: "profile_address", Host: "profile_host", Port: "profile_port", Path: "profile_address",
		AddrKinds: []string{"omitted", "empty", "none", "tcp", "tcp-anyhost", "unix"},
		HostKinds: []string{"omitted", "empty", "ipv4", "name"}},
}

type formCase struct {
	fam              *listenerFamily
	addr, host, port string // kinds
}

func allFormCases() []formCase {
	var out []formCase
	for f := range listenerFamilies {
		fam := &listenerFamilies[f]
		for _, a := range fam.AddrKinds {
			for _, h := range fam.HostKinds {
				for _, p := range portKinds {
					out = append(out, formCase{fam, a, h, p})
				}
			}
		}
	}
	return out
}

// stripListeners removes every listener setting and the tags describing them.
func stripListeners(s *settingSet) {
	s.del("http_address", "host", "port", "grpc_address", "grpc_port", "profile_address", "profile_host", "profile_port")
	tags := s.Tags[:0]
	for _, t := range s.Tags {
		if !strings.HasPrefix(t, "http=") && !strings.HasPrefix(t, "grpc=") && !strings.HasPrefix(t, "profile=") {
			tags = append(tags, t)
		}
	}
	s.Tags = tags
	s.HTTPExplicit, s.GRPCExplicit, s.ProfileExplicit, s.ProfileEnabledOnly = false, false, false, false
}

// formsBase: an arbitrary valid set without listener settings and without the
// one setting whose known defect (YAML ldap.cache_time, see known_findings)
// would turn the case into an accept/refuse disagreement before the effective
// addresses are ever compared.
func formsBase(rng *rand.Rand) *settingSet {
	s := genValid(rng)
	stripListeners(s)
	s.del("ldap.cache_time")
	tags := s.Tags[:0]
	for _, t := range s.Tags {
		if t != "ldap.cache_time" {
			tags = append(tags, t)
		}
	}
	s.Tags = tags
	return s
}

// applyForm sets the listener settings of one forms case: the family under
// test as the case says, the other listeners in a plain form.
func applyForm(rng *rand.Rand, s *settingSet, fc formCase) {
	used := []int{}
	newPort := func() int {
		p := port(rng, used...)
		used = append(used, p)
		return p
	}
	fam := fc.fam

	// the other listeners
	if fam.Name != "http" {
		if fam.Name == "grpc" && chance(rng, 50) {
			// deprecated port: shares the (deprecated) host with the gRPC forms
			s.set("port", strconv.Itoa(newPort()))
			s.tag("http=port")
		} else {
			s.set("http_address", fmt.Sprintf("%s:%d", hostStr(rng), newPort()))
			s.tag("http=addr")
		}
	}
	if fam.Name != "grpc" {
		switch {
		case fam.Name == "http" && chance(rng, 35):
			s.set("grpc_port", strconv.Itoa(newPort()))
			s.tag("grpc=port")
		case fam.Name == "http" && chance(rng, 25):
			s.tag("grpc=omitted")
		default:
			s.set("grpc_address", fmt.Sprintf("%s:%d", hostStr(rng), newPort()))
			s.tag("grpc=addr")
		}
	}

	// the family under test
	switch fc.addr {
	case "empty":
		s.set(fam.Addr, "")
	case "none":
		s.set(fam.Addr, "none")
	case "tcp":
		s.set(fam.Addr, fmt.Sprintf("%s:%d", pick(rng, "127.0.0.1", "localhost", "[::1]", "10.1.2.3"), newPort()))
	case "tcp-anyhost":
		s.set(fam.Addr, fmt.Sprintf(":%d", newPort()))
	case "unix":
		s.set(fam.Addr, "unix://"+pick(rng, "/tmp/", "", "/var/run/br/")+word(rng, 5)+".sock")
	}
	switch fc.host {
	case "empty":
		s.set(fam.Host, "")
	case "ipv4":
		s.set(fam.Host, pick(rng, "127.0.0.1", "0.0.0.0", "10.0.0.5"))
	case "ipv6":
		s.set(fam.Host, "::1")
	case "name":
		s.set(fam.Host, pick(rng, "localhost", "cache.example.com"))
	}
	switch fc.port {
	case "zero":
		s.set(fam.Port, "0")
	case "minus-one":
		s.set(fam.Port, "-1")
	case "positive":
		s.set(fam.Port, strconv.Itoa(newPort()))
	}

	if g, _ := s.get("grpc_address"); g == "none" {
		if v, _ := s.get("experimental_remote_asset_api"); v == "true" {
			s.set("experimental_remote_asset_api", "false") // the asset API needs gRPC; keep the set valid
		}
	}

	hostGiven := "omitted"
	if fc.host != "omitted" {
		hostGiven = "given"
	}
	s.Form = fmt.Sprintf("%s:address=%s,host=%s,port=%s", fam.Name, fc.addr, hostGiven, fc.port)
	s.FormPath = fam.Path
	s.FormSettings = []string{fam.Addr, fam.Host, fam.Port}
	s.tag(fam.Name + "-form=" + fc.addr + "/" + fc.host + "/" + fc.port)
	setListenerExplicitness(s)
}

// setListenerExplicitness decides, from the settings alone, which effective
// listener addresses are determined by what is explicitly given — on BOTH front
// ends, i.e. independently of the defaults of omitted settings that the property
// excludes because they intentionally differ (port 8080 / grpc_port 9092 /
// profile_host 127.0.0.1 on the flag side, nothing on the YAML side). The
// defaults of http_address, grpc_address, profile_address, host ("") and
// profile_port (0) coincide, so omitting those does not matter.
func setListenerExplicitness(s *settingSet) {
	nonEmpty := func(name string) bool { v, ok := s.get(name); return ok && v != "" }
	// an address that is given and not empty speaks for itself; otherwise the
	// deprecated port takes part, and it must be given too
	s.HTTPExplicit = s.has("port") || nonEmpty("http_address")
	s.GRPCExplicit = s.has("grpc_port") || nonEmpty("grpc_address")

	// profiling: the only omitted piece with diverging defaults is profile_host.
	// It can matter only where the deprecated port may switch profiling on, i.e.
	// a profile_port other than the documented "0 = disabled" next to an address
	// that is absent, empty or "none".
	pa, _ := s.get("profile_address")
	pp, ppGiven := s.get("profile_port")
	hostMayMatter := !s.has("profile_host") && ppGiven && pp != "0" && (pa == "" || pa == "none")
	s.ProfileExplicit = !hostMayMatter
	s.ProfileEnabledOnly = hostMayMatter
}

// aliasCases: sets in which every setting with more than one documented
// environment variable name is present; their environment rendering gives all
// the names at once (same value).
func aliasCase(rng *rand.Rand, k int) (*settingSet, string) {
	s := formsBase(rng)
	delProxies(s)
	tags := s.Tags[:0]
	for _, t := range s.Tags {
		if !strings.HasPrefix(t, "proxy=") && t != "azblob-no-tenant_id" {
			tags = append(tags, t)
		}
	}
	s.Tags = tags
	s.set("http_address", fmt.Sprintf("127.0.0.1:%d", port(rng)))
	s.HTTPExplicit = true
	s.ProfileExplicit = true
	var what string
	switch k % 4 {
	case 0:
		s.set("s3.bucket", "bkt-"+word(rng, 6))
		s.set("s3.endpoint", "s3.amazonaws.com")
		s.set("s3.auth_method", "aws_credentials_file")
		s.set("s3.aws_shared_credentials_file", pathStr(rng, "aws-credentials"))
		s.set("s3.aws_profile", pick(rng, "my-profile", word(rng, 5)))
		what = "s3/aws_credentials_file"
	case 1:
		s.set("azblob.storage_account", "acct"+word(rng, 5))
		s.set("azblob.container_name", "cont-"+word(rng, 5))
		s.set("azblob.auth_method", "shared_key")
		s.set("azblob.shared_key", word(rng, 24)+"==")
		s.set("azblob.tenant_id", "tenant-"+word(rng, 8))
		what = "azblob/shared_key"
	case 2:
		s.set("azblob.storage_account", "acct"+word(rng, 5))
		s.set("azblob.container_name", "cont-"+word(rng, 5))
		s.set("azblob.auth_method", "client_secret")
		s.set("azblob.client_id", "app-"+word(rng, 6))
		s.set("azblob.client_secret", word(rng, 16))
		s.set("azblob.tenant_id", "tenant-"+word(rng, 8))
		what = "azblob/client_secret"
	default:
		s.set("azblob.storage_account", "acct"+word(rng, 5))
		s.set("azblob.container_name", "cont-"+word(rng, 5))
		s.set("azblob.auth_method", "client_certificate")
		s.set("azblob.client_id", "app-"+word(rng, 6))
		s.set("azblob.cert_path", pathStr(rng, "az-cert"))
		s.set("azblob.tenant_id", "tenant-"+word(rng, 8))
		what = "azblob/client_certificate"
	}
	s.BothAliases = true
	s.Form = "env-aliases:" + what
	s.tag("env-aliases=" + what)
	return s, what
}

func phaseForms(r *lib.Run) {
	rounds := r.N(1, 12)
	cases := allFormCases()
	judged, compared := 0, 0
	matrix := map[string]int{} // enumerated cell + outcome -> cases
	for round := 0; round < rounds; round++ {
		for ci, fc := range cases {
			rng := r.Rng(fmt.Sprintf("forms/%d/%d", round, ci))
			s := formsBase(rng)
			applyForm(rng, s, fc)
			out := judgeEquivCase(r, rng, s, "forms", round == 0 && ci%97 == 0)
			matrix[fc.fam.Name+":address="+fc.addr+",host="+fc.host+",port="+fc.port+" "+out]++
			r.Count("forms." + fc.fam.Name + ".address=" + fc.addr + "." + out)
			r.Count("forms." + fc.fam.Name + ".host=" + fc.host + "." + out)
			r.Count("forms." + fc.fam.Name + ".port=" + fc.port + "." + out)
			judged++
			if out == "all-accept" {
				compared++
			}
		}
		for k := 0; k < 4; k++ {
			rng := r.Rng(fmt.Sprintf("forms-alias/%d/%d", round, k))
			s, what := aliasCase(rng, k)
			out := judgeEquivCase(r, rng, s, "forms", false)
			matrix["env-aliases:"+what+" "+out]++
			r.Count("forms.env-aliases." + what + "." + out)
			judged++
			if out == "all-accept" {
				compared++
			}
		}
	}
	r.Extra("forms_matrix", matrix)
	r.Extra("forms_cases", judged)
	r.Extra("forms_cases_compared_field_by_field", compared)
	want := rounds * (len(cases) + 4)
	if judged != want {
		r.Inconclusive(fmt.Sprintf("forms slice: %d of %d enumerated cases ran", judged, want))
	}
	// The combinations are meant to be valid apart from a few that every front
	// end refuses alike (literal "none" as HTTP address); if most of them never
	// reach the field comparison the slice did not do its work.
	if compared*2 < judged {
		r.Inconclusive(fmt.Sprintf("forms slice: only %d of %d cases were accepted by every front end and compared", compared, judged))
	}
}

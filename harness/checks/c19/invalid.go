package c19

import (
	"fmt"
	"math/rand/v2"
	"strconv"
)

// invalidClass is one class of set-ups that "cannot work or would be unsafe"
// named by the property statement. apply turns an otherwise valid set into a
// member of the class and returns the variant name (part of the finding key).
type invalidClass struct {
	Name  string
	apply func(rng *rand.Rand, s *settingSet, i int) string
}

func delListeners(s *settingSet) {
	s.del("http_address", "host", "port", "grpc_address", "grpc_port")
	s.HTTPExplicit, s.GRPCExplicit = false, false
}

func delProxies(s *settingSet) {
	for _, p := range []string{"s3.", "azblob.", "gcs_proxy.", "http_proxy.", "grpc_proxy."} {
		s.delPrefix(p)
	}
}

var invalidClasses = []invalidClass{
	{"missing-dir", func(rng *rand.Rand, s *settingSet, i int) string {
		s.del("dir")
		return "omitted"
	}},
	{"max_size-not-positive", func(rng *rand.Rand, s *settingSet, i int) string {
		s.del("max_size_hard_limit")
		switch i % 4 {
		case 0:
			s.del("max_size")
			return "omitted"
		case 1:
			s.set("max_size", "0")
			return "zero"
		default:
			s.set("max_size", strconv.Itoa(-1-rng.IntN(1000)))
			return "negative"
		}
	}},
	{"unknown-storage_mode", func(rng *rand.Rand, s *settingSet, i int) string {
		s.set("storage_mode", pick(rng, "lz4", "ZSTD", "zstd ", "compressed", "none", "gzip", "uncompressed2"))
		return "unknown"
	}},
	{"unknown-zstd_implementation", func(rng *rand.Rand, s *settingSet, i int) string {
		s.set("zstd_implementation", pick(rng, "rust", "Go", "c", "cgo2", "purego", "CGO"))
		return "unknown"
	}},
	{"same-http-and-grpc-port", func(rng *rand.Rand, s *settingSet, i int) string {
		delListeners(s)
		p := port(rng)
		// Host spellings of the two listeners: identical, or different spellings
		// that certainly overlap (wildcard vs specific, localhost vs 127.0.0.1).
		pairs := [][2]string{{"", "localhost"}, {"", ""}, {"0.0.0.0", "127.0.0.1"}, {"127.0.0.1", "127.0.0.1"},
			{"127.0.0.1", ""}, {"localhost", "127.0.0.1"}, {"0.0.0.0", ""}, {"localhost", "localhost"}}
		hp := pairs[(i/4)%len(pairs)]
		hosts := "same-host"
		if hp[0] != hp[1] {
			hosts = "overlapping-hosts"
		}
		switch i % 4 {
		case 0:
			s.set("http_address", fmt.Sprintf("%s:%d", hp[0], p))
			s.set("grpc_address", fmt.Sprintf("%s:%d", hp[1], p))
			return "address+address/" + hosts
		case 1: // both deprecated: they share the host by construction
			if hp[0] != "" {
				s.set("host", hp[0])
			}
			s.set("port", strconv.Itoa(p))
			s.set("grpc_port", strconv.Itoa(p))
			return "port+grpc_port/same-host"
		case 2: // address for HTTP, deprecated host + grpc_port for gRPC
			s.set("http_address", fmt.Sprintf("%s:%d", hp[0], p))
			if hp[1] != "" {
				s.set("host", hp[1])
			}
			s.set("grpc_port", strconv.Itoa(p))
			return "address+grpc_port/" + hosts
		default: // deprecated host + port for HTTP, address for gRPC
			if hp[0] != "" {
				s.set("host", hp[0])
			}
			s.set("port", strconv.Itoa(p))
			s.set("grpc_address", fmt.Sprintf("%s:%d", hp[1], p))
			return "port+address/" + hosts
		}
	}},
	{"tls-cert-without-key", func(rng *rand.Rand, s *settingSet, i int) string {
		s.set("tls_cert_file", pathStr(rng, "cert"))
		s.del("tls_key_file")
		if chance(rng, 50) {
			s.del("tls_ca_file")
		}
		return "cert-only"
	}},
	{"tls-key-without-cert", func(rng *rand.Rand, s *settingSet, i int) string {
		s.set("tls_key_file", pathStr(rng, "key"))
		s.del("tls_cert_file")
		if chance(rng, 50) {
			s.del("tls_ca_file")
		}
		return "key-only"
	}},
	{"mtls-ca-without-server-cert", func(rng *rand.Rand, s *settingSet, i int) string {
		s.set("tls_ca_file", pathStr(rng, "ca"))
		s.del("tls_cert_file", "tls_key_file")
		return "ca-only"
	}},
	{"unauthenticated-reads-without-auth", func(rng *rand.Rand, s *settingSet, i int) string {
		s.del("htpasswd_file", "tls_ca_file")
		s.delPrefix("ldap.")
		s.set("allow_unauthenticated_reads", "true")
		return "no-auth"
	}},
	{"multiple-proxy-backends", func(rng *rand.Rand, s *settingSet, i int) string {
		delProxies(s)
		gens := []func(){
			func() { genS3(rng, s) },
			func() { genGCS(rng, s) },
			func() { genURLProxy(rng, s, "http") },
			func() { genURLProxy(rng, s, "grpc") },
			func() {
				genAzblob(rng, s)
				if !s.has("azblob.tenant_id") { // keep the azblob section unambiguous here
					s.set("azblob.tenant_id", "tenant-"+word(rng, 6))
				}
			},
		}
		n := 2 + i%2
		perm := rng.Perm(len(gens))
		for _, g := range perm[:n] {
			gens[g]()
		}
		return strconv.Itoa(n) + "-backends"
	}},
	{"max_blob_size-not-positive", func(rng *rand.Rand, s *settingSet, i int) string {
		s.set("max_blob_size", pick(rng, "0", "-1", strconv.FormatInt(-1-rng.Int64N(1<<40), 10)))
		return "le-zero"
	}},
	{"max_proxy_blob_size-not-positive", func(rng *rand.Rand, s *settingSet, i int) string {
		s.set("max_proxy_blob_size", pick(rng, "0", "-1", strconv.FormatInt(-1-rng.Int64N(1<<40), 10)))
		return "le-zero"
	}},
	{"malformed-address", func(rng *rand.Rand, s *settingSet, i int) string {
		// nine variants, cycled deterministically so that the quick tier covers all
		which := []string{"http_address", "grpc_address", "http_address", "grpc_address", "http_address", "grpc_address", "http_address", "grpc_address", "profile_address"}[i%9]
		var form, val string
		if which == "profile_address" {
			// Only the empty unix socket path: a profiling address without a port
			// does make the server exit at start (it is not silently ignored),
			// which the statement allows.
			form, val = "unix-without-path", "unix://"
			s.del("profile_host", "profile_port")
		} else {
			switch (i % 9) / 2 {
			case 0:
				form, val = "host-without-port", pick(rng, "localhost", "127.0.0.1", "cache.example.com", "8080")
			case 1:
				form, val = "unix-without-path", "unix://"
			case 2:
				form, val = "too-many-colons", fmt.Sprintf("127.0.0.1:%d:%d", port(rng), port(rng))
			default:
				// (":" — empty host and empty port — is NOT judged: it is of the documented [host]:port shape and
				// means "any interface, system-chosen port"; whether that counts as malformed is not settled by the statement.)
				form, val = "empty-host-garbage-port", ":http:x"
			}
			if which == "http_address" {
				s.del("host", "port")
			} else {
				s.del("grpc_port")
			}
		}
		s.set(which, val)
		return which + "=" + form
	}},
	{"unknown-log-setting", func(rng *rand.Rand, s *settingSet, i int) string {
		if i%2 == 0 {
			s.set("access_log_level", pick(rng, "debug", "ALL", "verbose", "None", "info"))
			return "access_log_level"
		}
		s.set("log_timezone", pick(rng, "PST", "utc", "Local", "Europe/Berlin", "GMT"))
		return "log_timezone"
	}},
}

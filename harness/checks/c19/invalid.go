package c19

import (
	"fmt"
	"math/rand/v2"
	"sort"
	"strconv"
	"strings"
)

// invalidClass is one class of set-ups that "cannot work or would be unsafe"
// named by the property statement. apply turns an otherwise valid set into a
// member of the class.
//
// The variant space of every class is small and finite and is ENUMERATED, not
// sampled: apply(…, i) builds variant number i%Variants. It returns the variant
// name that goes into the finding key (the input class: which spelling / which
// pair of back ends / which shape) and a sub-variant that only goes into the
// evidence counters (the concrete value or host pair), so that one defect does
// not fan out into dozens of keys while the evidence still shows that every
// member of the space ran. (variant, sub) is unique per i < Variants;
// phaseInvalid verifies that and declares the run inconclusive otherwise.
type invalidClass struct {
	Name     string
	Variants int
	apply    func(rng *rand.Rand, s *settingSet, i int) (variant, sub string)
}

func delListeners(s *settingSet) {
	s.del("http_address", "host", "port", "grpc_address", "grpc_port")
	s.HTTPExplicit, s.GRPCExplicit = false, false
}

func delProxies(s *settingSet) {
	for _, p := range []string{"s3.", "azblob.", "gcs_proxy.", "http_proxy.", "grpc_proxy."} {
		s.delPrefix(p)
	}
}

// absent makes setting name absent from the set in one of the two spellings of
// "not given": omitted altogether, or given explicitly with the empty value.
func absent(s *settingSet, name string, explicitEmpty bool) string {
	if explicitEmpty {
		s.set(name, "")
		return name + "-empty"
	}
	s.del(name)
	return name + "-omitted"
}

// dropUnbackedUnauthReads keeps a set whose authentication mechanism was just
// removed from being refused for a second, unrelated reason.
func dropUnbackedUnauthReads(s *settingSet) {
	if v, _ := s.get("allow_unauthenticated_reads"); v != "true" {
		return
	}
	ca, _ := s.get("tls_ca_file")
	ht, _ := s.get("htpasswd_file")
	if ca == "" && ht == "" && !s.hasPrefix("ldap.") {
		s.del("allow_unauthenticated_reads")
	}
}

// ---- enumerated value spaces

var unknownStorageModes = []string{"lz4", "ZSTD", "zstd ", "compressed", "none", "gzip", "uncompressed2", ""}
var unknownZstdImpls = []string{"rust", "Go", "c", "cgo2", "purego", "CGO", ""}
var unknownAccessLogLevels = []string{"debug", "ALL", "verbose", "None", "info"}
var unknownLogTimezones = []string{"PST", "utc", "Local", "Europe/Berlin", "GMT"}

func valueName(v string) string {
	if v == "" {
		return "value=<empty>"
	}
	return "value=" + strings.ReplaceAll(v, " ", "<sp>")
}

// samePortHostPairs: host spellings of the two listeners: identical, or
// different spellings that certainly overlap (wildcard vs specific, localhost
// vs 127.0.0.1).
var samePortHostPairs = [][2]string{{"", "localhost"}, {"", ""}, {"0.0.0.0", "127.0.0.1"}, {"127.0.0.1", "127.0.0.1"},
	{"127.0.0.1", ""}, {"localhost", "127.0.0.1"}, {"0.0.0.0", ""}, {"localhost", "localhost"}}

// samePortForms: how the two listeners are spelled. In the forms that give BOTH
// spellings of one listener (address and deprecated port) the two spellings
// name the same port, so the class membership does not depend on which of the
// two takes precedence.
var samePortForms = []string{
	"address+address",                            // http_address, grpc_address
	"port+grpc_port",                             // both deprecated; they share the host
	"address+grpc_port",                          // http_address; host + grpc_port
	"port+address",                               // host + port; grpc_address
	"address&port+grpc_port",                     // http_address AND port (same port); host + grpc_port
	"port+address&grpc_port",                     // host + port; grpc_address AND grpc_port (same port)
	"address&port+address&grpc_port",             // every spelling at once, all naming one port
	"empty-address&port+empty-address&grpc_port", // explicit empty addresses next to the deprecated ports
}

// samePortSharedHost: forms in which both listeners take the one deprecated
// host setting; they are enumerated over single hosts, the others over pairs.
var samePortSharedHost = map[string]bool{"port+grpc_port": true, "empty-address&port+empty-address&grpc_port": true}

type samePortVariant struct {
	form  string
	hosts [2]string
}

var samePortVariants = func() []samePortVariant {
	var out []samePortVariant
	for _, f := range samePortForms {
		if samePortSharedHost[f] {
			for _, h := range []string{"", "0.0.0.0", "127.0.0.1", "localhost"} {
				out = append(out, samePortVariant{f, [2]string{h, h}})
			}
			continue
		}
		for _, hp := range samePortHostPairs {
			out = append(out, samePortVariant{f, hp})
		}
	}
	return out
}()

// malformedShapes: listener address values that are not of the documented
// shapes [host]:port / unix://path.
var malformedShapes = []struct{ form, val string }{
	{"host-without-port", "localhost"},
	{"host-without-port", "127.0.0.1"},
	{"host-without-port", "cache.example.com"},
	{"host-without-port", "8080"},
	{"unix-without-path", "unix://"},
	{"too-many-colons", "127.0.0.1:%d:%d"},
	// (":" — empty host and empty port — is NOT judged: it is of the documented [host]:port shape and
	// means "any interface, system-chosen port"; whether that counts as malformed is not settled by the statement.)
	{"empty-host-garbage-port", ":http:x"},
}

// proxyBackends in a fixed order; the class enumerates every subset of two or
// more of them (10 pairs, 10 triples, 5 quadruples, all five).
var proxyBackendNames = []string{"s3", "gcs", "http", "grpc", "azblob"}

func genBackend(rng *rand.Rand, s *settingSet, name string) {
	switch name {
	case "s3":
		genS3(rng, s)
	case "gcs":
		genGCS(rng, s)
	case "http":
		genURLProxy(rng, s, "http")
	case "grpc":
		genURLProxy(rng, s, "grpc")
	case "azblob":
		genAzblob(rng, s)
		if !s.has("azblob.tenant_id") { // keep the azblob section unambiguous here
			s.set("azblob.tenant_id", "tenant-"+word(rng, 6))
		}
	}
}

// proxySubsets: all subsets with >= 2 members, pairs first, then triples, …
var proxySubsets = func() [][]string {
	var out [][]string
	n := len(proxyBackendNames)
	for size := 2; size <= n; size++ {
		for mask := 0; mask < 1<<n; mask++ {
			var sub []string
			for b := 0; b < n; b++ {
				if mask&(1<<b) != 0 {
					sub = append(sub, proxyBackendNames[b])
				}
			}
			if len(sub) == size {
				sort.Strings(sub)
				out = append(out, sub)
			}
		}
	}
	return out
}()

var nonPositive = []string{"0", "-1", "random-negative", "-9223372036854775808"}

func nonPositiveValue(rng *rand.Rand, i int) (val, sub string) {
	k := nonPositive[i%len(nonPositive)]
	if k == "random-negative" {
		return strconv.FormatInt(-2-rng.Int64N(1<<40), 10), "value=" + k
	}
	return k, "value=" + k
}

var invalidClasses = []invalidClass{
	{"missing-dir", 2, func(rng *rand.Rand, s *settingSet, i int) (string, string) {
		if i%2 == 1 {
			s.set("dir", "")
			return "explicit-empty", ""
		}
		s.del("dir")
		return "omitted", ""
	}},
	{"max_size-not-positive", 4, func(rng *rand.Rand, s *settingSet, i int) (string, string) {
		s.del("max_size_hard_limit")
		switch i % 4 {
		case 0:
			s.del("max_size")
			return "omitted", ""
		case 1:
			s.set("max_size", "0")
			return "zero", ""
		case 2:
			s.set("max_size", "-1")
			return "negative", "value=-1"
		default:
			s.set("max_size", strconv.Itoa(-2-rng.IntN(1000)))
			return "negative", "value=random-negative"
		}
	}},
	{"unknown-storage_mode", len(unknownStorageModes), func(rng *rand.Rand, s *settingSet, i int) (string, string) {
		v := unknownStorageModes[i%len(unknownStorageModes)]
		s.set("storage_mode", v)
		return "unknown", valueName(v)
	}},
	{"unknown-zstd_implementation", len(unknownZstdImpls), func(rng *rand.Rand, s *settingSet, i int) (string, string) {
		v := unknownZstdImpls[i%len(unknownZstdImpls)]
		s.set("zstd_implementation", v)
		return "unknown", valueName(v)
	}},
	{"same-http-and-grpc-port", len(samePortVariants), func(rng *rand.Rand, s *settingSet, i int) (string, string) {
		delListeners(s)
		p := port(rng)
		ps := strconv.Itoa(p)
		v := samePortVariants[i%len(samePortVariants)]
		form, hp := v.form, v.hosts
		hosts := "same-host"
		if hp[0] != hp[1] {
			hosts = "overlapping-hosts"
		}
		hname := func(h string) string {
			if h == "" {
				return "<any>"
			}
			return h
		}
		sub := "hosts=" + hname(hp[0]) + "|" + hname(hp[1])
		if samePortSharedHost[form] {
			sub = "host=" + hname(hp[0])
		}
		setHost := func(h string) {
			if h != "" {
				s.set("host", h)
			}
		}
		switch form {
		case "address+address":
			s.set("http_address", hp[0]+":"+ps)
			s.set("grpc_address", hp[1]+":"+ps)
		case "port+grpc_port": // both deprecated: they share the host by construction
			setHost(hp[0])
			s.set("port", ps)
			s.set("grpc_port", ps)
		case "address+grpc_port":
			s.set("http_address", hp[0]+":"+ps)
			setHost(hp[1])
			s.set("grpc_port", ps)
		case "port+address":
			setHost(hp[0])
			s.set("port", ps)
			s.set("grpc_address", hp[1]+":"+ps)
		case "address&port+grpc_port":
			s.set("http_address", hp[0]+":"+ps)
			s.set("port", ps)
			setHost(hp[1])
			s.set("grpc_port", ps)
		case "port+address&grpc_port":
			setHost(hp[0])
			s.set("port", ps)
			s.set("grpc_address", hp[1]+":"+ps)
			s.set("grpc_port", ps)
		case "address&port+address&grpc_port":
			s.set("http_address", hp[0]+":"+ps)
			s.set("port", ps)
			setHost(hp[0])
			s.set("grpc_address", hp[1]+":"+ps)
			s.set("grpc_port", ps)
		default: // explicit empty addresses: only the deprecated forms carry a value
			s.set("http_address", "")
			s.set("grpc_address", "")
			setHost(hp[0])
			s.set("port", ps)
			s.set("grpc_port", ps)
		}
		return form + "/" + hosts, sub
	}},
	// Half-specified TLS: of the three files (certificate, key, client CA) the
	// valid subsets are {}, {cert,key} and {cert,key,ca}; the five others are
	// enumerated by the next three classes, each with both spellings of "not
	// given" for the missing files.
	{"tls-cert-without-key", 4, func(rng *rand.Rand, s *settingSet, i int) (string, string) {
		s.set("tls_cert_file", pathStr(rng, "cert"))
		sub := absent(s, "tls_key_file", i%2 == 1)
		if (i/2)%2 == 1 {
			s.set("tls_ca_file", pathStr(rng, "ca"))
			return "cert+ca", sub
		}
		s.del("tls_ca_file")
		dropUnbackedUnauthReads(s)
		return "cert-only", sub
	}},
	{"tls-key-without-cert", 4, func(rng *rand.Rand, s *settingSet, i int) (string, string) {
		s.set("tls_key_file", pathStr(rng, "key"))
		sub := absent(s, "tls_cert_file", i%2 == 1)
		if (i/2)%2 == 1 {
			s.set("tls_ca_file", pathStr(rng, "ca"))
			return "key+ca", sub
		}
		s.del("tls_ca_file")
		dropUnbackedUnauthReads(s)
		return "key-only", sub
	}},
	{"mtls-ca-without-server-cert", 4, func(rng *rand.Rand, s *settingSet, i int) (string, string) {
		s.set("tls_ca_file", pathStr(rng, "ca"))
		sub := absent(s, "tls_cert_file", i%2 == 1) + "," + absent(s, "tls_key_file", (i/2)%2 == 1)
		return "ca-only", sub
	}},
	// Reads open to everyone although no authentication mechanism is configured:
	// with and without (server-only) TLS, the absent mechanisms omitted or given
	// as explicit empty values.
	{"unauthenticated-reads-without-auth", 4, func(rng *rand.Rand, s *settingSet, i int) (string, string) {
		s.delPrefix("ldap.")
		s.del("htpasswd_file", "tls_ca_file")
		sub := "auth-files-omitted"
		if i%2 == 1 {
			s.set("htpasswd_file", "")
			s.set("tls_ca_file", "")
			sub = "auth-files-empty"
		}
		s.set("allow_unauthenticated_reads", "true")
		if (i/2)%2 == 1 {
			s.set("tls_cert_file", pathStr(rng, "cert"))
			s.set("tls_key_file", pathStr(rng, "key"))
			return "no-auth/server-tls", sub
		}
		s.del("tls_cert_file", "tls_key_file")
		return "no-auth/tls-off", sub
	}},
	{"multiple-proxy-backends", len(proxySubsets), func(rng *rand.Rand, s *settingSet, i int) (string, string) {
		delProxies(s)
		sub := proxySubsets[i%len(proxySubsets)]
		order := rng.Perm(len(sub))
		for _, k := range order {
			genBackend(rng, s, sub[k])
		}
		return strings.Join(sub, "+"), ""
	}},
	{"max_blob_size-not-positive", len(nonPositive), func(rng *rand.Rand, s *settingSet, i int) (string, string) {
		v, sub := nonPositiveValue(rng, i)
		s.set("max_blob_size", v)
		return "le-zero", sub
	}},
	{"max_proxy_blob_size-not-positive", len(nonPositive), func(rng *rand.Rand, s *settingSet, i int) (string, string) {
		v, sub := nonPositiveValue(rng, i)
		s.set("max_proxy_blob_size", v)
		return "le-zero", sub
	}},
	// Every malformed shape for each listener, alone and next to a well-formed
	// deprecated host/port form of the same listener (the explicitly given
	// malformed address must be refused, not silently replaced by the fallback).
	{"malformed-address", 4*len(malformedShapes) + 2, func(rng *rand.Rand, s *settingSet, i int) (string, string) {
		i %= 4*len(malformedShapes) + 2
		if i >= 4*len(malformedShapes) {
			// Profiling: only the empty unix socket path. A profiling address
			// without a port does make the server exit at start (it is not silently
			// ignored), which the statement allows.
			s.del("profile_host", "profile_port")
			s.set("profile_address", "unix://")
			sub := "alone"
			if i%2 == 1 {
				s.set("profile_host", "127.0.0.1")
				s.set("profile_port", strconv.Itoa(port(rng)))
				sub = "with-deprecated-form"
			}
			return "profile_address=unix-without-path", sub
		}
		which := []string{"http_address", "grpc_address"}[i%2]
		companion := (i/2)%2 == 1
		sh := malformedShapes[i/4]
		val := sh.val
		if strings.Contains(val, "%d") {
			val = fmt.Sprintf(val, port(rng), port(rng))
		}
		sub := valueName(sh.val) + ",alone"
		if which == "http_address" {
			s.del("host", "port")
			if companion {
				s.set("port", strconv.Itoa(port(rng)))
				sub = valueName(sh.val) + ",with-deprecated-form"
			}
		} else {
			s.del("grpc_port")
			if companion {
				s.set("grpc_port", strconv.Itoa(port(rng)))
				sub = valueName(sh.val) + ",with-deprecated-form"
			}
		}
		s.set(which, val)
		return which + "=" + sh.form, sub
	}},
	{"unknown-log-setting", len(unknownAccessLogLevels) + len(unknownLogTimezones), func(rng *rand.Rand, s *settingSet, i int) (string, string) {
		i %= len(unknownAccessLogLevels) + len(unknownLogTimezones)
		if i < len(unknownAccessLogLevels) {
			s.set("access_log_level", unknownAccessLogLevels[i])
			return "access_log_level", valueName(unknownAccessLogLevels[i])
		}
		v := unknownLogTimezones[i-len(unknownAccessLogLevels)]
		s.set("log_timezone", v)
		return "log_timezone", valueName(v)
	}},
}

package c19

import (
	"fmt"
	"math/rand/v2"
	"os"
	"sort"
	"strings"
	"sync"
	"time"

	"verif/harness/lib"
)

func init() { lib.Register("C19", run) }

var yamlToSetting = func() map[string]*setting {
	m := map[string]*setting{}
	for i := range table {
		if table[i].YAML != "" && !table[i].Deprecated {
			m[table[i].YAML] = &table[i]
		}
	}
	return m
}()

func run(r *lib.Run) {
	r.SetRule("equivalence: (sorted names of the explicitly given settings, listener/TLS/auth/proxy form tags); " +
		"forms: the same plus (listener family, kind of the address value, kind of the deprecated host, kind of the deprecated port) or the set of environment aliases given twice; " +
		"invalid: (class, enumerated variant, names of the other explicit settings); binary: (class, variant, syntax)")
	r.Assume("oracle table transcribed from README.md (flag, env var, YAML key, type, legal values, defaults); YAML keys the README example omits follow the documented naming convention (table.go yamlDoc=convention)")
	r.Assume("effective fields of OMITTED settings are compared only where documented defaults coincide: listener addresses, max_size_hard_limit (-1/0) and s3 fields with a flag-only documented default are excluded")
	r.Assume("forms slice (address and deprecated host/port form of one listener given together, special values included): nothing is assumed about which spelling wins; an effective listener address is compared only when the explicit settings determine it on both front ends, i.e. the address is given and not empty or the deprecated port of that listener is given (the port defaults 8080/9092 vs 0 intentionally differ); where profiling is switched on only through profile_port while profile_host is omitted (defaults 127.0.0.1 vs none differ) only on/off is compared")
	r.Assume("invalid classes: an explicitly EMPTY value is one of the two spellings of 'not given' (dir, tls_cert_file, tls_key_file, tls_ca_file, htpasswd_file) and an empty storage_mode / zstd_implementation is an unknown one; both spellings of one listener naming the same port put HTTP and gRPC on one port whichever spelling wins; a malformed address stays malformed next to a well-formed deprecated form")
	r.Assume("profiling address without a port is not counted as 'malformed listener address accepted': the server exits with an error at start (not silently ignored)")

	restore := scrubEnv()
	defer restore()

	t0 := time.Now()
	phaseEquivalence(r)
	r.Extra("wall_s_equivalence", time.Since(t0).Seconds())
	t0 = time.Now()
	phaseForms(r)
	r.Extra("wall_s_forms", time.Since(t0).Seconds())
	t0 = time.Now()
	phaseInvalid(r)
	r.Extra("wall_s_invalid", time.Since(t0).Seconds())
	if _, err := os.Stat(lib.BinPath("bazel-remote")); err != nil {
		r.Inconclusive("real binary missing: " + lib.BinPath("bazel-remote"))
		return
	}
	mat := newMaterial()
	defer mat.cleanup()
	if mat.grpcBackend == "" {
		r.Inconclusive("the in-process gRPC cache that serves as grpc_proxy back end of the binary slice did not start")
	}
	t0 = time.Now()
	phaseBinaryInvalid(r, mat)
	r.Extra("wall_s_binary_invalid", time.Since(t0).Seconds())
	t0 = time.Now()
	phaseBinaryEquiv(r, mat)
	r.Extra("wall_s_binary_equiv", time.Since(t0).Seconds())
}

// ---------------------------------------------------------------- equivalence

type frontResults struct {
	Flag, Env, Mixed, YAML outcome
}

type caseDetail struct {
	Settings *settingSet          `json:"case"`
	Render   map[string]rendering `json:"renderings"`
	Outcome  map[string]any       `json:"outcome"`
}

func evalAll(rng *rand.Rand, s *settingSet) (frontResults, map[string]rendering) {
	ra, re, rm, ry := renderArgv(rng, s), renderEnv(rng, s), renderMixed(rng, s), renderYAML(rng, s)
	fr := frontResults{
		Flag:  evalCLI(ra.Argv, nil),
		Env:   evalCLI(nil, re.Env),
		Mixed: evalCLI(rm.Argv, rm.Env),
		YAML:  evalYAML(ry.YAML),
	}
	return fr, map[string]rendering{"flag": ra, "env": re, "mixed": rm, "yaml": ry}
}

func errOrOK(o outcome) string {
	if o.ok() {
		return "accepted"
	}
	return "refused: " + o.Err
}

func phaseEquivalence(r *lib.Run) {
	n := r.N(600, 20000)
	allAccept := 0
	for i := 0; i < n; i++ {
		// one PRNG stream per case: case i does not depend on what earlier cases
		// (or their diagnosis) consumed
		rng := r.Rng(fmt.Sprintf("equiv/%d", i))
		s := genValid(rng)
		if judgeEquivCase(r, rng, s, "equiv", i < 3) == "all-accept" {
			allAccept++
		}
	}
	if allAccept*2 < n {
		r.Inconclusive(fmt.Sprintf("only %d of %d generated valid setting sets were accepted by every front end", allAccept, n))
	}
}

// judgeEquivCase renders one set of explicit settings in the four syntaxes,
// evaluates the real front ends and judges flags == env == mixed == YAML. slice
// ("equiv", "forms") prefixes the evidence counters. It returns the outcome
// pattern: all-accept, all-refuse or accept-refuse-mismatch.
func judgeEquivCase(r *lib.Run, rng *rand.Rand, s *settingSet, slice string, sample bool) string {
	fr, rend := evalAll(rng, s)
	r.Eval()
	names := make([]string, 0, len(s.KVs))
	for _, e := range s.KVs {
		names = append(names, e.Name)
		if slice == "equiv" { // the forms slice keeps its own matrix
			r.Count(slice + ".setting." + e.Name)
		}
	}
	sort.Strings(names)
	r.Distinct(slice+"|", strings.Join(names, ","), "|", strings.Join(s.Tags, ","), "|", s.Form)
	for _, t := range s.Tags {
		if slice == "equiv" {
			r.Count(slice + ".form." + t)
		}
	}
	detail := func(extra map[string]any) caseDetail {
		o := map[string]any{"flag": errOrOK(fr.Flag), "env": errOrOK(fr.Env), "mixed": errOrOK(fr.Mixed), "yaml": errOrOK(fr.YAML)}
		for k, v := range extra {
			o[k] = v
		}
		return caseDetail{Settings: s, Render: rend, Outcome: o}
	}
	if sample {
		r.Sample(detail(nil))
	}

	oks := []bool{fr.Flag.ok(), fr.Env.ok(), fr.Mixed.ok(), fr.YAML.ok()}
	switch {
	case oks[0] && oks[1] && oks[2] && oks[3]:
		r.Count(slice + ".outcome.all-accept")
		compareFields(r, s, fr, slice, detail)
		return "all-accept"
	case !oks[0] && !oks[1] && !oks[2] && !oks[3]:
		// agreement, but the generator meant this set to be valid (in the forms
		// slice: a combination that every front end refuses, e.g. a port of -1
		// next to nothing else, is agreement as well)
		r.Count(slice + ".outcome.all-refuse")
		if slice == "equiv" {
			r.Sample(detail(map[string]any{"note": "valid set refused by every front end"}))
		}
		return "all-refuse"
	}
	r.Count(slice + ".outcome.accept-refuse-mismatch")
	var pattern, msg string
	switch {
	case oks[0] == oks[1] && oks[1] == oks[2]:
		if oks[0] {
			pattern, msg = "cli-accepts-yaml-refuses", fr.YAML.Err
		} else {
			pattern, msg = "cli-refuses-yaml-accepts", fr.Flag.Err
		}
	case oks[0] != oks[1]:
		pattern = "flag-vs-env"
		msg = fr.Flag.Err + fr.Env.Err
	default:
		pattern, msg = "mixed", fr.Mixed.Err
	}
	culprits := findCulprits(rng, s, oks)
	key := "C19:equiv:accept-refuse:" + pattern + ":" + slug(msg, 48)
	if len(culprits) > 0 {
		key = "C19:equiv:accept-refuse:" + strings.Join(culprits, "+") + ":" + pattern
	}
	if s.Form != "" && (len(culprits) == 0 || s.formSettingAmong(culprits)) {
		key += "[" + s.Form + "]"
	}
	r.Violation(key, "the same explicit settings are accepted by one front end and refused by another: "+msg,
		detail(map[string]any{"settings_whose_removal_restores_agreement": culprits}))
	// Diagnosis of the accepting side: does it honour the value at all?
	for _, c := range culprits {
		fronts, seen := ignoredCache[c]
		if !seen {
			fronts = ignoringFronts(rng, s, c, oks)
			ignoredCache[c] = fronts
		}
		for _, front := range fronts {
			r.Violation("C19:ignored:"+c+":"+front,
				fmt.Sprintf("explicit %s is silently ignored by the %s front end: two different legal values give the same effective configuration", c, front),
				detail(map[string]any{"setting": c}))
		}
	}
	return "accept-refuse-mismatch"
}

// compareFields compares the effective basic configuration of the four
// renderings of one accepted set.
func compareFields(r *lib.Run, s *settingSet, fr frontResults, slice string, detail func(map[string]any) caseDetail) {
	explicitPath := map[string]bool{}
	for _, e := range s.KVs {
		st := byFlag[e.Name]
		if !st.Deprecated && st.YAML != "" {
			// listener addresses: whether the explicit settings DETERMINE the
			// effective address on both front ends is the generator's knowledge
			// (an explicitly empty address next to an omitted deprecated port falls
			// back to the intentionally different port defaults)
			if !listenerPaths[st.YAML] {
				explicitPath[st.YAML] = true
			}
			if _, ok := fr.YAML.Fields[st.YAML]; !ok {
				if sec := sectionOf(st.YAML); sec == "" || fr.YAML.Fields[sec] == "present" {
					r.Violation("C19:table:no-such-field:"+st.YAML, "explicit setting has no field in the effective configuration", detail(nil))
				}
			}
		}
	}
	if s.HTTPExplicit {
		explicitPath["http_address"] = true
	}
	if s.GRPCExplicit {
		explicitPath["grpc_address"] = true
	}
	if s.ProfileExplicit {
		explicitPath["profile_address"] = true
	}

	union := map[string]bool{}
	for _, o := range []outcome{fr.Flag, fr.Env, fr.Mixed, fr.YAML} {
		for k := range o.Fields {
			union[k] = true
		}
	}
	paths := make([]string, 0, len(union))
	for k := range union {
		paths = append(paths, k)
	}
	sort.Strings(paths)

	val := func(o outcome, p string) string {
		if v, ok := o.Fields[p]; ok {
			return v
		}
		return "<no field>"
	}
	sectionDiffers := map[string]bool{}
	for _, p := range paths {
		if sec := sectionOf(p); sec != "" && sectionDiffers[sec] {
			continue // already reported as a whole
		}
		if !explicitPath[p] {
			if p == "profile_address" && s.ProfileEnabledOnly {
				// Only the omitted profile_host (documented defaults differ) separates
				// the front ends here: it can change the host part of the address,
				// not WHETHER profiling is switched on by the explicit settings.
				compareProfilingEnabled(r, s, fr, slice, detail)
				continue
			}
			if listenerPaths[p] {
				r.Count(slice + ".skipped.listener-default")
				continue
			}
			if st := yamlToSetting[p]; st != nil && !cmpWhenOmitted(st) {
				continue
			}
		}
		vf, ve, vm, vy := val(fr.Flag, p), val(fr.Env, p), val(fr.Mixed, p), val(fr.YAML, p)
		if explicitPath[p] {
			r.Count(slice + ".compared.explicit")
		} else {
			r.Count(slice + ".compared.default")
		}
		if vf == ve && ve == vm && vm == vy {
			continue
		}
		var how string
		switch {
		case vf == ve && ve == vm:
			how = "cli-vs-yaml"
		case vf != ve:
			how = "flag-vs-env"
		default:
			how = "mixed"
		}
		class := ""
		if p == "profile_address" {
			if v, _ := s.get("profile_address"); v == "none" {
				class = "=none"
			}
		}
		if s.Form != "" && p == s.FormPath {
			class = "[" + s.Form + "]"
		}
		if (p == "azblob_proxy" || sectionOf(p) == "azblob_proxy") && s.hasTag("azblob-no-tenant_id") {
			class = "[no-tenant_id]"
		}
		if isSectionMarker(vy) || isSectionMarker(vf) {
			sectionDiffers[p] = true // report an optional section once, not field by field
		}
		kindOf := "explicitly given"
		if !explicitPath[p] {
			kindOf = "omitted (documented defaults coincide)"
		}
		r.Violation("C19:equiv:"+p+class+":"+how,
			fmt.Sprintf("effective %s differs between the syntaxes (%s setting): flag=%q env=%q mixed=%q yaml=%q", p, kindOf, vf, ve, vm, vy),
			detail(map[string]any{"path": p, "flag_value": vf, "env_value": ve, "mixed_value": vm, "yaml_value": vy}))
	}
}

func isSectionMarker(v string) bool { return v == "present" || v == "absent" }

// compareProfilingEnabled: the coarser observation "profiling on / off".
func compareProfilingEnabled(r *lib.Run, s *settingSet, fr frontResults, slice string, detail func(map[string]any) caseDetail) {
	onOff := func(o outcome) string {
		if o.Fields["profile_address"] == "" {
			return "off"
		}
		return "on"
	}
	vf, ve, vm, vy := onOff(fr.Flag), onOff(fr.Env), onOff(fr.Mixed), onOff(fr.YAML)
	r.Count(slice + ".compared.profiling-enabled")
	if vf == ve && ve == vm && vm == vy {
		return
	}
	how := "mixed"
	switch {
	case vf == ve && ve == vm:
		how = "cli-vs-yaml"
	case vf != ve:
		how = "flag-vs-env"
	}
	class := ""
	if s.Form != "" {
		class = "[" + s.Form + "]"
	}
	r.Violation("C19:equiv:profile_address.enabled"+class+":"+how,
		fmt.Sprintf("the same explicit settings switch profiling on in one syntax and off in another: flag=%s (%q) env=%s mixed=%s yaml=%s (%q)",
			vf, fr.Flag.Fields["profile_address"], ve, vm, vy, fr.YAML.Fields["profile_address"]),
		detail(map[string]any{"path": "profile_address", "flag_value": fr.Flag.Fields["profile_address"], "env_value": fr.Env.Fields["profile_address"],
			"mixed_value": fr.Mixed.Fields["profile_address"], "yaml_value": fr.YAML.Fields["profile_address"]}))
}

// ---------------------------------------------------------------- invalid classes

func phaseInvalid(r *lib.Run) {
	per := r.N(10, 300)
	totalVariants, seenVariants := 0, 0
	matrix := map[string]int{} // class.variant[sub] -> cases judged
	for _, cls := range invalidClasses {
		// the finite variant space of the class is enumerated completely in
		// every tier; the thorough tier repeats it with other base sets
		count := per
		if cls.Variants > count {
			count = cls.Variants
		}
		seen := map[string]bool{}
		for i := 0; i < count; i++ {
			rng := r.Rng(fmt.Sprintf("invalid/%s/%d", cls.Name, i))
			// "otherwise valid": the base set must itself be accepted by both front
			// ends, so that a refusal (or a one-sided acceptance) is due to the class
			var s *settingSet
			for attempt := 0; attempt < 6; attempt++ {
				s = genValid(rng)
				if evalCLI(renderArgv(rng, s).Argv, nil).ok() && evalYAML(renderYAML(rng, s).YAML).ok() {
					break
				}
				r.Count("invalid.base-regenerated")
			}
			variant, sub := cls.apply(rng, s, i)
			full := variant
			if sub != "" {
				full += "[" + sub + "]"
			}
			seen[full] = true
			matrix[cls.Name+"."+full]++
			fr, rend := evalAll(rng, s)
			r.Eval()
			names := make([]string, 0, len(s.KVs))
			for _, e := range s.KVs {
				names = append(names, e.Name)
			}
			sort.Strings(names)
			r.Distinct("invalid|", cls.Name, "|", full, "|", strings.Join(names, ","))
			var accepted []string
			for _, f := range []struct {
				n string
				o outcome
			}{{"flag", fr.Flag}, {"env", fr.Env}, {"mixed", fr.Mixed}, {"yaml", fr.YAML}} {
				if f.o.ok() {
					accepted = append(accepted, f.n)
				}
			}
			if len(accepted) == 0 {
				r.Count("invalid." + cls.Name + "." + variant + ".refused-by-all")
				if i == 0 && cls.Name == "multiple-proxy-backends" {
					r.Sample(caseDetail{Settings: s, Render: rend, Outcome: map[string]any{"flag": errOrOK(fr.Flag), "yaml": errOrOK(fr.YAML)}})
				}
				continue
			}
			by := strings.Join(accepted, "+")
			switch by {
			case "flag+env+mixed+yaml":
				by = "all"
			case "flag+env+mixed":
				by = "cli"
			}
			r.Count("invalid." + cls.Name + "." + variant + ".accepted-by-" + by)
			r.Violation("C19:invalid:"+cls.Name+":"+variant+":accepted-by-"+by,
				fmt.Sprintf("set-up of invalid class %s (%s) is accepted by: %s", cls.Name, full, strings.Join(accepted, ", ")),
				caseDetail{Settings: s, Render: rend, Outcome: map[string]any{"variant": full, "flag": errOrOK(fr.Flag), "env": errOrOK(fr.Env), "mixed": errOrOK(fr.Mixed), "yaml": errOrOK(fr.YAML)}})
		}
		totalVariants += cls.Variants
		seenVariants += len(seen)
		if len(seen) != cls.Variants {
			r.Inconclusive(fmt.Sprintf("invalid class %s: %d of its %d enumerated variants ran", cls.Name, len(seen), cls.Variants))
		}
	}
	r.Extra("invalid_variant_matrix", matrix)
	r.Extra("invalid_variants_enumerated", seenVariants)
	r.Extra("invalid_variants_total", totalVariants)
}

// ---------------------------------------------------------------- real binary

var binSyntaxes = []string{"argv", "yaml-flag", "env", "yaml-env", "mixed"}

func parallel(n, workers int, fn func(i int)) {
	var wg sync.WaitGroup
	ch := make(chan int)
	for w := 0; w < workers; w++ {
		wg.Add(1)
		go func() {
			defer wg.Done()
			for i := range ch {
				fn(i)
			}
		}()
	}
	for i := 0; i < n; i++ {
		ch <- i
	}
	close(ch)
	wg.Wait()
}

// phaseBinaryInvalid: samples of every invalid class are given to the real
// executable, which must exit non-zero without ever listening.
func phaseBinaryInvalid(r *lib.Run, m *material) {
	rng := r.Rng("binary-invalid")
	per := r.N(2, 10)
	type job struct {
		cls       invalidClass
		variant   string // part of the finding key
		sub       string // concrete member of the variant (evidence only)
		syntax    string
		s         *settingSet
		args, env []string
		rend      rendering
	}
	var jobs []job
	for ci, cls := range invalidClasses {
		n := per
		// Spread the starts of a class over its enumerated variants (a rotation
		// drawn from the seed, then equidistant steps).
		rot := rng.IntN(cls.Variants)
		if cls.Name == "multiple-proxy-backends" {
			// every pair of back ends the binary could really start with
			if n < len(startablePairs) {
				n = len(startablePairs)
			}
			rot = 0
		}
		for k := 0; k < n; k++ {
			idx := len(jobs)
			vi := (rot + k*cls.Variants/n) % cls.Variants
			if cls.Name == "multiple-proxy-backends" {
				vi = k
			}
			s, variant, sub := makeStartableInvalid(rng, m, cls, idx, vi)
			syntax := binSyntaxes[(ci+k*2)%len(binSyntaxes)]
			args, env, rend := binaryInput(rng, s, syntax, m, idx)
			jobs = append(jobs, job{cls, variant, sub, syntax, s, args, env, rend})
		}
	}
	parallel(len(jobs), 6, func(i int) {
		j := jobs[i]
		res := observeStart(j.args, j.env, 1, 0)
		r.Eval()
		r.Distinct("binary|", j.cls.Name, "|", j.variant, "|", j.sub, "|", j.syntax)
		det := map[string]any{"class": j.cls.Name, "variant": j.variant, "sub_variant": j.sub, "syntax": j.syntax, "case": j.s, "rendering": j.rend,
			"args": j.args, "env": j.env, "listening": res.Listening, "exited": res.Exited, "exit_code": res.ExitCode, "log_tail": res.Log}
		base := "binary-invalid." + j.cls.Name + "." + j.variant + "."
		switch {
		case len(res.Listening) > 0:
			r.Count(base + "LISTENING")
			r.Violation("C19:binary:"+j.cls.Name+":"+j.variant+":serving",
				fmt.Sprintf("the real binary started listening (%v) with a set-up of invalid class %s (%s)", res.Listening, j.cls.Name, j.variant), det)
		case res.TimedOut:
			r.Count(base + "timeout")
			r.Inconclusive("binary neither listened nor exited within the watchdog: " + j.cls.Name + "/" + j.variant)
		case res.Exited && res.ExitCode == 0:
			r.Count(base + "exit-0")
			r.Violation("C19:binary:"+j.cls.Name+":"+j.variant+":exit-zero",
				"the real binary exited with status 0 for a set-up of invalid class "+j.cls.Name, det)
		default:
			r.Count(base + "exit-nonzero-never-listened")
			if i < 2 {
				r.Sample(det)
			}
		}
		os.RemoveAll(j.s.mustGet("dir"))
	})
}

func (s *settingSet) mustGet(name string) string {
	v, ok := s.get(name)
	if !ok {
		return "/nonexistent-c19"
	}
	return v
}

// phaseBinaryEquiv: startable valid sets are given to the real executable in
// flag, environment and YAML syntax; the observable start-up outcome (serving
// and staying up, or exiting) must be the same.
func phaseBinaryEquiv(r *lib.Run, m *material) {
	rng := r.Rng("binary-equiv")
	n := r.N(6, 30)
	type job struct {
		s       *settingSet
		tag     string
		syntax  []string
		args    [][]string
		env     [][]string
		rend    []rendering
		results []startResult
		idx     int
		rng     *rand.Rand
	}
	jobs := make([]*job, n)
	for i := 0; i < n; i++ {
		s := genStartable(rng, m, 1000+i)
		tag := "plain"
		switch i % 3 {
		case 0:
			s.set("profile_address", "none")
			tag = "profile_address=none"
		case 1:
			s.set("profile_address", fmt.Sprintf("127.0.0.1:%d", lib.FreePort()))
			tag = "profile_address=addr"
		}
		jobs[i] = &job{s: s, tag: tag, idx: 1000 + i, rng: r.Rng(fmt.Sprintf("binary-equiv/%d", i))}
	}
	render := func(j *job) {
		j.syntax, j.args, j.env, j.rend = nil, nil, nil, nil
		for _, syn := range []string{"argv", "env", "yaml-flag"} {
			a, e, rd := binaryInput(j.rng, j.s, syn, m, j.idx)
			j.syntax = append(j.syntax, syn)
			j.args = append(j.args, a)
			j.env = append(j.env, e)
			j.rend = append(j.rend, rd)
		}
		j.results = make([]startResult, len(j.syntax))
	}
	parallel(n, 6, func(k int) {
		j := jobs[k]
		want := 2
		if j.tag == "profile_address=addr" {
			want = 3
		}
		for attempt := 0; attempt < 4; attempt++ {
			render(j)
			collision := false
			// the syntaxes of one set share directory and ports: one after the other
			for i := range j.syntax {
				j.results[i] = observeStart(j.args[i], j.env[i], want, 700*time.Millisecond)
				if j.results[i].Exited && strings.Contains(j.results[i].Log, "address already in use") {
					collision = true
				}
			}
			if !collision {
				break
			}
			// a foreign process took one of the ports (the machine is shared): this
			// says nothing about the configuration; take fresh ports and start over
			r.Count("binary-equiv.port-collision-retried")
			j.s.set("http_address", fmt.Sprintf("127.0.0.1:%d", lib.FreePort()))
			j.s.set("grpc_address", fmt.Sprintf("127.0.0.1:%d", lib.FreePort()))
			if j.tag == "profile_address=addr" {
				j.s.set("profile_address", fmt.Sprintf("127.0.0.1:%d", lib.FreePort()))
			}
		}
	})
	for _, j := range jobs {
		r.Eval()
		r.Distinct("binary-equiv|", j.tag, "|", len(j.s.KVs), "|", j.s.has("tls_cert_file"), j.s.has("htpasswd_file"))
		state := make([]string, len(j.syntax))
		inconclusive := false
		for i, res := range j.results {
			switch {
			case res.TimedOut:
				state[i] = "timeout"
				inconclusive = true
			case len(res.Listening) > 0 && !res.Exited:
				state[i] = "serving"
			default:
				state[i] = "exited"
			}
			r.Count("binary-equiv." + j.tag + "." + j.syntax[i] + "." + state[i])
		}
		if inconclusive {
			r.Inconclusive("binary start neither reached the serving state nor exited: " + j.tag)
			continue
		}
		if state[0] == state[1] && state[1] == state[2] {
			continue
		}
		odd := ""
		for i := range state {
			if state[i] != state[(i+1)%3] && state[i] != state[(i+2)%3] {
				odd = j.syntax[i] + "-" + state[i]
			}
		}
		det := map[string]any{"case": j.s, "syntaxes": j.syntax, "states": state, "args": j.args, "env": j.env, "renderings": j.rend}
		logs := map[string]string{}
		for i, res := range j.results {
			logs[j.syntax[i]] = res.Log
		}
		det["log_tails"] = logs
		r.Violation("C19:binary-equiv:"+j.tag+":"+odd,
			fmt.Sprintf("the real binary behaves differently at start-up for the same settings: %v -> %v", j.syntax, state), det)
	}
}

// culpritCache / ignoredCache keep the diagnosis of repeated disagreements cheap
// (the check is single-threaded in its in-process phases).
var (
	culpritCache []string
	ignoredCache = map[string][]string{}
)

// findCulprits names the explicit settings whose removal (one at a time) makes
// every front end accept the set. It only serves
// to give an accept/refuse disagreement a key that names the failing setting.
func findCulprits(rng *rand.Rand, s *settingSet, oks []bool) []string {
	var out []string
	accepts := func(t *settingSet) bool {
		return evalCLI(renderArgv(rng, t).Argv, nil).ok() && evalCLI(nil, renderEnv(rng, t).Env).ok() && evalYAML(renderYAML(rng, t).YAML).ok()
	}
	// fast path: a setting that already explained an earlier disagreement
	for _, name := range culpritCache {
		if s.has(name) {
			t := s.clone()
			t.del(name)
			if accepts(t) {
				return []string{name}
			}
		}
	}
	defer func() {
		if len(out) == 1 {
			culpritCache = append(culpritCache, out[0])
		}
	}()
	for _, e := range s.KVs {
		if e.Name == "dir" || e.Name == "max_size" {
			continue
		}
		t := s.clone()
		t.del(e.Name)
		if accepts(t) {
			out = append(out, e.Name)
		}
	}
	sort.Strings(out)
	if len(out) > 3 {
		return nil // not attributable to single settings
	}
	return out
}

// otherValue returns a second legal value for a plain setting ("" if the check
// has none to offer).
func otherValue(st *setting, v string) string {
	switch {
	case len(st.Legal) > 0:
		for _, l := range st.Legal {
			if l != v {
				return l
			}
		}
	case st.Kind == kInt:
		if v == "7" {
			return "11"
		}
		return "7"
	case st.Kind == kDur:
		if v == "7s" {
			return "11s"
		}
		return "7s"
	case st.Kind == kStr:
		return v + "x"
	}
	return ""
}

// ignoringFronts: among the front ends that ACCEPT the set, those for which a
// different value of setting name leaves the effective configuration unchanged.
func ignoringFronts(rng *rand.Rand, s *settingSet, name string, oks []bool) []string {
	st := byFlag[name]
	v, _ := s.get(name)
	alt := otherValue(st, v)
	if alt == "" || st.Deprecated || st.Kind == kBool {
		return nil
	}
	t := s.clone()
	t.set(name, alt)
	same := func(a, b outcome) bool {
		if !a.ok() || !b.ok() {
			return false
		}
		if len(a.Fields) != len(b.Fields) {
			return false
		}
		for k, x := range a.Fields {
			if b.Fields[k] != x {
				return false
			}
		}
		return true
	}
	var out []string
	cliSame := 0
	if oks[0] && same(evalCLI(renderArgv(rng, s).Argv, nil), evalCLI(renderArgv(rng, t).Argv, nil)) {
		cliSame++
	}
	if oks[1] && same(evalCLI(nil, renderEnv(rng, s).Env), evalCLI(nil, renderEnv(rng, t).Env)) {
		cliSame++
	}
	if cliSame == 2 {
		out = append(out, "cli")
	} else if cliSame == 1 {
		out = append(out, "flag-or-env")
	}
	if oks[3] && same(evalYAML(renderYAML(rng, s).YAML), evalYAML(renderYAML(rng, t).YAML)) {
		out = append(out, "yaml")
	}
	return out
}

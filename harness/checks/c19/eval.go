package c19

import (
	"fmt"
	"io"
	"net/url"
	"os"
	"reflect"
	"strings"
	"sync"
	"time"

	"github.com/buchgr/bazel-remote/v2/config"
	"github.com/buchgr/bazel-remote/v2/utils/flags"
	"github.com/urfave/cli/v2"
)

// outcome is what one front end made of one rendering.
type outcome struct {
	Err    string            // "" = accepted
	Fields map[string]string // flattened basic config (yaml key path -> value)
}

func (o outcome) ok() bool { return o.Err == "" }

// envMu serialises every evaluation of the flag/env front end: urfave/cli reads
// environment variables of the PROCESS while applying flags, so the process
// environment is part of the input and must hold exactly the rendered variables.
var envMu sync.Mutex

// scrubEnv removes every variable the front end could read (all BAZEL_REMOTE_*
// and the documented aliases) from the process environment and returns a
// function restoring the original state.
func scrubEnv() (restore func()) {
	envMu.Lock()
	defer envMu.Unlock()
	names := map[string]bool{configFileEnv: true}
	for _, s := range table {
		for _, e := range s.Env {
			names[e] = true
		}
	}
	for _, kv := range os.Environ() {
		if i := strings.IndexByte(kv, '='); i > 0 && strings.HasPrefix(kv[:i], "BAZEL_REMOTE_") {
			names[kv[:i]] = true
		}
	}
	saved := map[string]string{}
	for n := range names {
		if v, ok := os.LookupEnv(n); ok {
			saved[n] = v
			_ = os.Unsetenv(n)
		}
	}
	return func() {
		envMu.Lock()
		defer envMu.Unlock()
		for n, v := range saved {
			_ = os.Setenv(n, v)
		}
	}
}

// evalCLI runs the real flag/environment front end: a cli.App built from
// flags.GetCliFlags() parses argv with env set in the process environment, and
// its action calls config.VerifGetBasic (the unexported get()).
func evalCLI(argv []string, env map[string]string) outcome {
	envMu.Lock()
	defer envMu.Unlock()
	for k, v := range env {
		_ = os.Setenv(k, v)
	}
	defer func() {
		for k := range env {
			_ = os.Unsetenv(k)
		}
	}()

	var cfg *config.Config
	var cfgErr error
	ran := false
	app := cli.NewApp()
	app.Name = "bazel-remote"
	app.Flags = flags.GetCliFlags()
	app.Writer = io.Discard
	app.ErrWriter = io.Discard
	app.HideHelp = true
	app.ExitErrHandler = func(*cli.Context, error) {}
	app.Action = func(ctx *cli.Context) error {
		ran = true
		if ctx.NArg() > 0 {
			// main.go refuses positional arguments (exit 1).
			cfgErr = fmt.Errorf("positional arguments: %v", ctx.Args().Slice())
			return nil
		}
		cfg, cfgErr = config.VerifGetBasic(ctx)
		return nil
	}
	err := app.Run(append([]string{"bazel-remote"}, argv...))
	if err != nil {
		return outcome{Err: "flag parsing: " + err.Error()}
	}
	if !ran {
		return outcome{Err: "action did not run"}
	}
	if cfgErr != nil {
		return outcome{Err: cfgErr.Error()}
	}
	return outcome{Fields: flatten(cfg)}
}

// evalYAML runs the YAML front end.
func evalYAML(doc string) outcome {
	cfg, err := config.NewFromYaml([]byte(doc))
	if err != nil {
		return outcome{Err: err.Error()}
	}
	return outcome{Fields: flatten(cfg)}
}

var (
	durationType = reflect.TypeOf(time.Duration(0))
	urlPtrType   = reflect.TypeOf((*url.URL)(nil))
)

// flatten turns the basic (yaml-tagged) fields of a Config into
// "key.path" -> printed value. Optional sections appear as "<section>" ->
// "present"/"absent" plus their fields when present. Fields without a yaml tag
// (ProxyBackend, TLSConfig, loggers) are derived state, not basic fields.
func flatten(c *config.Config) map[string]string {
	out := map[string]string{}
	if c == nil {
		return out
	}
	flattenStruct(reflect.ValueOf(*c), "", out)
	return out
}

func flattenStruct(v reflect.Value, prefix string, out map[string]string) {
	t := v.Type()
	for i := 0; i < t.NumField(); i++ {
		f := t.Field(i)
		tag := f.Tag.Get("yaml")
		name := strings.Split(tag, ",")[0]
		if tag == "" || name == "" || name == "-" {
			continue
		}
		path := prefix + name
		fv := v.Field(i)
		switch {
		case f.Type == durationType:
			out[path] = fmt.Sprintf("%dns", fv.Int())
		case f.Type == urlPtrType:
			if fv.IsNil() {
				out[path] = "<nil>"
			} else {
				out[path] = fv.Interface().(*url.URL).String()
			}
		case f.Type.Kind() == reflect.Ptr && f.Type.Elem().Kind() == reflect.Struct:
			if fv.IsNil() {
				out[path] = "absent"
			} else {
				out[path] = "present"
				flattenStruct(fv.Elem(), path+".", out)
			}
		case f.Type.Kind() == reflect.Ptr:
			if fv.IsNil() {
				out[path] = "<nil>"
			} else {
				out[path] = fmt.Sprintf("%v", fv.Elem().Interface())
			}
		default:
			out[path] = fmt.Sprintf("%v", fv.Interface())
		}
	}
}

// sectionOf returns the optional section a path belongs to ("" for top level).
func sectionOf(path string) string {
	if i := strings.IndexByte(path, '.'); i > 0 {
		return path[:i]
	}
	return ""
}

// slug makes an error message usable inside a finding key.
func slug(s string, max int) string {
	var b strings.Builder
	dash := false
	for _, c := range strings.ToLower(s) {
		if (c >= 'a' && c <= 'z') || c == '_' { // digits dropped: ports etc. must not enter keys
			b.WriteRune(c)
			dash = false
		} else if !dash && b.Len() > 0 {
			b.WriteByte('-')
			dash = true
		}
		if b.Len() >= max {
			break
		}
	}
	return strings.TrimRight(b.String(), "-")
}

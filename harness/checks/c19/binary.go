package c19

import (
	"crypto/ecdsa"
	"crypto/elliptic"
	crand "crypto/rand"
	"crypto/x509"
	"crypto/x509/pkix"
	"encoding/pem"
	"fmt"
	"math/big"
	"math/rand/v2"
	"net"
	"os"
	"path/filepath"
	"sort"
	"strconv"
	"strings"
	"time"

	"verif/harness/lib"
)

// material are real files for set-ups handed to the real binary, so that the
// ONLY reason to refuse them is the invalid class under test.
type material struct {
	dir                     string
	cert, key, ca, htpasswd string
	// grpcBackend: host:port of an in-process bazel-remote whose gRPC side can
	// serve as a grpc_proxy back end of the binary ("" if it could not start)
	grpcBackend string
	backend     *lib.Server
}

func writePEM(path, typ string, der []byte) {
	f, err := os.Create(path)
	if err != nil {
		panic(err)
	}
	_ = pem.Encode(f, &pem.Block{Type: typ, Bytes: der})
	_ = f.Close()
}

func newMaterial() *material {
	m := &material{dir: lib.MkTemp("c19")}
	caKey, _ := ecdsa.GenerateKey(elliptic.P256(), crand.Reader)
	caTpl := &x509.Certificate{SerialNumber: big.NewInt(1), Subject: pkix.Name{CommonName: "c19 ca"},
		NotBefore: time.Now().Add(-time.Hour), NotAfter: time.Now().Add(48 * time.Hour),
		IsCA: true, BasicConstraintsValid: true, KeyUsage: x509.KeyUsageCertSign | x509.KeyUsageDigitalSignature}
	caDER, err := x509.CreateCertificate(crand.Reader, caTpl, caTpl, &caKey.PublicKey, caKey)
	if err != nil {
		panic(err)
	}
	caCert, _ := x509.ParseCertificate(caDER)
	m.ca = filepath.Join(m.dir, "ca.pem")
	writePEM(m.ca, "CERTIFICATE", caDER)

	srvKey, _ := ecdsa.GenerateKey(elliptic.P256(), crand.Reader)
	srvTpl := &x509.Certificate{SerialNumber: big.NewInt(2), Subject: pkix.Name{CommonName: "localhost"},
		NotBefore: time.Now().Add(-time.Hour), NotAfter: time.Now().Add(48 * time.Hour),
		KeyUsage: x509.KeyUsageDigitalSignature, ExtKeyUsage: []x509.ExtKeyUsage{x509.ExtKeyUsageServerAuth, x509.ExtKeyUsageClientAuth},
		DNSNames: []string{"localhost"}, IPAddresses: []net.IP{net.ParseIP("127.0.0.1")}}
	srvDER, err := x509.CreateCertificate(crand.Reader, srvTpl, caCert, &srvKey.PublicKey, caKey)
	if err != nil {
		panic(err)
	}
	m.cert = filepath.Join(m.dir, "server.crt")
	writePEM(m.cert, "CERTIFICATE", srvDER)
	kb, _ := x509.MarshalECPrivateKey(srvKey)
	m.key = filepath.Join(m.dir, "server.key")
	writePEM(m.key, "EC PRIVATE KEY", kb)

	m.htpasswd = filepath.Join(m.dir, "htpasswd")
	_ = os.WriteFile(m.htpasswd, []byte("alice:{SHA}W6ph5Mm5Pz8GgiULbPgzG37mj9g=\n"), 0o600)
	if srv, err := lib.StartServer(lib.ServerOpts{MaxSize: 64 << 20, NoHTTP: true}); err == nil {
		m.backend, m.grpcBackend = srv, srv.GRPCAddr
	}
	return m
}

func (m *material) cleanup() {
	if m.backend != nil {
		m.backend.Close()
	}
	_ = os.RemoveAll(m.dir)
}

// genStartable: a valid set the real binary can start with immediately (real
// directory, free loopback ports, no proxy backend, no LDAP server needed).
func genStartable(rng *rand.Rand, m *material, idx int) *settingSet {
	s := &settingSet{}
	s.set("dir", filepath.Join(m.dir, fmt.Sprintf("cache-%d", idx)))
	s.set("max_size", "1")
	s.set("http_address", fmt.Sprintf("127.0.0.1:%d", lib.FreePort()))
	s.set("grpc_address", fmt.Sprintf("127.0.0.1:%d", lib.FreePort()))
	if chance(rng, 50) {
		s.set("storage_mode", pick(rng, "zstd", "uncompressed"))
	}
	if chance(rng, 50) {
		s.set("zstd_implementation", pick(rng, "go", "cgo"))
	}
	for _, b := range []string{"disable_http_ac_validation", "disable_grpc_ac_deps_check", "enable_ac_key_instance_mangling",
		"enable_endpoint_metrics", "http_metrics_prefix", "experimental_remote_asset_api"} {
		if chance(rng, 30) {
			s.set(b, boolStr(rng))
		}
	}
	for _, d := range []string{"http_read_timeout", "http_write_timeout"} {
		if chance(rng, 30) {
			s.set(d, durStr(rng))
		}
	}
	if chance(rng, 30) {
		s.set("num_uploaders", strconv.Itoa(1+rng.IntN(50)))
	}
	if chance(rng, 30) {
		s.set("max_blob_size", strconv.Itoa(1+rng.IntN(1<<30)))
	}
	if chance(rng, 40) {
		s.set("access_log_level", pick(rng, "none", "all"))
	}
	if chance(rng, 40) {
		s.set("log_timezone", pick(rng, "UTC", "local", "none"))
	}
	switch rng.IntN(4) {
	case 0:
		s.set("tls_cert_file", m.cert)
		s.set("tls_key_file", m.key)
	case 1:
		s.set("tls_cert_file", m.cert)
		s.set("tls_key_file", m.key)
		s.set("tls_ca_file", m.ca)
		if chance(rng, 50) {
			s.set("allow_unauthenticated_reads", boolStr(rng))
		}
	case 2:
		s.set("htpasswd_file", m.htpasswd)
		if chance(rng, 50) {
			s.set("allow_unauthenticated_reads", boolStr(rng))
		}
	}
	return s
}

// startableBackends are the proxy back ends the real binary can be configured
// with and still start without any network peer beyond the harness's own
// in-process gRPC cache (grpcBackend): a build that no longer refuses a pair of
// them would come up and serve.
var startableBackends = []string{"http", "grpc", "s3", "azblob"}

var startablePairs = func() [][2]string {
	var out [][2]string
	for i := range startableBackends {
		for j := i + 1; j < len(startableBackends); j++ {
			out = append(out, [2]string{startableBackends[i], startableBackends[j]})
		}
	}
	return out
}()

func setStartableBackend(s *settingSet, m *material, name string) {
	switch name {
	case "http":
		s.set("http_proxy.url", fmt.Sprintf("http://127.0.0.1:%d/cache", lib.FreePort()))
	case "grpc":
		s.set("grpc_proxy.url", "grpc://"+m.grpcBackend)
	case "s3":
		s.set("s3.endpoint", fmt.Sprintf("127.0.0.1:%d", lib.FreePort()))
		s.set("s3.bucket", "bkt")
		s.set("s3.auth_method", "access_key")
		s.set("s3.access_key_id", "AKID")
		s.set("s3.secret_access_key", "SECRET")
		s.set("s3.disable_ssl", "true")
	case "azblob":
		s.set("azblob.storage_account", "acctc19")
		s.set("azblob.container_name", "cont")
		s.set("azblob.auth_method", "shared_key")
		s.set("azblob.shared_key", "c2hhcmVkLWtleS1jMTktYmluYXJ5LXNsaWNl") // any base64
		s.set("azblob.tenant_id", "tenant-c19")
	}
}

// makeStartableInvalid applies an invalid class to a startable set and points
// every file setting the class introduced at real material, so that a build
// which no longer refuses the class would start serving.
func makeStartableInvalid(rng *rand.Rand, m *material, cls invalidClass, idx, k int) (set *settingSet, variant, sub string) {
	s := genStartable(rng, m, idx)
	variant, sub = cls.apply(rng, s, k)
	for name, real := range map[string]string{"tls_cert_file": m.cert, "tls_key_file": m.key, "tls_ca_file": m.ca, "htpasswd_file": m.htpasswd} {
		// (an explicitly EMPTY value is one of the spellings of "not given": keep it)
		if v, _ := s.get(name); v != "" {
			s.set(name, real)
		}
	}
	if cls.Name == "multiple-proxy-backends" {
		// pairs of back ends that need no foreign network peer at start-up
		delProxies(s)
		pair := startablePairs[k%len(startablePairs)]
		setStartableBackend(s, m, pair[0])
		setStartableBackend(s, m, pair[1])
		names := []string{pair[0], pair[1]}
		sort.Strings(names) // same spelling as the in-process class
		variant, sub = names[0]+"+"+names[1], ""
	}
	if g, _ := s.get("grpc_address"); g == "none" {
		s.del("experimental_remote_asset_api")
	}
	// listeners removed by the class and not replaced: give them free ports
	if !s.has("http_address") && !s.has("port") {
		s.set("http_address", fmt.Sprintf("127.0.0.1:%d", lib.FreePort()))
	}
	if !s.has("grpc_address") && !s.has("grpc_port") {
		s.set("grpc_address", fmt.Sprintf("127.0.0.1:%d", lib.FreePort()))
	}
	return s, variant, sub
}

// binaryInput turns a set into what StartBinary needs for one syntax.
func binaryInput(rng *rand.Rand, s *settingSet, syntax string, m *material, idx int) (args, env []string, r rendering) {
	switch syntax {
	case "argv":
		r = renderArgv(rng, s)
		args = r.Argv
	case "env":
		r = renderEnv(rng, s)
	case "mixed":
		r = renderMixed(rng, s)
		args = r.Argv
	case "yaml-flag", "yaml-env":
		r = renderYAML(rng, s)
		p := filepath.Join(m.dir, fmt.Sprintf("config-%d.yaml", idx))
		_ = os.WriteFile(p, []byte(r.YAML), 0o600)
		if syntax == "yaml-flag" {
			args = []string{"--" + configFileFlag, p}
		} else {
			env = []string{configFileEnv + "=" + p}
		}
	}
	keys := make([]string, 0, len(r.Env))
	for k := range r.Env {
		keys = append(keys, k)
	}
	sort.Strings(keys)
	for _, k := range keys {
		env = append(env, k+"="+r.Env[k])
	}
	return args, env, r
}

// socketInodes lists the socket inodes the process holds (from /proc/<pid>/fd).
func socketInodes(pid int) map[string]bool {
	fdDir := fmt.Sprintf("/proc/%d/fd", pid)
	es, err := os.ReadDir(fdDir)
	if err != nil {
		return nil
	}
	inodes := map[string]bool{}
	for _, e := range es {
		t, err := os.Readlink(filepath.Join(fdDir, e.Name()))
		if err == nil && strings.HasPrefix(t, "socket:[") {
			inodes[strings.TrimSuffix(strings.TrimPrefix(t, "socket:["), "]")] = true
		}
	}
	return inodes
}

func sameSet(a, b map[string]bool) bool {
	if len(a) != len(b) {
		return false
	}
	for k := range a {
		if !b[k] {
			return false
		}
	}
	return true
}

// listeners returns the LISTENing sockets (TCP, TCP6, unix) among the given
// socket inodes of pid, read from /proc/<pid>/net: the direct observation of
// "the process is listening", whatever the address (also a random port chosen
// for ":" or ":0"). Reading these tables is expensive, so the caller only does
// it when the set of sockets of the process changed.
func listeners(pid int, inodes map[string]bool) []string {
	if len(inodes) == 0 {
		return nil
	}
	var out []string
	for _, proto := range []string{"tcp", "tcp6"} {
		b, err := os.ReadFile(fmt.Sprintf("/proc/%d/net/%s", pid, proto))
		if err != nil {
			continue
		}
		for i, line := range strings.Split(string(b), "\n") {
			f := strings.Fields(line)
			if i == 0 || len(f) < 10 {
				continue
			}
			if f[3] == "0A" && inodes[f[9]] {
				out = append(out, proto+":"+f[1])
			}
		}
	}
	if b, err := os.ReadFile(fmt.Sprintf("/proc/%d/net/unix", pid)); err == nil {
		for i, line := range strings.Split(string(b), "\n") {
			f := strings.Fields(line)
			if i == 0 || len(f) < 7 {
				continue
			}
			flags, _ := strconv.ParseUint(f[3], 16, 64)
			if flags&0x10000 != 0 && inodes[f[6]] { // __SO_ACCEPTCON
				p := ""
				if len(f) > 7 {
					p = f[7]
				}
				out = append(out, "unix:"+p)
			}
		}
	}
	return out
}

type startResult struct {
	Listening []string // non-empty: the process was seen listening
	Exited    bool
	ExitCode  int
	TimedOut  bool
	Log       string
}

// observeStart launches the binary and watches it until it either listens
// (wantListeners sockets; then it is given settle to stay alive) or exits.
func observeStart(args, env []string, wantListeners int, settle time.Duration) startResult {
	c, err := lib.StartBinary(lib.BinaryOpts{NoDefault: true, Args: args, Env: env})
	if c == nil || c.Cmd == nil || c.Cmd.Process == nil {
		return startResult{TimedOut: true, Log: fmt.Sprint("could not start the binary: ", err)}
	}
	defer c.Stop()
	var res startResult
	deadline := time.Now().Add(40 * time.Second)
	// The socket tables are scanned when the set of sockets of the process
	// changes and then again with decaying frequency (a socket exists before it
	// listens), never more often than every 2 ms.
	var prev map[string]bool
	var nextScan time.Time
	interval := 2 * time.Millisecond
	for {
		if c.Exited() {
			break
		}
		cur := socketInodes(c.Pid())
		if !sameSet(cur, prev) {
			prev = cur
			interval = 2 * time.Millisecond
			nextScan = time.Time{}
		}
		if len(cur) > 0 && !time.Now().Before(nextScan) {
			if ls := listeners(c.Pid(), cur); len(ls) >= wantListeners && len(ls) > 0 {
				res.Listening = ls
				break
			}
			nextScan = time.Now().Add(interval)
			if interval *= 3; interval > 2*time.Second {
				interval = 2 * time.Second
			}
		}
		if time.Now().After(deadline) {
			res.TimedOut = true
			break
		}
		time.Sleep(2 * time.Millisecond)
	}
	if len(res.Listening) > 0 && settle > 0 {
		c.WaitExit(settle)
	}
	if c.Exited() {
		res.Exited = true
		res.ExitCode = c.ExitCode()
	}
	res.Log = c.LogTail(600)
	return res
}

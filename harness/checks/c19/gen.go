package c19

import (
	"fmt"
	"math/rand/v2"
	"strconv"
)

func pick(rng *rand.Rand, xs ...string) string { return xs[rng.IntN(len(xs))] }
func chance(rng *rand.Rand, pct int) bool      { return rng.IntN(100) < pct }
func boolStr(rng *rand.Rand) string            { return pick(rng, "true", "false") }

const alnum = "abcdefghijklmnopqrstuvwxyzABCDEFGHIJKLMNOPQRSTUVWXYZ0123456789"

func word(rng *rand.Rand, n int) string {
	b := make([]byte, n)
	for i := range b {
		b[i] = alnum[rng.IntN(len(alnum))]
	}
	// never start with a digit (keeps plain YAML scalars strings)
	b[0] = alnum[rng.IntN(52)]
	return string(b)
}

// pathStr: file-system path like values, some with characters that stress the
// renderers (spaces, '=', ',', '#', quotes).
func pathStr(rng *rand.Rand, stem string) string {
	switch rng.IntN(8) {
	case 0:
		return "/tmp/" + stem + " with space/" + word(rng, 5)
	case 1:
		return "rel/" + stem + "-" + word(rng, 4) + ".pem"
	case 2:
		return "/srv/" + stem + "=" + word(rng, 3) + ",x#y"
	case 3:
		return "/o'brien/" + stem + `"q"` + word(rng, 3)
	default:
		return "/etc/bazel-remote/" + stem + "-" + word(rng, 6)
	}
}

// port: a TCP port different from the flag defaults 8080 / 9092 (so that the
// intentionally different listener defaults cannot create a conflict on one
// front end only) and from the ports in use.
func port(rng *rand.Rand, used ...int) int {
	for {
		p := 1024 + rng.IntN(64000)
		ok := p != 8080 && p != 9092
		for _, u := range used {
			if u == p {
				ok = false
			}
		}
		if ok {
			return p
		}
	}
}

func hostStr(rng *rand.Rand) string {
	return pick(rng, "", "127.0.0.1", "0.0.0.0", "localhost", "[::1]", "cache.example.com", "10.1.2.3")
}

func durStr(rng *rand.Rand) string {
	return strconv.Itoa(1+rng.IntN(900)) + pick(rng, "s", "m", "h")
}

// genValid builds a random set of explicitly given VALID settings expressible
// in both syntaxes.
func genValid(rng *rand.Rand) *settingSet {
	s := &settingSet{}
	s.set("dir", pathStr(rng, "cache"))
	maxSize := 1 + rng.IntN(2000)
	s.set("max_size", strconv.Itoa(maxSize))
	if chance(rng, 25) {
		s.set("max_size_hard_limit", strconv.Itoa(maxSize+1+rng.IntN(500)))
	}
	if chance(rng, 45) {
		s.set("storage_mode", pick(rng, "zstd", "uncompressed"))
	}
	if chance(rng, 40) {
		s.set("zstd_implementation", pick(rng, "go", "cgo"))
	}

	genListeners(rng, s)

	// TLS and authentication. README: "At most one authentication mechanism
	// can be used" -> valid sets use at most one of htpasswd / mTLS / LDAP.
	auth := pick(rng, "none", "none", "htpasswd", "mtls", "ldap")
	switch {
	case auth == "mtls":
		s.set("tls_cert_file", pathStr(rng, "cert"))
		s.set("tls_key_file", pathStr(rng, "key"))
		s.set("tls_ca_file", pathStr(rng, "ca"))
		s.tag("tls=mtls")
	case chance(rng, 35):
		s.set("tls_cert_file", pathStr(rng, "cert"))
		s.set("tls_key_file", pathStr(rng, "key"))
		s.tag("tls=server")
	default:
		s.tag("tls=off")
	}
	if chance(rng, 30) {
		s.set("min_tls_version", pick(rng, "1.0", "1.1", "1.2", "1.3"))
	}
	switch auth {
	case "htpasswd":
		s.set("htpasswd_file", pathStr(rng, "htpasswd"))
	case "ldap":
		genLDAP(rng, s)
	}
	s.tag("auth=" + auth)
	if auth != "none" {
		if chance(rng, 60) {
			s.set("allow_unauthenticated_reads", boolStr(rng))
		}
	} else if chance(rng, 20) {
		s.set("allow_unauthenticated_reads", "false")
	}

	for _, d := range []string{"idle_timeout", "http_read_timeout", "http_write_timeout"} {
		if chance(rng, 30) {
			s.set(d, durStr(rng))
		}
	}
	if chance(rng, 35) {
		s.set("max_queued_uploads", strconv.Itoa(rng.IntN(3000000)))
	}
	if chance(rng, 35) {
		s.set("num_uploaders", strconv.Itoa(rng.IntN(500)))
	}
	for _, b := range []string{"max_blob_size", "max_proxy_blob_size"} {
		if chance(rng, 35) {
			s.set(b, pick(rng, "1", strconv.FormatInt(1+rng.Int64N(1<<40), 10), "9223372036854775807", strconv.Itoa(1+rng.IntN(1<<20))))
		}
	}
	for _, b := range []string{"disable_http_ac_validation", "disable_grpc_ac_deps_check", "enable_ac_key_instance_mangling",
		"enable_endpoint_metrics", "http_metrics_prefix"} {
		if chance(rng, 35) {
			s.set(b, boolStr(rng))
		}
	}
	if chance(rng, 35) {
		v := boolStr(rng)
		if g, _ := s.get("grpc_address"); g == "none" {
			v = "false" // asset API needs gRPC; keep the set valid
		}
		s.set("experimental_remote_asset_api", v)
	}
	if chance(rng, 40) {
		s.set("access_log_level", pick(rng, "none", "all"))
	}
	if chance(rng, 40) {
		s.set("log_timezone", pick(rng, "UTC", "local", "none"))
	}

	switch rng.IntN(9) {
	case 0:
		genS3(rng, s)
	case 1:
		genAzblob(rng, s)
	case 2:
		genGCS(rng, s)
	case 3:
		genURLProxy(rng, s, "http")
	case 4:
		genURLProxy(rng, s, "grpc")
	default:
		s.tag("proxy=none")
	}
	return s
}

// genListeners chooses, per listener, between the address form, the
// deprecated host/port form, both, or omission.
func genListeners(rng *rand.Rand, s *settingSet) {
	httpPort, grpcPort := 0, 0
	hostGiven := false

	// HTTP
	switch rng.IntN(6) {
	case 0, 1: // address form
		if chance(rng, 15) {
			s.set("http_address", "unix://"+pick(rng, "/tmp/", "", "/var/run/br/")+word(rng, 5)+".sock")
			s.tag("http=unix")
		} else {
			httpPort = port(rng)
			s.set("http_address", fmt.Sprintf("%s:%d", hostStr(rng), httpPort))
			s.tag("http=addr")
		}
		s.HTTPExplicit = true
	case 2: // deprecated host + port
		httpPort = port(rng)
		s.set("host", pick(rng, "127.0.0.1", "0.0.0.0", "localhost", "::1", "cache.example.com"))
		s.set("port", strconv.Itoa(httpPort))
		hostGiven = true
		s.HTTPExplicit = true
		s.tag("http=host+port")
	case 3: // deprecated port only (host empty on both sides)
		httpPort = port(rng)
		s.set("port", strconv.Itoa(httpPort))
		s.HTTPExplicit = true
		s.tag("http=port")
	case 4: // address AND deprecated form: the address wins
		httpPort = port(rng)
		s.set("http_address", fmt.Sprintf("%s:%d", hostStr(rng), httpPort))
		s.set("port", strconv.Itoa(port(rng, httpPort)))
		if chance(rng, 50) {
			s.set("host", pick(rng, "127.0.0.1", "localhost"))
			hostGiven = true
		}
		s.HTTPExplicit = true
		s.tag("http=addr+port")
	default: // omitted: listener default, excluded from comparison
		if chance(rng, 30) {
			s.set("host", pick(rng, "127.0.0.1", "localhost"))
			hostGiven = true
			s.tag("http=host-only")
		} else {
			s.tag("http=omitted")
		}
	}

	// gRPC
	switch rng.IntN(6) {
	case 0, 1:
		switch {
		case chance(rng, 15):
			s.set("grpc_address", "none")
			s.tag("grpc=none")
		case chance(rng, 15):
			s.set("grpc_address", "unix://"+pick(rng, "/tmp/", "")+word(rng, 5)+".sock")
			s.tag("grpc=unix")
		default:
			grpcPort = port(rng, httpPort)
			s.set("grpc_address", fmt.Sprintf("%s:%d", hostStr(rng), grpcPort))
			s.tag("grpc=addr")
		}
		s.GRPCExplicit = true
	case 2: // deprecated grpc_port (host shared with HTTP)
		grpcPort = port(rng, httpPort)
		s.set("grpc_port", strconv.Itoa(grpcPort))
		s.GRPCExplicit = true
		if hostGiven {
			s.tag("grpc=host+port")
		} else {
			s.tag("grpc=port")
		}
	case 3: // "Set to 0 to disable"
		s.set("grpc_port", "0")
		s.GRPCExplicit = true
		s.tag("grpc=port0")
	case 4: // both forms: the address wins
		grpcPort = port(rng, httpPort)
		s.set("grpc_address", fmt.Sprintf("%s:%d", hostStr(rng), grpcPort))
		s.set("grpc_port", strconv.Itoa(port(rng, httpPort, grpcPort)))
		s.GRPCExplicit = true
		s.tag("grpc=addr+port")
	default:
		s.tag("grpc=omitted")
	}

	// profiling
	switch rng.IntN(8) {
	case 0:
		s.set("profile_address", fmt.Sprintf("%s:%d", pick(rng, "127.0.0.1", "localhost", "", "[::1]"), port(rng, httpPort, grpcPort)))
		s.ProfileExplicit = true
		s.tag("profile=addr")
	case 1:
		s.set("profile_address", "none")
		s.ProfileExplicit = true
		s.tag("profile=none")
	case 2:
		s.set("profile_address", "unix:///tmp/"+word(rng, 5)+".sock")
		s.ProfileExplicit = true
		s.tag("profile=unix")
	case 3: // deprecated host + port
		s.set("profile_host", pick(rng, "127.0.0.1", "localhost", "10.0.0.5", "::1"))
		s.set("profile_port", strconv.Itoa(port(rng, httpPort, grpcPort)))
		s.ProfileExplicit = true
		s.tag("profile=host+port")
	case 4: // port only: the host default differs (127.0.0.1 vs none) -> not compared
		s.set("profile_port", strconv.Itoa(port(rng, httpPort, grpcPort)))
		s.tag("profile=port-only")
	case 5: // host only / port 0: profiling stays off on both sides
		s.set("profile_host", pick(rng, "127.0.0.1", "localhost"))
		if chance(rng, 50) {
			s.set("profile_port", "0")
		}
		s.ProfileExplicit = true
		s.tag("profile=host-only")
	default:
		// omitted: off on both sides (documented default "" / not specified)
		s.ProfileExplicit = true
		s.tag("profile=omitted")
	}
}

func genLDAP(rng *rand.Rand, s *settingSet) {
	s.set("ldap.url", pick(rng, "ldaps://ldap.example.com:636", "ldap://10.0.0.9", "ldap://ldap."+word(rng, 4)+".org:389"))
	s.set("ldap.base_dn", pick(rng, "OU=My Users,DC=example,DC=com", "dc=example,dc=org", "ou=people,dc="+word(rng, 4)))
	if chance(rng, 60) {
		s.set("ldap.bind_user", pick(rng, "ldapuser", "cn=reader,dc=example,dc=org"))
		s.set("ldap.bind_password", pick(rng, "ldappassword", "p@ss word#1", word(rng, 12)))
	}
	if chance(rng, 50) {
		s.set("ldap.username_attribute", pick(rng, "sAMAccountName", "uid", "cn"))
	}
	if chance(rng, 50) {
		s.set("ldap.groups_query", pick(rng, "(memberOf=CN=bazel-users,OU=Groups,OU=My Users,DC=example,DC=com)", "(cn=dev)"))
	}
	if chance(rng, 60) {
		s.set("ldap.cache_time", strconv.Itoa(1+rng.IntN(100000)))
		s.tag("ldap.cache_time")
	}
}

func genS3(rng *rand.Rand, s *settingSet) {
	s.set("s3.bucket", "bkt-"+word(rng, 6))
	if chance(rng, 80) {
		s.set("s3.endpoint", pick(rng, "minio.example.com:9000", "s3.amazonaws.com", "127.0.0.1:9000"))
	}
	if chance(rng, 50) {
		s.set("s3.prefix", pick(rng, "test-prefix", "a/b/c", word(rng, 5)))
	}
	if chance(rng, 40) {
		s.set("s3.bucket_lookup_type", pick(rng, "auto", "dns", "path"))
	}
	if chance(rng, 40) {
		s.set("s3.disable_ssl", boolStr(rng))
	}
	if chance(rng, 40) {
		s.set("s3.update_timestamps", boolStr(rng))
	}
	if chance(rng, 40) {
		s.set("s3.max_idle_conns", strconv.Itoa(1+rng.IntN(5000)))
	}
	m := pick(rng, "iam_role", "access_key", "aws_credentials_file")
	s.set("s3.auth_method", m)
	switch m {
	case "access_key":
		s.set("s3.access_key_id", "AK"+word(rng, 10))
		s.set("s3.secret_access_key", word(rng, 20)+"/+="+word(rng, 3))
		if chance(rng, 40) {
			s.set("s3.session_token", word(rng, 16))
		}
		if chance(rng, 50) {
			s.set("s3.signature_type", pick(rng, "v2", "v4", "v4streaming", "anonymous"))
		}
	case "iam_role":
		if chance(rng, 60) {
			s.set("s3.iam_role_endpoint", "http://169.254.169.254")
		}
		if chance(rng, 60) {
			s.set("s3.region", pick(rng, "us-east-1", "eu-central-1"))
		}
	default:
		if chance(rng, 70) {
			s.set("s3.aws_shared_credentials_file", pathStr(rng, "aws-credentials"))
		}
		if chance(rng, 60) {
			s.set("s3.aws_profile", pick(rng, "my-profile", "default", word(rng, 5)))
		}
	}
	s.tag("proxy=s3/" + m)
}

func genAzblob(rng *rand.Rand, s *settingSet) {
	m := pick(rng, "client_certificate", "client_secret", "environment_credential", "shared_key", "default")
	s.set("azblob.storage_account", "acct"+word(rng, 5))
	s.set("azblob.container_name", "cont-"+word(rng, 5))
	s.set("azblob.auth_method", m)
	tenant := true
	switch m {
	case "shared_key":
		s.set("azblob.shared_key", word(rng, 24)+"==")
		// The tenant id is not needed for shared-key authentication and the
		// README does not call it required.
		tenant = chance(rng, 50)
	case "client_secret":
		s.set("azblob.client_id", "app-"+word(rng, 6))
		s.set("azblob.client_secret", word(rng, 16))
	case "client_certificate":
		s.set("azblob.client_id", "app-"+word(rng, 6))
		s.set("azblob.cert_path", pathStr(rng, "az-cert"))
	}
	if tenant {
		s.set("azblob.tenant_id", "tenant-"+word(rng, 8))
	} else {
		s.tag("azblob-no-tenant_id")
	}
	if chance(rng, 50) {
		s.set("azblob.prefix", pick(rng, "pre", "x/y", word(rng, 4)))
	}
	if chance(rng, 40) {
		s.set("azblob.update_timestamps", boolStr(rng))
	}
	s.tag("proxy=azblob/" + m)
}

func genGCS(rng *rand.Rand, s *settingSet) {
	s.set("gcs_proxy.bucket", "gcs-"+word(rng, 6))
	if chance(rng, 60) {
		s.set("gcs_proxy.use_default_credentials", boolStr(rng))
	}
	if chance(rng, 50) {
		s.set("gcs_proxy.json_credentials_file", pathStr(rng, "gcs-creds")+".json")
	}
	s.tag("proxy=gcs")
}

func genURLProxy(rng *rand.Rand, s *settingSet, proto string) {
	sec := proto + "_proxy."
	switch rng.IntN(4) {
	case 0: // mutual TLS needs the secure scheme
		s.set(sec+"url", fmt.Sprintf("%ss://remote-cache.example.com:%d/%s", proto, port(rng), word(rng, 4)))
		s.set(sec+"cert_file", pathStr(rng, "client-cert"))
		s.set(sec+"key_file", pathStr(rng, "client-key"))
		if chance(rng, 50) {
			s.set(sec+"ca_file", pathStr(rng, "proxy-ca"))
		}
		s.tag("proxy=" + proto + "/mtls")
	case 1:
		s.set(sec+"url", fmt.Sprintf("%ss://user:pw@remote-cache.example.com:%d", proto, port(rng)))
		s.set(sec+"ca_file", pathStr(rng, "proxy-ca"))
		s.tag("proxy=" + proto + "/tls+ca")
	case 2:
		s.set(sec+"url", fmt.Sprintf("%ss://remote-cache.example.com/cache", proto))
		s.tag("proxy=" + proto + "/tls")
	default:
		s.set(sec+"url", fmt.Sprintf("%s://127.0.0.1:%d/%s", proto, port(rng), word(rng, 3)))
		s.tag("proxy=" + proto + "/plain")
	}
}

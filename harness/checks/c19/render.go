package c19

import (
	"fmt"
	"math/rand/v2"
	"regexp"
	"sort"
	"strings"
)

// kv is one explicitly given setting: flag name (table key) and the canonical
// textual value (decimal int, true/false, duration with unit, or the string).
type kv struct {
	Name string `json:"name"`
	Val  string `json:"val"`
}

// settingSet is one case: the explicit settings plus what the generator knows
// about them (which listener addresses they determine, descriptive tags).
type settingSet struct {
	KVs  []kv     `json:"settings"`
	Tags []string `json:"tags"`
	// listener fields that the explicit settings determine on both front ends
	HTTPExplicit, GRPCExplicit, ProfileExplicit bool `json:"-"`
	// ProfileEnabledOnly: the explicit settings decide whether profiling is on,
	// but the host of its address hangs on the omitted profile_host (whose
	// documented defaults differ): only on/off is compared.
	ProfileEnabledOnly bool `json:"-"`
	// Form (forms slice): the combination of spellings under test, part of the
	// finding key; FormPath is the effective field it governs and FormSettings
	// the settings that spell it.
	Form         string   `json:"form,omitempty"`
	FormPath     string   `json:"-"`
	FormSettings []string `json:"-"`
	// BothAliases: the environment rendering sets EVERY documented variable
	// name of a setting (same value), not just one of them.
	BothAliases bool `json:"env_aliases_all,omitempty"`
}

func (s *settingSet) formSettingAmong(names []string) bool {
	for _, n := range names {
		for _, f := range s.FormSettings {
			if n == f {
				return true
			}
		}
	}
	return false
}

func (s *settingSet) get(name string) (string, bool) {
	for _, e := range s.KVs {
		if e.Name == name {
			return e.Val, true
		}
	}
	return "", false
}

func (s *settingSet) has(name string) bool { _, ok := s.get(name); return ok }

func (s *settingSet) set(name, val string) {
	for i := range s.KVs {
		if s.KVs[i].Name == name {
			s.KVs[i].Val = val
			return
		}
	}
	s.KVs = append(s.KVs, kv{name, val})
}

func (s *settingSet) del(names ...string) {
	out := s.KVs[:0]
	for _, e := range s.KVs {
		drop := false
		for _, n := range names {
			if e.Name == n {
				drop = true
			}
		}
		if !drop {
			out = append(out, e)
		}
	}
	s.KVs = out
}

func (s *settingSet) delPrefix(prefix string) {
	out := s.KVs[:0]
	for _, e := range s.KVs {
		if !strings.HasPrefix(e.Name, prefix) {
			out = append(out, e)
		}
	}
	s.KVs = out
}

func (s *settingSet) hasPrefix(prefix string) bool {
	for _, e := range s.KVs {
		if strings.HasPrefix(e.Name, prefix) {
			return true
		}
	}
	return false
}

func (s *settingSet) tag(t string) { s.Tags = append(s.Tags, t) }

func (s *settingSet) hasTag(t string) bool {
	for _, x := range s.Tags {
		if x == t {
			return true
		}
	}
	return false
}

func (s *settingSet) clone() *settingSet {
	c := *s
	c.KVs = append([]kv(nil), s.KVs...)
	c.Tags = append([]string(nil), s.Tags...)
	return &c
}

// rendering is one concrete syntax of a setting set.
type rendering struct {
	Argv []string          `json:"argv,omitempty"`
	Env  map[string]string `json:"env,omitempty"`
	YAML string            `json:"yaml,omitempty"`
}

func shuffled(rng *rand.Rand, in []kv) []kv {
	out := append([]kv(nil), in...)
	rng.Shuffle(len(out), func(i, j int) { out[i], out[j] = out[j], out[i] })
	return out
}

func argvOne(rng *rand.Rand, e kv) []string {
	st := byFlag[e.Name]
	if st.Kind == kBool {
		if e.Val == "true" && rng.IntN(2) == 0 {
			return []string{"--" + e.Name}
		}
		return []string{"--" + e.Name + "=" + e.Val}
	}
	// "--name value" cannot carry a value starting with '-' (negative numbers
	// of the invalid classes): use the "=" form for those.
	if rng.IntN(2) == 0 && !strings.HasPrefix(e.Val, "-") && e.Val != "" {
		return []string{"--" + e.Name, e.Val}
	}
	return []string{"--" + e.Name + "=" + e.Val}
}

// renderArgv: every setting as a command-line flag.
func renderArgv(rng *rand.Rand, s *settingSet) rendering {
	var argv []string
	for _, e := range shuffled(rng, s.KVs) {
		argv = append(argv, argvOne(rng, e)...)
	}
	return rendering{Argv: argv}
}

func envName(rng *rand.Rand, st *setting, alias bool) string {
	if alias && len(st.Env) > 1 {
		return st.Env[rng.IntN(len(st.Env))]
	}
	return st.Env[0]
}

// renderEnv: every setting as an environment variable, empty argv.
func renderEnv(rng *rand.Rand, s *settingSet) rendering {
	env := map[string]string{}
	for _, e := range s.KVs {
		if s.BothAliases {
			for _, n := range byFlag[e.Name].Env {
				env[n] = e.Val
			}
			continue
		}
		env[envName(rng, byFlag[e.Name], true)] = e.Val
	}
	return rendering{Env: env}
}

// renderMixed: each setting arrives either as a flag or as a variable.
func renderMixed(rng *rand.Rand, s *settingSet) rendering {
	env := map[string]string{}
	var argv []string
	for _, e := range shuffled(rng, s.KVs) {
		if rng.IntN(2) == 0 {
			env[envName(rng, byFlag[e.Name], true)] = e.Val
		} else {
			argv = append(argv, argvOne(rng, e)...)
		}
	}
	return rendering{Argv: argv, Env: env}
}

// plainSafe: strings that are unambiguously string scalars when written plain
// (README style: 0.0.0.0:9092, ldaps://ldap.example.com:636, path/to/tls.cert, 15s).
var plainSafe = regexp.MustCompile(`^([A-Za-z/][A-Za-z0-9_/.:-]*[A-Za-z0-9_/.-]|[A-Za-z/]|\d+\.\d+\.\d+\.\d+:\d+|\d+[smh])$`)

// yamlReserved: plain scalars that YAML 1.1/1.2 resolvers do not read as strings.
var yamlReserved = map[string]bool{"true": true, "false": true, "null": true, "yes": true, "no": true, "on": true, "off": true,
	"y": true, "n": true, "nan": true, "inf": true}

// yamlString writes a string scalar in one of the three YAML styles; the
// harness's own emitter (JSON-compatible double quotes, doubled apostrophes inside single
// quotes), independent of the library that parses it.
func yamlString(rng *rand.Rand, v string) string {
	style := rng.IntN(3)
	if style == 0 && plainSafe.MatchString(v) && !yamlReserved[strings.ToLower(v)] {
		return v
	}
	if style == 1 && !strings.ContainsAny(v, "\n\t\\") {
		return "'" + strings.ReplaceAll(v, "'", "''") + "'"
	}
	var b strings.Builder
	b.WriteByte('"')
	for _, c := range v {
		switch c {
		case '"':
			b.WriteString(`\"`)
		case '\\':
			b.WriteString(`\\`)
		case '\n':
			b.WriteString(`\n`)
		case '\t':
			b.WriteString(`\t`)
		default:
			b.WriteRune(c)
		}
	}
	b.WriteByte('"')
	return b.String()
}

func yamlScalar(rng *rand.Rand, st *setting, v string) string {
	switch st.Kind {
	case kInt, kBool:
		return v
	default:
		return yamlString(rng, v)
	}
}

// renderYAML: every setting as a key of a configuration document. Sections
// are grouped; the order of top-level entries and of keys inside a section is
// random; comments and blank lines are sprinkled in.
func renderYAML(rng *rand.Rand, s *settingSet) rendering {
	type entry struct {
		key   string
		lines []string
	}
	sections := map[string][]string{}
	var entries []entry
	for _, e := range shuffled(rng, s.KVs) {
		st := byFlag[e.Name]
		if st.YAML == "" {
			panic("setting " + e.Name + " has no YAML key")
		}
		parts := strings.SplitN(st.YAML, ".", 2)
		if len(parts) == 1 {
			entries = append(entries, entry{parts[0], []string{fmt.Sprintf("%s: %s", parts[0], yamlScalar(rng, st, e.Val))}})
			continue
		}
		sections[parts[0]] = append(sections[parts[0]], fmt.Sprintf("  %s: %s", parts[1], yamlScalar(rng, st, e.Val)))
	}
	secNames := make([]string, 0, len(sections))
	for n := range sections {
		secNames = append(secNames, n)
	}
	sort.Strings(secNames)
	for _, n := range secNames {
		entries = append(entries, entry{n, append([]string{n + ":"}, sections[n]...)})
	}
	rng.Shuffle(len(entries), func(i, j int) { entries[i], entries[j] = entries[j], entries[i] })
	var b strings.Builder
	if rng.IntN(3) == 0 {
		b.WriteString("# generated by the C19 check\n")
	}
	for _, en := range entries {
		if rng.IntN(8) == 0 {
			b.WriteString("\n")
		}
		for _, l := range en.lines {
			b.WriteString(l)
			b.WriteString("\n")
		}
	}
	return rendering{YAML: b.String()}
}

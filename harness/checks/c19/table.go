// Package c19 checks property C19: a setting given explicitly means the same
// whether it arrives as a command-line flag, an environment variable or a YAML
// key (including the deprecated host/port forms), and set-ups from the invalid
// classes of the statement are refused at start-up by both front ends and by
// the real binary.
//
// The oracle is the table below. It is transcribed from /repo/README.md
// ("Command line flags" help text and "Example configuration file"), NOT from
// utils/flags/flags.go or the yaml struct tags.
package c19

type kind int

const (
	kStr  kind = iota
	kInt       // decimal integer
	kBool      // true / false
	kDur       // Go duration with a unit (README: "Units can be one of: s, m, h")
)

// setting is one documented configuration setting.
type setting struct {
	Flag string   // flag name without dashes, as printed by --help in the README
	Env  []string // [$VARS] printed after the help text, in README order
	// YAML is the dotted key path in the configuration file. yamlDoc tells where
	// the spelling comes from: "example" = the key appears literally in the
	// README example file; "convention" = the README example is silent and the
	// key is spelled by the convention every documented key follows (top-level
	// key == flag name; "--s3.x" -> "s3_proxy.x", "--azblob.x" ->
	// "azblob_proxy.x", other dotted flags keep their section name).
	YAML    string
	yamlDoc string
	Kind    kind
	Legal   []string // documented legal values, when the README enumerates them
	Default string   // documented flag default ("" = none / empty)
	// yamlDefaultSame: the README documents the same default for the YAML key
	// (comment in the example file). Only matters for nested settings, see
	// cmpWhenOmitted.
	yamlDefaultSame bool
	Deprecated      bool
}

const (
	ex = "example"
	cv = "convention"
)

// table: README.md lines 149-457 (flags, env vars, defaults, legal values) and
// 464-649 (YAML keys).
var table = []setting{
	{Flag: "dir", Env: []string{"BAZEL_REMOTE_DIR"}, YAML: "dir", yamlDoc: ex, Kind: kStr},
	{Flag: "max_size", Env: []string{"BAZEL_REMOTE_MAX_SIZE"}, YAML: "max_size", yamlDoc: ex, Kind: kInt, Default: "0"},
	// max_size_hard_limit is documented for the YAML file only (README 469-479);
	// the flag help in the README does not list it. The flag / env spelling
	// follows the convention of every other top-level setting. Only explicit
	// positive values are generated (the -1 / 0 spelling of "no hard limit" is
	// outside the property).
	{Flag: "max_size_hard_limit", Env: []string{"BAZEL_REMOTE_MAX_SIZE_HARD_LIMIT"}, YAML: "max_size_hard_limit", yamlDoc: ex, Kind: kInt},
	{Flag: "storage_mode", Env: []string{"BAZEL_REMOTE_STORAGE_MODE"}, YAML: "storage_mode", yamlDoc: ex, Kind: kStr,
		Legal: []string{"zstd", "uncompressed"}, Default: "zstd"},
	{Flag: "zstd_implementation", Env: []string{"BAZEL_REMOTE_ZSTD_IMPLEMENTATION"}, YAML: "zstd_implementation", yamlDoc: cv, Kind: kStr,
		Legal: []string{"cgo", "go"}, Default: "go"},
	{Flag: "http_address", Env: []string{"BAZEL_REMOTE_HTTP_ADDRESS"}, YAML: "http_address", yamlDoc: ex, Kind: kStr},
	{Flag: "host", Env: []string{"BAZEL_REMOTE_HOST"}, YAML: "host", yamlDoc: cv, Kind: kStr, Deprecated: true},
	{Flag: "port", Env: []string{"BAZEL_REMOTE_PORT"}, YAML: "port", yamlDoc: cv, Kind: kInt, Default: "8080", Deprecated: true},
	{Flag: "grpc_address", Env: []string{"BAZEL_REMOTE_GRPC_ADDRESS"}, YAML: "grpc_address", yamlDoc: ex, Kind: kStr},
	{Flag: "grpc_port", Env: []string{"BAZEL_REMOTE_GRPC_PORT"}, YAML: "grpc_port", yamlDoc: cv, Kind: kInt, Default: "9092", Deprecated: true},
	{Flag: "profile_address", Env: []string{"BAZEL_REMOTE_PROFILE_ADDRESS"}, YAML: "profile_address", yamlDoc: ex, Kind: kStr},
	{Flag: "profile_host", Env: []string{"BAZEL_REMOTE_PROFILE_HOST"}, YAML: "profile_host", yamlDoc: ex, Kind: kStr, Default: "127.0.0.1", Deprecated: true},
	{Flag: "profile_port", Env: []string{"BAZEL_REMOTE_PROFILE_PORT"}, YAML: "profile_port", yamlDoc: ex, Kind: kInt, Default: "0", Deprecated: true},
	{Flag: "http_read_timeout", Env: []string{"BAZEL_REMOTE_HTTP_READ_TIMEOUT"}, YAML: "http_read_timeout", yamlDoc: ex, Kind: kDur, Default: "0s"},
	{Flag: "http_write_timeout", Env: []string{"BAZEL_REMOTE_HTTP_WRITE_TIMEOUT"}, YAML: "http_write_timeout", yamlDoc: ex, Kind: kDur, Default: "0s"},
	{Flag: "htpasswd_file", Env: []string{"BAZEL_REMOTE_HTPASSWD_FILE"}, YAML: "htpasswd_file", yamlDoc: ex, Kind: kStr},
	{Flag: "min_tls_version", Env: []string{"BAZEL_REMOTE_MIN_TLS_VERSION"}, YAML: "min_tls_version", yamlDoc: ex, Kind: kStr,
		Legal: []string{"1.0", "1.1", "1.2", "1.3"}, Default: "1.0"},
	{Flag: "tls_ca_file", Env: []string{"BAZEL_REMOTE_TLS_CA_FILE"}, YAML: "tls_ca_file", yamlDoc: ex, Kind: kStr},
	{Flag: "tls_cert_file", Env: []string{"BAZEL_REMOTE_TLS_CERT_FILE"}, YAML: "tls_cert_file", yamlDoc: ex, Kind: kStr},
	{Flag: "tls_key_file", Env: []string{"BAZEL_REMOTE_TLS_KEY_FILE"}, YAML: "tls_key_file", yamlDoc: ex, Kind: kStr},
	{Flag: "allow_unauthenticated_reads", Env: []string{"BAZEL_REMOTE_UNAUTHENTICATED_READS"}, YAML: "allow_unauthenticated_reads", yamlDoc: ex, Kind: kBool, Default: "false"},
	{Flag: "idle_timeout", Env: []string{"BAZEL_REMOTE_IDLE_TIMEOUT"}, YAML: "idle_timeout", yamlDoc: ex, Kind: kDur, Default: "0s"},
	{Flag: "max_queued_uploads", Env: []string{"BAZEL_REMOTE_MAX_QUEUED_UPLOADS"}, YAML: "max_queued_uploads", yamlDoc: ex, Kind: kInt, Default: "1000000"},
	{Flag: "max_blob_size", Env: []string{"BAZEL_REMOTE_MAX_BLOB_SIZE"}, YAML: "max_blob_size", yamlDoc: ex, Kind: kInt, Default: "9223372036854775807"},
	{Flag: "max_proxy_blob_size", Env: []string{"BAZEL_REMOTE_MAX_PROXY_BLOB_SIZE"}, YAML: "max_proxy_blob_size", yamlDoc: cv, Kind: kInt, Default: "9223372036854775807"},
	{Flag: "num_uploaders", Env: []string{"BAZEL_REMOTE_NUM_UPLOADERS"}, YAML: "num_uploaders", yamlDoc: ex, Kind: kInt, Default: "100"},

	{Flag: "grpc_proxy.url", Env: []string{"BAZEL_REMOTE_GRPC_PROXY_URL"}, YAML: "grpc_proxy.url", yamlDoc: ex, Kind: kStr},
	{Flag: "grpc_proxy.key_file", Env: []string{"BAZEL_REMOTE_GRPC_PROXY_KEY_FILE"}, YAML: "grpc_proxy.key_file", yamlDoc: ex, Kind: kStr},
	{Flag: "grpc_proxy.cert_file", Env: []string{"BAZEL_REMOTE_GRPC_PROXY_CERT_FILE"}, YAML: "grpc_proxy.cert_file", yamlDoc: ex, Kind: kStr},
	{Flag: "grpc_proxy.ca_file", Env: []string{"BAZEL_REMOTE_GRPC_PROXY_CA_FILE"}, YAML: "grpc_proxy.ca_file", yamlDoc: ex, Kind: kStr},
	{Flag: "http_proxy.url", Env: []string{"BAZEL_REMOTE_HTTP_PROXY_URL"}, YAML: "http_proxy.url", yamlDoc: ex, Kind: kStr},
	{Flag: "http_proxy.key_file", Env: []string{"BAZEL_REMOTE_HTTP_PROXY_KEY_FILE"}, YAML: "http_proxy.key_file", yamlDoc: ex, Kind: kStr},
	{Flag: "http_proxy.cert_file", Env: []string{"BAZEL_REMOTE_HTTP_PROXY_CERT_FILE"}, YAML: "http_proxy.cert_file", yamlDoc: ex, Kind: kStr},
	{Flag: "http_proxy.ca_file", Env: []string{"BAZEL_REMOTE_HTTP_PROXY_CA_FILE"}, YAML: "http_proxy.ca_file", yamlDoc: ex, Kind: kStr},
	{Flag: "gcs_proxy.bucket", Env: []string{"BAZEL_REMOTE_GCS_BUCKET"}, YAML: "gcs_proxy.bucket", yamlDoc: ex, Kind: kStr},
	{Flag: "gcs_proxy.use_default_credentials", Env: []string{"BAZEL_REMOTE_GCS_USE_DEFAULT_CREDENTIALS"}, YAML: "gcs_proxy.use_default_credentials", yamlDoc: ex, Kind: kBool, Default: "false"},
	{Flag: "gcs_proxy.json_credentials_file", Env: []string{"BAZEL_REMOTE_GCS_JSON_CREDENTIALS_FILE"}, YAML: "gcs_proxy.json_credentials_file", yamlDoc: ex, Kind: kStr},

	{Flag: "ldap.url", Env: []string{"BAZEL_REMOTE_LDAP_URL"}, YAML: "ldap.url", yamlDoc: ex, Kind: kStr},
	{Flag: "ldap.base_dn", Env: []string{"BAZEL_REMOTE_LDAP_BASE_DN"}, YAML: "ldap.base_dn", yamlDoc: ex, Kind: kStr},
	{Flag: "ldap.bind_user", Env: []string{"BAZEL_REMOTE_LDAP_BIND_USER"}, YAML: "ldap.bind_user", yamlDoc: ex, Kind: kStr},
	{Flag: "ldap.bind_password", Env: []string{"BAZEL_REMOTE_LDAP_BIND_PASSWORD"}, YAML: "ldap.bind_password", yamlDoc: ex, Kind: kStr},
	{Flag: "ldap.username_attribute", Env: []string{"BAZEL_REMOTE_LDAP_USER_ATTRIBUTE"}, YAML: "ldap.username_attribute", yamlDoc: ex, Kind: kStr, Default: "uid", yamlDefaultSame: true},
	{Flag: "ldap.groups_query", Env: []string{"BAZEL_REMOTE_LDAP_GROUPS_QUERY"}, YAML: "ldap.groups_query", yamlDoc: ex, Kind: kStr},
	// README: flag "in seconds. (default: 3600)", YAML "cache_time: 3600 # in seconds (default 1 hour)".
	{Flag: "ldap.cache_time", Env: []string{"BAZEL_REMOTE_LDAP_CACHE_TIME"}, YAML: "ldap.cache_time", yamlDoc: ex, Kind: kInt, Default: "3600", yamlDefaultSame: true},

	{Flag: "s3.endpoint", Env: []string{"BAZEL_REMOTE_S3_ENDPOINT"}, YAML: "s3_proxy.endpoint", yamlDoc: ex, Kind: kStr},
	{Flag: "s3.bucket", Env: []string{"BAZEL_REMOTE_S3_BUCKET"}, YAML: "s3_proxy.bucket", yamlDoc: ex, Kind: kStr},
	{Flag: "s3.bucket_lookup_type", Env: []string{"BAZEL_REMOTE_S3_BUCKET_LOOKUP_TYPE"}, YAML: "s3_proxy.bucket_lookup_type", yamlDoc: ex, Kind: kStr,
		Legal: []string{"auto", "dns", "path"}, Default: "auto"},
	{Flag: "s3.prefix", Env: []string{"BAZEL_REMOTE_S3_PREFIX"}, YAML: "s3_proxy.prefix", yamlDoc: ex, Kind: kStr},
	// The flag help enumerates iam_role, access_key, aws_credentials_file (the
	// YAML example says "credentials_file" in one place; the flag list is used).
	{Flag: "s3.auth_method", Env: []string{"BAZEL_REMOTE_S3_AUTH_METHOD"}, YAML: "s3_proxy.auth_method", yamlDoc: ex, Kind: kStr,
		Legal: []string{"iam_role", "access_key", "aws_credentials_file"}},
	{Flag: "s3.access_key_id", Env: []string{"BAZEL_REMOTE_S3_ACCESS_KEY_ID"}, YAML: "s3_proxy.access_key_id", yamlDoc: ex, Kind: kStr},
	{Flag: "s3.secret_access_key", Env: []string{"BAZEL_REMOTE_S3_SECRET_ACCESS_KEY"}, YAML: "s3_proxy.secret_access_key", yamlDoc: ex, Kind: kStr},
	{Flag: "s3.session_token", Env: []string{"BAZEL_REMOTE_S3_SESSION_TOKEN"}, YAML: "s3_proxy.session_token", yamlDoc: ex, Kind: kStr},
	{Flag: "s3.signature_type", Env: []string{"BAZEL_REMOTE_S3_SIGNATURE_TYPE"}, YAML: "s3_proxy.signature_type", yamlDoc: ex, Kind: kStr,
		Legal: []string{"v2", "v4", "v4streaming", "anonymous"}, Default: "v4"},
	{Flag: "s3.aws_shared_credentials_file", Env: []string{"BAZEL_REMOTE_S3_AWS_SHARED_CREDENTIALS_FILE", "AWS_SHARED_CREDENTIALS_FILE"}, YAML: "s3_proxy.aws_shared_credentials_file", yamlDoc: ex, Kind: kStr},
	{Flag: "s3.aws_profile", Env: []string{"BAZEL_REMOTE_S3_AWS_PROFILE", "AWS_PROFILE"}, YAML: "s3_proxy.aws_profile", yamlDoc: ex, Kind: kStr, Default: "default"},
	{Flag: "s3.disable_ssl", Env: []string{"BAZEL_REMOTE_S3_DISABLE_SSL"}, YAML: "s3_proxy.disable_ssl", yamlDoc: ex, Kind: kBool, Default: "false"},
	{Flag: "s3.update_timestamps", Env: []string{"BAZEL_REMOTE_S3_UPDATE_TIMESTAMPS"}, YAML: "s3_proxy.update_timestamps", yamlDoc: cv, Kind: kBool, Default: "false"},
	{Flag: "s3.iam_role_endpoint", Env: []string{"BAZEL_REMOTE_S3_IAM_ROLE_ENDPOINT"}, YAML: "s3_proxy.iam_role_endpoint", yamlDoc: ex, Kind: kStr},
	{Flag: "s3.region", Env: []string{"BAZEL_REMOTE_S3_REGION"}, YAML: "s3_proxy.region", yamlDoc: ex, Kind: kStr},
	// s3.key_version: deprecated, "2 is the only supported value", no YAML key
	// documented: never generated.
	{Flag: "s3.key_version", Env: []string{"BAZEL_REMOTE_S3_KEY_VERSION"}, YAML: "", Kind: kInt, Default: "2", Deprecated: true},
	{Flag: "s3.max_idle_conns", Env: []string{"BAZEL_REMOTE_S3_MAX_IDLE_CONNS"}, YAML: "s3_proxy.max_idle_conns", yamlDoc: ex, Kind: kInt, Default: "1024"},

	{Flag: "azblob.tenant_id", Env: []string{"BAZEL_REMOTE_AZBLOB_TENANT_ID", "AZURE_TENANT_ID"}, YAML: "azblob_proxy.tenant_id", yamlDoc: ex, Kind: kStr},
	{Flag: "azblob.storage_account", Env: []string{"BAZEL_REMOTE_AZBLOB_STORAGE_ACCOUNT"}, YAML: "azblob_proxy.storage_account", yamlDoc: ex, Kind: kStr},
	{Flag: "azblob.container_name", Env: []string{"BAZEL_REMOTE_AZBLOB_CONTAINER_NAME"}, YAML: "azblob_proxy.container_name", yamlDoc: ex, Kind: kStr},
	{Flag: "azblob.prefix", Env: []string{"BAZEL_REMOTE_AZBLOB_PREFIX"}, YAML: "azblob_proxy.prefix", yamlDoc: cv, Kind: kStr},
	{Flag: "azblob.update_timestamps", Env: []string{"BAZEL_REMOTE_AZBLOB_UPDATE_TIMESTAMPS"}, YAML: "azblob_proxy.update_timestamps", yamlDoc: cv, Kind: kBool, Default: "false"},
	{Flag: "azblob.auth_method", Env: []string{"BAZEL_REMOTE_AZBLOB_AUTH_METHOD"}, YAML: "azblob_proxy.auth_method", yamlDoc: ex, Kind: kStr,
		Legal: []string{"client_certificate", "client_secret", "environment_credential", "shared_key", "default"}},
	{Flag: "azblob.shared_key", Env: []string{"BAZEL_REMOTE_AZBLOB_SHARED_KEY", "AZURE_STORAGE_ACCOUNT_KEY"}, YAML: "azblob_proxy.shared_key", yamlDoc: ex, Kind: kStr},
	{Flag: "azblob.client_id", Env: []string{"BAZEL_REMOTE_AZBLOB_CLIENT_ID", "AZURE_CLIENT_ID"}, YAML: "azblob_proxy.client_id", yamlDoc: ex, Kind: kStr},
	{Flag: "azblob.client_secret", Env: []string{"BAZEL_REMOTE_AZBLOB_SECRET_CLIENT_SECRET", "AZURE_CLIENT_SECRET"}, YAML: "azblob_proxy.client_secret", yamlDoc: ex, Kind: kStr},
	{Flag: "azblob.cert_path", Env: []string{"BAZEL_REMOTE_AZBLOB_CERT_PATH", "AZURE_CLIENT_CERTIFICATE_PATH"}, YAML: "azblob_proxy.cert_path", yamlDoc: ex, Kind: kStr},

	{Flag: "disable_http_ac_validation", Env: []string{"BAZEL_REMOTE_DISABLE_HTTP_AC_VALIDATION"}, YAML: "disable_http_ac_validation", yamlDoc: ex, Kind: kBool, Default: "false"},
	// sic: the README prints ..._DISABLE_GRPS_AC_DEPS_CHECK.
	{Flag: "disable_grpc_ac_deps_check", Env: []string{"BAZEL_REMOTE_DISABLE_GRPS_AC_DEPS_CHECK"}, YAML: "disable_grpc_ac_deps_check", yamlDoc: ex, Kind: kBool, Default: "false"},
	{Flag: "enable_ac_key_instance_mangling", Env: []string{"BAZEL_REMOTE_ENABLE_AC_KEY_INSTANCE_MANGLING"}, YAML: "enable_ac_key_instance_mangling", yamlDoc: cv, Kind: kBool, Default: "false"},
	{Flag: "enable_endpoint_metrics", Env: []string{"BAZEL_REMOTE_ENABLE_ENDPOINT_METRICS"}, YAML: "enable_endpoint_metrics", yamlDoc: ex, Kind: kBool, Default: "false"},
	{Flag: "http_metrics_prefix", Env: []string{"BAZEL_REMOTE_HTTP_METRICS_PREFIX"}, YAML: "http_metrics_prefix", yamlDoc: cv, Kind: kBool, Default: "false"},
	{Flag: "experimental_remote_asset_api", Env: []string{"BAZEL_REMOTE_EXPERIMENTAL_REMOTE_ASSET_API"}, YAML: "experimental_remote_asset_api", yamlDoc: ex, Kind: kBool, Default: "false"},
	{Flag: "access_log_level", Env: []string{"BAZEL_REMOTE_ACCESS_LOG_LEVEL"}, YAML: "access_log_level", yamlDoc: ex, Kind: kStr,
		Legal: []string{"none", "all"}, Default: "all"},
	{Flag: "log_timezone", Env: []string{"BAZEL_REMOTE_LOG_TIMEZONE"}, YAML: "log_timezone", yamlDoc: ex, Kind: kStr,
		Legal: []string{"UTC", "local", "none"}, Default: "UTC"},
}

// configFileEnv / configFileFlag: README 149-150.
const (
	configFileFlag = "config_file"
	configFileEnv  = "BAZEL_REMOTE_CONFIG_FILE"
)

var byFlag = func() map[string]*setting {
	m := map[string]*setting{}
	for i := range table {
		m[table[i].Flag] = &table[i]
	}
	return m
}()

// listenerPaths are the effective listener address fields. Their values for
// OMITTED settings intentionally differ between the front ends (flag defaults
// 8080 / 9092 / profile host 127.0.0.1 versus nothing in the YAML path) and are
// outside the property; they are compared only when the set determines them
// explicitly.
var listenerPaths = map[string]bool{"http_address": true, "grpc_address": true, "profile_address": true}

// cmpWhenOmitted says whether the effective field of a setting that was NOT
// given is still compared between the front ends ("fields whose documented
// defaults coincide"). Excluded: listener addresses, the hard limit (-1 vs 0
// both mean "none"), and nested settings for which the README documents a
// non-empty flag default but no YAML default (s3.bucket_lookup_type,
// s3.signature_type, s3.aws_profile, s3.max_idle_conns, s3.key_version).
func cmpWhenOmitted(s *setting) bool {
	if s.Deprecated || s.YAML == "" {
		return false
	}
	if listenerPaths[s.YAML] || s.Flag == "max_size_hard_limit" {
		return false
	}
	nested := false
	for _, c := range s.Flag {
		if c == '.' {
			nested = true
		}
	}
	if nested && s.Default != "" && s.Default != "false" && !s.yamlDefaultSame {
		return false
	}
	return true
}

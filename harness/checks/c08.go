package checks

import (
	"bytes"
	"context"
	"fmt"
	"io"
	"math/rand/v2"
	"net/http"
	"os"
	"path/filepath"
	"sort"
	"strings"
	"sync"
	"syscall"
	"time"

	"verif/harness/lib"

	"github.com/buchgr/bazel-remote/v2/cache"
	"github.com/buchgr/bazel-remote/v2/cache/disk"
	pb "github.com/buchgr/bazel-remote/v2/genproto/build/bazel/remote/execution/v2"
	bspb "google.golang.org/genproto/googleapis/bytestream"
	"google.golang.org/protobuf/proto"
)

// C08 — kill at any point and restart. A process kill leaves exactly the
// file-system state produced by the system calls completed so far, so crash
// images are taken in process: the cache directory is copied at instants when
// the operation under test is stopped inside a harness callback (k-th Read of
// the upload reader / backend stream) or at a tag-guarded hook point, with the
// background remover gated. Each image is restarted with the real loader and
// read back. Real SIGKILLs of child servers validate that the images are
// faithful and exercise the real restart path.

type c08Entry struct {
	kind  cache.EntryKind
	hash  string
	value []byte // latest acknowledged value
}

type c08Image struct {
	dir     string
	point   string   // crash point class
	indexed []string // lookup keys indexed at the crash instant
	// acked: the image was taken after the operation under test had been acknowledged to its client
	acked bool
	// files of the in-flight key in the image; tie: two of them carry the same access time (which of them the loader
	// keeps is then not determined by the directory)
	keyFiles int
	tie      bool
}

type c08Case struct {
	r        *lib.Run
	rng      *rand.Rand
	id       string
	op       string
	before   string // storage mode before the crash
	after    string // storage mode after the restart
	max      int64
	acked    map[string]*c08Entry // lookup key -> acknowledged entry
	inflight *c08Entry            // the operation under test (new value)
	oldValue []byte               // previous acknowledged value of the in-flight key (overwrite), nil if none
	images   []c08Image
	log      []string
	hc       *lib.HookCtl
	imgNo    int
	opAcked  bool // the operation under test has returned success
}

func (c *c08Case) detail(img *c08Image, extra any) map[string]any {
	d := map[string]any{"case": c.id, "op": c.op, "mode_before": c.before, "mode_after": c.after, "max_size": c.max, "events": c.log, "observed": extra}
	if img != nil {
		d["crash_point"] = img.point
	}
	if c.inflight != nil {
		d["inflight_key"] = cache.LookupKey(c.inflight.kind, c.inflight.hash)
		d["inflight_size"] = len(c.inflight.value)
	}
	return d
}

// copyFiles makes dst the image of src that a process kill at this instant would leave: same files, same bytes and
// the same access / modification times (the loader orders entries by access time, and of two files of one key the
// later one wins), copied in a deterministic order.
func copyFiles(src, dst string) error {
	files, err := lib.ListFiles(src)
	if err != nil {
		return err
	}
	rels := make([]string, 0, len(files))
	for rel := range files {
		rels = append(rels, rel)
	}
	sort.Strings(rels)
	for _, rel := range rels {
		sp := filepath.Join(src, rel)
		fi, err := os.Stat(sp) // before reading (a read may move the access time)
		if err != nil {
			continue // unlinked meanwhile
		}
		b, err := readFileNoAtime(sp) // taking the image must not itself change what a later image would show
		if err != nil {
			continue // unlinked meanwhile
		}
		p := filepath.Join(dst, rel)
		_ = os.MkdirAll(filepath.Dir(p), 0o755)
		if err := os.WriteFile(p, b, 0o644); err != nil {
			return err
		}
		if err := os.Chtimes(p, fileAtime(fi), fi.ModTime()); err != nil {
			return err
		}
	}
	return nil
}

func readFileNoAtime(p string) ([]byte, error) {
	f, err := os.OpenFile(p, os.O_RDONLY|syscall.O_NOATIME, 0)
	if err != nil {
		f, err = os.Open(p)
		if err != nil {
			return nil, err
		}
	}
	defer func() { _ = f.Close() }()
	return io.ReadAll(f)
}

func fileAtime(fi os.FileInfo) time.Time {
	if st, ok := fi.Sys().(*syscall.Stat_t); ok {
		return time.Unix(int64(st.Atim.Sec), int64(st.Atim.Nsec))
	}
	return fi.ModTime()
}

// keyFilesOf lists the files of one key in a cache directory (AC/RAW: <hash>-<random>; CAS: <hash>-<size>-<random> and
// <hash>-<random>.v1) and reports whether two of them have the same access time.
func keyFilesOf(dir string, kind cache.EntryKind, hash string) (n int, tie bool) {
	des, _ := os.ReadDir(filepath.Join(dir, kind.DirName(), hash[:2]))
	seen := map[int64]bool{}
	for _, de := range des {
		if !strings.HasPrefix(de.Name(), hash) {
			continue
		}
		fi, err := de.Info()
		if err != nil {
			continue
		}
		n++
		t := fileAtime(fi).UnixNano()
		if seen[t] {
			tie = true
		}
		seen[t] = true
	}
	return n, tie
}

func (c *c08Case) snap(live disk.Cache, pool *lib.DirPool, point string) {
	if len(c.images) >= 24 {
		return
	}
	s := lib.Snapshot(live)
	img := c08Image{dir: pool.Get(), point: point}
	for _, e := range s.Entries {
		img.indexed = append(img.indexed, e.Key)
	}
	if err := copyFiles(s.Dir, img.dir); err != nil {
		c.r.Inconclusive("image copy: " + err.Error())
		return
	}
	img.acked = c.opAcked
	img.keyFiles, img.tie = keyFilesOf(img.dir, c.inflight.kind, c.inflight.hash)
	c.images = append(c.images, img)
}

// pieceReader hands out data in pieces and calls back before every Read
// (including the final one that returns EOF).
type pieceReader struct {
	data  []byte
	piece int
	pos   int
	calls int
	cb    func(call int, delivered int)
}

func (p *pieceReader) Read(b []byte) (int, error) {
	p.calls++
	if p.cb != nil {
		p.cb(p.calls, p.pos)
	}
	if p.pos >= len(p.data) {
		return 0, io.EOF
	}
	n := p.piece
	if n > len(b) {
		n = len(b)
	}
	if n > len(p.data)-p.pos {
		n = len(p.data) - p.pos
	}
	copy(b, p.data[p.pos:p.pos+n])
	p.pos += n
	return n, nil
}

func pointClass(call, delivered, total int) string {
	switch {
	case delivered == 0:
		return "file-created"
	case delivered >= total:
		return "all-data-written-before-finalise"
	default:
		return "mid-write"
	}
}

// judgeImage restarts one crash image and applies the oracle.
func (c *c08Case) judgeImage(img *c08Image, bigMax bool) {
	r := c.r
	max := c.max
	if bigMax {
		max = 4 * c.max
	}
	r.Eval()
	r.Distinct(c.op, img.point, c.before, c.after, lib.SizeClassName(len(c.inflight.value)))
	r.Count("images." + c.op + "." + img.point)
	// Finding keys name the failing input class: the on-disk format of the interrupted entry (what decides whether a
	// partial file can be told from a complete one) and the symptom; for AC/RAW entries (one read path only) also the
	// crash-point class; operation and details go into the detail.
	format := c.inflight.kind.String()
	if c.inflight.kind == cache.CAS {
		format = map[string]string{"zstd": "cas-compressed", "uncompressed": "cas-raw-v1"}[c.before]
	}
	keyBase := "C08:" + format
	if c.op == "bad-upload" {
		keyBase += ":bad-upload" // the interrupted upload carried bytes that do not match its digest: nothing of it may ever be served
	}
	pointSuffix := ""
	if c.inflight.kind != cache.CAS {
		pointSuffix = ":" + img.point
	}
	inKey := cache.LookupKey(c.inflight.kind, c.inflight.hash)
	inSize := int64(len(c.inflight.value))
	// On a share of the images the restarted instance is a full in-process server (HTTP + gRPC front ends): the first
	// request after the restart is then the client's repeat of the interrupted upload (CAS), or the front-end reads of
	// the action cache (AC).
	opts := lib.ServerOpts{Dir: img.dir, MaxSize: max, Storage: c.after, KeepDir: true}
	var cch disk.Cache
	var srv *lib.Server
	if c.imgNo%4 == 1 && c.inflight.kind != cache.RAW {
		if probe, _, err := lib.NewCache(opts); err != nil {
			r.Violation(keyBase+":startup-failed", "restart on the crash image failed: "+err.Error(), c.detail(img, nil))
			return
		} else {
			_ = probe // the loader accepted the image; the server below loads the same directory once more (a second restart)
			lib.WaitEvictionsDrained(probe, 2*time.Second)
		}
		s2, err := lib.StartServer(opts)
		if err != nil {
			r.Inconclusive("in-process server on a crash image: " + err.Error()) // listeners / client, not the loader (that just succeeded)
			return
		}
		srv, cch = s2, s2.Cache
		defer srv.Close()
		r.Count("restart.with-front-ends")
	} else {
		c2, _, err := lib.NewCache(opts)
		if err != nil {
			r.Violation(keyBase+":startup-failed", "restart on the crash image failed: "+err.Error(), c.detail(img, nil))
			return
		}
		cch = c2
	}
	ctx := context.Background()
	read := func(kind cache.EntryKind, hash string, size int64, zs bool) ([]byte, bool, error) {
		var rc io.ReadCloser
		var err error
		if zs {
			rc, _, err = cch.GetZstd(ctx, hash, size, 0)
		} else {
			rc, _, err = cch.Get(ctx, kind, hash, size, 0)
		}
		if err != nil || rc == nil {
			return nil, false, err
		}
		b, rerr := io.ReadAll(rc)
		_ = rc.Close()
		if rerr == nil && zs {
			b, rerr = lib.ZstdDecodeKP(b)
		}
		return b, true, rerr
	}
	indexed := map[string]bool{}
	for _, k := range img.indexed {
		indexed[k] = true
	}
	restarted := lib.Snapshot(cch) // what the loader indexed, before any read can drop an entry
	// (1) in-flight key: absent or complete on every path; never bytes that no completed upload wrote
	okValues := [][]byte{c.inflight.value}
	if c.op == "bad-upload" {
		okValues = nil
	}
	if c.oldValue != nil {
		okValues = append(okValues, c.oldValue)
	}
	// the upload under test was acknowledged before this image was taken and the restart cannot evict anything: it
	// MUST be served (and, for an overwrite, it is the new value that must be served - unless the loader cannot tell
	// the two files of the key apart by their access times)
	mustServeNew := img.acked && bigMax && c.op != "bad-upload" && c.op != "backend-fetch"
	if mustServeNew && !(c.oldValue != nil && img.tie) {
		okValues = [][]byte{c.inflight.value}
	}
	if img.tie {
		r.Count("images.atime-tie-between-files-of-the-key")
	}
	// an overwrite was in flight (not yet acknowledged): the previously acknowledged value must still be served
	// (or already the new one), never a miss
	oldMustSurvive := c.oldValue != nil && !img.acked && bigMax
	matches := func(b []byte) bool {
		for _, v := range okValues {
			if bytes.Equal(b, v) {
				return true
			}
		}
		return false
	}
	matchesAR := func(res *pb.ActionResult) bool {
		for _, v := range okValues {
			want := &pb.ActionResult{}
			if proto.Unmarshal(v, want) == nil && proto.Equal(res, want) {
				return true
			}
		}
		return false
	}
	// GetActionResult moves inlined stdout/stderr into the CAS (and returns their digests) unless the client asked for
	// them inline: the comparison applies that published transformation to the stored value
	matchesARDeinlined := func(res *pb.ActionResult) bool {
		for _, v := range okValues {
			want := &pb.ActionResult{}
			if proto.Unmarshal(v, want) != nil {
				continue
			}
			if len(res.StdoutRaw) == 0 && len(want.StdoutRaw) > 0 && want.StdoutDigest == nil {
				want.StdoutDigest, want.StdoutRaw = lib.DigestOf(want.StdoutRaw), nil
			}
			if len(res.StderrRaw) == 0 && len(want.StderrRaw) > 0 && want.StderrDigest == nil {
				want.StderrDigest, want.StderrRaw = lib.DigestOf(want.StderrRaw), nil
			}
			if proto.Equal(res, want) {
				return true
			}
		}
		return false
	}
	var lostOn []string // read paths on which a value that must be served was not
	// (0a) first request after the restart = the client repeats the interrupted upload through a front end, as a
	// build client does: FindMissingBlobs, then ByteStream.Write (identity / zstd) or HTTP PUT, then it reads.
	repeatedFirst := false
	if srv != nil && c.inflight.kind == cache.CAS && inSize+8192 < max {
		cctx, cancel := lib.Ctx()
		via := []string{"bytestream-write", "bytestream-write-zstd", "http-put"}[(c.imgNo/4)%3]
		missing, ferr := srv.FindMissing(cctx, &pb.Digest{Hash: c.inflight.hash, SizeBytes: inSize})
		switch {
		case ferr != nil:
			r.Count("repeat-first.findmissing.error")
		case len(missing) == 0:
			r.Count("repeat-first.findmissing.present")
		default:
			r.Count("repeat-first.findmissing.missing")
		}
		var perr error
		switch via {
		case "bytestream-write":
			_, perr = srv.BSWrite(cctx, lib.ResUpload(uuidOf(c.rng), c.inflight.hash, inSize), c.inflight.value, 64*lib.KiB)
		case "bytestream-write-zstd":
			_, perr = srv.BSWrite(cctx, lib.ResUploadZstd(uuidOf(c.rng), c.inflight.hash, inSize), lib.ZstdEncodeKP(c.inflight.value, 1), 64*lib.KiB)
		default:
			if g := srv.HTTPPut("/cas/"+c.inflight.hash, c.inflight.value, nil); g.Err != nil || g.Status != 200 {
				perr = fmt.Errorf("status %d err %v", g.Status, g.Err)
			}
		}
		r.Count("repeat-first." + via + "." + okStr(perr == nil))
		if perr != nil {
			r.Violation(keyBase+":repeat-first:"+via+":failed", "repeating the interrupted upload as the first request after the restart failed: "+perr.Error(), c.detail(img, nil))
		} else {
			repeatedFirst = true
			g := srv.HTTPGet("/cas/"+c.inflight.hash, nil)
			got, rerr := srv.BSRead(cctx, lib.ResBlobs(c.inflight.hash, inSize), 0, 0)
			if g.Status != 200 || !bytes.Equal(g.Body, c.inflight.value) || rerr != nil || !bytes.Equal(got, c.inflight.value) {
				r.Violation(keyBase+":repeat-first:"+via+":acknowledged-but-not-served", fmt.Sprintf("the interrupted upload was repeated as the first request after the restart and acknowledged (FindMissingBlobs before it: missing=%d err=%v), but the blob is not served afterwards: GET -> %d (%d bytes), ByteStream.Read -> %d bytes err=%v; want %d bytes",
					len(missing), ferr, g.Status, len(g.Body), len(got), rerr, inSize), c.detail(img, map[string]any{"via": via}))
			}
		}
		cancel()
	}
	// (0b) on some images: the interrupted upload is repeated by one client while another client is just reading the
	// torn entry (held at the point where it is about to drop it): the repeated, acknowledged upload must survive.
	if c.hc != nil && c.inflight.kind == cache.CAS && c.op != "bad-upload" && c.imgNo%3 == 0 && !repeatedFirst {
		g := c.hc.Gate("get.beforeFailedRemove", inKey, 1)
		done := make(chan struct{})
		go func() {
			defer close(done)
			_, _, _ = read(c.inflight.kind, c.inflight.hash, inSize, false)
		}()
		if g.WaitArrived(300 * time.Millisecond) {
			perr := cch.Put(ctx, c.inflight.kind, c.inflight.hash, inSize, bytes.NewReader(c.inflight.value))
			g.Release()
			<-done
			r.Count("concurrent-repeat.reached")
			if perr == nil {
				repeatedFirst = true
				if b, hit, err := read(c.inflight.kind, c.inflight.hash, -1, false); !hit || err != nil || !bytes.Equal(b, c.inflight.value) {
					r.Violation(keyBase+":repeat-lost-to-concurrent-reader", fmt.Sprintf("the interrupted upload was repeated and acknowledged while another client was reading the torn entry; afterwards it is gone (hit=%v err=%v)", hit, err), c.detail(img, nil))
				}
			}
		} else {
			g.Release()
			<-done
		}
		c.hc.Ungate("get.beforeFailedRemove", inKey)
	}
	if repeatedFirst {
		// the key now holds the repeated, acknowledged upload: that is what every path must serve from here on
		okValues = [][]byte{c.inflight.value}
		oldMustSurvive = false
	}
	if c.inflight.kind == cache.AC {
		// validated lookup (gRPC GetActionResult / HTTP GET+HEAD of /ac): a hit must be one completed upload
		res, _, verr := cch.GetValidatedActionResult(ctx, c.inflight.hash)
		r.Count("inflight.validated-ac." + map[bool]string{true: "hit", false: "absent"}[res != nil])
		if verr == nil && res != nil && !matchesAR(res) {
			r.Violation(keyBase+":served-torn:validated-ac"+pointSuffix, "after restart the validated action-cache lookup answered a hit with a message that no completed upload stored (interrupted upload)", c.detail(img, map[string]any{"returned": res.String()}))
		}
		if res == nil && (mustServeNew || oldMustSurvive) {
			lostOn = append(lostOn, "validated-ac")
		}
		if srv != nil {
			// the same through the front ends
			cctx, cancel := lib.Ctx()
			g := srv.HTTPGet("/ac/"+c.inflight.hash, nil)
			r.Count(fmt.Sprintf("inflight.http-get-ac.%d", g.Status))
			if g.Status == 200 {
				got := &pb.ActionResult{}
				if g.BodyErr != nil || proto.Unmarshal(g.Body, got) != nil || !matchesAR(got) {
					r.Violation(keyBase+":served-torn:http-get-ac"+pointSuffix, fmt.Sprintf("after restart GET /ac/<key> answered 200 with %d bytes that are not an ActionResult stored by a completed upload", len(g.Body)), c.detail(img, nil))
				}
			} else if mustServeNew || oldMustSurvive {
				lostOn = append(lostOn, "http-get-ac")
			}
			ar, gerr := srv.AC.GetActionResult(cctx, &pb.GetActionResultRequest{ActionDigest: &pb.Digest{Hash: c.inflight.hash, SizeBytes: 1}})
			r.Count("inflight.grpc-getactionresult." + lib.Code(gerr).String())
			if gerr == nil && !matchesARDeinlined(ar) {
				r.Violation(keyBase+":served-torn:grpc-getactionresult"+pointSuffix, "after restart GetActionResult returned a message that no completed upload stored", c.detail(img, map[string]any{"returned": ar.String()}))
			} else if gerr != nil && (mustServeNew || oldMustSurvive) {
				lostOn = append(lostOn, "grpc-getactionresult")
			}
			cancel()
		}
	}
	present, _ := cch.Contains(ctx, c.inflight.kind, c.inflight.hash, -1)
	type rd struct {
		name string
		size int64
		zs   bool
	}
	rds := []rd{{"get-unknown-size", -1, false}}
	if c.inflight.kind == cache.CAS {
		rds = append(rds, rd{"get-known-size", inSize, false}, rd{"getzstd", inSize, true})
	}
	anyHit := false
	for _, x := range rds {
		b, hit, err := read(c.inflight.kind, c.inflight.hash, x.size, x.zs)
		r.Count("inflight." + x.name + "." + map[bool]string{true: "hit", false: "absent"}[hit])
		if hit {
			anyHit = true
			if err != nil || !matches(b) {
				r.Violation(keyBase+":served-torn:"+x.name+pointSuffix, fmt.Sprintf("after restart, %s of the key whose upload was in flight at the kill returned %d bytes that are not a completed upload (err=%v; complete value has %d bytes)", x.name, len(b), err, len(c.inflight.value)),
					c.detail(img, map[string]any{"returned_bytes": len(b)}))
				if mustServeNew || oldMustSurvive {
					lostOn = append(lostOn, x.name+"(torn)")
				}
			}
		} else if mustServeNew || oldMustSurvive {
			lostOn = append(lostOn, x.name)
		}
	}
	if present && !anyHit && c.oldValue == nil {
		r.Violation(keyBase+":reported-present-but-unreadable", "after restart the key of the interrupted upload was reported present by Contains/FindMissingBlobs although no read path can deliver it (neither absent nor complete)", c.detail(img, nil))
	}
	if len(lostOn) > 0 && mustServeNew {
		r.Count("acked-inflight.lost")
		r.Violation(keyBase+":just-acknowledged-lost", fmt.Sprintf("the upload under test had been acknowledged when the process was killed (%s), nothing can have been evicted, yet after the restart it is not served on: %v", img.point, lostOn), c.detail(img, map[string]any{"paths": lostOn, "files_of_key": img.keyFiles}))
	} else if mustServeNew {
		r.Count("acked-inflight.served")
	}
	if len(lostOn) > 0 && oldMustSurvive {
		r.Count("overwrite-inflight.old-lost")
		r.Violation(keyBase+":overwrite-in-flight:acknowledged-value-lost", fmt.Sprintf("the key held an acknowledged value and an overwrite / re-upload of it was in flight at the kill (%s, %d files of the key in the directory): after the restart neither the old nor the new complete value is served on: %v", img.point, img.keyFiles, lostOn),
			c.detail(img, map[string]any{"paths": lostOn, "files_of_key": img.keyFiles, "atime_tie": img.tie}))
	} else if oldMustSurvive {
		r.Count("overwrite-inflight.old-or-new-served")
	}
	// (2) acknowledged entries (indexed at the crash instant, nothing evicted when restarting with a larger max_size)
	for k, e := range c.acked {
		if k == inKey || !indexed[k] {
			continue
		}
		b, hit, err := read(e.kind, e.hash, -1, false)
		r.Count("acked.read")
		switch {
		case hit && (err != nil || !bytes.Equal(b, e.value)):
			r.Violation(keyBase+":acked-served-wrong", fmt.Sprintf("acknowledged entry %s reads back differently after the restart (%d bytes, err=%v)", k[:12], len(b), err), c.detail(img, nil))
		case !hit && bigMax:
			r.Violation(keyBase+":acked-lost", fmt.Sprintf("entry %s, acknowledged and indexed before the kill, is gone after the restart although nothing had to be evicted (err=%v)", k[:12], err), c.detail(img, nil))
		}
		if e.kind == cache.CAS && hit {
			if b2, hit2, err2 := read(e.kind, e.hash, int64(len(e.value)), true); hit2 && (err2 != nil || !bytes.Equal(b2, e.value)) {
				r.Violation(keyBase+":acked-served-wrong:getzstd", "acknowledged CAS entry reads back differently through GetZstd after the restart", c.detail(img, nil))
			}
		}
	}
	// (2b) EVERY entry of the restarted index (also files of evicted entries that were still awaiting their unlink and
	// came back): whatever is served must match its digest (CAS) / be a completed upload of that key (AC, RAW)
	for _, e := range restarted.Entries {
		if e.Key == inKey {
			continue
		}
		kind, hash := splitKey(e.Key)
		b, hit, err := read(kind, hash, -1, false)
		r.Count("restarted-entry.read")
		if !hit {
			continue
		}
		okb := err == nil
		if okb && kind == cache.CAS {
			okb = lib.Sha256Hex(b) == hash
		} else if okb {
			a := c.acked[e.Key]
			okb = a != nil && bytes.Equal(a.value, b)
		}
		if !okb {
			r.Violation(keyBase+":restarted-entry-served-wrong:"+kind.String(), fmt.Sprintf("entry %s of the restarted index (not the interrupted one) is served with %d bytes (err=%v) that do not match its digest / are no completed upload of that key", e.Key[:14], len(b), err), c.detail(img, nil))
		}
	}
	// (3) accounting and directory of the restarted instance
	snap := lib.Snapshot(cch)
	if bad := lib.CheckAcct(snap); len(bad) > 0 || snap.ReservedSize != 0 {
		r.Violation(keyBase+":acct-after-restart", fmt.Sprintf("accounting invariant broken after restart: %v reserved=%d", bad, snap.ReservedSize), c.detail(img, bad))
	}
	if d, _, verdict := lib.CheckDirQuiescent(cch, true); verdict == "violated" {
		// a torn file of the interrupted upload that is still indexed is the same input class as "served-torn"
		onlyInflight := len(d.Extra)+len(d.Missing)+len(d.BadSize) == 0
		for _, b := range d.BadBlob {
			if !strings.Contains(b, c.inflight.hash) {
				onlyInflight = false
			}
		}
		if onlyInflight {
			r.Violation(keyBase+":torn-entry-indexed", "after restart the partly written file of the interrupted upload is an index entry (its content does not match its name): "+d.String(), c.detail(img, d))
		} else {
			r.Violation(keyBase+":dir-after-restart:"+dirClass(d), "directory != index after restart: "+d.String(), c.detail(img, d))
		}
	}
	// (4) the interrupted upload can simply be repeated
	if err := cch.Put(ctx, c.inflight.kind, c.inflight.hash, inSize, bytes.NewReader(c.inflight.value)); err != nil {
		if inSize+8192 < max {
			r.Violation(keyBase+":repeat-failed", "repeating the interrupted upload after the restart failed: "+err.Error(), c.detail(img, nil))
		}
	} else if b, hit, err := read(c.inflight.kind, c.inflight.hash, -1, false); !hit || err != nil || !bytes.Equal(b, c.inflight.value) {
		r.Violation(keyBase+":repeat-not-readable", fmt.Sprintf("the repeated upload is not readable (hit=%v err=%v)", hit, err), c.detail(img, nil))
	}
	lib.WaitEvictionsDrained(cch, 2*time.Second)
}

func (c *c08Case) run(pool *lib.DirPool, hc *lib.HookCtl) {
	rng := c.rng
	dir := pool.Get()
	defer pool.Put(dir)
	var px *lib.FakeProxy
	opts := lib.ServerOpts{Dir: dir, MaxSize: c.max, Storage: c.before, ZstdImpl: []string{"go", "cgo"}[rng.IntN(2)]}
	if c.op == "backend-fetch" {
		px = lib.NewFakeProxy(c.before == "zstd")
		opts.Proxy = px
	}
	live, _, err := lib.NewCache(opts)
	if err != nil {
		c.r.Inconclusive("cache start: " + err.Error())
		return
	}
	ctx := context.Background()
	put := func(e *c08Entry) {
		if live.Put(ctx, e.kind, e.hash, int64(len(e.value)), bytes.NewReader(e.value)) == nil {
			c.acked[cache.LookupKey(e.kind, e.hash)] = e
		}
	}
	// acknowledged population
	nPop := 2 + rng.IntN(4)
	if c.op == "upload-into-full-cache" {
		nPop = 8
	}
	for i := 0; i < nPop; i++ {
		kind := []cache.EntryKind{cache.CAS, cache.AC, cache.RAW}[rng.IntN(3)]
		sz := []int{1, 300, 5000, 40000}[rng.IntN(4)]
		if c.op == "upload-into-full-cache" {
			sz = int(c.max / 10)
		}
		v := lib.GenBlob(rng, sz, lib.Pick(rng, lib.ContentKinds), fmt.Sprintf("%s-p%d", c.id, i))
		h := lib.Sha256Hex(v)
		if kind != cache.CAS {
			h = lib.RandHash(rng)
		}
		put(&c08Entry{kind: kind, hash: h, value: v})
	}
	lib.WaitEvictionsDrained(live, 2*time.Second)
	// hold the background remover for the whole operation: deletions stay queued (a kill can come before any unlink)
	g := hc.Gate("evict.beforeUnlink", "*", 1<<30)
	defer hc.UngateAll()

	in := c.inflight
	inKey := cache.LookupKey(in.kind, in.hash)
	if strings.HasPrefix(c.op, "overwrite") {
		old := &c08Entry{kind: in.kind, hash: in.hash, value: lib.GenBlob(rng, []int{200, 40000, 150000}[rng.IntN(3)], "text", c.id+"-old")}
		if in.kind == cache.CAS {
			old.value = in.value // same digest, same content
		} else if in.kind == cache.AC {
			old.value, _ = proto.Marshal(&pb.ActionResult{ExitCode: 77, StderrRaw: old.value, ExecutionMetadata: &pb.ExecutedActionMetadata{Worker: c.id + "-old"}})
		}
		put(old)
		c.oldValue = old.value
	}
	total := len(in.value)
	piece := []int{total/3 + 1, 64 * lib.KiB, 300 * lib.KiB, total + 1}[rng.IntN(4)]
	var cbCalls []int
	cb := func(call, delivered int) {
		// every callback is a possible kill instant; sample them when there are many
		cbCalls = append(cbCalls, call)
		if call <= 3 || delivered >= total || rng.IntN(3) == 0 {
			c.snap(live, pool, pointClass(call, delivered, total))
		}
	}
	// hook crash points of the write / fetch path
	var hookMu sync.Mutex
	hookSnap := map[string]bool{}
	restore := installPointSnap(hc, func(point, key string) {
		if key != inKey {
			return
		}
		hookMu.Lock()
		first := !hookSnap[point]
		hookSnap[point] = true
		hookMu.Unlock()
		if first {
			c.snap(live, pool, point)
		}
	})
	defer restore()

	switch c.op {
	case "backend-fetch":
		px.SetBlob(in.kind, in.hash, in.value)
		px.ReadHook = func(kind cache.EntryKind, hash string, delivered int) {
			if hash == in.hash {
				cb(len(cbCalls)+1, delivered*total/(total+64)) // delivered counts stored bytes (header+compressed); scale roughly
			}
		}
		size := int64(len(in.value))
		if rng.IntN(2) == 0 {
			size = -1
		}
		rc, _, err := live.Get(ctx, in.kind, in.hash, size, 0)
		if rc != nil {
			_, _ = io.Copy(io.Discard, rc)
			_ = rc.Close()
		}
		c.log = append(c.log, fmt.Sprintf("fetch err=%v", err))
	default:
		data := in.value
		if c.op == "bad-upload" {
			data = append([]byte(nil), in.value...)
			data[rng.IntN(len(data))] ^= 0x04
		}
		err := live.Put(ctx, in.kind, in.hash, int64(len(in.value)), &pieceReader{data: data, piece: piece, cb: cb})
		c.log = append(c.log, fmt.Sprintf("put err=%v reader calls=%d", err, len(cbCalls)))
		if err == nil {
			// acknowledged, old version (if any) and evicted files still on disk: one more kill instant
			c.opAcked = true
			c.snap(live, pool, "after-ack-before-unlink")
		}
	}
	// between unlinks: let the remover delete one file at a time
	queued := disk.VerifQueuedEvictions(live)
	if queued > 0 {
		hc.Ungate("evict.beforeUnlink", "*")
		g2 := hc.Gate("evict.afterUnlink", "*", 1)
		if g2.WaitArrived(2 * time.Second) {
			c.snap(live, pool, "between-unlinks")
		}
		hc.Ungate("evict.afterUnlink", "*")
	}
	_ = g
	hc.UngateAll()
	lib.WaitEvictionsDrained(live, 5*time.Second)

	c.hc = hc
	for i := range c.images {
		img := &c.images[i]
		c.imgNo = i
		c.judgeImage(img, i%4 != 3)
		pool.Put(img.dir)
	}
	c.r.CountN("reader_callbacks", int64(len(cbCalls)))
}

// installPointSnap chains a snapshot callback in front of the gate controller for the write/fetch hook points.
func installPointSnap(hc *lib.HookCtl, f func(point, key string)) func() {
	hc.Install() // base behaviour (gates, counters)
	base := hc
	disk.VerifSetHook(func(point, key string, n int64) {
		switch point {
		case "put.beforeCommit", "get.proxy.afterCopy", "get.proxy.beforeCommit", "put.afterReserve":
			f(point, key)
		}
		base.Callback(point, key, n)
	})
	return func() { hc.Install() }
}

// ---------------------------------------------------------------------------
// real kills (F-launcher)

// c08Kill describes one real-kill case.
type c08Kill struct {
	variant string // what is in flight / just done when the process dies
	hook    string // VERIF_HOOKS spec making the child kill itself at a hook point ("" = SIGKILL from outside)
	realBin bool   // restart with the real bazel-remote executable instead of the launcher
}

var c08KillPlans = []c08Kill{
	{"bs-new", "", false},                                   // new CAS upload over ByteStream, killed after message k
	{"http-overwrite", "", false},                           // acknowledged CAS blob uploaded again over HTTP, killed mid-body
	{"bs-new", "put.beforeCommit=kill:1", false},            // file complete and synced, not indexed
	{"after-reply", "", false},                              // killed right after the acknowledgement reached the client
	{"bs-new", "put.afterReserve=kill:1", false},            // space reserved, no file yet
	{"ac-http", "put.beforeCommit=kill:1", false},           // action-cache upload over HTTP
	{"bs-new", "", true},                                    // restart by the real executable
	{"evict", "evict.beforeUnlink=kill:1", false},           // killed inside the background remover
	{"http-new", "", false},                                 // new CAS upload over HTTP PUT, killed mid-body
	{"after-reply", "", true},                               //
	{"ac-http-overwrite", "put.beforeCommit=kill:2", false}, // second upload of an AC key dies before its commit
}

func (c *c08Case) realKill(r *lib.Run, rng *rand.Rand, mode, after string, plan c08Kill, repeatFirst bool) {
	dir := lib.MkTemp("c08kill")
	defer func() { _ = os.RemoveAll(dir) }()
	hookKill := plan.hook
	env := []string{}
	if hookKill != "" {
		env = append(env, "VERIF_HOOKS="+hookKill)
	}
	maxSize := int64(64 * lib.MiB)
	if plan.variant == "evict" {
		maxSize = 300 * lib.KiB
	}
	ch, err := lib.StartLauncher([]string{"-dir", dir, "-max_size", fmt.Sprint(maxSize), "-storage", mode}, env)
	if err != nil {
		r.Inconclusive("launcher: " + err.Error())
		stopChild(ch)
		return
	}
	srv := lib.AttachServer(ch.HTTPAddr, ch.GRPCAddr)
	keyBase := "C08:" + map[string]string{"zstd": "cas-compressed", "uncompressed": "cas-raw-v1"}[mode]
	point := "real-kill:" + plan.variant
	if hookKill != "" {
		point += "@" + strings.SplitN(hookKill, "=", 2)[0]
	}
	detail := func(extra any) map[string]any {
		return map[string]any{"case": c.id, "variant": plan.variant, "hook": hookKill, "mode_before": mode, "mode_after": after, "restart_with_real_binary": plan.realBin, "repeat_first": repeatFirst, "observed": extra}
	}
	// acknowledged blobs
	type ack struct {
		hash string
		b    []byte
	}
	var acks []ack
	nAck := 3
	if hookKill != "" {
		nAck = 0 // the hook may fire on any upload
	}
	for i := 0; i < nAck; i++ {
		b := lib.GenBlob(rng, []int{10, 5000, 70000}[i], "random", fmt.Sprintf("%s-a%d", c.id, i))
		h := lib.Sha256Hex(b)
		if srv.HTTPPut("/cas/"+h, b, nil).Status == 200 {
			acks = append(acks, ack{h, b})
		}
	}
	in := lib.GenBlob(rng, []int{40000, 300000, lib.MiB + 4097, 2*lib.MiB + 5}[rng.IntN(4)], "random", c.id+"-inflight")
	inHash := lib.Sha256Hex(in)
	msgs := lib.Chunk(in, 16*lib.KiB)
	k := 1 + rng.IntN(len(msgs))
	mustServe := false // the in-flight blob was acknowledged before the kill
	var acKey string
	var acOld, acNew []byte
	streamHTTP := func(path string, body []byte, killAfter int) {
		parts := lib.Chunk(body, 16*lib.KiB)
		pr, pw := io.Pipe()
		req, _ := http.NewRequest("PUT", srv.HTTPURL+path, pr)
		req.ContentLength = int64(len(body))
		done := make(chan struct{})
		go func() {
			defer close(done)
			if resp, err := srv.HTTPClient.Do(req); err == nil {
				_, _ = io.Copy(io.Discard, resp.Body)
				_ = resp.Body.Close()
			}
		}()
		for i, m := range parts {
			if _, err := pw.Write(m); err != nil {
				break
			}
			if i+1 == killAfter {
				time.Sleep(time.Duration(rng.IntN(3000)) * time.Microsecond)
				ch.Kill()
				break
			}
		}
		_ = pw.CloseWithError(io.ErrUnexpectedEOF)
		<-done
	}
	switch plan.variant {
	case "bs-new":
		// stream the upload message by message and kill after message k
		func() {
			ctx, cancel := context.WithTimeout(context.Background(), 20*time.Second)
			defer cancel()
			st, err := srv.BS.Write(ctx)
			if err != nil {
				return
			}
			off := int64(0)
			for i, m := range msgs {
				req := &bspb.WriteRequest{WriteOffset: off, Data: m, FinishWrite: i == len(msgs)-1}
				if i == 0 {
					req.ResourceName = lib.ResUpload(uuidOf(rng), inHash, int64(len(in)))
				}
				if st.Send(req) != nil {
					break
				}
				off += int64(len(m))
				if hookKill == "" && i+1 == k {
					time.Sleep(time.Duration(rng.IntN(3000)) * time.Microsecond)
					ch.Kill()
					return
				}
			}
			_, _ = st.CloseAndRecv()
		}()
	case "http-new":
		streamHTTP("/cas/"+inHash, in, k)
	case "http-overwrite":
		if srv.HTTPPut("/cas/"+inHash, in, nil).Status != 200 {
			r.Inconclusive("real kill " + c.id + ": the first upload of the blob to be overwritten was not acknowledged")
			srv.CloseClient()
			ch.Stop()
			return
		}
		mustServe = true // old == new content: whichever file survives, the acknowledged blob must be served
		streamHTTP("/cas/"+inHash, in, k)
	case "after-reply":
		ctx, cancel := lib.Ctx()
		var perr error
		if rng.IntN(2) == 0 {
			_, perr = srv.BSWrite(ctx, lib.ResUpload(uuidOf(rng), inHash, int64(len(in))), in, 64*lib.KiB)
		} else if g := srv.HTTPPut("/cas/"+inHash, in, nil); g.Status != 200 {
			perr = fmt.Errorf("status %d %v", g.Status, g.Err)
		}
		cancel()
		ch.Kill() // the acknowledgement has reached the client
		if perr != nil {
			r.Inconclusive("real kill " + c.id + ": upload before the kill failed: " + perr.Error())
			srv.CloseClient()
			ch.Stop()
			return
		}
		mustServe = true
	case "ac-http", "ac-http-overwrite":
		acKey = lib.RandHash(rng)
		mk := func(tag string, n int) []byte {
			b, _ := proto.Marshal(&pb.ActionResult{ExitCode: 3, StdoutRaw: lib.GenBlob(rng, n, "text", c.id+tag), ExecutionMetadata: &pb.ExecutedActionMetadata{Worker: c.id + tag}})
			return b
		}
		if plan.variant == "ac-http-overwrite" {
			acOld = mk("-old", 50000)
			if srv.HTTPPut("/ac/"+acKey, acOld, nil).Status != 200 {
				acOld = nil
			}
		}
		acNew = mk("-new", 90000)
		srv.HTTPPut("/ac/"+acKey, acNew, nil) // dies at the hook
	case "evict":
		for i := 0; i < 12 && !ch.Exited(); i++ {
			b := lib.GenBlob(rng, 60000+rng.IntN(20000), "random", fmt.Sprintf("%s-e%d", c.id, i))
			h := lib.Sha256Hex(b)
			if srv.HTTPPut("/cas/"+h, b, nil).Status == 200 {
				acks = append(acks, ack{h, b})
			}
		}
	}
	if hookKill != "" {
		if !ch.WaitExit(10 * time.Second) {
			r.Count("realkill.hook-not-reached")
			ch.Kill()
		}
	}
	srv.CloseClient()
	ch.Stop()
	// restart on the same directory (real start-up path in a fresh process)
	var ch2 *lib.Child
	if plan.realBin {
		if _, serr := os.Stat(lib.BinPath("bazel-remote")); serr != nil {
			r.Count("realkill.real-binary-missing")
			plan.realBin = false
		}
	}
	if plan.realBin {
		ch2, err = lib.StartBinary(lib.BinaryOpts{Dir: dir, Args: []string{"--storage_mode=" + after}, WaitReady: 60 * time.Second})
		r.Count("realkill.restart.real-binary")
	} else {
		ch2, err = lib.StartLauncher([]string{"-dir", dir, "-max_size", fmt.Sprint(64 * lib.MiB), "-storage", after}, nil)
		r.Count("realkill.restart.launcher")
	}
	r.Eval()
	r.Distinct("realkill", mode, after, point, plan.realBin, lib.SizeClassName(len(in)))
	r.Count("realkill." + point)
	if err != nil {
		// Only an OBSERVED start-up failure refutes the property: the restarted process exited by itself, or reported
		// that opening the cache failed. "Not ready in time", a log file that could not be created, a fork failure
		// etc. say nothing about the directory: inconclusive.
		if failed, log := launcherFailedToStart(ch2); failed {
			r.Violation(keyBase+":startup-failed", "server did not start on the directory left by a killed server: "+err.Error(), detail(map[string]any{"log": log}))
		} else {
			r.Inconclusive("restart after real kill (" + c.id + "): " + err.Error())
		}
		stopChild(ch2)
		return
	}
	defer ch2.Stop()
	srv2 := lib.AttachServer(ch2.HTTPAddr, ch2.GRPCAddr)
	defer srv2.CloseClient()
	ctx, cancel := lib.Ctx()
	defer cancel()
	if acKey != "" {
		// action-cache entry: absent, or one completed upload
		okAR := func(b []byte) bool {
			got := &pb.ActionResult{}
			if proto.Unmarshal(b, got) != nil {
				return false
			}
			for _, v := range [][]byte{acOld, acNew} {
				want := &pb.ActionResult{}
				if v != nil && proto.Unmarshal(v, want) == nil && proto.Equal(got, want) {
					return true
				}
			}
			return false
		}
		g := srv2.HTTPGet("/ac/"+acKey, nil)
		r.Count(fmt.Sprintf("realkill.ac.get.%d", g.Status))
		if g.Status == 200 && !okAR(g.Body) {
			r.Violation("C08:ac:served-torn:http-get-ac:"+point, fmt.Sprintf("after a real kill during an action-cache upload GET /ac answered 200 with %d bytes that are no completed upload", len(g.Body)), detail(nil))
		}
		if g.Status != 200 && acOld != nil {
			r.Violation("C08:ac:overwrite-in-flight:acknowledged-value-lost", fmt.Sprintf("an acknowledged action-cache entry was being overwritten when the process died (%s): after the restart GET /ac answers %d", point, g.Status), detail(nil))
		}
		if p := srv2.HTTPPut("/ac/"+acKey, acNew, nil); p.Status != 200 {
			r.Violation("C08:ac:repeat-failed", fmt.Sprintf("repeating the interrupted action-cache upload after the restart failed: %d", p.Status), detail(nil))
		} else if g := srv2.HTTPGet("/ac/"+acKey, nil); g.Status != 200 || !okAR(g.Body) {
			r.Violation("C08:ac:repeat-not-readable", "repeated action-cache upload not readable", detail(nil))
		}
		return
	}
	if plan.variant == "evict" {
		// the process died inside the background remover: whatever is served must be right, and at least the blobs
		// acknowledged since the last eviction decision are still there (their files were never queued)
		served := 0
		for _, a := range acks {
			g := srv2.HTTPGet("/cas/"+a.hash, nil)
			if g.Status == 200 {
				served++
				if !bytes.Equal(g.Body, a.b) {
					r.Violation(keyBase+":acked-served-wrong", "after a kill inside the background remover an acknowledged blob is served with wrong bytes", detail(nil))
				}
			}
		}
		r.CountN("realkill.evict.acked", int64(len(acks)))
		r.CountN("realkill.evict.served-after-restart", int64(served))
		b := lib.GenBlob(rng, 5000, "random", c.id+"-fresh")
		if _, err := srv2.BSWrite(ctx, lib.ResUpload(uuidOf(rng), lib.Sha256Hex(b), int64(len(b))), b, 0); err != nil {
			r.Violation(keyBase+":upload-after-restart-failed", "a fresh upload after the restart failed: "+err.Error(), detail(nil))
		}
		return
	}
	for _, a := range acks {
		g := srv2.HTTPGet("/cas/"+a.hash, nil)
		if g.Status != 200 || !bytes.Equal(g.Body, a.b) {
			r.Violation(keyBase+":acked-lost", fmt.Sprintf("blob acknowledged before the kill: GET -> %d, %d bytes (want %d)", g.Status, len(g.Body), len(a.b)), detail(nil))
		}
	}
	if repeatFirst && !mustServe {
		// first requests after the restart: FindMissingBlobs, the repeated upload, then the read
		missing, ferr := srv2.FindMissing(ctx, &pb.Digest{Hash: inHash, SizeBytes: int64(len(in))})
		r.Count(fmt.Sprintf("realkill.repeat-first.findmissing.missing=%d", len(missing)))
		if _, err := srv2.BSWrite(ctx, lib.ResUpload(uuidOf(rng), inHash, int64(len(in))), in, 64*lib.KiB); err != nil {
			r.Violation(keyBase+":repeat-first:bytestream-write:failed", "repeating the interrupted upload as the first request after the restart failed: "+err.Error(), detail(nil))
		} else if g := srv2.HTTPGet("/cas/"+inHash, nil); g.Status != 200 || !bytes.Equal(g.Body, in) {
			r.Violation(keyBase+":repeat-first:bytestream-write:acknowledged-but-not-served", fmt.Sprintf("the interrupted upload was repeated as the first request after the restart and acknowledged (FindMissingBlobs before it: missing=%d err=%v), but GET -> %d (%d bytes, want %d)", len(missing), ferr, g.Status, len(g.Body), len(in)), detail(nil))
		}
		r.Count("realkill.repeat-first")
		return
	}
	g := srv2.HTTPGet("/cas/"+inHash, nil)
	r.Count(fmt.Sprintf("realkill.inflight.get.%d", g.Status))
	if g.Status == 200 && !bytes.Equal(g.Body, in) {
		r.Violation(keyBase+":served-torn:get-unknown-size", fmt.Sprintf("after a real kill mid-upload, GET /cas returned %d bytes that do not match the digest (complete blob: %d bytes)", len(g.Body), len(in)),
			detail(map[string]any{"killed_after_message": k, "messages": len(msgs)}))
	}
	got, rerr := srv2.BSRead(ctx, lib.ResBlobs(inHash, int64(len(in))), 0, 0)
	if rerr == nil && !bytes.Equal(got, in) {
		r.Violation(keyBase+":served-torn:get-known-size", "after a real kill mid-upload, ByteStream.Read returned bytes that do not match the digest", detail(nil))
	}
	if mustServe && (g.Status != 200 || rerr != nil) {
		key := keyBase + ":just-acknowledged-lost"
		if plan.variant == "http-overwrite" {
			key = keyBase + ":overwrite-in-flight:acknowledged-value-lost"
		}
		r.Violation(key, fmt.Sprintf("a blob acknowledged before the process was killed (%s) is not served after the restart: GET -> %d, ByteStream.Read err=%v", point, g.Status, rerr), detail(map[string]any{"killed_after_message": k, "messages": len(msgs)}))
	} else if mustServe {
		r.Count("realkill.acknowledged-served")
	}
	// repeat the upload
	if _, err := srv2.BSWrite(ctx, lib.ResUpload(uuidOf(rng), inHash, int64(len(in))), in, 64*lib.KiB); err != nil {
		r.Violation(keyBase+":repeat-failed", "repeating the interrupted upload after the restart failed: "+err.Error(), detail(nil))
	} else if g := srv2.HTTPGet("/cas/"+inHash, nil); g.Status != 200 || !bytes.Equal(g.Body, in) {
		r.Violation(keyBase+":repeat-not-readable", "repeated upload not readable", detail(nil))
	}
}

func runC08(r *lib.Run) {
	r.SetRule("crash images = copies of the cache directory taken at every harness reader callback (file created / mid-write / all data written before finalise), at hook points (before commit, after ack before unlink, fetch after copy / before commit, between unlinks) " +
		"of new uploads, overwrites, uploads into a full cache and backend fetches, for CAS/AC/RAW, sizes up to 5 MiB, storage mode before x after; each image restarted with the real loader; plus real SIGKILLs of child servers mid ByteStream upload and at hook points. " +
		"distinct = (operation, crash-point class, mode before, mode after, size class)")
	r.Assume("process kill only (no power loss): an image is the set of files as visible to the OS at that instant")
	r.Assume("entries indexed at the crash instant were acknowledged before it (commit precedes the reply)")
	nCases := r.N(42, 560)
	nKills := r.N(11, 132)
	rng := r.Rng("c08")
	hc := lib.NewHookCtl(uint64(r.Seed))
	hc.Install()
	defer hc.Remove()
	pool := lib.NewDirPool("c08")
	defer pool.Close()
	ops := []string{"new-upload", "bad-upload", "overwrite", "new-upload", "upload-into-full-cache", "backend-fetch", "overwrite"}
	modes := []string{"zstd", "uncompressed"}
	for i := 0; i < nCases; i++ {
		c := &c08Case{r: r, rng: rng, id: fmt.Sprintf("C08-s%d-c%d", r.Seed, i), op: ops[i%len(ops)], before: modes[(i/len(ops))%2], after: modes[(i/(2*len(ops)))%2],
			max: 64 * lib.MiB, acked: map[string]*c08Entry{}}
		kind := []cache.EntryKind{cache.CAS, cache.CAS, cache.AC, cache.RAW}[rng.IntN(4)]
		if (c.op == "backend-fetch" && rng.IntN(2) == 0) || c.op == "bad-upload" {
			kind = cache.CAS
		}
		sz := []int{1, 4097, 40000, 200000, lib.MiB, lib.MiB + 1, 2*lib.MiB + 4097}[rng.IntN(7)]
		if !r.Quick && rng.IntN(10) == 0 {
			sz = 5*lib.MiB + 17
		}
		if c.op == "upload-into-full-cache" {
			c.max = 2 * lib.MiB
			sz = int(c.max / 3)
		}
		v := lib.GenBlob(rng, sz, lib.Pick(rng, []string{"random", "text"}), c.id+"-in")
		h := lib.Sha256Hex(v)
		if kind != cache.CAS {
			h = lib.RandHash(rng)
		}
		if kind == cache.AC {
			// a valid ActionResult of about that size (no referenced blobs), so that the validated lookup path is judged too
			v, _ = proto.Marshal(&pb.ActionResult{ExitCode: int32(i), StdoutRaw: v, ExecutionMetadata: &pb.ExecutedActionMetadata{Worker: c.id}})
		}
		c.inflight = &c08Entry{kind: kind, hash: h, value: v}
		c.run(pool, hc)
		if i < 3 {
			r.Sample(c.detail(nil, fmt.Sprintf("%d images", len(c.images))))
		}
		if r.Violations() > 20 {
			break
		}
	}
	for k, v := range hc.Hits() {
		r.CountN("hook."+k, v)
	}
	// real kills
	for i := 0; i < nKills; i++ {
		c := &c08Case{id: fmt.Sprintf("C08-s%d-k%d", r.Seed, i)}
		round := i / len(c08KillPlans)
		c.realKill(r, rng, modes[(i+round)%2], modes[(i/2+round)%2], c08KillPlans[i%len(c08KillPlans)], (i+round)%3 == 0)
	}
}

func init() { lib.Register("C08", runC08) }

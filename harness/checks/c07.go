package checks

import (
	"bytes"
	"context"
	"errors"
	"fmt"
	"hash/crc32"
	"io"
	"math/rand/v2"
	"os"
	"os/exec"
	"path/filepath"
	"regexp"
	"sort"
	"strings"
	"sync"
	"sync/atomic"
	"time"

	"verif/harness/lib"

	"github.com/anishathalye/porcupine"
	"github.com/buchgr/bazel-remote/v2/cache"
	"github.com/buchgr/bazel-remote/v2/cache/disk"
	pb "github.com/buchgr/bazel-remote/v2/genproto/build/bazel/remote/execution/v2"
	"google.golang.org/grpc/codes"
	"google.golang.org/protobuf/proto"
)

// C07 — concurrent requests see whole values and never corrupt index or
// accounting. Oracles: (1) Go race detector over the same workload (child
// process built with -race), (2) self-describing values / digests (torn reads),
// (3) per-key linearizability of recorded histories (porcupine), (4) M-acct
// sampled + M-acct/M-dir at quiescence, (5) every operation returns;
// schedule forcing through the tag-guarded yield points.

// ---------------------------------------------------------------------------
// self-describing values

func c07Value(writer, seq, size int) []byte {
	if size < 48 {
		size = 48
	}
	hdr := fmt.Sprintf("w%04d-s%08d-l%08d-", writer, seq, size)
	b := make([]byte, size)
	copy(b, hdr)
	for i := len(hdr); i < size-8; i++ {
		b[i] = byte('a' + (i*7+writer+seq)%26)
	}
	copy(b[size-8:], fmt.Sprintf("%08x", crc32.ChecksumIEEE(b[:size-8])))
	return b
}

// c07Parse returns the value id ("w..-s..") or an error describing how the value is torn.
func c07Parse(b []byte) (string, error) {
	if len(b) < 48 {
		return "", fmt.Errorf("value of %d bytes is shorter than any written value", len(b))
	}
	var w, s, l int
	if _, err := fmt.Sscanf(string(b[:27]), "w%04d-s%08d-l%08d-", &w, &s, &l); err != nil {
		return "", fmt.Errorf("unparsable header %q", b[:27])
	}
	if l != len(b) {
		return "", fmt.Errorf("value says length %d but %d bytes were returned (truncated/extended)", l, len(b))
	}
	if string(b[l-8:]) != fmt.Sprintf("%08x", crc32.ChecksumIEEE(b[:l-8])) {
		return "", fmt.Errorf("checksum mismatch: torn or mixed value (header w%d s%d)", w, s)
	}
	return fmt.Sprintf("w%04d-s%08d", w, s), nil
}

// ---------------------------------------------------------------------------
// history recording for porcupine

type c07In struct {
	Key   string
	Write bool
	Val   string // value id for writes
}
type c07Out struct {
	Val  string // value id read ("" = miss)
	Miss bool
	Err  bool // the operation reported an error
}

type c07Hist struct {
	clock atomic.Int64
	mu    sync.Mutex
	ops   []porcupine.Operation
}

func (h *c07Hist) add(client int, in c07In, out c07Out, call, ret int64) {
	h.mu.Lock()
	h.ops = append(h.ops, porcupine.Operation{ClientId: client, Input: in, Output: out, Call: call, Return: ret})
	h.mu.Unlock()
}

func c07Model(pressure bool) porcupine.Model {
	nm := porcupine.NondeterministicModel{
		Partition: func(history []porcupine.Operation) [][]porcupine.Operation {
			m := map[string][]porcupine.Operation{}
			for _, o := range history {
				k := o.Input.(c07In).Key
				m[k] = append(m[k], o)
			}
			keys := make([]string, 0, len(m))
			for k := range m {
				keys = append(keys, k)
			}
			sort.Strings(keys)
			out := make([][]porcupine.Operation, 0, len(m))
			for _, k := range keys {
				out = append(out, m[k])
			}
			return out
		},
		Init: func() []interface{} { return []interface{}{""} },
		Step: func(state, input, output interface{}) []interface{} {
			st, in, out := state.(string), input.(c07In), output.(c07Out)
			if in.Write {
				if out.Err {
					if pressure {
						// a refused upload may have evicted the previous version while making room
						return []interface{}{st, ""}
					}
					return []interface{}{st} // a failed upload stores nothing
				}
				if pressure {
					return []interface{}{in.Val, ""} // accepted, possibly evicted again at once
				}
				return []interface{}{in.Val}
			}
			if out.Err {
				return []interface{}{st} // an error tells nothing
			}
			if out.Miss {
				if st == "" || pressure {
					return []interface{}{""}
				}
				return nil
			}
			if out.Val == st {
				return []interface{}{st}
			}
			return nil
		},
		DescribeOperation: func(input, output interface{}) string {
			in, out := input.(c07In), output.(c07Out)
			if in.Write {
				return fmt.Sprintf("put(%s,%s) err=%v", in.Key, in.Val, out.Err)
			}
			return fmt.Sprintf("get(%s) -> %q miss=%v err=%v", in.Key, out.Val, out.Miss, out.Err)
		},
	}
	return nm.ToModel()
}

// ---------------------------------------------------------------------------
// the concurrent workload

type c07Opts struct {
	caseID   string
	seed     uint64
	storage  string
	impl     string
	max      int64
	pressure bool // tiny cache: evictions all the time
	workers  int
	opsEach  int
	proxy    bool
	server   bool // drive part of the traffic through HTTP/gRPC
	damage   bool // corrupt / delete files underneath the cache between phases
}

type c07World struct {
	r    *lib.Run
	o    c07Opts
	c    disk.Cache
	srv  *lib.Server
	px   *lib.FakeProxy
	hc   *lib.HookCtl
	hist c07Hist
	keys []string   // AC/RAW register keys
	cas  []acctItem // CAS pool
	vars []string   // validated-AC keys
	seq  atomic.Int64
	log  []string
	lmu  sync.Mutex
	open atomic.Int64
	// opsDone counts completed operations (progress indicator for the hang oracle)
	opsDone atomic.Int64
	// "an upload acknowledged before a lookup starts is found": per CAS hash the earliest stamp (same clock as the
	// register histories) taken AFTER an acknowledged upload of it returned. Judged only in histories in which nothing
	// can remove an entry (no space pressure, no files damaged underneath).
	ackMu      sync.Mutex
	casAck     map[string]int64
	ghosts     []acctItem          // digests never uploaded anywhere: every existence answer must be "absent"
	varVals    map[string]struct{} // every marshalled ActionResult whose upload to a validated-AC key started
	varGhost   map[string]struct{} // those of them that reference a blob that exists nowhere
	judgeFound bool
	zenc       map[string][][]byte // per blob: a few zstd encodings (two encoders, several levels), made once per history
}

// zstdOf returns one of a few zstd encodings of the blob (encoding 1 MiB for every request would dominate the run,
// most of all under the race detector).
func (w *c07World) zstdOf(rng *rand.Rand, it acctItem) []byte {
	w.ackMu.Lock()
	defer w.ackMu.Unlock()
	if len(w.zenc[it.hash]) < 3 {
		w.zenc[it.hash] = append(w.zenc[it.hash], zstdEncodeRand(rng, it.content))
		return w.zenc[it.hash][len(w.zenc[it.hash])-1]
	}
	return w.zenc[it.hash][rng.IntN(3)]
}

// ackCAS records that an upload of hash has just been acknowledged.
func (w *c07World) ackCAS(hash string) {
	t := w.hist.clock.Add(1)
	w.ackMu.Lock()
	if cur, ok := w.casAck[hash]; !ok || t < cur {
		w.casAck[hash] = t
	}
	w.ackMu.Unlock()
}

// lookupStart stamps the beginning of a lookup.
func (w *c07World) lookupStart() int64 { return w.hist.clock.Add(1) }

// absent judges a lookup of hash that started at stamp start and answered "absent" on path.
func (w *c07World) absent(path, hash string, start int64) {
	w.r.Count("found-rule." + path + ".absent")
	if !w.judgeFound {
		return
	}
	w.ackMu.Lock()
	t, ok := w.casAck[hash]
	w.ackMu.Unlock()
	if ok && t < start {
		w.r.Violation("C07:acknowledged-upload-not-found:"+path, fmt.Sprintf("%s of CAS blob %s started (stamp %d) after an upload of it had been acknowledged (stamp %d) and answered absent, in a history without space pressure or damaged files", path, hash[:12], start, t), w.detail(map[string]any{"hash": hash}))
	}
}

// present judges an existence answer "present" on path (ghost digests must never be present).
func (w *c07World) present(path, hash string) {
	w.r.Count("found-rule." + path + ".present")
	for _, g := range w.ghosts {
		if g.hash == hash {
			w.r.Violation("C07:never-uploaded-reported-present:"+path, fmt.Sprintf("%s answered present for digest %s that was never uploaded anywhere", path, hash[:12]), w.detail(nil))
		}
	}
}

// pickLookup returns a pool blob or (one time in six) a ghost digest.
func (w *c07World) pickLookup(rng *rand.Rand) acctItem {
	if len(w.ghosts) > 0 && rng.IntN(6) == 0 {
		return w.ghosts[rng.IntN(len(w.ghosts))]
	}
	return w.cas[rng.IntN(len(w.cas))]
}

func (w *c07World) note(f string, a ...any) {
	w.lmu.Lock()
	if len(w.log) < 300 {
		w.log = append(w.log, fmt.Sprintf(f, a...))
	}
	w.lmu.Unlock()
}

func (w *c07World) detail(extra any) map[string]any {
	w.lmu.Lock()
	defer w.lmu.Unlock()
	return map[string]any{"case": w.o.caseID, "opts": fmt.Sprintf("%+v", w.o), "events": append([]string(nil), w.log...), "observed": extra}
}

func (w *c07World) regPut(client int, rng *rand.Rand, kind cache.EntryKind, key string) {
	seq := int(w.seq.Add(1))
	sizes := []int{48, 100, 4000, 4096, 5000, 20000, 40000}
	if w.o.pressure {
		sizes = []int{48, 4000, 5000, int(w.o.max / 3)}
	}
	v := c07Value(client, seq, sizes[rng.IntN(len(sizes))])
	id, _ := c07Parse(v)
	call := w.hist.clock.Add(1)
	err := w.c.Put(context.Background(), kind, key, int64(len(v)), bytes.NewReader(v))
	ret := w.hist.clock.Add(1)
	w.hist.add(client, c07In{Key: cache.LookupKey(kind, key), Write: true, Val: id}, c07Out{Err: err != nil}, call, ret)
	w.r.Count("op.regput." + okStr(err == nil))
}

func okStr(b bool) string {
	if b {
		return "ok"
	}
	return "err"
}

func (w *c07World) regGet(client int, rng *rand.Rand, kind cache.EntryKind, key string) {
	lk := cache.LookupKey(kind, key)
	call := w.hist.clock.Add(1)
	rc, size, err := w.c.Get(context.Background(), kind, key, -1, 0)
	var out c07Out
	var data []byte
	if err != nil {
		out.Err = true
	} else if rc == nil {
		out.Miss = true
	} else {
		if rng.IntN(4) == 0 {
			time.Sleep(time.Duration(rng.IntN(300)) * time.Microsecond) // a slow reader: streaming while others overwrite/evict
		}
		var rerr error
		data, rerr = io.ReadAll(rc)
		_ = rc.Close()
		if rerr != nil {
			w.r.Violation("C07:read-error-mid-stream:"+kind.String(), fmt.Sprintf("reading a value that Get had just returned failed: %v", rerr), w.detail(nil))
			out.Err = true
		} else {
			id, perr := c07Parse(data)
			if perr != nil {
				w.r.Violation("C07:torn-read:"+kind.String(), fmt.Sprintf("Get(%s) returned a value that no upload wrote: %v", lk, perr), w.detail(map[string]any{"bytes": len(data)}))
				out.Err = true
			} else {
				out.Val = id
				if size != int64(len(data)) {
					w.r.Violation("C07:wrong-size:"+kind.String(), fmt.Sprintf("Get(%s) reported size %d but delivered %d bytes", lk, size, len(data)), w.detail(nil))
				}
			}
		}
	}
	ret := w.hist.clock.Add(1)
	w.hist.add(client, c07In{Key: lk}, out, call, ret)
	switch {
	case out.Err:
		w.r.Count("op.regget.err")
	case out.Miss:
		w.r.Count("op.regget.miss")
	default:
		w.r.Count("op.regget.hit")
	}
}

// c07LateReader delivers its bytes after a pause.
type c07LateReader struct {
	data  []byte
	delay time.Duration
	pos   int
}

func (l *c07LateReader) Read(p []byte) (int, error) {
	if l.pos == 0 && l.delay > 0 {
		time.Sleep(l.delay)
	}
	if l.pos >= len(l.data) {
		return 0, io.EOF
	}
	n := copy(p, l.data[l.pos:])
	l.pos += n
	return n, nil
}

func (w *c07World) casOp(client int, rng *rand.Rand) {
	ctx := context.Background()
	it := w.cas[rng.IntN(len(w.cas))]
	n := int64(len(it.content))
	switch rng.IntN(10) {
	case 0, 1:
		err := w.c.Put(ctx, cache.CAS, it.hash, n, bytes.NewReader(it.content))
		w.r.Count("op.casput." + okStr(err == nil))
		if err == nil {
			w.ackCAS(it.hash)
		}
		if err != nil && !w.o.pressure && !errors.Is(err, context.Canceled) {
			// no space pressure in this history: nothing the other clients do may make a well-formed upload fail
			w.r.Violation("C07:valid-upload-refused", fmt.Sprintf("a well-formed CAS upload failed under concurrency without space pressure: %v", err), w.detail(map[string]any{"hash": it.hash, "size": n}))
		}
	case 9:
		// over-long stream: the declared bytes, a pause, then surplus bytes (the upload must fail, and whatever
		// the server does with the surplus must not leak into other clients' uploads)
		surplus := make([]byte, 1+rng.IntN(8192))
		for i := range surplus {
			surplus[i] = 0xEE
		}
		rd := io.MultiReader(bytes.NewReader(it.content), &c07LateReader{data: surplus, delay: time.Duration(rng.IntN(1500)) * time.Microsecond})
		if err := w.c.Put(ctx, cache.CAS, it.hash, n, rd); err == nil {
			w.r.Violation("C07:bad-upload-accepted", "a CAS upload with surplus bytes was accepted under concurrency", w.detail(nil))
		}
		w.r.Count("op.casput-long")
	case 2:
		bad := append([]byte(nil), it.content...)
		bad[rng.IntN(len(bad))] ^= 2
		if err := w.c.Put(ctx, cache.CAS, it.hash, n, bytes.NewReader(bad)); err == nil {
			w.r.Violation("C07:bad-upload-accepted", "a CAS upload with wrong content was accepted under concurrency", w.detail(nil))
		}
		w.r.Count("op.casput-bad")
	case 3, 4, 5, 6:
		if rng.IntN(8) == 0 {
			it = w.pickLookup(rng)
			n = int64(len(it.content))
		}
		size, off := n, int64(0)
		zs := false
		switch rng.IntN(4) {
		case 0:
			size = -1
		case 1:
			if n > 1 {
				off = rng.Int64N(n)
			}
		case 2:
			zs = true
		}
		var rc io.ReadCloser
		var fs int64
		var err error
		path := "get"
		start := w.lookupStart()
		if zs {
			path = "getzstd"
			rc, fs, err = w.c.GetZstd(ctx, it.hash, size, off)
		} else {
			rc, fs, err = w.c.Get(ctx, cache.CAS, it.hash, size, off)
		}
		if err != nil {
			w.r.Count("op.casget.err")
			return
		}
		if rc == nil {
			w.r.Count("op.casget.miss")
			w.absent(path, it.hash, start)
			return
		}
		w.present(path, it.hash)
		data, rerr := io.ReadAll(rc)
		_ = rc.Close()
		if rerr == nil && zs {
			data, rerr = lib.ZstdDecodeKP(data)
		}
		if rerr != nil {
			w.r.Violation("C07:read-error-mid-stream:cas", fmt.Sprintf("reading a CAS blob that Get had just returned failed: %v", rerr), w.detail(nil))
			return
		}
		if !bytes.Equal(data, it.content[off:]) || fs != n {
			w.r.Violation("C07:torn-read:cas", fmt.Sprintf("CAS read of %s (offset %d, zstd %v) returned %d bytes (size reported %d) that are not the blob's bytes [%d,%d)", it.hash[:12], off, zs, len(data), fs, off, n), w.detail(nil))
		}
		w.r.Count("op.casget.hit")
	case 7:
		it = w.pickLookup(rng)
		start := w.lookupStart()
		if ok, _ := w.c.Contains(ctx, cache.CAS, it.hash, int64(len(it.content))); ok {
			w.present("contains", it.hash)
		} else {
			w.absent("contains", it.hash, start)
		}
		w.r.Count("op.contains")
	case 8:
		var ds []*pb.Digest
		for i := 0; i < 1+rng.IntN(30); i++ {
			x := w.pickLookup(rng)
			ds = append(ds, &pb.Digest{Hash: x.hash, SizeBytes: int64(len(x.content))})
		}
		start := w.lookupStart()
		missing, err := w.c.FindMissingCasBlobs(ctx, append([]*pb.Digest(nil), ds...)) // (the call edits the slice it is given)
		w.r.Count("op.findmissing")
		if err == nil {
			w.judgeFindMissing("findmissing", ds, missing, start)
		}
	}
}

func (w *c07World) judgeFindMissing(path string, asked, missing []*pb.Digest, start int64) {
	miss := map[string]bool{}
	for _, d := range missing {
		miss[d.Hash] = true
	}
	seen := map[string]bool{}
	for _, d := range asked {
		if seen[d.Hash] {
			continue
		}
		seen[d.Hash] = true
		if miss[d.Hash] {
			w.absent(path, d.Hash, start)
		} else {
			w.present(path, d.Hash)
		}
	}
}

func (w *c07World) validatedOp(rng *rand.Rand) {
	ctx := context.Background()
	k := w.vars[rng.IntN(len(w.vars))]
	if rng.IntN(3) == 0 {
		// a valid ActionResult referencing pool blobs (several of which may be absent everywhere: fail-fast path)
		ar := &pb.ActionResult{ExecutionMetadata: &pb.ExecutedActionMetadata{Worker: "c07"}}
		ghost := false
		for i := 0; i < 2+rng.IntN(30); i++ {
			x := w.cas[rng.IntN(len(w.cas))]
			d := &pb.Digest{Hash: x.hash, SizeBytes: int64(len(x.content))}
			if rng.IntN(4) == 0 {
				d = &pb.Digest{Hash: lib.RandHash(rng), SizeBytes: 77}
				ghost = true
			}
			ar.OutputFiles = append(ar.OutputFiles, &pb.OutputFile{Path: fmt.Sprintf("o%d", i), Digest: d})
		}
		b, _ := proto.Marshal(ar)
		w.ackMu.Lock()
		w.varVals[string(b)] = struct{}{}
		if ghost {
			w.varGhost[string(b)] = struct{}{}
		}
		w.ackMu.Unlock()
		_ = w.c.Put(ctx, cache.AC, k, int64(len(b)), bytes.NewReader(b))
		w.r.Count("op.varput")
		return
	}
	res, data, err := w.c.GetValidatedActionResult(ctx, k)
	w.r.Count("op.getvalidated")
	if err == nil && res != nil {
		// a hit is the complete bytes of one upload to a validated key, and every blob it references exists
		w.r.Count("op.getvalidated.hit")
		w.ackMu.Lock()
		_, written := w.varVals[string(data)]
		_, ghost := w.varGhost[string(data)]
		w.ackMu.Unlock()
		if !written {
			w.r.Violation("C07:torn-read:validated-ac", fmt.Sprintf("the validated action-cache lookup returned %d bytes that no upload wrote", len(data)), w.detail(nil))
		} else if ghost {
			w.r.Violation("C07:validated-hit-with-absent-blob", "the validated action-cache lookup answered a hit for an ActionResult that references a blob existing nowhere, under concurrency", w.detail(nil))
		}
	}
}

// srvUploaded judges the outcome of a well-formed upload through a front end: without space pressure nothing the
// other clients do may make it fail; an acknowledged one is recorded for the found-rule.
func (w *c07World) srvUploaded(path string, it acctItem, ctx context.Context, err error, detail string) {
	w.r.Count("op.srv." + path + "." + okStr(err == nil))
	if err == nil {
		w.ackCAS(it.hash)
		return
	}
	if ctx.Err() != nil || w.o.pressure {
		return // harness watchdog expired (slow machine) / the cache is full most of the time
	}
	w.r.Violation("C07:valid-upload-refused:"+path, fmt.Sprintf("a well-formed upload of %d bytes through %s failed under concurrency without space pressure: %s", len(it.content), path, detail), w.detail(map[string]any{"hash": it.hash}))
}

// srvRead judges one read through a front end: absent (found-rule), complete and correct, or - without damaged
// files - never an error after the transfer began.
func (w *c07World) srvRead(path string, it acctItem, start int64, absent bool, got []byte, midStreamErr error, want []byte) {
	switch {
	case absent:
		w.r.Count("op.srv." + path + ".absent")
		w.absent(path, it.hash, start)
	case midStreamErr != nil:
		w.r.Count("op.srv." + path + ".error-mid-stream")
		if !w.o.damage {
			w.r.Violation("C07:read-error-mid-stream:"+path, fmt.Sprintf("%s of a blob failed after %d bytes had been delivered: %v", path, len(got), midStreamErr), w.detail(map[string]any{"hash": it.hash}))
		}
	default:
		w.r.Count("op.srv." + path + ".hit")
		w.present(path, it.hash)
		if !bytes.Equal(got, want) {
			w.r.Violation("C07:torn-read:"+path, fmt.Sprintf("%s returned %d bytes that are not the blob (%d bytes)", path, len(got), len(want)), w.detail(map[string]any{"hash": it.hash}))
		}
	}
}

func (w *c07World) serverOp(client int, rng *rand.Rand) {
	it := w.cas[rng.IntN(len(w.cas))]
	n := int64(len(it.content))
	ctx, cancel := lib.Ctx()
	defer cancel()
	d := &pb.Digest{Hash: it.hash, SizeBytes: n}
	switch rng.IntN(13) {
	case 0:
		_, err := w.srv.BSWrite(ctx, lib.ResUpload(uuidOf(rng), it.hash, n), it.content, 1+rng.IntN(32*lib.KiB))
		w.srvUploaded("bswrite", it, ctx, err, fmt.Sprint(err))
	case 1:
		_, err := w.srv.BSWrite(ctx, lib.ResUploadZstd(uuidOf(rng), it.hash, n), w.zstdOf(rng, it), 1+rng.IntN(32*lib.KiB))
		w.srvUploaded("bswrite-zstd", it, ctx, err, fmt.Sprint(err))
	case 2:
		g := w.srv.HTTPPut("/cas/"+it.hash, it.content, nil)
		if g.Err != nil {
			w.r.Count("op.srv.httpput.transport-error")
			return
		}
		var err error
		if g.Status != 200 {
			err = fmt.Errorf("status %d: %s", g.Status, tail(string(g.Body), 200))
		}
		w.srvUploaded("httpput", it, ctx, err, fmt.Sprint(err))
	case 3:
		g := w.srv.HTTPPut("/cas/"+it.hash, w.zstdOf(rng, it), map[string]string{"Content-Encoding": "zstd", "X-Digest-SizeBytes": fmt.Sprint(n)})
		if g.Err != nil {
			w.r.Count("op.srv.httpput-zstd.transport-error")
			return
		}
		var err error
		if g.Status != 200 {
			err = fmt.Errorf("status %d: %s", g.Status, tail(string(g.Body), 200))
		}
		w.srvUploaded("httpput-zstd", it, ctx, err, fmt.Sprint(err))
	case 4:
		req := &pb.BatchUpdateBlobsRequest{Requests: []*pb.BatchUpdateBlobsRequest_Request{{Digest: d, Data: it.content}}}
		path := "batchupdate"
		if rng.IntN(2) == 0 {
			path = "batchupdate-zstd"
			req.Requests[0].Data, req.Requests[0].Compressor = w.zstdOf(rng, it), pb.Compressor_ZSTD
		}
		resp, err := w.srv.CAS.BatchUpdateBlobs(ctx, req)
		if err == nil && (len(resp.Responses) != 1 || resp.Responses[0].GetStatus().GetCode() != 0) {
			err = fmt.Errorf("per-blob status %v", resp.Responses)
		}
		w.srvUploaded(path, it, ctx, err, fmt.Sprint(err))
	case 5, 6:
		it = w.pickLookup(rng)
		n = int64(len(it.content))
		start := w.lookupStart()
		got, err := w.srv.BSRead(ctx, lib.ResBlobs(it.hash, n), 0, 0)
		if ctx.Err() != nil {
			return
		}
		var mid error
		if err != nil && lib.Code(err) != codes.NotFound {
			if len(got) == 0 {
				w.r.Count("op.srv.bsread.error-before-data." + lib.Code(err).String())
				return
			}
			mid = err
		}
		w.srvRead("bsread", it, start, err != nil && mid == nil, got, mid, it.content)
	case 7:
		it = w.pickLookup(rng)
		n = int64(len(it.content))
		start := w.lookupStart()
		got, err := w.srv.BSRead(ctx, lib.ResZstd(it.hash, n), 0, 0)
		if ctx.Err() != nil {
			return
		}
		var mid error
		if err != nil && lib.Code(err) != codes.NotFound {
			if len(got) == 0 {
				w.r.Count("op.srv.bsread-zstd.error-before-data." + lib.Code(err).String())
				return
			}
			mid = err
		}
		if err == nil {
			dec, derr := lib.ZstdDecodeKP(got)
			if derr != nil {
				w.r.Violation("C07:torn-read:bsread-zstd", fmt.Sprintf("ByteStream.Read of compressed-blobs/zstd delivered %d bytes that do not decode: %v", len(got), derr), w.detail(map[string]any{"hash": it.hash}))
				return
			}
			got = dec
		}
		w.srvRead("bsread-zstd", it, start, err != nil && mid == nil, got, mid, it.content)
	case 8, 9:
		it = w.pickLookup(rng)
		start := w.lookupStart()
		g := w.srv.HTTPGet("/cas/"+it.hash, nil)
		if g.Err != nil || (g.Status != 200 && g.Status != 404) {
			w.r.Count(fmt.Sprintf("op.srv.httpget.other.%d", g.Status))
			return
		}
		w.srvRead("httpget", it, start, g.Status == 404, g.Body, g.BodyErr, it.content)
	case 10, 11:
		it = w.pickLookup(rng)
		d = &pb.Digest{Hash: it.hash, SizeBytes: int64(len(it.content))}
		req := &pb.BatchReadBlobsRequest{Digests: []*pb.Digest{d}}
		path := "batchread"
		if rng.IntN(2) == 0 {
			path = "batchread-zstd"
			req.AcceptableCompressors = []pb.Compressor_Value{pb.Compressor_ZSTD}
		}
		start := w.lookupStart()
		resp, err := w.srv.CAS.BatchReadBlobs(ctx, req)
		if err != nil || len(resp.Responses) != 1 {
			w.r.Count("op.srv." + path + ".call-error")
			return
		}
		x := resp.Responses[0]
		switch codes.Code(x.GetStatus().GetCode()) {
		case codes.NotFound:
			w.srvRead(path, it, start, true, nil, nil, nil)
		case codes.OK:
			data := x.Data
			if x.Compressor == pb.Compressor_ZSTD {
				dec, derr := lib.ZstdDecodeKP(data)
				if derr != nil {
					w.r.Violation("C07:torn-read:"+path, fmt.Sprintf("BatchReadBlobs delivered %d zstd bytes that do not decode: %v", len(data), derr), w.detail(map[string]any{"hash": it.hash}))
					return
				}
				data = dec
			}
			w.srvRead(path, it, start, false, data, nil, it.content)
		default:
			w.r.Count("op.srv." + path + ".status-other")
		}
	case 12:
		var ds []*pb.Digest
		for i := 0; i < 1+rng.IntN(12); i++ {
			x := w.pickLookup(rng)
			ds = append(ds, &pb.Digest{Hash: x.hash, SizeBytes: int64(len(x.content))})
		}
		start := w.lookupStart()
		missing, err := w.srv.FindMissing(ctx, ds...)
		w.r.Count("op.srv.findmissing")
		if err == nil {
			w.judgeFindMissing("grpc-findmissing", ds, missing, start)
		}
	}
}

func (w *c07World) worker(client int, rng *rand.Rand, n int) {
	for i := 0; i < n; i++ {
		w.open.Add(1)
		kind := cache.AC
		if rng.IntN(3) == 0 {
			kind = cache.RAW
		}
		key := w.keys[rng.IntN(len(w.keys))]
		x := rng.IntN(20)
		if client >= 8 && x < 11 {
			x = 11 + rng.IntN(9) // register traffic comes from at most 8 clients: bounds the linearizability search, the other clients still interleave
		}
		switch {
		case x < 5:
			w.regPut(client, rng, kind, key)
		case x < 11:
			w.regGet(client, rng, kind, key)
		case x < 15:
			w.casOp(client, rng)
		case x < 17:
			w.validatedOp(rng)
		default:
			if w.srv != nil {
				w.serverOp(client, rng)
			} else {
				w.casOp(client, rng)
			}
		}
		w.open.Add(-1)
		w.opsDone.Add(1)
		w.r.Eval()
	}
}

// damage corrupts the header of / deletes cache files underneath the server.
func (w *c07World) damageFiles(rng *rand.Rand) []string {
	snap := lib.Snapshot(w.c)
	var hit []string
	for _, e := range snap.Entries {
		if rng.IntN(3) != 0 {
			continue
		}
		p := filepath.Join(snap.Dir, e.Path)
		if strings.HasPrefix(e.Key, "cas/") && !e.Legacy && rng.IntN(2) == 0 {
			if f, err := os.OpenFile(p, os.O_WRONLY, 0); err == nil {
				_, _ = f.WriteAt([]byte{0xde, 0xad, 0xbe, 0xef}, 0)
				_ = f.Close()
				hit = append(hit, e.Key)
			}
		} else if os.Remove(p) == nil {
			hit = append(hit, e.Key)
		}
	}
	w.note("damaged %d files: %v", len(hit), hit)
	return hit
}

func runC07History(r *lib.Run, hc *lib.HookCtl, pool *lib.DirPool, o c07Opts) {
	rng := rand.New(rand.NewPCG(o.seed, 7))
	w := &c07World{r: r, o: o, hc: hc, casAck: map[string]int64{}, zenc: map[string][][]byte{}, varVals: map[string]struct{}{}, varGhost: map[string]struct{}{}, judgeFound: !o.pressure && !o.damage}
	if w.judgeFound {
		r.Count("histories.found-rule-judged")
	}
	dir := pool.Get()
	defer pool.Put(dir)
	opts := lib.ServerOpts{Dir: dir, MaxSize: o.max, Storage: o.storage, ZstdImpl: o.impl, NoGRPC: !o.server, NoHTTP: !o.server}
	if o.proxy {
		w.px = lib.NewFakeProxy(o.storage == "zstd")
		opts.Proxy = w.px
	}
	if o.server {
		srv, err := lib.StartServer(opts)
		if err != nil {
			r.Inconclusive("server start: " + err.Error())
			return
		}
		w.srv, w.c = srv, srv.Cache
		defer srv.Close()
	} else {
		c, _, err := lib.NewCache(opts)
		if err != nil {
			r.Inconclusive("cache start: " + err.Error())
			return
		}
		w.c = c
	}
	for i := 0; i < 1+rng.IntN(6); i++ {
		w.keys = append(w.keys, lib.RandHash(rng))
	}
	for i := 0; i < 2; i++ {
		w.vars = append(w.vars, lib.RandHash(rng))
	}
	for i := 0; i < 2+rng.IntN(5); i++ {
		sz := []int{1, 100, 4096, 5000, 70000, lib.MiB + 5}[rng.IntN(6)]
		if o.pressure {
			sz = []int{1, 100, 4096, 5000, int(o.max / 4)}[rng.IntN(5)]
		}
		b := lib.GenBlob(rng, sz, lib.Pick(rng, lib.ContentKinds), fmt.Sprintf("%s-k%d", o.caseID, i))
		it := acctItem{hash: lib.Sha256Hex(b), content: b}
		w.cas = append(w.cas, it)
		if w.px != nil && rng.IntN(2) == 0 {
			w.px.SetBlob(cache.CAS, it.hash, it.content)
		}
	}
	for i := 0; i < 2; i++ {
		b := lib.GenBlob(rng, []int{1, 300, 5000}[rng.IntN(3)], "random", fmt.Sprintf("%s-ghost%d", o.caseID, i))
		w.ghosts = append(w.ghosts, acctItem{hash: lib.Sha256Hex(b), content: b})
	}
	hc.StartTrace()
	hc.SetRandomDelays(true)
	phases := 1
	if o.damage {
		phases = 2
	}
	var damaged []string
	for ph := 0; ph < phases; ph++ {
		stop := make(chan struct{})
		var samplerWG, wg sync.WaitGroup
		samplerWG.Add(1)
		go func() {
			defer samplerWG.Done()
			for {
				select {
				case <-stop:
					return
				default:
				}
				snap := lib.Snapshot(w.c)
				r.Count("sampler.snapshots")
				if bad := lib.CheckAcct(snap); len(bad) > 0 {
					r.Violation("C07:acct-at-arbitrary-instant:"+classify(bad[0]), fmt.Sprintf("accounting invariant broken while %d operations were in flight: %v", w.open.Load(), bad), w.detail(bad))
					return
				}
				time.Sleep(500 * time.Microsecond)
			}
		}()
		done := make(chan struct{})
		for cl := 0; cl < o.workers; cl++ {
			wg.Add(1)
			wrng := rand.New(rand.NewPCG(o.seed+uint64(ph)*1000, uint64(cl)+1))
			go func(cl int) {
				defer wg.Done()
				w.worker(cl, wrng, o.opsEach)
			}(cl)
		}
		go func() { wg.Wait(); close(done) }()
		select {
		case <-done:
		case <-time.After(600 * time.Second):
			// Persistent-state oracle, not a latency threshold: a deadlock shows as the SAME goroutines parked at the
			// SAME place inside bazel-remote request code (lock, semaphore, channel) in two dumps taken 10 s apart,
			// while no operation completed in between, no goroutine inside bazel-remote code is runnable / sleeping /
			// in a system call and no harness client is runnable. Anything else is a slow machine: inconclusive.
			before := w.opsDone.Load()
			stuck, active, dump := lib.SelfStuckVerdict(10*time.Second, c07ParkedByDesign, []string{"(*c07World).worker"})
			finished := false
			select {
			case <-done:
				finished = true
			default:
			}
			if len(stuck) > 0 && len(active) == 0 && !finished && w.opsDone.Load() == before {
				r.Violation("C07:operation-never-returned", fmt.Sprintf("%d operation(s) still open 600 s after the workload started; in two goroutine dumps 10 s apart the same goroutines are parked at the same places in bazel-remote code, nothing completed and nothing is runnable: %s", w.open.Load(), lib.SigString(stuck)),
					w.detail(map[string]any{"parked": lib.SigString(stuck), "goroutines": lib.SigString(lib.GoroutineSignatures(dump))}))
			} else {
				r.Inconclusive(fmt.Sprintf("watchdog: workload of %s did not finish in 600 s, but it is not provably dead-locked (finished meanwhile=%v, operations completed during the 10 s observation=%d, active goroutines=%d, identically parked=%d): slow machine", o.caseID, finished, w.opsDone.Load()-before, len(active), len(stuck)))
			}
			close(stop)
			return
		}
		close(stop)
		samplerWG.Wait()
		if ph == 0 && o.damage {
			damaged = w.damageFiles(rng)
		}
	}
	hc.SetRandomDelays(false)
	order, n := hc.EndTrace()
	r.Distinct("history", o.storage, o.pressure, o.proxy, o.server, order)
	r.CountN("hook.events_traced", int64(n))
	if w.srv != nil {
		if v := w.srv.Settle(30 * time.Second); v != "ok" {
			r.Violation("C07:quiescence:"+v, "server did not become quiescent after all clients returned: "+v, w.detail(nil))
			return
		}
	}
	// touch damaged keys once so that the index learns about them (a failed read removes the entry), then judge
	for _, k := range damaged {
		kind, hash := splitKey(k)
		if rc, _, _ := w.c.Get(context.Background(), kind, hash, -1, 0); rc != nil {
			_, _ = io.Copy(io.Discard, rc)
			_ = rc.Close()
		}
	}
	// (4) quiescence: accounting and directory
	snap := lib.Snapshot(w.c)
	bad := lib.CheckAcct(snap)
	if snap.ReservedSize != 0 {
		bad = append(bad, fmt.Sprintf("reservedSize=%d at quiescence", snap.ReservedSize))
	}
	if len(bad) > 0 {
		r.Violation("C07:acct-at-quiescence:"+classify(bad[0]), fmt.Sprintf("accounting diverged after a concurrent history: %v", bad), w.detail(bad))
	}
	if d, _, verdict := lib.CheckDirQuiescent(w.c, true); verdict == "violated" {
		r.Violation("C07:dir-at-quiescence:"+dirClass(d), "directory != index after a concurrent history: "+d.String(), w.detail(d))
	} else if verdict == "inconclusive" {
		r.Inconclusive("deletion backlog did not drain")
	}
	// (3) linearizability per key (not in the -race child: the search itself is instrumented and the parent already did it)
	if os.Getenv("C07_CHILD") != "" {
		return
	}
	res, info := porcupine.CheckOperationsVerbose(c07Model(o.pressure || o.damage), w.hist.ops, 180*time.Second)
	r.CountN("porcupine.operations", int64(len(w.hist.ops)))
	r.Count("porcupine." + string(res))
	switch res {
	case porcupine.Illegal:
		var ops []string
		for _, op := range w.hist.ops {
			in, out := op.Input.(c07In), op.Output.(c07Out)
			ops = append(ops, fmt.Sprintf("c%d [%d,%d] key=%s write=%v val=%s -> val=%s miss=%v err=%v", op.ClientId, op.Call, op.Return, in.Key[:10], in.Write, in.Val, out.Val, out.Miss, out.Err))
		}
		_ = info
		if len(ops) > 400 {
			ops = ops[:400]
		}
		r.Violation("C07:not-linearizable:pressure="+fmt.Sprint(o.pressure), "per-key history of uploads and reads is not linearizable against a register (stale, lost or invented value)", w.detail(ops))
	case porcupine.Unknown:
		// this history is left undecided (never counted as held); the run as a whole is inconclusive only if that happens often
		r.Count("porcupine.undecided_histories")
		r.Extra("porcupine_timeout_"+o.caseID, fmt.Sprintf("%d operations, %d clients", len(w.hist.ops), o.workers))
	}
}

// ---------------------------------------------------------------------------
// targeted schedule-forcing scenarios

type c07Scn struct {
	r    *lib.Run
	hc   *lib.HookCtl
	pool *lib.DirPool
	rng  *rand.Rand
	name string
	log  []string
	// only: the scenarios are replayed for C03 ("acct": judges the accounting invariant only) or for C04 ("dir": judges
	// directory == index only); "" = C07 judges everything
	only string
	// backend: the current scenario's cache has a proxy backend (existence checks may be answered by it)
	backend bool
}

func (s *c07Scn) viol(suffix, what string, detail any) {
	if s.only != "" {
		if strings.HasPrefix(suffix, s.only+":") {
			s.r.Violation(map[string]string{"acct": "C03", "dir": "C04"}[s.only]+":forced-schedule:"+s.name+":"+suffix, what, detail)
		}
		return
	}
	s.r.Violation("C07:scenario:"+s.name+":"+suffix, what, detail)
}

func (s *c07Scn) detail(extra any) map[string]any {
	return map[string]any{"scenario": s.name, "events": s.log, "observed": extra}
}

func (s *c07Scn) finish(c disk.Cache, reached bool) {
	s.hc.UngateAll()
	if reached {
		s.r.Count("scenario." + s.name + ".reached")
	} else {
		s.r.Count("scenario." + s.name + ".not-reached")
	}
	snap := lib.Snapshot(c)
	bad := lib.CheckAcct(snap)
	if snap.ReservedSize != 0 {
		bad = append(bad, fmt.Sprintf("reservedSize=%d at quiescence", snap.ReservedSize))
	}
	if len(bad) > 0 {
		s.viol("acct:"+classify(bad[0]), fmt.Sprintf("accounting diverged in forced schedule %q: %v", s.name, bad), s.detail(bad))
	}
	if d, dsnap, verdict := lib.CheckDirQuiescent(c, true); verdict == "violated" {
		s.viol("dir:"+dirClass(d), fmt.Sprintf("directory != index after forced schedule %q: %s", s.name, d.String()), s.detail(d))
	} else if verdict == "ok" && !s.backend {
		if lost := lib.CheckEntriesFound(c, dsnap); len(lost) > 0 {
			s.viol("dir:file-of-entry-not-found-by-lookups", fmt.Sprintf("files on disk whose index entries no lookup finds after forced schedule %q: %v", s.name, lost), s.detail(lost))
		}
	}
	s.r.Eval()
	s.r.Distinct("scenario", s.name, reached)
}

func readAllOf(c disk.Cache, kind cache.EntryKind, hash string, size int64) ([]byte, bool, error) {
	rc, _, err := c.Get(context.Background(), kind, hash, size, 0)
	if err != nil {
		return nil, false, err
	}
	if rc == nil {
		return nil, false, nil
	}
	b, err := io.ReadAll(rc)
	_ = rc.Close()
	return b, true, err
}

// S1: reader held after the index lookup while the key is overwritten and the old file unlinked.
func (s *c07Scn) readerVsOverwrite(storage string, kind cache.EntryKind, pop string) {
	s.name = "reader-vs-overwrite-unlink/" + kind.String()
	if pop != "" && pop != storage {
		s.name += "/stored-as-" + pop + "-reopened-" + storage
	}
	dir := s.pool.Get()
	defer s.pool.Put(dir)
	ctx := context.Background()
	var key string
	var v1, v2 []byte
	if kind == cache.CAS {
		v1 = lib.GenBlob(s.rng, 5000+s.rng.IntN(5000), "random", s.name)
		v2 = v1
		key = lib.Sha256Hex(v1)
	} else {
		key = lib.RandHash(s.rng)
		v1, v2 = c07Value(1, 1, 5000), c07Value(2, 2, 9000)
	}
	c, err := openPopulated(dir, storage, pop, 64*lib.MiB, nil, func(c0 disk.Cache) { _ = c0.Put(ctx, kind, key, int64(len(v1)), bytes.NewReader(v1)) })
	if err != nil {
		return
	}
	g := s.hc.Gate("get.afterIndexUnlock", cache.LookupKey(kind, key), 1)
	type res struct {
		b   []byte
		hit bool
		err error
	}
	ch := make(chan res, 1)
	go func() {
		b, hit, err := readAllOf(c, kind, key, -1)
		ch <- res{b, hit, err}
	}()
	reached := g.WaitArrived(5 * time.Second)
	perr := c.Put(ctx, kind, key, int64(len(v2)), bytes.NewReader(v2))
	lib.WaitEvictionsDrained(c, 5*time.Second) // old file unlinked
	g.Release()
	rr := <-ch
	reached = reached && g.Kept()
	s.log = append(s.log, fmt.Sprintf("reader arrived=%v overwrite err=%v reader hit=%v err=%v len=%d", reached, perr, rr.hit, rr.err, len(rr.b)))
	if reached && perr == nil {
		switch {
		case rr.err != nil:
			s.viol("read-error", fmt.Sprintf("a read overlapping an overwrite failed: %v", rr.err), s.detail(nil))
		case !rr.hit:
			s.viol("spurious-miss", "a key that was present throughout (overwritten without space pressure) was reported missing to a concurrent reader", s.detail(nil))
		case !bytes.Equal(rr.b, v1) && !bytes.Equal(rr.b, v2):
			s.viol("torn-read", fmt.Sprintf("reader got %d bytes that are neither the old nor the new value", len(rr.b)), s.detail(nil))
		}
		// the acknowledged overwrite must still be there
		b, hit, err := readAllOf(c, kind, key, -1)
		if err != nil || !hit || !bytes.Equal(b, v2) {
			s.viol("acknowledged-upload-lost", fmt.Sprintf("after the schedule the acknowledged overwrite is not readable (hit=%v err=%v)", hit, err), s.detail(nil))
		}
	}
	s.finish(c, reached)
}

func corruptHeader(c disk.Cache, key string) bool {
	snap := lib.Snapshot(c)
	for _, e := range snap.Entries {
		if e.Key == key {
			f, err := os.OpenFile(filepath.Join(snap.Dir, e.Path), os.O_WRONLY, 0)
			if err != nil {
				return false
			}
			_, _ = f.WriteAt([]byte{1, 2, 3, 4}, 0)
			_ = f.Close()
			return true
		}
	}
	return false
}

// S2: two readers of one corrupt entry both reach the failed-entry removal.
func (s *c07Scn) twoReadersCorrupt() {
	s.name = "two-readers-corrupt-entry"
	dir := s.pool.Get()
	defer s.pool.Put(dir)
	c, _, err := lib.NewCache(lib.ServerOpts{Dir: dir, MaxSize: 64 * lib.MiB, Storage: "zstd"})
	if err != nil {
		return
	}
	ctx := context.Background()
	var blobs [][]byte
	for i := 0; i < 3; i++ {
		b := lib.GenBlob(s.rng, 3000+s.rng.IntN(9000), "random", fmt.Sprintf("%s-%d", s.name, i))
		blobs = append(blobs, b)
		_ = c.Put(ctx, cache.CAS, lib.Sha256Hex(b), int64(len(b)), bytes.NewReader(b))
	}
	h := lib.Sha256Hex(blobs[1])
	if !corruptHeader(c, "cas/"+h) {
		return
	}
	nReaders := 2 + s.rng.IntN(3)
	g := s.hc.Gate("get.beforeFailedRemove", "cas/"+h, nReaders)
	var wg sync.WaitGroup
	for i := 0; i < nReaders; i++ {
		wg.Add(1)
		go func() {
			defer wg.Done()
			b, hit, _ := readAllOf(c, cache.CAS, h, int64(len(blobs[1])))
			if hit && !bytes.Equal(b, blobs[1]) {
				s.viol("wrong-bytes", "read of a corrupt entry returned wrong bytes", s.detail(nil))
			}
		}()
	}
	reached := g.WaitArrived(5 * time.Second)
	g.Release()
	wg.Wait()
	reached = reached && g.Kept()
	s.log = append(s.log, fmt.Sprintf("%d readers, all at the removal point=%v", nReaders, reached))
	s.finish(c, reached)
}

// S3: reader about to remove a failed entry while a writer re-adds the key.
func (s *c07Scn) failedReaderVsReupload(storage string) {
	s.name = "failed-reader-vs-reupload"
	if storage != "zstd" {
		s.name += "/stored-as-zstd-reopened-" + storage
	}
	dir := s.pool.Get()
	defer s.pool.Put(dir)
	ctx := context.Background()
	b := lib.GenBlob(s.rng, 3000+s.rng.IntN(9000), "random", s.name)
	h := lib.Sha256Hex(b)
	// the entry that will fail to read is a compressed file (it has a header that can be damaged); under the other
	// storage mode the re-upload then replaces it by a file of the other format
	c, err := openPopulated(dir, storage, "zstd", 64*lib.MiB, nil, func(c0 disk.Cache) { _ = c0.Put(ctx, cache.CAS, h, int64(len(b)), bytes.NewReader(b)) })
	if err != nil {
		return
	}
	if !corruptHeader(c, "cas/"+h) {
		return
	}
	g := s.hc.Gate("get.beforeFailedRemove", "cas/"+h, 1)
	done := make(chan struct{})
	go func() {
		defer close(done)
		_, _, _ = readAllOf(c, cache.CAS, h, int64(len(b)))
	}()
	reached := g.WaitArrived(5 * time.Second)
	perr := c.Put(ctx, cache.CAS, h, int64(len(b)), bytes.NewReader(b)) // replaces the corrupt entry; acknowledged
	g.Release()
	<-done
	reached = reached && g.Kept()
	lib.WaitEvictionsDrained(c, 5*time.Second)
	s.log = append(s.log, fmt.Sprintf("reader at removal point=%v, re-upload err=%v", reached, perr))
	if reached && perr == nil {
		got, hit, err := readAllOf(c, cache.CAS, h, int64(len(b)))
		if err != nil || !hit || !bytes.Equal(got, b) {
			s.viol("acknowledged-upload-lost", fmt.Sprintf("an upload acknowledged while a reader was discarding the corrupt predecessor is gone afterwards (hit=%v err=%v) although nothing was evicted for space", hit, err), s.detail(nil))
		}
	}
	s.finish(c, reached)
}

// S4: commit refused because another upload reserved the remaining space.
func (s *c07Scn) commitRefused(storage string) {
	s.name = "commit-refused-by-reservation"
	dir := s.pool.Get()
	defer s.pool.Put(dir)
	c, _, err := lib.NewCache(lib.ServerOpts{Dir: dir, MaxSize: 16 * lib.KiB, Storage: storage})
	if err != nil {
		return
	}
	ctx := context.Background()
	a := lib.GenBlob(s.rng, 6000, "random", s.name+"a")
	b := lib.GenBlob(s.rng, 9000, "random", s.name+"b")
	ka, kb := lib.RandHash(s.rng), lib.RandHash(s.rng)
	ga := s.hc.Gate("put.beforeCommit", "raw/"+ka, 1)
	gb := s.hc.Gate("put.afterReserve", "raw/"+kb, 1)
	var ea, eb error
	var wg sync.WaitGroup
	wg.Add(2)
	go func() { defer wg.Done(); ea = c.Put(ctx, cache.RAW, ka, int64(len(a)), bytes.NewReader(a)) }()
	r1 := ga.WaitArrived(5 * time.Second)
	go func() { defer wg.Done(); eb = c.Put(ctx, cache.RAW, kb, int64(len(b)), bytes.NewReader(b)) }()
	r2 := gb.WaitArrived(5 * time.Second)
	ga.Release() // A commits while B's 9000 bytes are reserved: 9000 + 8192 > 16384
	time.Sleep(2 * time.Millisecond)
	gb.Release()
	wg.Wait()
	lib.WaitEvictionsDrained(c, 5*time.Second)
	// the forced interleaving happened only if both roles were held at their gates until released (a gate that gave up
	// waiting, or a role that needed longer than the arrival timeout, degrades the schedule: then A may legitimately
	// commit first and be evicted by B's reservation)
	reached := r1 && r2 && ga.Kept() && gb.Kept()
	s.log = append(s.log, fmt.Sprintf("A at commit=%v B reserved=%v (gates kept: %v); A err=%v B err=%v", r1, r2, reached, ea, eb))
	for _, x := range []struct {
		k   string
		v   []byte
		err error
	}{{ka, a, ea}, {kb, b, eb}} {
		got, hit, _ := readAllOf(c, cache.RAW, x.k, -1)
		if reached && x.err == nil && (!hit || !bytes.Equal(got, x.v)) {
			// in the target interleaving exactly one of the two commits is refused and nothing is ever evicted
			s.viol("acknowledged-upload-lost", "an acknowledged upload is not readable afterwards (no other traffic)", s.detail(nil))
		}
		if hit && !bytes.Equal(got, x.v) {
			s.viol("torn-read", fmt.Sprintf("a key written once reads back as %d bytes that are not the uploaded value", len(got)), s.detail(nil))
		}
		if x.err != nil && hit {
			s.r.Count("scenario." + s.name + ".obs.refused-upload-present") // C01/C03 judge that; here an observation
		}
		if x.err != nil {
			s.r.Count("scenario." + s.name + ".obs.refused")
		}
	}
	s.finish(c, reached)
}

// S5: proxy fetch about to commit while the same key is uploaded.
func (s *c07Scn) fetchVsUpload(storage string) {
	s.name = "proxy-fetch-vs-upload"
	s.backend = true
	dir := s.pool.Get()
	defer s.pool.Put(dir)
	px := lib.NewFakeProxy(storage == "zstd")
	c, _, err := lib.NewCache(lib.ServerOpts{Dir: dir, MaxSize: 64 * lib.MiB, Storage: storage, Proxy: px})
	if err != nil {
		return
	}
	ctx := context.Background()
	b := lib.GenBlob(s.rng, 2000+s.rng.IntN(200000), "text", s.name)
	h := lib.Sha256Hex(b)
	px.SetBlob(cache.CAS, h, b)
	g := s.hc.Gate("get.proxy.beforeCommit", "cas/"+h, 1)
	type res struct {
		b   []byte
		hit bool
		err error
	}
	ch := make(chan res, 1)
	go func() {
		got, hit, err := readAllOf(c, cache.CAS, h, int64(len(b)))
		ch <- res{got, hit, err}
	}()
	reached := g.WaitArrived(5 * time.Second)
	perr := c.Put(ctx, cache.CAS, h, int64(len(b)), bytes.NewReader(b))
	g.Release()
	rr := <-ch
	reached = reached && g.Kept()
	lib.WaitEvictionsDrained(c, 5*time.Second)
	s.log = append(s.log, fmt.Sprintf("fetch at commit=%v upload err=%v fetch hit=%v err=%v", reached, perr, rr.hit, rr.err))
	if rr.hit && !bytes.Equal(rr.b, b) {
		s.viol("torn-read", "proxy fetch racing with an upload returned wrong bytes", s.detail(nil))
	}
	got, hit, err := readAllOf(c, cache.CAS, h, int64(len(b)))
	if perr == nil && (err != nil || !hit || !bytes.Equal(got, b)) {
		s.viol("acknowledged-upload-lost", fmt.Sprintf("blob uploaded while a fetch of the same key committed is not readable (hit=%v err=%v)", hit, err), s.detail(nil))
	}
	s.finish(c, reached)
}

// S6: remover held before unlinking an evicted key that is read and uploaded again.
func (s *c07Scn) removerVsReupload(storage string) {
	s.name = "remover-vs-reupload"
	dir := s.pool.Get()
	defer s.pool.Put(dir)
	c, _, err := lib.NewCache(lib.ServerOpts{Dir: dir, MaxSize: 24 * lib.KiB, Storage: storage})
	if err != nil {
		return
	}
	ctx := context.Background()
	k := lib.RandHash(s.rng)
	v := c07Value(1, 1, 7000)
	_ = c.Put(ctx, cache.RAW, k, int64(len(v)), bytes.NewReader(v))
	g := s.hc.Gate("evict.beforeUnlink", "raw/"+k, 1)
	// pressure: evict k
	for i := 0; i < 3; i++ {
		f := c07Value(9, i, 7000)
		_ = c.Put(ctx, cache.RAW, lib.RandHash(s.rng), int64(len(f)), bytes.NewReader(f))
	}
	reached := g.WaitArrived(5 * time.Second)
	_, hitBefore, _ := readAllOf(c, cache.RAW, k, -1)
	v2 := c07Value(2, 2, 6000)
	perr := c.Put(ctx, cache.RAW, k, int64(len(v2)), bytes.NewReader(v2))
	g.Release()
	lib.WaitEvictionsDrained(c, 5*time.Second)
	time.Sleep(2 * time.Millisecond)
	reached = reached && g.Kept()
	got, hit, err := readAllOf(c, cache.RAW, k, -1)
	s.log = append(s.log, fmt.Sprintf("remover held=%v read-while-evicted hit=%v reupload err=%v final hit=%v", reached, hitBefore, perr, hit))
	if reached && perr == nil {
		// the new version may itself have been evicted only by space pressure: none was applied after the re-upload
		if err != nil || !hit || !bytes.Equal(got, v2) {
			s.viol("acknowledged-upload-lost", fmt.Sprintf("key re-uploaded while its evicted predecessor awaited deletion is not readable afterwards (hit=%v err=%v)", hit, err), s.detail(nil))
		}
	}
	s.finish(c, reached)
}

// S8: reader about to drop a corrupt entry while space pressure evicts the key (and, variant, the key is uploaded again).
func (s *c07Scn) failedReaderVsEviction(reupload bool, storage string) {
	s.name = "failed-reader-vs-eviction"
	if reupload {
		s.name += "-and-reupload"
	}
	if storage != "zstd" {
		s.name += "/stored-as-zstd-reopened-" + storage
	}
	dir := s.pool.Get()
	defer s.pool.Put(dir)
	ctx := context.Background()
	b := lib.GenBlob(s.rng, 5000+s.rng.IntN(2000), "random", s.name)
	h := lib.Sha256Hex(b)
	c, err := openPopulated(dir, storage, "zstd", 40*lib.KiB, nil, func(c0 disk.Cache) { _ = c0.Put(ctx, cache.CAS, h, int64(len(b)), bytes.NewReader(b)) })
	if err != nil {
		return
	}
	if !corruptHeader(c, "cas/"+h) {
		return
	}
	g := s.hc.Gate("get.beforeFailedRemove", "cas/"+h, 1)
	done := make(chan struct{})
	go func() {
		defer close(done)
		_, _, _ = readAllOf(c, cache.CAS, h, int64(len(b)))
	}()
	reached := g.WaitArrived(5 * time.Second)
	// space pressure: evict the key while the reader still holds its stale element
	for i := 0; i < 8; i++ {
		f := lib.GenBlob(s.rng, 6000, "random", fmt.Sprintf("%s-f%d", s.name, i))
		_ = c.Put(ctx, cache.CAS, lib.Sha256Hex(f), int64(len(f)), bytes.NewReader(f))
	}
	evicted, _ := c.Contains(ctx, cache.CAS, h, int64(len(b)))
	var perr error
	if reupload {
		perr = c.Put(ctx, cache.CAS, h, int64(len(b)), bytes.NewReader(b))
	}
	g.Release()
	<-done
	reached = reached && g.Kept()
	lib.WaitEvictionsDrained(c, 5*time.Second)
	s.log = append(s.log, fmt.Sprintf("reader at removal point=%v; key still indexed after pressure=%v; reupload=%v err=%v", reached, evicted, reupload, perr))
	if reached && reupload && perr == nil {
		got, hit, err := readAllOf(c, cache.CAS, h, int64(len(b)))
		if err != nil || !hit || !bytes.Equal(got, b) {
			s.viol("acknowledged-upload-lost", fmt.Sprintf("an upload acknowledged after the key had been evicted, while a reader still held the stale corrupt entry, is gone afterwards (hit=%v err=%v)", hit, err), s.detail(nil))
		}
	}
	s.finish(c, reached)
}

// S7: many concurrent dependency checks (fail-fast path) with a backend, several referenced blobs absent everywhere:
// every answer must be a miss; the contains workers and the request goroutine share the fail-fast state.
func (s *c07Scn) failFastConcurrentMisses(storage string) {
	s.name = "failfast-concurrent-misses"
	s.backend = true
	dir := s.pool.Get()
	defer s.pool.Put(dir)
	px := lib.NewFakeProxy(storage == "zstd")
	c, _, err := lib.NewCache(lib.ServerOpts{Dir: dir, MaxSize: 64 * lib.MiB, Storage: storage, Proxy: px})
	if err != nil {
		return
	}
	ctx := context.Background()
	ar := &pb.ActionResult{ExecutionMetadata: &pb.ExecutedActionMetadata{Worker: "c07"}}
	for i := 0; i < 12+s.rng.IntN(30); i++ {
		b := lib.GenBlob(s.rng, 100+s.rng.IntN(3000), "random", fmt.Sprintf("%s-%d-%d", s.name, len(s.log), i))
		d := lib.DigestOf(b)
		switch i % 3 {
		case 0:
			_ = c.Put(ctx, cache.CAS, d.Hash, d.SizeBytes, bytes.NewReader(b))
		case 1:
			px.SetBlob(cache.CAS, d.Hash, b)
			px.SetPlan(cache.CAS, d.Hash, lib.ProxyPlan{Delay: time.Duration(s.rng.IntN(300)) * time.Microsecond})
		default: // absent everywhere
			px.SetPlan(cache.CAS, d.Hash, lib.ProxyPlan{NotFound: true, Delay: time.Duration(s.rng.IntN(300)) * time.Microsecond})
		}
		ar.OutputFiles = append(ar.OutputFiles, &pb.OutputFile{Path: fmt.Sprintf("o/%d", i), Digest: d})
	}
	val, _ := proto.Marshal(ar)
	key := lib.RandHash(s.rng)
	_ = c.Put(ctx, cache.AC, key, int64(len(val)), bytes.NewReader(val))
	var wg sync.WaitGroup
	var hits, errs atomic.Int64
	for g := 0; g < 8; g++ {
		wg.Add(1)
		go func() {
			defer wg.Done()
			for i := 0; i < 12; i++ {
				res, _, err := c.GetValidatedActionResult(ctx, key)
				if err != nil {
					errs.Add(1)
				} else if res != nil {
					hits.Add(1)
				}
			}
		}()
	}
	wg.Wait()
	s.log = append(s.log, fmt.Sprintf("%d referenced blobs (1/3 absent everywhere), 96 lookups: hits=%d errors=%d", len(ar.OutputFiles), hits.Load(), errs.Load()))
	s.r.CountN("scenario.failfast.lookups", 96)
	if hits.Load() > 0 {
		s.viol("hit-with-missing-blob", fmt.Sprintf("%d of 96 concurrent dependency checks answered a hit although a third of the referenced blobs exist nowhere", hits.Load()), s.detail(nil))
	}
	if errs.Load() > 0 {
		s.viol("error", fmt.Sprintf("%d of 96 concurrent dependency checks failed with an error caused by absent blobs", errs.Load()), s.detail(nil))
	}
	s.finish(c, true)
}

// ---------------------------------------------------------------------------
// race detector driver (M-race)

var reRaceFrame = regexp.MustCompile(`(?m)^\s+(\S+)\(.*\)$|^\s+(\S+)\(\)$`)

func parseRaceLogs(dir string) (reports []string) {
	files, _ := filepath.Glob(filepath.Join(dir, "race.*"))
	for _, f := range files {
		b, _ := os.ReadFile(f)
		for _, blk := range strings.Split(string(b), "==================") {
			if strings.Contains(blk, "WARNING: DATA RACE") {
				reports = append(reports, blk)
			}
		}
	}
	return
}

// raceSignature: deduplicate by the pair of access sites with line numbers stripped.
func raceSignature(blk string) (sig string, brFrame bool, harnessOnly bool) {
	var tops []string
	lines := strings.Split(blk, "\n")
	for i, l := range lines {
		t := strings.TrimSpace(l)
		if (strings.HasPrefix(t, "Read at") || strings.HasPrefix(t, "Write at") || strings.HasPrefix(t, "Previous read at") || strings.HasPrefix(t, "Previous write at") ||
			strings.HasPrefix(t, "Atomic") || strings.HasPrefix(t, "Previous atomic")) && i+1 < len(lines) {
			fn := strings.TrimSpace(lines[i+1])
			if j := strings.LastIndex(fn, "("); j > 0 {
				fn = fn[:j] // strip the argument list, keep receiver types such as disk.(*diskCache).containsWorker
			}
			tops = append(tops, fn)
		}
	}
	sort.Strings(tops)
	sig = strings.Join(tops, " <-> ")
	brFrame = strings.Contains(blk, "github.com/buchgr/bazel-remote/v2/")
	harnessOnly = len(tops) > 0
	for _, t := range tops {
		if !strings.HasPrefix(t, "verif/harness/") {
			harnessOnly = false
		}
	}
	return
}

func runRaceChild(r *lib.Run, reps int) {
	raceBin := lib.BinPath("check-race")
	if _, err := os.Stat(raceBin); err != nil {
		r.Inconclusive("race binary missing: " + raceBin)
		return
	}
	seen := map[string]string{}
	total := 0
	for rep := 0; rep < reps; rep++ {
		dir := lib.MkTemp("race")
		root := filepath.Join(dir, "root")
		_ = os.MkdirAll(root, 0o755)
		if b, err := os.ReadFile(filepath.Join(lib.VerifRoot(), "known_findings.json")); err == nil {
			_ = os.WriteFile(filepath.Join(root, "known_findings.json"), b, 0o644)
		}
		cmd := exec.Command(raceBin, "C07", r.Tier)
		cmd.Env = append(os.Environ(), "C07_CHILD=1", "VERIF_ROOT="+root, fmt.Sprintf("VERIF_SEED=%d", r.Seed+int64(rep)*1000),
			"GORACE=halt_on_error=0 log_path="+filepath.Join(dir, "race"))
		out, err := cmd.CombinedOutput()
		r.Count("race-child.runs")
		// relay the child's own oracle verdicts
		for _, line := range strings.Split(string(out), "\n") {
			if strings.HasPrefix(line, "VIOLATION") {
				r.Violation("C07:race-child-oracle", "the workload run under the race detector reported: "+line, map[string]any{"output_tail": tail(string(out), 3000)})
			}
			if strings.HasPrefix(line, "SUMMARY") {
				r.Extra(fmt.Sprintf("race_child_%d_summary", rep), line)
			}
		}
		if ee := (&exec.ExitError{}); errors.As(err, &ee) && ee.ExitCode() != 1 && ee.ExitCode() != 2 && ee.ExitCode() != 0 {
			r.Violation("C07:race-child-died", fmt.Sprintf("workload process died under the race detector (exit %d)", ee.ExitCode()), map[string]any{"output_tail": tail(string(out), 4000)})
		}
		for _, blk := range parseRaceLogs(dir) {
			total++
			sig, br, harnessOnly := raceSignature(blk)
			if _, dup := seen[sig]; dup {
				continue
			}
			seen[sig] = blk
			switch {
			case harnessOnly:
				r.Count("race.reports.harness-only")
				r.Inconclusive("data race inside the harness itself: " + sig)
			case br:
				r.Count("race.reports.bazel-remote")
				r.Violation("C07:data-race:"+sig, "race detector: unsynchronised memory access with a bazel-remote frame: "+sig, map[string]any{"report": blk})
			default:
				r.Count("race.reports.foreign")
				r.Extra("foreign_race_"+fmt.Sprint(len(seen)), sig)
			}
		}
		_ = os.RemoveAll(dir)
	}
	r.CountN("race.report_blocks_total", int64(total))
	r.CountN("race.distinct_signatures", int64(len(seen)))
}

func tail(s string, n int) string {
	if len(s) > n {
		return s[len(s)-n:]
	}
	return s
}

// ---------------------------------------------------------------------------

func runC07(r *lib.Run) {
	child := os.Getenv("C07_CHILD") != ""
	r.SetRule("concurrent histories: 4-32 clients over 1-6 register keys (AC/RAW, self-describing values) + CAS pool + validated-AC lookups + proxy fetches + HTTP/gRPC traffic, tiny and large caches, files damaged underneath, " +
		"random delays at the tag-guarded yield points; targeted gate scenarios (also on directories written under the other storage mode), deterministic streaming-read-vs-overwrite/eviction scenarios (disk API, ByteStream.Read, HTTP GET), several thousand failing uploads on one instance followed by ordinary traffic; " +
		"found-rule: a CAS lookup (Get, GetZstd, Contains, FindMissing, ByteStream.Read both encodings, HTTP GET, BatchReadBlobs both encodings) that starts after an acknowledged upload (disk API, ByteStream.Write both encodings, HTTP PUT both encodings, BatchUpdateBlobs both encodings) must find it in histories without pressure/damage, never-uploaded digests must be absent; " +
		"the same workload again in a child built with -race; the real executable built with -race under a mixed HTTP/gRPC workload. distinct = (history: storage, pressure, proxy, server, hash of hook-event order) and (scenario, reached)")
	r.Assume("linearizability is checked on histories recorded at the disk.Cache API boundary with one logical clock; a porcupine timeout is inconclusive")
	hc := lib.NewHookCtl(uint64(r.Seed))
	hc.Install()
	defer hc.Remove()
	pool := lib.NewDirPool("c07")
	defer pool.Close()
	rng := r.Rng("c07")

	nHist := r.N(60, 500)
	nScn := r.N(6, 60)
	if child {
		nHist, nScn = r.N(8, 50), r.N(1, 6)
	}
	t0 := time.Now()
	// targeted scenarios
	runGateScenarios(r, hc, pool, rng, nScn, "")
	if !child {
		scn := &c07Scn{r: r, hc: hc, pool: pool, rng: rng}
		for i := 0; i < r.N(1, 4); i++ {
			scn.log = nil
			scn.failingUploadsDoNotExhaust([]string{"zstd", "uncompressed"}[(int(r.Seed)+i)%2], 5400)
		}
	}
	r.CountN("time_ms.scenarios", time.Since(t0).Milliseconds())
	t1 := time.Now()
	runC07Histories(r, hc, pool, rng, nHist, child)
	r.CountN("time_ms.histories", time.Since(t1).Milliseconds())
	for k, v := range hc.Hits() {
		r.CountN("hook."+k, v)
	}
	r.CountN("gate.timeouts", hc.GateTimeouts.Load())
	if !child {
		t2 := time.Now()
		runRaceChild(r, r.N(1, 3))
		r.CountN("time_ms.race_child", time.Since(t2).Milliseconds())
		t3 := time.Now()
		runC07BinaryRace(r)
		r.CountN("time_ms.binary_race", time.Since(t3).Milliseconds())
	}
}

// runGateScenarios drives the targeted schedule-forcing scenarios n times (alternating storage modes).
func runGateScenarios(r *lib.Run, hc *lib.HookCtl, pool *lib.DirPool, rng *rand.Rand, nScn int, only string) {
	scn := &c07Scn{r: r, hc: hc, pool: pool, rng: rng, only: only}
	for i := 0; i < nScn; i++ {
		st := []string{"zstd", "uncompressed"}[i%2]
		other := []string{"uncompressed", "zstd"}[i%2]
		fs := []func(){
			func() { scn.readerVsOverwrite(st, cache.AC, "") },
			func() { scn.readerVsOverwrite(st, cache.RAW, "") },
			func() { scn.readerVsOverwrite(st, cache.CAS, "") },
			scn.twoReadersCorrupt,
			func() { scn.failedReaderVsReupload("zstd") },
			func() { scn.commitRefused(st) },
			func() { scn.fetchVsUpload(st) },
			func() { scn.removerVsReupload(st) },
			func() { scn.failFastConcurrentMisses(st) },
			func() { scn.failedReaderVsEviction(false, "zstd") },
			func() { scn.failedReaderVsEviction(true, "zstd") },
			// the same schedules on a directory whose entries were written under the OTHER storage mode
			func() { scn.readerVsOverwrite(st, cache.CAS, other) },
			func() { scn.failedReaderVsReupload("uncompressed") },
			func() { scn.failedReaderVsEviction(i%2 == 0, "uncompressed") },
		}
		if only == "" && os.Getenv("C07_CHILD") == "" {
			// "a read already streaming is unaffected": deterministic and single-threaded, judged by C07 only (not
			// repeated under the race detector)
			how := []string{"overwrite", "eviction"}[(i/2)%2]
			fs = append(fs,
				func() {
					scn.streamingReadUnaffected(st, []cache.EntryKind{cache.AC, cache.RAW}[i%2], how, []string{"", "size-unknown"}[(i/2)%2])
				},
				func() { scn.streamingReadUnaffected(st, cache.CAS, how, []string{"", "offset", "zstd"}[i%3]) },
				func() {
					scn.streamingReadUnaffected(other, cache.CAS, []string{"eviction", "overwrite"}[(i/2)%2], []string{"zstd", "", "offset"}[i%3])
				},
			)
			if i%3 == 0 {
				fs = append(fs, func() { scn.streamingServerReadUnaffected(st, []string{"bytestream", "http-get"}[(i/3)%2]) })
			}
		}
		for _, f := range fs {
			scn.log = nil
			scn.backend = false
			ts := time.Now()
			f()
			r.CountN("scenario_ms."+scn.name, time.Since(ts).Milliseconds())
		}
		if r.Violations() > 12 {
			break
		}
	}
}

func runC07Histories(r *lib.Run, hc *lib.HookCtl, pool *lib.DirPool, rng *rand.Rand, nHist int, child bool) {
	defer func() {
		if u := r.Counter("porcupine.undecided_histories"); u*50 > int64(nHist) {
			r.Inconclusive(fmt.Sprintf("porcupine timed out on %d of %d histories", u, nHist))
		}
	}()
	// random concurrent histories
	for i := 0; i < nHist && r.Violations() <= 12; i++ {
		o := c07Opts{
			caseID:   fmt.Sprintf("C07-s%d-h%d", r.Seed, i),
			seed:     uint64(r.Seed)*100003 + uint64(i),
			storage:  []string{"zstd", "uncompressed"}[rng.IntN(2)],
			impl:     []string{"go", "cgo"}[rng.IntN(2)],
			pressure: rng.IntN(2) == 0,
			workers:  []int{4, 8, 16, 32}[rng.IntN(4)],
			proxy:    rng.IntN(4) == 0,
			server:   rng.IntN(4) == 0,
			damage:   rng.IntN(5) == 0,
		}
		o.opsEach = 400 / o.workers
		if child {
			o.opsEach = 160 / o.workers
		}
		if o.opsEach < 8 {
			o.opsEach = 8
		}
		o.max = 4 * lib.GiB
		if o.pressure {
			o.max = []int64{24 * lib.KiB, 64 * lib.KiB, 256 * lib.KiB}[rng.IntN(3)]
		}
		runC07History(r, hc, pool, o)
		r.Count("histories")
		if i < 2 {
			r.Sample(fmt.Sprintf("%+v", o))
		}
	}
}

func init() { lib.Register("C07", runC07) }

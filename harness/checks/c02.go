package checks

import (
	"bytes"
	"fmt"
	"math/rand/v2"
	"sort"
	"strconv"
	"sync"

	"verif/harness/lib"

	"github.com/buchgr/bazel-remote/v2/cache"
	pb "github.com/buchgr/bazel-remote/v2/genproto/build/bazel/remote/execution/v2"
	"google.golang.org/grpc/codes"
	"google.golang.org/protobuf/proto"
)

// C02 — CAS reads return exactly the stored bytes on every path, offset and encoding.
// The harness holds B; zstd answers are decoded by klauspost AND libzstd.

type c02Blob struct {
	B       []byte
	hash    string
	via     string // how it got into the cache
	backend bool   // held only by the proxy backend before the first read
}

type c02Env struct {
	r      *lib.Run
	srv    *lib.Server
	wcfg   string
	rcfg   string
	caseNo int
}

func (e *c02Env) viol(kind, path string, b *c02Blob, what string, extra map[string]any) {
	d := map[string]any{"writer": e.wcfg, "reader": e.rcfg, "path": path, "hash": b.hash, "size": len(b.B), "stored_via": b.via, "backend_only_before_first_read": b.backend,
		"replay_note": "blob content is regenerated from (seed, blob tag); see case list order"}
	for k, v := range extra {
		d[k] = v
	}
	e.r.Violation(fmt.Sprintf("C02:%s:%s:w=%s:r=%s", path, kind, e.wcfg, e.rcfg), what, d)
}

func offClass(off, n, chunk int64) string {
	switch {
	case off == 0:
		return "0"
	case off == n:
		return "n"
	case off == n-1:
		return "n-1"
	case off%chunk == 0:
		return "k*chunk"
	case off%chunk == chunk-1:
		return "chunk-1"
	case off%chunk == 1:
		return "chunk+1"
	case off%4096 == 0:
		return "k*4096"
	case off < 4096:
		return "<4096"
	default:
		return "mid"
	}
}

func (e *c02Env) readsFor(rng *rand.Rand, b *c02Blob, nReads int, only string) {
	r, srv := e.r, e.srv
	B, n := b.B, int64(len(b.B))
	h := b.hash
	ctx, cancel := lib.Ctx()
	defer cancel()
	cfg := "w=" + e.wcfg + ",r=" + e.rcfg
	szc := lib.SizeClassName(len(B))

	check := func(path string, got []byte, want []byte, extra map[string]any) bool {
		r.Eval()
		if !bytes.Equal(got, want) {
			first := 0
			for first < len(got) && first < len(want) && got[first] == want[first] {
				first++
			}
			if extra == nil {
				extra = map[string]any{}
			}
			extra["got_len"], extra["want_len"], extra["first_difference_at"] = len(got), len(want), first
			e.viol("wrong-bytes", path, b, fmt.Sprintf("%s returned %d bytes, expected %d; first difference at %d (blob %s size %d)", path, len(got), len(want), first, h[:12], n), extra)
			return false
		}
		return true
	}

	type op func()
	var ops []op
	// ---- HTTP
	ops = append(ops, func() {
		g := srv.HTTPGet("/cas/"+h, nil)
		r.Count("http-get." + strconv.Itoa(g.Status))
		r.Distinct("http-get", cfg, szc)
		if g.Status != 200 || g.Err != nil || g.BodyErr != nil {
			e.viol("read-failed", "http-get", b, fmt.Sprintf("GET /cas of a stored blob failed: %d %v %v", g.Status, g.Err, g.BodyErr), nil)
			return
		}
		if check("http-get", g.Body, B, nil) && g.Header.Get("Content-Length") != strconv.FormatInt(n, 10) {
			e.viol("wrong-size", "http-get", b, "Content-Length "+g.Header.Get("Content-Length")+" for a blob of "+strconv.FormatInt(n, 10), nil)
		}
	})
	ops = append(ops, func() {
		g := srv.HTTPGet("/cas/"+h, map[string]string{"Accept-Encoding": "zstd"})
		r.Count("http-get-zstd." + strconv.Itoa(g.Status))
		r.Distinct("http-get-zstd", cfg, szc)
		if g.Status != 200 || g.Err != nil || g.BodyErr != nil {
			e.viol("read-failed", "http-get-zstd", b, fmt.Sprintf("GET /cas (Accept-Encoding: zstd) of a stored blob failed: %d %v %v", g.Status, g.Err, g.BodyErr), nil)
			return
		}
		body := g.Body
		if g.Header.Get("Content-Encoding") == "zstd" {
			dec, err := lib.ZstdDecodeBoth(body)
			if err != nil {
				e.viol("undecodable", "http-get-zstd", b, "zstd answer is not decodable by both standard decoders: "+err.Error(), nil)
				return
			}
			body = dec
		}
		check("http-get-zstd", body, B, nil)
	})
	ops = append(ops, func() {
		hd := srv.HTTPHead("/cas/" + h)
		r.Eval()
		r.Count("http-head." + strconv.Itoa(hd.Status))
		if hd.Status != 200 {
			e.viol("read-failed", "http-head", b, fmt.Sprintf("HEAD of a stored blob: %d", hd.Status), nil)
		} else if hd.Header.Get("Content-Length") != strconv.FormatInt(n, 10) {
			e.viol("wrong-size", "http-head", b, "HEAD Content-Length "+hd.Header.Get("Content-Length")+" for a blob of "+strconv.FormatInt(n, 10), nil)
		}
	})
	// ---- BatchReadBlobs
	for _, z := range []bool{false, true} {
		z := z
		ops = append(ops, func() {
			path := "batchread"
			req := &pb.BatchReadBlobsRequest{Digests: []*pb.Digest{{Hash: h, SizeBytes: n}}}
			if z {
				path = "batchread-zstd"
				req.AcceptableCompressors = []pb.Compressor_Value{pb.Compressor_ZSTD}
			}
			resp, err := srv.CAS.BatchReadBlobs(ctx, req)
			r.Distinct(path, cfg, szc)
			if err != nil || len(resp.Responses) != 1 {
				e.viol("read-failed", path, b, fmt.Sprintf("BatchReadBlobs failed: %v", err), nil)
				return
			}
			rr := resp.Responses[0]
			r.Count(path + "." + codes.Code(rr.GetStatus().GetCode()).String())
			if rr.GetStatus().GetCode() != 0 {
				e.viol("read-failed", path, b, "BatchReadBlobs blob status "+codes.Code(rr.GetStatus().GetCode()).String(), nil)
				return
			}
			data := rr.Data
			if rr.Compressor == pb.Compressor_ZSTD {
				dec, err := lib.ZstdDecodeBoth(data)
				if err != nil {
					e.viol("undecodable", path, b, "zstd answer not decodable: "+err.Error(), nil)
					return
				}
				data = dec
			} else if rr.Compressor != pb.Compressor_IDENTITY {
				e.viol("wrong-encoding", path, b, "unexpected compressor "+rr.Compressor.String(), nil)
				return
			}
			if check(path, data, B, nil) && (rr.Digest.GetSizeBytes() != n || rr.Digest.GetHash() != h) {
				e.viol("wrong-size", path, b, fmt.Sprintf("response digest (%s,%d)", rr.Digest.GetHash(), rr.Digest.GetSizeBytes()), nil)
			}
		})
	}
	// ---- ByteStream.Read
	const chunk = int64(lib.MiB)
	offs := []int64{0, 1, 4095, 4096, 4097, chunk - 1, chunk, chunk + 1, 2 * chunk, 2*chunk - 1, 2*chunk + 1, 3 * chunk, n - 1, n, n / 2, n / 3}
	if n > 1 {
		offs = append(offs, rng.Int64N(n), rng.Int64N(n), 1+rng.Int64N(n))
	}
	// more mid-chunk offsets on multi-chunk blobs (partial first chunk then streaming)
	if n > chunk {
		for i := 0; i < 4; i++ {
			offs = append(offs, rng.Int64N(n-chunk)+1)
		}
	}
	seen := map[int64]bool{}
	var uoffs []int64
	for _, o := range offs {
		if o >= 0 && o <= n && !seen[o] {
			seen[o] = true
			uoffs = append(uoffs, o)
		}
	}
	sort.Slice(uoffs, func(i, j int) bool { return uoffs[i] < uoffs[j] })
	var bsOffsetOps, bsZstdOffsetOps []op
	for _, off := range uoffs {
		off := off
		rem := n - off
		for _, lim := range []int64{0, 1, rem - 1, rem, rem + 1} {
			lim := lim
			if lim < 0 || (lim == 0 && false) {
				continue
			}
			bsf := func() {
				path := "bs-read"
				got, err := srv.BSRead(ctx, lib.ResBlobs(h, n), off, lim)
				r.Eval()
				r.Count("bs-read." + lib.Code(err).String())
				r.Distinct(path, cfg, szc, offClass(off, n, chunk), limClass(lim, rem))
				want := B[off:]
				extra := map[string]any{"offset": off, "limit": lim}
				// bytes delivered before any error are a prefix of the range and never exceed a non-zero limit
				if lim > 0 && int64(len(got)) > lim {
					e.viol("limit-exceeded", path, b, fmt.Sprintf("read_limit %d but %d bytes delivered (offset %d)", lim, len(got), off), extra)
					return
				}
				if !bytes.HasPrefix(want, got) {
					check(path, got, want[:min(len(got), len(want))], extra)
					return
				}
				if err == nil {
					full := lim == 0 || lim >= rem
					if full && int64(len(got)) != rem {
						check(path, got, want, extra)
					} else if !full && int64(len(got)) != lim {
						e.viol("short-success", path, b, fmt.Sprintf("successful read with limit %d < remaining %d delivered %d bytes", lim, rem, len(got)), extra)
					}
				} else if off < n && (lim == 0 || lim >= rem) {
					e.viol("read-failed", path, b, fmt.Sprintf("ByteStream.Read(offset=%d, limit=%d) of a stored blob of %d bytes failed after %d bytes: %v", off, lim, n, len(got), err), extra)
				}
			}
			ops = append(ops, bsf)
			if off > 0 && off < n && lim == 0 {
				bsOffsetOps = append(bsOffsetOps, bsf)
			}
		}
		bszf := func() {
			path := "bs-read-zstd"
			got, err := srv.BSRead(ctx, lib.ResZstd(h, n), off, 0)
			r.Eval()
			r.Count("bs-read-zstd." + lib.Code(err).String())
			r.Distinct(path, cfg, szc, offClass(off, n, chunk))
			extra := map[string]any{"offset": off}
			if err != nil {
				if off < n {
					e.viol("read-failed", path, b, fmt.Sprintf("ByteStream.Read compressed-blobs (offset=%d) of a stored blob of %d bytes failed: %v", off, n, err), extra)
				}
				return
			}
			dec, derr := lib.ZstdDecodeBoth(got)
			if derr != nil {
				e.viol("undecodable", path, b, fmt.Sprintf("zstd stream (offset %d) not decodable by both standard decoders: %v", off, derr), extra)
				return
			}
			check(path, dec, B[off:], extra)
		}
		ops = append(ops, bszf)
		if off > 0 && off < n {
			bsZstdOffsetOps = append(bsZstdOffsetOps, bszf)
		}
	}
	if only != "" {
		// targeted first read of a backend-only blob: exactly one operation of the requested kind
		var sel []op
		switch only {
		case "http-get":
			sel = ops[0:1]
		case "http-get-zstd":
			sel = ops[1:2]
		case "batchread":
			sel = ops[3:4]
		case "batchread-zstd":
			sel = ops[4:5]
		case "bs-read-offset":
			sel = bsOffsetOps
		case "bs-read-zstd-offset":
			sel = bsZstdOffsetOps
		}
		if len(sel) > 0 {
			sel[rng.IntN(len(sel))]()
			e.r.Count("backend-first-read." + only)
		}
		return
	}
	// pick nReads of the ops (always keep the first five whole-blob paths with some probability)
	rng.Shuffle(len(ops), func(i, j int) { ops[i], ops[j] = ops[j], ops[i] })
	if len(ops) > nReads {
		ops = ops[:nReads]
	}
	for _, o := range ops {
		o()
	}
}

func limClass(lim, rem int64) string {
	switch {
	case lim == 0:
		return "0"
	case lim == rem:
		return "=rem"
	case lim > rem:
		return ">rem"
	case lim == 1:
		return "1"
	default:
		return "<rem"
	}
}

func (e *c02Env) store(rng *rand.Rand, b *c02Blob) bool {
	srv := e.srv
	ctx, cancel := lib.Ctx()
	defer cancel()
	n := int64(len(b.B))
	vias := []string{"http-put", "http-put-zstd", "batch", "batch-zstd", "bs-blobs", "bs-zstd"}
	b.via = vias[rng.IntN(len(vias))]
	ok := false
	switch b.via {
	case "http-put":
		ok = srv.HTTPPut("/cas/"+b.hash, b.B, nil).Status == 200
	case "http-put-zstd":
		ok = srv.HTTPPut("/cas/"+b.hash, zstdEncodeRand(rng, b.B), map[string]string{"Content-Encoding": "zstd", "X-Digest-SizeBytes": fmt.Sprint(n)}).Status == 200
	case "batch", "batch-zstd":
		req := &pb.BatchUpdateBlobsRequest_Request{Digest: &pb.Digest{Hash: b.hash, SizeBytes: n}, Data: b.B}
		if b.via == "batch-zstd" {
			req.Data, req.Compressor = zstdEncodeRand(rng, b.B), pb.Compressor_ZSTD
		}
		resp, err := srv.CAS.BatchUpdateBlobs(ctx, &pb.BatchUpdateBlobsRequest{Requests: []*pb.BatchUpdateBlobsRequest_Request{req}})
		ok = err == nil && len(resp.Responses) == 1 && resp.Responses[0].GetStatus().GetCode() == 0
	case "bs-blobs":
		_, err := srv.BSWrite(ctx, lib.ResUpload(uuidOf(rng), b.hash, n), b.B, []int{0, 64 * lib.KiB, lib.MiB}[rng.IntN(3)])
		ok = err == nil
	case "bs-zstd":
		_, err := srv.BSWrite(ctx, lib.ResUploadZstd(uuidOf(rng), b.hash, n), zstdEncodeRand(rng, b.B), []int{0, 64 * lib.KiB}[rng.IntN(2)])
		ok = err == nil
	}
	return ok
}

func (e *c02Env) emptyBlob() {
	srv, r := e.srv, e.r
	ctx, cancel := lib.Ctx()
	defer cancel()
	eb := &c02Blob{B: []byte{}, hash: lib.EmptySha256, via: "never stored"}
	fail := func(path, what string) { e.viol("empty-blob", path, eb, "empty blob: "+what, nil) }
	r.Eval()
	if g := srv.HTTPGet("/cas/"+lib.EmptySha256, nil); g.Status != 200 || len(g.Body) != 0 {
		fail("http-get", fmt.Sprintf("GET -> %d, %d bytes", g.Status, len(g.Body)))
	}
	if g := srv.HTTPGet("/cas/"+lib.EmptySha256, map[string]string{"Accept-Encoding": "zstd"}); g.Status != 200 {
		fail("http-get-zstd", fmt.Sprintf("GET -> %d", g.Status))
	} else if g.Header.Get("Content-Encoding") == "zstd" {
		if d, err := lib.ZstdDecodeBoth(g.Body); err != nil || len(d) != 0 {
			fail("http-get-zstd", fmt.Sprintf("decoded %d bytes, err %v", len(d), err))
		}
	} else if len(g.Body) != 0 {
		fail("http-get-zstd", "non-empty body")
	}
	if h := srv.HTTPHead("/cas/" + lib.EmptySha256); h.Status != 200 {
		fail("http-head", fmt.Sprintf("HEAD -> %d", h.Status))
	}
	for _, z := range []bool{false, true} {
		req := &pb.BatchReadBlobsRequest{Digests: []*pb.Digest{{Hash: lib.EmptySha256}}}
		if z {
			req.AcceptableCompressors = []pb.Compressor_Value{pb.Compressor_ZSTD}
		}
		resp, err := srv.CAS.BatchReadBlobs(ctx, req)
		if err != nil || len(resp.Responses) != 1 || resp.Responses[0].GetStatus().GetCode() != 0 {
			fail("batchread", fmt.Sprintf("zstd=%v err=%v resp=%v", z, err, resp))
			continue
		}
		d := resp.Responses[0].Data
		if resp.Responses[0].Compressor == pb.Compressor_ZSTD {
			d, err = lib.ZstdDecodeBoth(d)
			if err != nil {
				fail("batchread", "undecodable: "+err.Error())
			}
		}
		if len(d) != 0 {
			fail("batchread", "non-empty data")
		}
	}
	if got, err := srv.BSRead(ctx, lib.ResBlobs(lib.EmptySha256, 0), 0, 0); err != nil || len(got) != 0 {
		fail("bs-read", fmt.Sprintf("%d bytes, err %v", len(got), err))
	}
	if got, err := srv.BSRead(ctx, lib.ResZstd(lib.EmptySha256, 0), 0, 0); err != nil {
		fail("bs-read-zstd", fmt.Sprintf("err %v", err))
	} else if d, derr := lib.ZstdDecodeBoth(got); derr != nil || len(d) != 0 {
		fail("bs-read-zstd", fmt.Sprintf("decoded %d bytes, err %v", len(d), derr))
	}
	if miss, err := srv.FindMissing(ctx, &pb.Digest{Hash: lib.EmptySha256}); err != nil || len(miss) != 0 {
		fail("findmissing", fmt.Sprintf("missing=%v err=%v", miss, err))
	}
	r.Count("empty-blob.checked")
}

// treeAndInline exercises GetTree and inlined ActionResult fields.
func (e *c02Env) treeAndInline(rng *rand.Rand, tag string) {
	srv, r := e.srv, e.r
	ctx, cancel := lib.Ctx()
	defer cancel()
	put := func(b []byte) *pb.Digest {
		d := lib.DigestOf(b)
		if d.SizeBytes > 0 {
			_ = srv.Cache.Put(ctx, cache.CAS, d.Hash, d.SizeBytes, bytes.NewReader(b))
		}
		return d
	}
	// generated directory tree: depth <= 4, fan-out <= 4
	stored := map[string]*pb.Directory{}
	var build func(depth int) *pb.Digest
	cnt := 0
	build = func(depth int) *pb.Digest {
		cnt++
		d := &pb.Directory{}
		for i := 0; i < rng.IntN(4); i++ {
			fb := lib.GenBlob(rng, 1+rng.IntN(300), "text", fmt.Sprintf("%s-f%d", tag, cnt*10+i))
			d.Files = append(d.Files, &pb.FileNode{Name: fmt.Sprintf("f%d_%d", cnt, i), Digest: put(fb), IsExecutable: rng.IntN(2) == 0})
		}
		if depth < 4 {
			for i := 0; i < rng.IntN(4); i++ {
				d.Directories = append(d.Directories, &pb.DirectoryNode{Name: fmt.Sprintf("d%d_%d", cnt, i), Digest: build(depth + 1)})
			}
		}
		d.Files = append(d.Files, &pb.FileNode{Name: "uniq", Digest: &pb.Digest{Hash: lib.RandHash(rng), SizeBytes: int64(cnt)}}) // makes each directory unique
		b, _ := proto.Marshal(d)
		dg := put(b)
		stored[dg.Hash] = d
		return dg
	}
	root := build(1)
	st, err := srv.CAS.GetTree(ctx, &pb.GetTreeRequest{RootDigest: root})
	r.Eval()
	tb := &c02Blob{hash: root.Hash, B: make([]byte, root.SizeBytes), via: "disk-put"}
	if err != nil {
		e.viol("read-failed", "gettree", tb, "GetTree failed: "+err.Error(), nil)
		return
	}
	var got []*pb.Directory
	for {
		m, err := st.Recv()
		if err != nil {
			break
		}
		got = append(got, m.Directories...)
	}
	r.Count("gettree.directories_returned." + strconv.Itoa(min(len(got), 20)))
	r.Distinct("gettree", "w="+e.wcfg+",r="+e.rcfg, len(stored))
	if len(got) == 0 || !proto.Equal(got[0], stored[root.Hash]) {
		e.viol("wrong-bytes", "gettree", tb, "first returned Directory is not the root", nil)
		return
	}
	seen := map[string]bool{}
	for _, d := range got {
		b, _ := proto.Marshal(d)
		hh := lib.Sha256Hex(b)
		want, ok := stored[hh]
		if !ok || !proto.Equal(d, want) {
			e.viol("wrong-bytes", "gettree", tb, "GetTree returned a Directory that differs from every stored one", map[string]any{"returned": d.String()})
			return
		}
		seen[hh] = true
	}
	if len(seen) != len(stored) {
		e.viol("wrong-bytes", "gettree", tb, fmt.Sprintf("GetTree returned %d distinct directories of %d stored and reachable", len(seen), len(stored)), nil)
	}

	// inlined ActionResult fields
	so := lib.GenBlob(rng, 1+rng.IntN(5000), "text", tag+"-stdout")
	se := lib.GenBlob(rng, 1+rng.IntN(5000), "random", tag+"-stderr")
	of := lib.GenBlob(rng, 1+rng.IntN(200000), "repetitive", tag+"-of")
	ar := &pb.ActionResult{StdoutDigest: put(so), StderrDigest: put(se), OutputFiles: []*pb.OutputFile{{Path: "a/b", Digest: put(of)}}}
	ad := &pb.Digest{Hash: lib.RandHash(rng), SizeBytes: 7}
	if _, err := srv.AC.UpdateActionResult(ctx, &pb.UpdateActionResultRequest{ActionDigest: ad, ActionResult: ar}); err != nil {
		r.Count("inline.update_failed")
		return
	}
	res, err := srv.AC.GetActionResult(ctx, &pb.GetActionResultRequest{ActionDigest: ad, InlineStdout: true, InlineStderr: true, InlineOutputFiles: []string{"a/b"}})
	r.Eval()
	ib := &c02Blob{hash: ad.Hash, B: so, via: "update-action-result"}
	if err != nil {
		e.viol("read-failed", "ac-inline", ib, "GetActionResult with inlining failed: "+err.Error(), nil)
		return
	}
	r.Distinct("ac-inline", "w="+e.wcfg+",r="+e.rcfg)
	r.Count("ac-inline.checked")
	if !bytes.Equal(res.StdoutRaw, so) || !bytes.Equal(res.StderrRaw, se) || len(res.OutputFiles) != 1 || !bytes.Equal(res.OutputFiles[0].Contents, of) {
		e.viol("wrong-bytes", "ac-inline", ib, fmt.Sprintf("inlined fields differ from the blobs: stdout %d/%d stderr %d/%d file %d/%d bytes",
			len(res.StdoutRaw), len(so), len(res.StderrRaw), len(se), len(res.GetOutputFiles()[0].GetContents()), len(of)), nil)
	}
}

func runC02(r *lib.Run) {
	r.SetRule("blobs (size classes x contents) written through a random write path under writer config (storage x zstd impl), cache directory re-opened under reader config (all 16 pairs), " +
		"then read by 8 concurrent readers through every read path, offsets around 4 KiB and k x 1 MiB chunk boundaries and limits; some blobs held only by a proxy backend before their first read; " +
		"distinct = (path, writer/reader config pair, size class, offset class, limit class)")
	r.Assume("two independent standard zstd decoders (klauspost, libzstd) define 'decodable'")
	blobsPer := r.N(6, 90)
	readsPer := r.N(24, 60)
	rng := r.Rng("c02")
	cfgs := []struct{ storage, impl string }{{"zstd", "go"}, {"zstd", "cgo"}, {"uncompressed", "go"}, {"uncompressed", "cgo"}}
	bi := 0
	for _, wc := range cfgs {
		for _, rc := range cfgs {
			e := &c02Env{r: r, wcfg: wc.storage + "/" + wc.impl, rcfg: rc.storage + "/" + rc.impl}
			dir := lib.MkTemp("c02")
			// ---- writer phase
			wsrv, err := lib.StartServer(lib.ServerOpts{Dir: dir, MaxSize: 64 << 30, Storage: wc.storage, ZstdImpl: wc.impl})
			if err != nil {
				r.Inconclusive("server start: " + err.Error())
				return
			}
			e.srv = wsrv
			var blobs []*c02Blob
			for k := 0; k < blobsPer; k++ {
				bi++
				sz := lib.SizeClasses[rng.IntN(len(lib.SizeClasses))]
				if r.Quick && sz > 3*lib.MiB && rng.IntN(3) != 0 {
					sz = lib.SizeClasses[rng.IntN(12)]
				}
				B := lib.GenBlob(rng, sz, lib.Pick(rng, lib.ContentKinds), fmt.Sprintf("C02-s%d-b%d", r.Seed, bi))
				b := &c02Blob{B: B, hash: lib.Sha256Hex(B)}
				if k%3 == 2 {
					b.backend, b.via = true, "backend-only"
				} else if !e.store(rng, b) {
					r.Count("store.failed." + b.via)
					e.viol("store-failed", b.via, b, "well-formed upload refused while preparing C02 (C01's business, reported here for visibility)", nil)
					continue
				}
				r.Count("store." + b.via)
				blobs = append(blobs, b)
			}
			wsrv.Close()
			// ---- reader phase (with a backend that holds the backend-only blobs in the reader's storage format)
			px := lib.NewFakeProxy(rc.storage == "zstd")
			for _, b := range blobs {
				if b.backend {
					px.SetBlob(cache.CAS, b.hash, b.B)
				}
			}
			rsrv, err := lib.StartServer(lib.ServerOpts{Dir: dir, MaxSize: 64 << 30, Storage: rc.storage, ZstdImpl: rc.impl, Proxy: px})
			if err != nil {
				r.Violation("C02:restart-failed:w="+e.wcfg+":r="+e.rcfg, "re-opening the cache directory under another configuration failed: "+err.Error(), nil)
				_ = removeAll(dir)
				continue
			}
			e.srv = rsrv
			// targeted first reads of backend-only blobs (the read that triggers the fetch), one kind per blob
			firstKinds := []string{"bs-read-zstd-offset", "bs-read-offset", "http-get-zstd", "batchread-zstd", "http-get", "batchread"}
			fk := 0
			for _, b := range blobs {
				if b.backend {
					e.readsFor(rng, b, 1, firstKinds[(fk+bi)%len(firstKinds)])
					fk++
				}
			}
			var wg sync.WaitGroup
			ch := make(chan *c02Blob)
			for w := 0; w < 8; w++ {
				wg.Add(1)
				wrng := rand.New(rand.NewPCG(uint64(r.Seed)+uint64(bi), uint64(w)))
				go func() {
					defer wg.Done()
					for b := range ch {
						e.readsFor(wrng, b, readsPer, "")
					}
				}()
			}
			// each blob is read by two workers so that reads of one blob overlap
			for rep := 0; rep < 2; rep++ {
				for _, b := range blobs {
					ch <- b
				}
			}
			close(ch)
			wg.Wait()
			e.emptyBlob()
			e.treeAndInline(rng, fmt.Sprintf("C02-s%d-t%d", r.Seed, bi))
			if bi <= 8 {
				r.Sample(map[string]any{"writer": e.wcfg, "reader": e.rcfg, "blobs": len(blobs), "first_blob": map[string]any{"hash": blobs[0].hash, "size": len(blobs[0].B), "via": blobs[0].via}})
			}
			rsrv.Close()
			_ = removeAll(dir)
		}
	}
}

func init() { lib.Register("C02", runC02) }

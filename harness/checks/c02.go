package checks

import (
	"bytes"
	"fmt"
	"io"
	"math/rand/v2"
	"os"
	"path/filepath"
	"sort"
	"strconv"
	"strings"
	"sync"

	"verif/harness/lib"

	"github.com/buchgr/bazel-remote/v2/cache"
	pb "github.com/buchgr/bazel-remote/v2/genproto/build/bazel/remote/execution/v2"
	bspb "google.golang.org/genproto/googleapis/bytestream"
	"google.golang.org/grpc/codes"
	"google.golang.org/protobuf/proto"
)

// C02 — CAS reads return exactly the stored bytes on every path, offset and encoding.
// The harness holds B; zstd answers are decoded by klauspost AND libzstd.

type c02Blob struct {
	B       []byte
	hash    string
	via     string // how it got into the cache
	backend bool   // held only by the proxy backend before the first read
}

type c02Env struct {
	r      *lib.Run
	srv    *lib.Server
	wcfg   string
	rcfg   string
	caseNo int
}

func (e *c02Env) viol(kind, path string, b *c02Blob, what string, extra map[string]any) {
	d := map[string]any{"writer": e.wcfg, "reader": e.rcfg, "path": path, "hash": b.hash, "size": len(b.B), "stored_via": b.via, "backend_only_before_first_read": b.backend,
		"replay_note": "blob content is regenerated from (seed, blob tag); see case list order"}
	for k, v := range extra {
		d[k] = v
	}
	e.r.Violation(fmt.Sprintf("C02:%s:%s:w=%s:r=%s", path, kind, e.wcfg, e.rcfg), what, d)
}

// watchdog records that the harness's own watchdog context fired during a read: no verdict about the server.
func (e *c02Env) watchdog(path string) {
	e.r.Count("inconclusive.watchdog." + path)
	e.r.Inconclusive(fmt.Sprintf("C02 %s (w=%s r=%s): watchdog context expired during a read", path, e.wcfg, e.rcfg))
}

func offClass(off, n, chunk int64) string {
	switch {
	case off == 0:
		return "0"
	case off == n:
		return "n"
	case off == n-1:
		return "n-1"
	case off%chunk == 0:
		return "k*chunk"
	case off%chunk == chunk-1:
		return "chunk-1"
	case off%chunk == 1:
		return "chunk+1"
	case off%4096 == 0:
		return "k*4096"
	case off < 4096:
		return "<4096"
	default:
		return "mid"
	}
}

func (e *c02Env) readsFor(rng *rand.Rand, b *c02Blob, nReads int, only string) {
	r, srv := e.r, e.srv
	B, n := b.B, int64(len(b.B))
	h := b.hash
	cfg := "w=" + e.wcfg + ",r=" + e.rcfg
	szc := lib.SizeClassName(len(B))

	check := func(path string, got []byte, want []byte, extra map[string]any) bool {
		r.Eval()
		if !bytes.Equal(got, want) {
			first := 0
			for first < len(got) && first < len(want) && got[first] == want[first] {
				first++
			}
			if extra == nil {
				extra = map[string]any{}
			}
			extra["got_len"], extra["want_len"], extra["first_difference_at"] = len(got), len(want), first
			e.viol("wrong-bytes", path, b, fmt.Sprintf("%s returned %d bytes, expected %d; first difference at %d (blob %s size %d)", path, len(got), len(want), first, h[:12], n), extra)
			return false
		}
		return true
	}

	type op func()
	var ops []op
	// ---- HTTP
	ops = append(ops, func() {
		g := srv.HTTPGet("/cas/"+h, nil)
		r.Count("http-get." + strconv.Itoa(g.Status))
		r.Distinct("http-get", cfg, szc)
		if x1IsWatchdog(nil, g.Err) || x1IsWatchdog(nil, g.BodyErr) {
			e.watchdog("http-get")
			return
		}
		if g.Status != 200 || g.Err != nil || g.BodyErr != nil {
			e.viol("read-failed", "http-get", b, fmt.Sprintf("GET /cas of a stored blob failed: %d %v %v", g.Status, g.Err, g.BodyErr), nil)
			return
		}
		// "reports size n wherever a size is reported": an answer without Content-Length reports none
		cl := g.Header.Get("Content-Length")
		if cl == "" {
			r.Count("http-get.no-content-length")
		}
		if check("http-get", g.Body, B, nil) && cl != "" && cl != strconv.FormatInt(n, 10) {
			e.viol("wrong-size", "http-get", b, "Content-Length "+cl+" for a blob of "+strconv.FormatInt(n, 10), nil)
		}
	})
	ops = append(ops, func() {
		g := srv.HTTPGet("/cas/"+h, map[string]string{"Accept-Encoding": "zstd"})
		r.Count("http-get-zstd." + strconv.Itoa(g.Status))
		r.Distinct("http-get-zstd", cfg, szc)
		if x1IsWatchdog(nil, g.Err) || x1IsWatchdog(nil, g.BodyErr) {
			e.watchdog("http-get-zstd")
			return
		}
		if g.Status != 200 || g.Err != nil || g.BodyErr != nil {
			e.viol("read-failed", "http-get-zstd", b, fmt.Sprintf("GET /cas (Accept-Encoding: zstd) of a stored blob failed: %d %v %v", g.Status, g.Err, g.BodyErr), nil)
			return
		}
		body := g.Body
		if g.Header.Get("Content-Encoding") == "zstd" {
			dec, err := lib.ZstdDecodeBoth(body)
			if err != nil {
				e.viol("undecodable", "http-get-zstd", b, "zstd answer is not decodable by both standard decoders: "+err.Error(), nil)
				return
			}
			body = dec
		}
		check("http-get-zstd", body, B, nil)
	})
	ops = append(ops, func() {
		hd := srv.HTTPHead("/cas/" + h)
		r.Eval()
		r.Count("http-head." + strconv.Itoa(hd.Status))
		if x1IsWatchdog(nil, hd.Err) {
			e.watchdog("http-head")
			return
		}
		if hd.Status != 200 {
			e.viol("read-failed", "http-head", b, fmt.Sprintf("HEAD of a stored blob: %d", hd.Status), nil)
		} else if cl := hd.Header.Get("Content-Length"); cl == "" {
			r.Count("http-head.no-content-length")
		} else if cl != strconv.FormatInt(n, 10) {
			e.viol("wrong-size", "http-head", b, "HEAD Content-Length "+cl+" for a blob of "+strconv.FormatInt(n, 10), nil)
		}
	})
	// ---- BatchReadBlobs
	for _, z := range []bool{false, true} {
		z := z
		ops = append(ops, func() {
			path := "batchread"
			req := &pb.BatchReadBlobsRequest{Digests: []*pb.Digest{{Hash: h, SizeBytes: n}}}
			if z {
				path = "batchread-zstd"
				req.AcceptableCompressors = []pb.Compressor_Value{pb.Compressor_ZSTD}
			}
			ctx, cancel := lib.Ctx()
			defer cancel()
			resp, err := srv.CAS.BatchReadBlobs(ctx, req)
			r.Distinct(path, cfg, szc)
			if x1IsWatchdog(ctx, err) {
				e.watchdog(path)
				return
			}
			if err != nil || len(resp.Responses) != 1 {
				e.viol("read-failed", path, b, fmt.Sprintf("BatchReadBlobs failed: %v", err), nil)
				return
			}
			rr := resp.Responses[0]
			r.Count(path + "." + codes.Code(rr.GetStatus().GetCode()).String())
			if rr.GetStatus().GetCode() != 0 {
				e.viol("read-failed", path, b, "BatchReadBlobs blob status "+codes.Code(rr.GetStatus().GetCode()).String(), nil)
				return
			}
			data := rr.Data
			if rr.Compressor == pb.Compressor_ZSTD {
				dec, err := lib.ZstdDecodeBoth(data)
				if err != nil {
					e.viol("undecodable", path, b, "zstd answer not decodable: "+err.Error(), nil)
					return
				}
				data = dec
			} else if rr.Compressor != pb.Compressor_IDENTITY {
				e.viol("wrong-encoding", path, b, "unexpected compressor "+rr.Compressor.String(), nil)
				return
			}
			if check(path, data, B, nil) && (rr.Digest.GetSizeBytes() != n || rr.Digest.GetHash() != h) {
				e.viol("wrong-size", path, b, fmt.Sprintf("response digest (%s,%d)", rr.Digest.GetHash(), rr.Digest.GetSizeBytes()), nil)
			}
		})
	}
	// ---- ByteStream.Read
	const chunk = int64(lib.MiB)
	offs := []int64{0, 1, 4095, 4096, 4097, chunk - 1, chunk, chunk + 1, 2 * chunk, 2*chunk - 1, 2*chunk + 1, 3 * chunk, n - 1, n, n / 2, n / 3}
	if n > 1 {
		offs = append(offs, rng.Int64N(n), rng.Int64N(n), 1+rng.Int64N(n))
	}
	// every chunk boundary of the blob, and its two neighbours
	for k := int64(1); k*chunk <= n+1; k++ {
		offs = append(offs, k*chunk-1, k*chunk, k*chunk+1)
	}
	// more mid-chunk offsets on multi-chunk blobs (partial first chunk then streaming)
	if n > chunk {
		for i := 0; i < 4; i++ {
			offs = append(offs, rng.Int64N(n-chunk)+1)
		}
	}
	seen := map[int64]bool{}
	var uoffs []int64
	for _, o := range offs {
		if o >= 0 && o <= n && !seen[o] {
			seen[o] = true
			uoffs = append(uoffs, o)
		}
	}
	sort.Slice(uoffs, func(i, j int) bool { return uoffs[i] < uoffs[j] })
	var bsOffsetOps, bsZstdOffsetOps []op
	for _, off := range uoffs {
		off := off
		rem := n - off
		for _, lim := range []int64{0, 1, rem - 1, rem, rem + 1} {
			lim := lim
			if lim < 0 || (lim == 0 && false) {
				continue
			}
			bsf := func() {
				path := "bs-read"
				ctx, cancel := lib.Ctx()
				defer cancel()
				got, err := srv.BSRead(ctx, lib.ResBlobs(h, n), off, lim)
				if x1IsWatchdog(ctx, err) {
					// (the bytes received so far still have to be a prefix, but nothing is concluded from the missing rest)
					if !bytes.HasPrefix(B[off:], got) {
						check(path, got, B[off:][:min(len(got), len(B[off:]))], map[string]any{"offset": off, "limit": lim})
					}
					e.watchdog(path)
					return
				}
				r.Eval()
				r.Count("bs-read." + lib.Code(err).String())
				r.Distinct(path, cfg, szc, offClass(off, n, chunk), limClass(lim, rem))
				want := B[off:]
				extra := map[string]any{"offset": off, "limit": lim}
				// bytes delivered before any error are a prefix of the range and never exceed a non-zero limit
				if lim > 0 && int64(len(got)) > lim {
					e.viol("limit-exceeded", path, b, fmt.Sprintf("read_limit %d but %d bytes delivered (offset %d)", lim, len(got), off), extra)
					return
				}
				if !bytes.HasPrefix(want, got) {
					check(path, got, want[:min(len(got), len(want))], extra)
					return
				}
				if err == nil {
					full := lim == 0 || lim >= rem
					if full && int64(len(got)) != rem {
						check(path, got, want, extra)
					} else if !full && int64(len(got)) != lim {
						e.viol("short-success", path, b, fmt.Sprintf("successful read with limit %d < remaining %d delivered %d bytes", lim, rem, len(got)), extra)
					}
				} else if off < n && (lim == 0 || lim >= rem) {
					e.viol("read-failed", path, b, fmt.Sprintf("ByteStream.Read(offset=%d, limit=%d) of a stored blob of %d bytes failed after %d bytes: %v", off, lim, n, len(got), err), extra)
				}
			}
			ops = append(ops, bsf)
			if off > 0 && off < n && lim == 0 {
				bsOffsetOps = append(bsOffsetOps, bsf)
			}
		}
		bszf := func() {
			path := "bs-read-zstd"
			ctx, cancel := lib.Ctx()
			defer cancel()
			got, err := srv.BSRead(ctx, lib.ResZstd(h, n), off, 0)
			if x1IsWatchdog(ctx, err) {
				e.watchdog(path)
				return
			}
			r.Eval()
			r.Count("bs-read-zstd." + lib.Code(err).String())
			r.Distinct(path, cfg, szc, offClass(off, n, chunk))
			extra := map[string]any{"offset": off}
			if err != nil {
				if off < n {
					e.viol("read-failed", path, b, fmt.Sprintf("ByteStream.Read compressed-blobs (offset=%d) of a stored blob of %d bytes failed: %v", off, n, err), extra)
				}
				return
			}
			dec, derr := lib.ZstdDecodeBoth(got)
			if derr != nil {
				e.viol("undecodable", path, b, fmt.Sprintf("zstd stream (offset %d) not decodable by both standard decoders: %v", off, derr), extra)
				return
			}
			check(path, dec, B[off:], extra)
		}
		ops = append(ops, bszf)
		if off > 0 && off < n {
			bsZstdOffsetOps = append(bsZstdOffsetOps, bszf)
		}
	}
	// a streamed read cancelled by the client after its first message: what arrived is a prefix of the range
	if n > 0 {
		coff := uoffs[rng.IntN(len(uoffs))]
		if coff >= n {
			coff = 0
		}
		ops = append(ops, func() {
			ctx, cancel := lib.Ctx()
			st, err := srv.BS.Read(ctx, &bspb.ReadRequest{ResourceName: lib.ResBlobs(h, n), ReadOffset: coff})
			var first []byte
			if err == nil {
				var m *bspb.ReadResponse
				if m, err = st.Recv(); err == nil {
					first = append(first, m.Data...)
				}
			}
			wd := x1IsWatchdog(ctx, err)
			cancel()
			if wd {
				e.watchdog("bs-read-cancelled")
				return
			}
			r.Eval()
			r.Count("bs-read-cancelled." + lib.Code(err).String())
			r.Distinct("bs-read-cancelled", cfg, szc, offClass(coff, n, chunk))
			if !bytes.HasPrefix(B[coff:], first) {
				check("bs-read-cancelled", first, B[coff:][:min(len(first), len(B[coff:]))], map[string]any{"offset": coff, "cancelled_after_first_message": true})
			}
		})
	}
	if only != "" {
		// targeted first read of a backend-only blob: exactly one operation of the requested kind
		var sel []op
		switch only {
		case "http-get":
			sel = ops[0:1]
		case "http-get-zstd":
			sel = ops[1:2]
		case "batchread":
			sel = ops[3:4]
		case "batchread-zstd":
			sel = ops[4:5]
		case "bs-read-offset":
			sel = bsOffsetOps
		case "bs-read-zstd-offset":
			sel = bsZstdOffsetOps
		}
		if len(sel) > 0 {
			sel[rng.IntN(len(sel))]()
			e.r.Count("backend-first-read." + only)
		}
		return
	}
	// pick nReads of the ops (always keep the first five whole-blob paths with some probability)
	rng.Shuffle(len(ops), func(i, j int) { ops[i], ops[j] = ops[j], ops[i] })
	if len(ops) > nReads {
		ops = ops[:nReads]
	}
	for _, o := range ops {
		o()
	}
}

func limClass(lim, rem int64) string {
	switch {
	case lim == 0:
		return "0"
	case lim == rem:
		return "=rem"
	case lim > rem:
		return ">rem"
	case lim == 1:
		return "1"
	default:
		return "<rem"
	}
}

func (e *c02Env) store(rng *rand.Rand, b *c02Blob) bool {
	srv := e.srv
	ctx, cancel := lib.Ctx()
	defer cancel()
	n := int64(len(b.B))
	vias := []string{"http-put", "http-put-zstd", "batch", "batch-zstd", "bs-blobs", "bs-zstd"}
	b.via = vias[rng.IntN(len(vias))]
	ok := false
	switch b.via {
	case "http-put":
		ok = srv.HTTPPut("/cas/"+b.hash, b.B, nil).Status == 200
	case "http-put-zstd":
		ok = srv.HTTPPut("/cas/"+b.hash, zstdEncodeRand(rng, b.B), map[string]string{"Content-Encoding": "zstd", "X-Digest-SizeBytes": fmt.Sprint(n)}).Status == 200
	case "batch", "batch-zstd":
		req := &pb.BatchUpdateBlobsRequest_Request{Digest: &pb.Digest{Hash: b.hash, SizeBytes: n}, Data: b.B}
		if b.via == "batch-zstd" {
			req.Data, req.Compressor = zstdEncodeRand(rng, b.B), pb.Compressor_ZSTD
		}
		resp, err := srv.CAS.BatchUpdateBlobs(ctx, &pb.BatchUpdateBlobsRequest{Requests: []*pb.BatchUpdateBlobsRequest_Request{req}})
		ok = err == nil && len(resp.Responses) == 1 && resp.Responses[0].GetStatus().GetCode() == 0
	case "bs-blobs":
		_, err := srv.BSWrite(ctx, lib.ResUpload(uuidOf(rng), b.hash, n), b.B, []int{0, 64 * lib.KiB, lib.MiB}[rng.IntN(3)])
		ok = err == nil
	case "bs-zstd":
		_, err := srv.BSWrite(ctx, lib.ResUploadZstd(uuidOf(rng), b.hash, n), zstdEncodeRand(rng, b.B), []int{0, 64 * lib.KiB}[rng.IntN(2)])
		ok = err == nil
	}
	return ok
}

func (e *c02Env) emptyBlob(where string) {
	srv, r := e.srv, e.r
	ctx, cancel := lib.Ctx()
	defer cancel()
	eb := &c02Blob{B: []byte{}, hash: lib.EmptySha256, via: "never stored (" + where + ")"}
	fail := func(path, what string) { e.viol("empty-blob", path, eb, "empty blob ("+where+"): "+what, nil) }
	wd := func(err error) bool {
		if x1IsWatchdog(ctx, err) {
			e.watchdog("empty-blob")
			return true
		}
		return false
	}
	r.Eval()
	if g := srv.HTTPGet("/cas/"+lib.EmptySha256, nil); g.Status != 200 || len(g.Body) != 0 {
		fail("http-get", fmt.Sprintf("GET -> %d, %d bytes", g.Status, len(g.Body)))
	} else if cl := g.Header.Get("Content-Length"); cl != "" && cl != "0" {
		fail("http-get", "Content-Length "+cl)
	}
	if g := srv.HTTPGet("/cas/"+lib.EmptySha256, map[string]string{"Accept-Encoding": "zstd"}); g.Status != 200 {
		fail("http-get-zstd", fmt.Sprintf("GET -> %d", g.Status))
	} else if g.Header.Get("Content-Encoding") == "zstd" {
		if d, err := lib.ZstdDecodeBoth(g.Body); err != nil || len(d) != 0 {
			fail("http-get-zstd", fmt.Sprintf("decoded %d bytes, err %v", len(d), err))
		}
	} else if len(g.Body) != 0 {
		fail("http-get-zstd", "non-empty body")
	}
	if h := srv.HTTPHead("/cas/" + lib.EmptySha256); h.Status != 200 {
		fail("http-head", fmt.Sprintf("HEAD -> %d", h.Status))
	} else if cl := h.Header.Get("Content-Length"); cl != "" && cl != "0" {
		fail("http-head", "HEAD Content-Length "+cl)
	} else {
		r.Count("empty-blob.head-content-length." + map[bool]string{true: "absent", false: "0"}[cl == ""])
	}
	for _, z := range []bool{false, true} {
		req := &pb.BatchReadBlobsRequest{Digests: []*pb.Digest{{Hash: lib.EmptySha256}}}
		if z {
			req.AcceptableCompressors = []pb.Compressor_Value{pb.Compressor_ZSTD}
		}
		resp, err := srv.CAS.BatchReadBlobs(ctx, req)
		if wd(err) {
			return
		}
		if err != nil || len(resp.Responses) != 1 || resp.Responses[0].GetStatus().GetCode() != 0 {
			fail("batchread", fmt.Sprintf("zstd=%v err=%v resp=%v", z, err, resp))
			continue
		}
		d := resp.Responses[0].Data
		if resp.Responses[0].Compressor == pb.Compressor_ZSTD {
			d, err = lib.ZstdDecodeBoth(d)
			if err != nil {
				fail("batchread", "undecodable: "+err.Error())
			}
		}
		if len(d) != 0 {
			fail("batchread", "non-empty data")
		}
		if dg := resp.Responses[0].Digest; dg.GetHash() != lib.EmptySha256 || dg.GetSizeBytes() != 0 {
			fail("batchread", fmt.Sprintf("response digest (%s,%d)", dg.GetHash(), dg.GetSizeBytes()))
		}
	}
	for _, lim := range []int64{0, 1, 4096} {
		got, err := srv.BSRead(ctx, lib.ResBlobs(lib.EmptySha256, 0), 0, lim)
		if wd(err) {
			return
		}
		if err != nil || len(got) != 0 {
			fail("bs-read", fmt.Sprintf("read_limit %d: %d bytes, err %v", lim, len(got), err))
		}
	}
	if got, err := srv.BSRead(ctx, lib.ResZstd(lib.EmptySha256, 0), 0, 0); wd(err) {
		return
	} else if err != nil {
		fail("bs-read-zstd", fmt.Sprintf("err %v", err))
	} else if d, derr := lib.ZstdDecodeBoth(got); derr != nil || len(d) != 0 {
		fail("bs-read-zstd", fmt.Sprintf("decoded %d bytes, err %v", len(d), derr))
	}
	if miss, err := srv.FindMissing(ctx, &pb.Digest{Hash: lib.EmptySha256}); wd(err) {
		return
	} else if err != nil || len(miss) != 0 {
		fail("findmissing", fmt.Sprintf("missing=%v err=%v", miss, err))
	}
	// GetTree whose root is the empty blob (= the empty Directory)
	if st, err := srv.CAS.GetTree(ctx, &pb.GetTreeRequest{RootDigest: &pb.Digest{Hash: lib.EmptySha256}}); err != nil {
		if !wd(err) {
			fail("gettree", "GetTree(root = empty blob) failed: "+err.Error())
		}
	} else {
		ndirs := 0
		for {
			m, err := st.Recv()
			if err == io.EOF {
				break
			}
			if wd(err) {
				return
			}
			if err != nil {
				fail("gettree", "GetTree(root = empty blob) failed: "+err.Error())
				break
			}
			for _, d := range m.Directories {
				ndirs++
				if !proto.Equal(d, &pb.Directory{}) {
					fail("gettree", "GetTree(root = empty blob) returned a non-empty Directory: "+d.String())
				}
			}
		}
		r.Count("empty-blob.gettree.directories_returned." + strconv.Itoa(ndirs))
	}
	// an ActionResult whose stdout and output file are the empty blob, inlining requested
	ad := &pb.Digest{Hash: lib.Sha256Hex([]byte("C02 empty-blob action " + where + e.wcfg + e.rcfg + strconv.Itoa(int(r.Seed)))), SizeBytes: 9}
	ed := func() *pb.Digest { return &pb.Digest{Hash: lib.EmptySha256} }
	if _, err := srv.AC.UpdateActionResult(ctx, &pb.UpdateActionResultRequest{ActionDigest: ad, ActionResult: &pb.ActionResult{ExitCode: 1, StdoutDigest: ed(), OutputFiles: []*pb.OutputFile{{Path: "empty", Digest: ed()}}}}); err != nil {
		if !wd(err) {
			r.Count("empty-blob.ac.update_failed")
		}
	} else if res, err := srv.AC.GetActionResult(ctx, &pb.GetActionResultRequest{ActionDigest: ad, InlineStdout: true, InlineOutputFiles: []string{"empty"}}); err != nil {
		if !wd(err) {
			fail("ac-inline", "GetActionResult of a result that references only the empty blob failed: "+err.Error())
		}
	} else {
		r.Count("empty-blob.ac-inline.checked")
		if len(res.StdoutRaw) != 0 || len(res.GetOutputFiles()) != 1 || len(res.OutputFiles[0].Contents) != 0 {
			fail("ac-inline", fmt.Sprintf("inlined empty blob is not empty: stdout %d bytes, %d files", len(res.StdoutRaw), len(res.GetOutputFiles())))
		} else if res.StdoutDigest.GetHash() != lib.EmptySha256 || res.StdoutDigest.GetSizeBytes() != 0 || res.OutputFiles[0].Digest.GetHash() != lib.EmptySha256 || res.OutputFiles[0].Digest.GetSizeBytes() != 0 {
			fail("ac-inline", fmt.Sprintf("digests of the empty blob changed: stdout %v file %v", res.StdoutDigest, res.OutputFiles[0].Digest))
		}
	}
	r.Count("empty-blob.checked." + where)
}

// damageLastChunk overwrites the frame magic of the last compressed chunk of a stored cas.v2 file (the offsets
// come from the harness's own parser of the published format), so that every decoder fails exactly there: reads
// then produce genuine mid-stream errors after the earlier chunks were delivered. Returns the number of logical
// bytes that precede the damaged chunk, or -1.
func damageLastChunk(dir string, b *c02Blob) int64 {
	m, _ := filepath.Glob(filepath.Join(dir, "cas.v2", b.hash[:2], b.hash+"-*"))
	if len(m) != 1 || strings.HasSuffix(m[0], ".v1") {
		return -1
	}
	file, err := os.ReadFile(m[0])
	if err != nil {
		return -1
	}
	h, err := lib.CasParseHeader(file)
	if err != nil || h.Compression != 1 || len(h.Offsets) < 3 {
		return -1
	}
	at := h.Offsets[len(h.Offsets)-2]
	f, err := os.OpenFile(m[0], os.O_WRONLY, 0)
	if err != nil {
		return -1
	}
	defer func() { _ = f.Close() }()
	if _, err := f.WriteAt([]byte{0xba, 0xdb, 0xad, 0x00}, at); err != nil {
		return -1
	}
	return int64(len(h.Offsets)-2) * int64(h.ChunkSize)
}

// readDamaged reads a blob whose last stored chunk was damaged. Only the conditional obligations hold: a read that
// reports success delivered exactly the range; whatever arrives before an error is a prefix of the range and
// within a non-zero limit.
func (e *c02Env) readDamaged(rng *rand.Rand, b *c02Blob, good int64, first string) {
	r, srv := e.r, e.srv
	B, n, h := b.B, int64(len(b.B)), b.hash
	cfg := "w=" + e.wcfg + ",r=" + e.rcfg
	judge := func(path string, off int64, got []byte, success bool, extra map[string]any) {
		r.Eval()
		if extra == nil {
			extra = map[string]any{}
		}
		extra["offset"], extra["last_chunk_damaged_on_disk"], extra["intact_logical_bytes"] = off, true, good
		want := B[off:]
		outcome := "error-after-prefix"
		switch {
		case success && !bytes.Equal(got, want):
			outcome = "success-wrong"
			e.viol("wrong-bytes", path, b, fmt.Sprintf("%s reported success on an entry with a damaged chunk but delivered %d bytes that are not the range [%d,%d)", path, len(got), off, n), extra)
		case success:
			outcome = "success-exact"
		case !bytes.HasPrefix(want, got):
			outcome = "error-not-prefix"
			first := 0
			for first < len(got) && first < len(want) && got[first] == want[first] {
				first++
			}
			extra["first_difference_at"] = first
			e.viol("not-a-prefix", path, b, fmt.Sprintf("%s failed, but the %d bytes delivered before the error are not a prefix of the range [%d,%d): first difference at %d", path, len(got), off, n, first), extra)
		case len(got) == 0:
			outcome = "error-no-bytes"
		}
		r.Count("damaged-chunk." + path + "." + outcome)
		r.Distinct("damaged-chunk", path, cfg, outcome)
	}
	bsRead := func(off, lim int64) {
		ctx, cancel := lib.Ctx()
		defer cancel()
		got, err := srv.BSRead(ctx, lib.ResBlobs(h, n), off, lim)
		if x1IsWatchdog(ctx, err) {
			e.watchdog("bs-read")
			return
		}
		if lim > 0 && int64(len(got)) > lim {
			r.Eval()
			e.viol("limit-exceeded", "bs-read", b, fmt.Sprintf("read_limit %d but %d bytes delivered (offset %d, damaged entry)", lim, len(got), off), map[string]any{"offset": off, "limit": lim})
			return
		}
		if lim > 0 && lim < n-off {
			// a limited read: success means exactly lim bytes of the range
			r.Eval()
			if !bytes.HasPrefix(B[off:], got) || err == nil && int64(len(got)) != lim {
				e.viol("wrong-bytes", "bs-read", b, fmt.Sprintf("limited read (offset %d, limit %d) of a damaged entry delivered %d bytes, err=%v, not a prefix / not the limit", off, lim, len(got), err), map[string]any{"offset": off, "limit": lim})
			}
			r.Count("damaged-chunk.bs-read-limited." + lib.Code(err).String())
			return
		}
		judge("bs-read", off, got, err == nil, map[string]any{"limit": lim, "status": lib.Code(err).String()})
	}
	httpGet := func() {
		g := srv.HTTPGet("/cas/"+h, nil)
		if x1IsWatchdog(nil, g.Err) || x1IsWatchdog(nil, g.BodyErr) {
			e.watchdog("http-get")
			return
		}
		if g.Err != nil || g.Status != 200 {
			judge("http-get", 0, nil, false, map[string]any{"status": g.Status})
			return
		}
		judge("http-get", 0, g.Body, g.BodyErr == nil, map[string]any{"status": g.Status, "body_err": fmt.Sprint(g.BodyErr)})
	}
	batch := func() {
		ctx, cancel := lib.Ctx()
		defer cancel()
		resp, err := srv.CAS.BatchReadBlobs(ctx, &pb.BatchReadBlobsRequest{Digests: []*pb.Digest{{Hash: h, SizeBytes: n}}})
		if x1IsWatchdog(ctx, err) {
			e.watchdog("batchread")
			return
		}
		if err != nil || len(resp.Responses) != 1 || resp.Responses[0].GetStatus().GetCode() != 0 {
			judge("batchread", 0, nil, false, nil)
			return
		}
		judge("batchread", 0, resp.Responses[0].Data, true, nil)
	}
	zstdPaths := func(which string) {
		// compressed answers: the server may hand the stored frames through unread; only an answer that both standard
		// decoders accept is a delivered range
		var body []byte
		ok := false
		if which == "bs-read-zstd" {
			ctx, cancel := lib.Ctx()
			got, err := srv.BSRead(ctx, lib.ResZstd(h, n), 0, 0)
			wd := x1IsWatchdog(ctx, err)
			cancel()
			if wd {
				e.watchdog(which)
				return
			}
			body, ok = got, err == nil
		} else {
			g := srv.HTTPGet("/cas/"+h, map[string]string{"Accept-Encoding": "zstd"})
			body, ok = g.Body, g.Err == nil && g.BodyErr == nil && g.Status == 200 && g.Header.Get("Content-Encoding") == "zstd"
		}
		r.Eval()
		if dec, derr := lib.ZstdDecodeBoth(body); ok && derr == nil {
			judge(which, 0, dec, true, nil)
		} else {
			r.Count("damaged-chunk." + which + ".not-a-decodable-success")
		}
	}
	mid := good/2 + 1 + rng.Int64N(1000)
	ops := map[string]func(){
		"bs-read@0":      func() { bsRead(0, 0) },
		"bs-read@mid":    func() { bsRead(mid, 0) },
		"http-get":       httpGet,
		"batchread":      batch,
		"bs-read-zstd@0": func() { zstdPaths("bs-read-zstd") },
		"http-get-zstd":  func() { zstdPaths("http-get-zstd") },
	}
	ops[first]()
	r.Count("damaged-chunk.first-read." + first)
	// afterwards (the entry may be gone by now: then these are plain errors without bytes)
	bsRead(0, good/2)
	bsRead(good-1, 0)
	bsRead(good, 0)
	bsRead(n-1, 0)
	for _, k := range []string{"bs-read@0", "http-get", "batchread", "bs-read-zstd@0", "http-get-zstd"} {
		if k != first {
			ops[k]()
		}
	}
}

// c02Tree is a generated directory tree whose Directory blobs were stored through the upload paths.
type c02Tree struct {
	root   *pb.Digest
	stored map[string]*pb.Directory // every reachable Directory by the hash of its encoding
	how    string
}

// buildTree generates a tree (depth <= maxDepth, fan-out <= 3); with big, one Directory is larger than one storage
// chunk (1 MiB); with diamond, one sub-directory is referenced twice. Files are only named, never stored: GetTree
// does not read them. put stores one Directory blob and reports whether that worked.
func buildTree(rng *rand.Rand, tag string, maxDepth int, big, diamond bool, put func(b []byte) bool) (*c02Tree, bool) {
	t := &c02Tree{stored: map[string]*pb.Directory{}, how: fmt.Sprintf("big=%v diamond=%v", big, diamond)}
	ok := true
	cnt := 0
	finish := func(d *pb.Directory) *pb.Digest {
		cnt++
		d.Files = append(d.Files, &pb.FileNode{Name: "uniq", Digest: &pb.Digest{Hash: lib.Sha256Hex([]byte(fmt.Sprintf("%s-uniq-%d", tag, cnt))), SizeBytes: int64(cnt)}}) // makes each directory unique
		b, _ := proto.Marshal(d)
		dg := lib.DigestOf(b)
		if !put(b) {
			ok = false
		}
		t.stored[dg.Hash] = d
		return dg
	}
	var build func(depth int) *pb.Digest
	build = func(depth int) *pb.Digest {
		d := &pb.Directory{}
		for i := 0; i < rng.IntN(4); i++ {
			d.Files = append(d.Files, &pb.FileNode{Name: fmt.Sprintf("f%d_%d", cnt, i), Digest: &pb.Digest{Hash: lib.RandHash(rng), SizeBytes: int64(1 + rng.IntN(300))}, IsExecutable: rng.IntN(2) == 0})
		}
		if depth < maxDepth {
			for i := 0; i < rng.IntN(4); i++ {
				d.Directories = append(d.Directories, &pb.DirectoryNode{Name: fmt.Sprintf("d%d_%d", depth, i), Digest: build(depth + 1)})
			}
		}
		if depth == 1 {
			if diamond {
				shared := build(maxDepth) // a leaf-level directory, referenced twice
				d.Directories = append(d.Directories, &pb.DirectoryNode{Name: "dia_a", Digest: shared}, &pb.DirectoryNode{Name: "dia_b", Digest: shared})
			}
			if big {
				bd := &pb.Directory{}
				for i := 0; i < 11000; i++ {
					bd.Files = append(bd.Files, &pb.FileNode{Name: fmt.Sprintf("generated_file_%06d.o", i), Digest: &pb.Digest{Hash: lib.RandHash(rng), SizeBytes: int64(i + 1)}})
				}
				d.Directories = append(d.Directories, &pb.DirectoryNode{Name: "huge", Digest: finish(bd)})
			}
		}
		return finish(d)
	}
	t.root = build(1)
	return t, ok
}

// checkTree: GetTree must succeed and return, in any order, exactly the stored reachable directories (each at
// least once), every one of them equal to what was stored.
func (e *c02Env) checkTree(t *c02Tree, kind string) {
	srv, r := e.srv, e.r
	ctx, cancel := lib.Ctx()
	defer cancel()
	tb := &c02Blob{hash: t.root.Hash, B: make([]byte, t.root.SizeBytes), via: kind + " " + t.how}
	st, err := srv.CAS.GetTree(ctx, &pb.GetTreeRequest{RootDigest: t.root})
	var got []*pb.Directory
	for err == nil {
		var m *pb.GetTreeResponse
		m, err = st.Recv()
		if err == nil {
			got = append(got, m.Directories...)
		}
	}
	if x1IsWatchdog(ctx, err) {
		e.watchdog("gettree")
		return
	}
	r.Eval()
	if err != io.EOF {
		e.viol("read-failed", "gettree", tb, "GetTree of a stored tree failed: "+err.Error(), map[string]any{"tree": kind})
		return
	}
	big := 0
	for _, d := range t.stored {
		if proto.Size(d) > lib.MiB {
			big++
		}
	}
	r.Count("gettree." + kind + ".directories_returned." + strconv.Itoa(min(len(got), 20)))
	r.Count("gettree." + kind + ".trees")
	r.CountN("gettree."+kind+".directories_larger_than_a_chunk", int64(big))
	r.Distinct("gettree", kind, "w="+e.wcfg+",r="+e.rcfg, min(len(t.stored), 20))
	seen := map[string]int{}
	for _, d := range got {
		b, _ := proto.Marshal(d)
		hh := lib.Sha256Hex(b)
		want, ok := t.stored[hh]
		if !ok || !proto.Equal(d, want) {
			txt := d.String()
			e.viol("wrong-bytes", "gettree", tb, "GetTree returned a Directory that differs from every stored one", map[string]any{"tree": kind, "returned_prefix": txt[:min(len(txt), 300)]})
			return
		}
		seen[hh]++
	}
	if len(seen) != len(t.stored) {
		e.viol("wrong-bytes", "gettree", tb, fmt.Sprintf("GetTree returned %d distinct directories of %d stored and reachable", len(seen), len(t.stored)), map[string]any{"tree": kind})
	}
}

// c02AR is an ActionResult whose blobs the harness holds.
type c02AR struct {
	ad     *pb.Digest
	how    string
	fields []c02Field
}

type c02Field struct {
	name     string // "stdout", "stderr" or the output file's path
	B        []byte
	d        *pb.Digest
	inlineUp bool // carried inline in the upload
}

// buildAR uploads an ActionResult with stdout, stderr and 3-5 output files whose sizes, per profile, stay far
// below / straddle / exceed the inlining budget of a response. viaHTTP: PUT /ac/ (no inline fields); otherwise
// UpdateActionResult with some fields carried inline. storeBlob stores a referenced blob.
func (e *c02Env) buildAR(rng *rand.Rand, tag string, profile int, viaHTTP bool, storeBlob func(b *c02Blob) bool) *c02AR {
	srv, r := e.srv, e.r
	var sizes []int
	switch profile % 3 {
	case 0: // everything small
		sizes = []int{1 + rng.IntN(5000), 1 + rng.IntN(5000), 1 + rng.IntN(200000), 1, 4097}
	case 1: // stdout+stderr+first file fill the budget (3 MiB) exactly; the rest exceeds it
		sizes = []int{lib.MiB + 1, lib.MiB, lib.MiB - 1, 1, 4097, 70000}
	default: // one field larger than the whole budget, in the middle
		sizes = []int{100 + rng.IntN(100), 64 * lib.KiB, 3*lib.MiB + 1, 4096, 1 + rng.IntN(3000)}
	}
	a := &c02AR{ad: &pb.Digest{Hash: lib.Sha256Hex([]byte(tag)), SizeBytes: 77}, how: fmt.Sprintf("profile=%d http=%v", profile%3, viaHTTP)}
	ar := &pb.ActionResult{ExitCode: int32(profile)}
	for i, sz := range sizes {
		B := lib.GenBlob(rng, sz, lib.Pick(rng, lib.ContentKinds), fmt.Sprintf("%s-field%d", tag, i))
		f := c02Field{B: B, d: lib.DigestOf(B)}
		f.inlineUp = !viaHTTP && rng.IntN(3) == 0
		var raw []byte
		if f.inlineUp {
			raw = B
		} else if !storeBlob(&c02Blob{B: B, hash: f.d.Hash}) {
			r.Count("store.failed.ac-field")
			return nil
		}
		switch i {
		case 0:
			f.name = "stdout"
			ar.StdoutDigest, ar.StdoutRaw = f.d, raw
		case 1:
			f.name = "stderr"
			ar.StderrDigest, ar.StderrRaw = f.d, raw
		default:
			f.name = fmt.Sprintf("out/dir%d/file%d", i%2, i)
			ar.OutputFiles = append(ar.OutputFiles, &pb.OutputFile{Path: f.name, Digest: f.d, Contents: raw, IsExecutable: i%2 == 0})
		}
		a.fields = append(a.fields, f)
	}
	if viaHTTP {
		body, _ := proto.Marshal(ar)
		if g := srv.HTTPPut("/ac/"+a.ad.Hash, body, nil); g.Status != 200 {
			r.Count("store.failed.ac-http")
			return nil
		}
		r.Count("store.ac-http")
		return a
	}
	ctx, cancel := lib.Ctx()
	defer cancel()
	if _, err := srv.AC.UpdateActionResult(ctx, &pb.UpdateActionResultRequest{ActionDigest: a.ad, ActionResult: ar}); err != nil {
		r.Count("store.failed.ac-grpc")
		return nil
	}
	r.Count("store.ac-grpc")
	return a
}

// checkAR: every field of a returned ActionResult keeps its digest, and its inline bytes are either absent or
// exactly the content of that digest - whatever subset was requested and however the budget is split.
func (e *c02Env) checkAR(rng *rand.Rand, a *c02AR, kind string) {
	srv, r := e.srv, e.r
	for round := 0; round < 2; round++ {
		req := &pb.GetActionResultRequest{ActionDigest: a.ad}
		want := map[string]bool{}
		for _, f := range a.fields {
			if round == 0 || rng.IntN(2) == 0 {
				want[f.name] = true
				switch f.name {
				case "stdout":
					req.InlineStdout = true
				case "stderr":
					req.InlineStderr = true
				default:
					req.InlineOutputFiles = append(req.InlineOutputFiles, f.name)
				}
			}
		}
		ctx, cancel := lib.Ctx()
		res, err := srv.AC.GetActionResult(ctx, req)
		wd := x1IsWatchdog(ctx, err)
		cancel()
		if wd {
			e.watchdog("ac-inline")
			return
		}
		ib := &c02Blob{hash: a.ad.Hash, B: a.fields[0].B, via: "action result " + kind + " " + a.how}
		r.Eval()
		if err != nil {
			e.viol("read-failed", "ac-inline", ib, "GetActionResult with inlining failed although every referenced blob is stored: "+err.Error(), map[string]any{"ar": kind})
			return
		}
		r.Distinct("ac-inline", kind, a.how, "w="+e.wcfg+",r="+e.rcfg, round)
		r.Count("ac-inline." + kind + ".checked")
		files := map[string]*pb.OutputFile{}
		for _, of := range res.OutputFiles {
			files[of.Path] = of
		}
		var total int
		for _, f := range a.fields {
			var raw []byte
			var d *pb.Digest
			switch f.name {
			case "stdout":
				raw, d = res.StdoutRaw, res.StdoutDigest
			case "stderr":
				raw, d = res.StderrRaw, res.StderrDigest
			default:
				of := files[f.name]
				if of == nil {
					e.viol("wrong-bytes", "ac-inline", ib, "output file "+f.name+" is missing from the returned ActionResult", map[string]any{"ar": kind})
					continue
				}
				raw, d = of.Contents, of.Digest
			}
			fb := &c02Blob{hash: f.d.Hash, B: f.B, via: fmt.Sprintf("field %s of action result %s (%s), uploaded inline=%v", f.name, a.ad.Hash[:12], a.how, f.inlineUp)}
			r.Eval()
			if d.GetHash() != f.d.Hash || d.GetSizeBytes() != f.d.SizeBytes {
				e.viol("wrong-size", "ac-inline", fb, fmt.Sprintf("field %s: digest (%s,%d) returned for (%s,%d)", f.name, d.GetHash(), d.GetSizeBytes(), f.d.Hash, f.d.SizeBytes), map[string]any{"ar": kind, "requested": want[f.name]})
			}
			total += len(raw)
			switch {
			case len(raw) == 0:
				r.Count("ac-inline.field." + map[bool]string{true: "requested", false: "not-requested"}[want[f.name]] + ".not-inlined")
			case !bytes.Equal(raw, f.B):
				first := 0
				for first < len(raw) && first < len(f.B) && raw[first] == f.B[first] {
					first++
				}
				e.viol("wrong-bytes", "ac-inline", fb, fmt.Sprintf("field %s: %d inline bytes differ from the %d bytes of its digest, first difference at %d", f.name, len(raw), len(f.B), first), map[string]any{"ar": kind, "requested": want[f.name]})
			default:
				r.Count("ac-inline.field." + map[bool]string{true: "requested", false: "not-requested"}[want[f.name]] + ".inlined." + lib.SizeClassName(len(raw)))
			}
		}
		r.Count("ac-inline.response-inline-bytes." + map[bool]string{true: ">1MiB", false: "<=1MiB"}[total > lib.MiB])
	}
}

// batchReadMulti: BatchReadBlobs with 2-8 digests in one request (mixed sizes, a duplicate, a digest that was never
// stored, both compressor settings); responses are matched by digest and each is checked like a single read.
func (e *c02Env) batchReadMulti(rng *rand.Rand, blobs []*c02Blob, calls int) {
	srv, r := e.srv, e.r
	if len(blobs) < 2 {
		return
	}
	for c := 0; c < calls; c++ {
		k := 2 + rng.IntN(7)
		req := &pb.BatchReadBlobsRequest{}
		z := c%2 == 1
		path := "batchread-multi"
		if z {
			path = "batchread-multi-zstd"
			req.AcceptableCompressors = []pb.Compressor_Value{pb.Compressor_ZSTD}
		}
		byKey := map[string]*c02Blob{}
		total := 0
		perm := rng.Perm(len(blobs))
		for _, i := range perm {
			b := blobs[i]
			if len(req.Digests) >= k || total+len(b.B) > 24*lib.MiB {
				continue
			}
			total += len(b.B)
			req.Digests = append(req.Digests, &pb.Digest{Hash: b.hash, SizeBytes: int64(len(b.B))})
			byKey[b.hash] = b
		}
		if len(req.Digests) == 0 {
			continue
		}
		// a duplicate and a never-stored digest at random positions
		dup := req.Digests[rng.IntN(len(req.Digests))]
		absent := &pb.Digest{Hash: lib.RandHash(rng), SizeBytes: int64(1 + rng.IntN(100000))}
		for _, x := range []*pb.Digest{{Hash: dup.Hash, SizeBytes: dup.SizeBytes}, absent} {
			at := rng.IntN(len(req.Digests) + 1)
			req.Digests = append(req.Digests[:at], append([]*pb.Digest{x}, req.Digests[at:]...)...)
		}
		ctx, cancel := lib.Ctx()
		resp, err := srv.CAS.BatchReadBlobs(ctx, req)
		wd := x1IsWatchdog(ctx, err)
		cancel()
		if wd {
			e.watchdog(path)
			continue
		}
		r.Count(fmt.Sprintf("%s.requests.%d-digests", path, len(req.Digests)))
		r.Distinct(path, "w="+e.wcfg+",r="+e.rcfg, len(req.Digests))
		anyb := byKey[dup.Hash]
		if err != nil {
			r.Eval()
			e.viol("read-failed", path, anyb, fmt.Sprintf("BatchReadBlobs with %d digests (all but one stored) failed: %v", len(req.Digests), err), nil)
			continue
		}
		answered := map[string]int{}
		for _, rr := range resp.Responses {
			hh := rr.GetDigest().GetHash()
			b := byKey[hh]
			code := codes.Code(rr.GetStatus().GetCode())
			if b == nil {
				if hh == absent.Hash {
					r.Count(path + ".never-stored-digest." + code.String())
				} else {
					r.Eval()
					e.viol("wrong-size", path, anyb, "response for a digest that was not requested: "+hh, nil)
				}
				continue
			}
			answered[hh]++
			r.Eval()
			r.Count(path + "." + code.String())
			extra := map[string]any{"digests_in_request": len(req.Digests), "duplicate_in_request": hh == dup.Hash}
			if code != codes.OK {
				e.viol("read-failed", path, b, "BatchReadBlobs (several digests) blob status "+code.String(), extra)
				continue
			}
			data := rr.Data
			if rr.Compressor == pb.Compressor_ZSTD {
				dec, derr := lib.ZstdDecodeBoth(data)
				if derr != nil {
					e.viol("undecodable", path, b, "zstd answer not decodable: "+derr.Error(), extra)
					continue
				}
				data = dec
			} else if rr.Compressor != pb.Compressor_IDENTITY {
				e.viol("wrong-encoding", path, b, "unexpected compressor "+rr.Compressor.String(), extra)
				continue
			}
			if !bytes.Equal(data, b.B) {
				first := 0
				for first < len(data) && first < len(b.B) && data[first] == b.B[first] {
					first++
				}
				extra["got_len"], extra["want_len"], extra["first_difference_at"] = len(data), len(b.B), first
				e.viol("wrong-bytes", path, b, fmt.Sprintf("%s returned %d bytes, expected %d; first difference at %d", path, len(data), len(b.B), first), extra)
			} else if rr.Digest.GetSizeBytes() != int64(len(b.B)) {
				e.viol("wrong-size", path, b, fmt.Sprintf("response digest (%s,%d)", hh, rr.Digest.GetSizeBytes()), extra)
			}
		}
		for hh, b := range byKey {
			if answered[hh] == 0 {
				r.Eval()
				e.viol("read-failed", path, b, "BatchReadBlobs (several digests) returned no response for a requested stored digest", nil)
			}
		}
	}
}

// treeAndInline exercises GetTree and inlined ActionResult fields on entries written by the serving instance itself.
func (e *c02Env) treeAndInline(rng *rand.Rand, tag string) {
	srv, r := e.srv, e.r
	put := func(b []byte) bool {
		ctx, cancel := lib.Ctx()
		defer cancel()
		d := lib.DigestOf(b)
		return srv.Cache.Put(ctx, cache.CAS, d.Hash, d.SizeBytes, bytes.NewReader(b)) == nil
	}
	// generated directory tree: depth <= 4, fan-out <= 4
	if t, ok := buildTree(rng, tag, 4, false, rng.IntN(2) == 0, put); ok {
		e.checkTree(t, "written-by-reader")
	} else {
		r.Count("store.failed.tree-directory")
	}
	// inlined ActionResult fields
	if a := e.buildAR(rng, tag+"-ar", rng.IntN(3), false, func(b *c02Blob) bool { return put(b.B) }); a != nil {
		e.checkAR(rng, a, "written-by-reader")
	}
}

func runC02(r *lib.Run) {
	r.SetRule("blobs (size classes x contents) written through a random write path under writer config (storage x zstd impl), cache directory re-opened under reader config (all 16 pairs), " +
		"then read by 8 concurrent readers through every read path, offsets around 4 KiB and every k x 1 MiB chunk boundary and limits, multi-digest BatchReadBlobs, cancelled streams; some blobs held only by a proxy backend before their first read; " +
		"directory trees (one Directory > 1 MiB, one diamond, some directories backend-only) and ActionResults (3 size profiles around the inlining budget, gRPC with inline fields / HTTP) uploaded by the writer and read by the reader; " +
		"distinct = (path, writer/reader config pair, size class, offset class, limit class)")
	r.Assume("two independent standard zstd decoders (klauspost, libzstd) define 'decodable'")
	blobsPer := r.N(6, 90)
	readsPer := r.N(24, 60)
	rng := r.Rng("c02")
	cfgs := []struct{ storage, impl string }{{"zstd", "go"}, {"zstd", "cgo"}, {"uncompressed", "go"}, {"uncompressed", "cgo"}}
	bi := 0
	pair := 0
	firstKind := 0
	damagedKind := 0
	storeFailed := 0
	for _, wc := range cfgs {
		for _, rc := range cfgs {
			pair++
			e := &c02Env{r: r, wcfg: wc.storage + "/" + wc.impl, rcfg: rc.storage + "/" + rc.impl}
			dir := lib.MkTemp("c02")
			// ---- writer phase
			wsrv, err := lib.StartServer(lib.ServerOpts{Dir: dir, MaxSize: 64 << 30, Storage: wc.storage, ZstdImpl: wc.impl})
			if err != nil {
				r.Inconclusive("server start: " + err.Error())
				return
			}
			e.srv = wsrv
			// the empty blob on a fresh instance: empty cache, no backend
			e.rcfg = "(writer instance, empty cache)"
			e.emptyBlob("fresh-instance")
			e.rcfg = rc.storage + "/" + rc.impl
			var blobs []*c02Blob
			for k := 0; k < blobsPer; k++ {
				bi++
				sz := lib.SizeClasses[rng.IntN(len(lib.SizeClasses))]
				if r.Quick && sz > 3*lib.MiB && rng.IntN(3) != 0 {
					sz = lib.SizeClasses[rng.IntN(12)]
				}
				B := lib.GenBlob(rng, sz, lib.Pick(rng, lib.ContentKinds), fmt.Sprintf("C02-s%d-b%d", r.Seed, bi))
				b := &c02Blob{B: B, hash: lib.Sha256Hex(B)}
				if k%3 == 2 {
					b.backend, b.via = true, "backend-only"
				} else if !e.store(rng, b) {
					// a refused well-formed upload is C01's obligation, not a statement about reads: the blob is left out
					r.Count("store.failed." + b.via)
					storeFailed++
					continue
				}
				r.Count("store." + b.via)
				blobs = append(blobs, b)
			}
			// directory trees and ActionResults uploaded by the writer; some Directory blobs / output files are
			// left to the backend only
			var backendOnly []*c02Blob
			putDir := func(b []byte) bool {
				blob := &c02Blob{B: b, hash: lib.Sha256Hex(b)}
				if rng.IntN(4) == 0 {
					backendOnly = append(backendOnly, blob)
					r.Count("store.tree-directory.backend-only")
					return true
				}
				ok := e.store(rng, blob)
				if ok {
					r.Count("store.tree-directory." + blob.via)
				}
				return ok
			}
			wtree, ok := buildTree(rng, fmt.Sprintf("C02-s%d-wt%d", r.Seed, pair), 3, true, true, putDir)
			if !ok {
				r.Count("store.failed.tree-directory")
				storeFailed++
				wtree = nil
			}
			var wars []*c02AR
			for i := 0; i < r.N(2, 6); i++ {
				viaHTTP := i%2 == 1
				a := e.buildAR(rng, fmt.Sprintf("C02-s%d-p%d-ar%d", r.Seed, pair, i), pair+i, viaHTTP, func(b *c02Blob) bool {
					if len(b.B) < lib.MiB && rng.IntN(5) == 0 {
						backendOnly = append(backendOnly, b)
						r.Count("store.ac-field.backend-only")
						return true
					}
					return e.store(rng, b)
				})
				if a == nil {
					storeFailed++
					continue
				}
				wars = append(wars, a)
			}
			// one entry of three chunks whose last chunk will be damaged on disk before the reader opens the directory
			var dblob *c02Blob
			dgood := int64(-1)
			if wc.storage == "zstd" {
				B := lib.GenBlob(rng, 2*lib.MiB+4097+rng.IntN(5000), lib.Pick(rng, lib.ContentKinds), fmt.Sprintf("C02-s%d-damaged%d", r.Seed, pair))
				dblob = &c02Blob{B: B, hash: lib.Sha256Hex(B)}
				if !e.store(rng, dblob) {
					r.Count("store.failed." + dblob.via)
					storeFailed++
					dblob = nil
				}
			}
			wsrv.Close()
			if dblob != nil {
				if dgood = damageLastChunk(dir, dblob); dgood < 0 {
					r.Count("damaged-chunk.could-not-damage")
				}
			}
			// ---- reader phase (with a backend that holds the backend-only blobs in the reader's storage format)
			px := lib.NewFakeProxy(rc.storage == "zstd")
			for _, b := range blobs {
				if b.backend {
					px.SetBlob(cache.CAS, b.hash, b.B)
				}
			}
			for _, b := range backendOnly {
				px.SetBlob(cache.CAS, b.hash, b.B)
			}
			rsrv, err := lib.StartServer(lib.ServerOpts{Dir: dir, MaxSize: 64 << 30, Storage: rc.storage, ZstdImpl: rc.impl, Proxy: px})
			if err != nil {
				r.Violation("C02:restart-failed:w="+e.wcfg+":r="+e.rcfg, "re-opening the cache directory under another configuration failed: "+err.Error(), nil)
				_ = removeAll(dir)
				continue
			}
			e.srv = rsrv
			// targeted first reads of backend-only blobs (the read that triggers the fetch), one kind per blob,
			// rotating over all kinds across the configuration pairs
			firstKinds := []string{"bs-read-zstd-offset", "bs-read-offset", "http-get-zstd", "batchread-zstd", "http-get", "batchread"}
			for _, b := range blobs {
				if b.backend {
					fk := firstKinds[firstKind%len(firstKinds)]
					firstKind++
					e.readsFor(rng, b, 1, fk)
					r.Count("backend-first-read." + fk + ".reader=" + rc.storage)
				}
			}
			var wg sync.WaitGroup
			ch := make(chan *c02Blob)
			for w := 0; w < 8; w++ {
				wg.Add(1)
				wrng := rand.New(rand.NewPCG(uint64(r.Seed)+uint64(bi), uint64(w)))
				go func() {
					defer wg.Done()
					for b := range ch {
						e.readsFor(wrng, b, readsPer, "")
					}
				}()
			}
			// each blob is read by two workers so that reads of one blob overlap
			for rep := 0; rep < 2; rep++ {
				for _, b := range blobs {
					ch <- b
				}
			}
			close(ch)
			wg.Wait()
			if len(blobs) > 0 {
				e.batchReadMulti(rng, blobs, r.N(4, 12))
			}
			if dblob != nil && dgood > 0 {
				kinds := []string{"bs-read@0", "http-get", "bs-read@mid", "batchread", "bs-read-zstd@0", "http-get-zstd"}
				e.readDamaged(rng, dblob, dgood, kinds[damagedKind%len(kinds)])
				damagedKind++
			}
			e.emptyBlob("reader")
			if wtree != nil {
				e.checkTree(wtree, "written-before-reopen")
			}
			for _, a := range wars {
				e.checkAR(rng, a, "written-before-reopen")
			}
			e.treeAndInline(rng, fmt.Sprintf("C02-s%d-t%d", r.Seed, bi))
			if bi <= 8 && len(blobs) > 0 {
				r.Sample(map[string]any{"writer": e.wcfg, "reader": e.rcfg, "blobs": len(blobs), "first_blob": map[string]any{"hash": blobs[0].hash, "size": len(blobs[0].B), "via": blobs[0].via}})
			}
			rsrv.Close()
			_ = removeAll(dir)
		}
	}
	if storeFailed > 0 {
		r.Inconclusive(fmt.Sprintf("%d well-formed uploads were refused while preparing the reads (C01's obligation): the blobs / trees / action results concerned were left out", storeFailed))
	}
}

func init() { lib.Register("C02", runC02) }

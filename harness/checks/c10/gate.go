package c10

import (
	"context"
	"io"
	"sync"
	"sync/atomic"
	"time"

	"github.com/buchgr/bazel-remote/v2/cache"
)

// A gate is scripted back-end latency of unknown length: the back end holds its
// answer to every existence check for one digest until the harness releases the
// gate, and counts the checks it has received. A check whose caller goes away
// first (context cancelled, connection closed) gets no answer at all - as with a
// real network client. After the release the back end answers what it holds.
//
// Gates sit inside the back ends (lib.FakeProxy behind gateProxy; the harness
// object store's HEAD handler; the interceptor on the real grpcproxy's
// connection), so the code under test sees nothing but a slow back end.
type gate struct {
	release chan struct{}
	once    sync.Once

	arrived  atomic.Int64 // existence checks received
	answered atomic.Int64 // ... answered after the release
	aborted  atomic.Int64 // ... whose caller went away before the release
}

func (g *gate) open() { g.once.Do(func() { close(g.release) }) }

// hold blocks until the gate is released (true) or the caller has gone (false).
func (g *gate) hold(gone <-chan struct{}) bool {
	g.arrived.Add(1)
	select {
	case <-g.release:
		g.answered.Add(1)
		return true
	case <-gone:
		g.aborted.Add(1)
		return false
	}
}

// gateSet is the gates of one back end, by hash.
type gateSet struct {
	mu sync.RWMutex
	m  map[string]*gate

	held atomic.Int64 // checks that were held (evidence)
}

func newGateSet() *gateSet { return &gateSet{m: map[string]*gate{}} }

func (s *gateSet) arm(hash string) *gate {
	g := &gate{release: make(chan struct{})}
	s.mu.Lock()
	s.m[hash] = g
	s.mu.Unlock()
	return g
}

func (s *gateSet) disarm(hash string) {
	s.mu.Lock()
	g := s.m[hash]
	delete(s.m, hash)
	s.mu.Unlock()
	if g != nil {
		g.open()
	}
}

func (s *gateSet) lookup(hash string) *gate {
	if s == nil {
		return nil
	}
	s.mu.RLock()
	g := s.m[hash]
	s.mu.RUnlock()
	return g
}

// wait holds an existence check for hash if a gate is armed for it; false: the
// caller went away while it was held.
func (s *gateSet) wait(hash string, gone <-chan struct{}) bool {
	g := s.lookup(hash)
	if g == nil {
		return true
	}
	s.held.Add(1)
	return g.hold(gone)
}

// gateProxy puts the gates in front of lib.FakeProxy's Contains.
type gateProxy struct {
	inner cache.Proxy
	gates *gateSet
}

func (p *gateProxy) Put(ctx context.Context, kind cache.EntryKind, hash string, logicalSize int64, sizeOnDisk int64, rc io.ReadCloser) {
	p.inner.Put(ctx, kind, hash, logicalSize, sizeOnDisk, rc)
}

func (p *gateProxy) Get(ctx context.Context, kind cache.EntryKind, hash string, size int64) (io.ReadCloser, int64, error) {
	return p.inner.Get(ctx, kind, hash, size)
}

func (p *gateProxy) Contains(ctx context.Context, kind cache.EntryKind, hash string, size int64) (bool, int64) {
	if kind == cache.CAS && !p.gates.wait(hash, ctx.Done()) {
		return false, -1 // the request was given up: no answer from the back end
	}
	return p.inner.Contains(ctx, kind, hash, size)
}

// waitUntil polls cond until it holds or limit has passed. It only steers the
// schedule of a case (never a verdict): the result says whether the intended
// interleaving was established.
func waitUntil(limit time.Duration, cond func() bool) bool {
	deadline := time.Now().Add(limit)
	for i := 0; ; i++ {
		if cond() {
			return true
		}
		if time.Now().After(deadline) {
			return false
		}
		if i < 50 {
			time.Sleep(200 * time.Microsecond)
		} else {
			time.Sleep(2 * time.Millisecond)
		}
	}
}

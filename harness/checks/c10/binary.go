package c10

import (
	"context"
	"errors"
	"fmt"
	"os"
	"path/filepath"
	"strings"
	"time"

	"verif/harness/lib"

	pb "github.com/buchgr/bazel-remote/v2/genproto/build/bazel/remote/execution/v2"
)

// The binary slice runs the real executable ($VERIF_BIN/bazel-remote: package
// main, config, flags) with an HTTP back end pointing at the harness's object
// store. What it holds locally is established through its network interfaces
// only; what its back end holds is scripted in the object store (which discards
// the executable's write-through uploads, so the model stays exact).

// describeBinary is the configuration of an instance as a witness line.
func (c *config) describeBinary() string {
	mb := "not configured"
	if c.maxBlob > 0 {
		mb = fmt.Sprint(c.maxBlob)
	}
	state := "started"
	if c.unusable != "" {
		state = "NOT STARTED"
	}
	return fmt.Sprintf("%s: configured through %s, storage_mode=%s, http_proxy.url=<harness object store>, max_proxy_blob_size=%d, max_blob_size=%s, max_size=1 (GiB) [%s]",
		c.name, map[string]string{"flags": "command-line flags", "env": "BAZEL_REMOTE_* environment variables", "yaml": "a YAML --config_file"}[c.syntax],
		c.storage, c.maxProxy, mb, state)
}

// binaryInput renders the instance's settings in its configuration syntax.
func (c *config) binaryInput(dir, httpAddr, grpcAddr string) (args, env []string, cfgFile string, err error) {
	type kv struct{ k, v string }
	set := []kv{
		{"dir", dir}, {"max_size", "1"}, {"http_address", httpAddr}, {"grpc_address", grpcAddr},
		{"storage_mode", c.storage}, {"access_log_level", "none"},
		{"http_proxy.url", c.store.URL},
		{"max_proxy_blob_size", fmt.Sprint(c.maxProxy)},
	}
	if c.maxBlob > 0 {
		set = append(set, kv{"max_blob_size", fmt.Sprint(c.maxBlob)})
	}
	switch c.syntax {
	case "flags":
		for _, s := range set {
			args = append(args, "--"+s.k+"="+s.v)
		}
	case "env":
		for _, s := range set {
			name := "BAZEL_REMOTE_" + strings.ToUpper(strings.ReplaceAll(s.k, ".", "_"))
			env = append(env, name+"="+s.v)
		}
	case "yaml":
		var y strings.Builder
		for _, s := range set {
			if s.k == "http_proxy.url" {
				fmt.Fprintf(&y, "http_proxy:\n  url: %s\n", s.v)
			} else {
				fmt.Fprintf(&y, "%s: %s\n", s.k, s.v)
			}
		}
		cfgFile = dir + ".yaml"
		if err = os.WriteFile(cfgFile, []byte(y.String()), 0o600); err != nil {
			return nil, nil, "", err
		}
		args = []string{"--config_file=" + cfgFile}
	default:
		err = fmt.Errorf("unknown configuration syntax %q", c.syntax)
	}
	return args, env, cfgFile, err
}

func (c *config) startBinary() error {
	bin := lib.BinPath("bazel-remote")
	if st, err := os.Stat(bin); err != nil || st.IsDir() {
		return fmt.Errorf("the executable %s does not exist (the binary slice needs it built: NEED_BIN in run.sh): %v", bin, err)
	}
	st, err := newObjStore()
	if err != nil {
		return err
	}
	c.store = st

	var last error
	for attempt := 0; attempt < 3; attempt++ {
		// Fresh ports each time: another process may take a port between choosing and binding.
		dir := lib.MkTemp("c10-bin")
		httpAddr := fmt.Sprintf("127.0.0.1:%d", lib.FreePort())
		grpcAddr := fmt.Sprintf("127.0.0.1:%d", lib.FreePort())
		args, env, cfgFile, err := c.binaryInput(dir, httpAddr, grpcAddr)
		if err != nil {
			_ = os.RemoveAll(dir)
			return err
		}
		child, err := lib.StartBinary(lib.BinaryOpts{NoDefault: true, Args: args, Env: env})
		cleanup := func() {
			if child != nil && child.Cmd != nil && child.Cmd.Process != nil {
				child.Stop()
			}
			if cfgFile != "" {
				_ = os.Remove(cfgFile)
			}
			_ = os.RemoveAll(dir)
		}
		if err != nil {
			cleanup()
			last = err
			continue
		}
		child.HTTPAddr, child.GRPCAddr, child.Dir = httpAddr, grpcAddr, dir
		if !child.WaitPort(httpAddr, 60*time.Second) || !child.WaitPort(grpcAddr, 60*time.Second) {
			last = fmt.Errorf("%s did not start listening (exited=%v): %s", c.name, child.Exited(), child.LogTail(600))
			cleanup()
			continue
		}
		front := lib.AttachServer(httpAddr, grpcAddr)
		if front.CAS == nil {
			last = errors.New("no gRPC client for the executable")
			cleanup()
			continue
		}
		// The listener accepts before the services answer.
		deadline := time.Now().Add(30 * time.Second)
		for {
			ctx, cancel := context.WithTimeout(context.Background(), 2*time.Second)
			_, err = front.Cap.GetCapabilities(ctx, &pb.GetCapabilitiesRequest{})
			cancel()
			if err == nil || child.Exited() || time.Now().After(deadline) {
				break
			}
			time.Sleep(10 * time.Millisecond)
		}
		if err != nil || child.Exited() {
			last = fmt.Errorf("%s does not answer GetCapabilities (exited=%v): %v: %s", c.name, child.Exited(), err, child.LogTail(600))
			front.CloseClient()
			cleanup()
			continue
		}
		if cfgFile != "" {
			_ = os.Remove(cfgFile) // read at start only
		}
		c.child, c.dir, c.front = child, dir, front
		return nil
	}
	return fmt.Errorf("three attempts: %w", last)
}

func (c *config) stopBinary() {
	if c.front != nil {
		c.front.CloseClient()
	}
	if c.child != nil && c.child.Cmd != nil && c.child.Cmd.Process != nil {
		c.child.Stop()
	}
	if c.dir != "" {
		_ = os.RemoveAll(c.dir)
	}
	if c.store != nil {
		c.store.close()
	}
}

// upload stores content in the executable's local cache through one of its
// upload interfaces (chosen by the digest, so both are used).
func (c *config) upload(ctx context.Context, hash string, content []byte) error {
	if hash[0]&1 == 0 {
		res := c.front.HTTPPut("/cas/"+hash, content, nil)
		if res.Err != nil {
			return res.Err
		}
		if res.Status != 200 {
			return fmt.Errorf("HTTP PUT /cas/%s: status %d", hash, res.Status)
		}
		return nil
	}
	resp, err := c.front.CAS.BatchUpdateBlobs(ctx, &pb.BatchUpdateBlobsRequest{
		Requests: []*pb.BatchUpdateBlobsRequest_Request{{Digest: &pb.Digest{Hash: hash, SizeBytes: int64(len(content))}, Data: content}}})
	if err != nil {
		return err
	}
	if len(resp.Responses) != 1 || resp.Responses[0].GetStatus().GetCode() != 0 {
		return fmt.Errorf("BatchUpdateBlobs %s: not acknowledged: %v", hash, resp.Responses)
	}
	return nil
}

// casHashesOnDisk lists the hashes that have a CAS file in the cache directory.
func casHashesOnDisk(dir string) (map[string]bool, error) {
	out := map[string]bool{}
	subs, err := os.ReadDir(filepath.Join(dir, "cas.v2"))
	if err != nil {
		return nil, err
	}
	for _, sd := range subs {
		if !sd.IsDir() {
			continue
		}
		es, err := os.ReadDir(filepath.Join(dir, "cas.v2", sd.Name()))
		if err != nil {
			return nil, err
		}
		for _, e := range es {
			if n := e.Name(); len(n) > 64 && n[64] == '-' {
				out[n[:64]] = true
			}
		}
	}
	return out, nil
}

// verifyPoolsOnDisk is verifyPools for an instance of the executable: the
// files of its cache directory are compared with the modelled state of every
// pool blob. (It also shows that the harness talks to its own child process and
// not to whoever else listens on the chosen ports.)
func (c *config) verifyPoolsOnDisk() string {
	if c.child.Exited() {
		return fmt.Sprintf("%s: the executable exited: %s", c.name, c.child.LogTail(600))
	}
	have, err := casHashesOnDisk(c.dir)
	if err != nil {
		return fmt.Sprintf("%s: cache directory unreadable: %v", c.name, err)
	}
	for p := range c.pools {
		for _, b := range c.pools[p] {
			if b.local && !have[b.hash] {
				return fmt.Sprintf("%s: pool blob %s/%d modelled local has no file in %s", c.name, b.hash, b.size, c.dir)
			}
			if !b.local && have[b.hash] {
				return fmt.Sprintf("%s: pool blob %s/%d modelled not-local has a file in %s", c.name, b.hash, b.size, c.dir)
			}
		}
	}
	return ""
}

// finishBinary records what the instance did and whether it survived.
func (c *config) finishBinary(r *lib.Run) {
	if c.child.Exited() {
		r.Inconclusive(fmt.Sprintf("%s: the executable exited during the run (code %d): %s", c.name, c.child.ExitCode(), c.child.LogTail(600)))
	}
	if bad, what := c.child.Panicked(); bad {
		r.Inconclusive(fmt.Sprintf("%s: the executable's log shows a panic (not a C10 matter): %s", c.name, truncate(what, 400)))
	}
	heads := c.store.heads.Load()
	r.CountN("binary."+c.syntax+".backend-http-heads", heads)
	r.CountN("binary."+c.syntax+".backend-http-puts-discarded", c.store.puts.Load())
	if heads == 0 {
		r.Inconclusive(c.name + ": the executable never consulted its back end")
	}
}

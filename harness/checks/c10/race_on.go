//go:build race

package c10

const raceEnabled = true

// Package c10 checks property C10: FindMissingBlobs reports exactly the
// absent digests, in request order, duplicates preserved.
//
// The harness puts every digest of a generated request into a known state
// (stored locally / held by the back end / both / nowhere / held with another
// size / larger than max_proxy_blob_size in the back end / pulled into the
// local cache by an earlier read / the empty blob), calls the real
// disk.Cache.FindMissingCasBlobs or the real gRPC FindMissingBlobs of an
// in-process server, and compares the answer - as a sequence - with
//
//	[d for d in request if not (local(d) or backend(d))]
//
// computed from the states the harness established itself (never from the
// code under test). Back ends: none; lib.FakeProxy with scripted latency;
// the real httpproxy against a harness HTTP object store (zstd and
// uncompressed layout); the real grpcproxy against a second, real in-process
// bazel-remote.
//
// Three slices of cases: "main" (above); "fault" - the real httpproxy and
// grpcproxy configurations again, with the back end answering the existence
// check of some digests with a fault (error statuses, closed connections, slow
// answers; fault.go); "binary" - the real executable, configured through
// command-line flags, BAZEL_REMOTE_* environment variables and a YAML file,
// with an HTTP back end, max_proxy_blob_size and a different max_blob_size,
// asked over gRPC (binary.go).
package c10

import (
	"bytes"
	"context"
	"errors"
	"fmt"
	"io"
	"math/rand/v2"
	"net/http"
	"net/url"
	"runtime"
	"sort"
	"strings"
	"sync"
	"sync/atomic"
	"time"

	"verif/harness/lib"

	"github.com/buchgr/bazel-remote/v2/cache"
	"github.com/buchgr/bazel-remote/v2/cache/grpcproxy"
	"github.com/buchgr/bazel-remote/v2/cache/httpproxy"
	pb "github.com/buchgr/bazel-remote/v2/genproto/build/bazel/remote/execution/v2"

	"github.com/klauspost/compress/zstd"
	"google.golang.org/grpc"
	"google.golang.org/grpc/codes"
	"google.golang.org/grpc/credentials/insecure"
	"google.golang.org/grpc/status"
	"google.golang.org/protobuf/proto"
)

func init() { lib.Register("C10", run) }

const (
	cacheMaxSize = int64(64) << 30 // nothing is ever evicted (checked at the end)
	maxProxyBlob = 2000
)

// config is one front-end instance with its back end. One instance serves
// all cases of its configuration (an instance with a back end starts 512
// workers that never stop).
type config struct {
	name      string
	keyName   string // back-end class used in finding keys
	storage   string
	backend   string // "none" | "fake" | "http" | "grpc"
	sizeAware bool   // the back end states the size of what it holds (DESIGN C10 limits)
	canDelete bool   // the harness can remove an object from the back end
	maxProxy  int

	// Instances of the real executable (binary.go): how it is configured, and its
	// max_blob_size (0 = not configured).
	syntax   string // "" (in-process) | "flags" | "env" | "yaml"
	maxBlob  int64
	child    *lib.Child
	dir      string
	unusable string // why the instance could not be started (its cases are skipped; the run is inconclusive)

	front     *lib.Server
	fake      *lib.FakeProxy
	store     *objStore
	back      *lib.Server
	filter    *filterProxy
	gfaults   *grpcFaultInjector
	proxyConn *grpc.ClientConn
	gates     *gateSet      // in-process configurations with a back end (gate.go)
	concSem   chan struct{} // bounds the groups of the concurrency slice running against this instance

	pools [numPools][]*blob

	fetchOK, fetchFail atomic.Int64
}

func (c *config) hasBackend() bool { return c.backend != "none" }
func (c *config) isBinary() bool   { return c.syntax != "" }

// Table of configurations and the weighted order cases walk through it.
func newConfigs() []*config {
	cfgs := []*config{
		{name: "none", keyName: "no-backend", storage: "zstd", backend: "none"},
		{name: "fake", keyName: "fake", storage: "zstd", backend: "fake", sizeAware: true, canDelete: true},
		{name: "http-zstd", keyName: "http-zstd", storage: "zstd", backend: "http", sizeAware: false, canDelete: true},
		{name: "grpc", keyName: "grpc", storage: "zstd", backend: "grpc", sizeAware: true},
		{name: "fake-raw", keyName: "fake", storage: "uncompressed", backend: "fake", sizeAware: true, canDelete: true},
		{name: "http-raw", keyName: "http-raw", storage: "uncompressed", backend: "http", sizeAware: true, canDelete: true},
		{name: "none-raw", keyName: "no-backend", storage: "uncompressed", backend: "none"},
		// The real executable; the limits differ per instance, and max_blob_size always differs
		// from max_proxy_blob_size (and is larger than every blob of the workload).
		{name: "binary-flags", keyName: "binary-flags:http-zstd", storage: "zstd", backend: "http", canDelete: true,
			syntax: "flags", maxProxy: maxProxyBlob, maxBlob: 1 << 20},
		{name: "binary-env", keyName: "binary-env:http-raw", storage: "uncompressed", backend: "http", sizeAware: true, canDelete: true,
			syntax: "env", maxProxy: 1500, maxBlob: 6000},
		{name: "binary-yaml", keyName: "binary-yaml:http-zstd", storage: "zstd", backend: "http", canDelete: true,
			syntax: "yaml", maxProxy: 2500, maxBlob: 0},
	}
	for _, c := range cfgs {
		if c.maxProxy == 0 {
			c.maxProxy = maxProxyBlob
		}
	}
	return cfgs
}

var cfgOrder = []int{1, 0, 2, 3, 4, 5, 1, 6, 3, 5}

// Configurations of the fault slice: the real proxies.
var faultCfgs = []int{2, 5, 3}

// Configurations of the binary slice.
var binaryCfgs = []int{7, 8, 9}

// blob is the harness's model of one stored object.
type blob struct {
	hash    string
	size    int64
	local   bool // in the front end's local cache with this size
	backend bool // held by the back end with this size
	fetched bool // local copy was pulled from the back end by a read
	via     int  // how it was fetched
	delay   time.Duration
}

const (
	pLocal = iota
	pLocalBig
	pBoth
	pBackend
	pBackendEdge
	pBackendOver
	numPools
)

var poolSizes = [numPools]int{pLocal: 500, pLocalBig: 60, pBoth: 120, pBackend: 300, pBackendEdge: 30, pBackendOver: 60}

func poolOf(k kind) int {
	switch k {
	case kLocal, kLocalMis:
		return pLocal
	case kLocalBig:
		return pLocalBig
	case kBoth, kBothMis:
		return pBoth
	case kBackend, kBackendMis:
		return pBackend
	case kBackendEdge:
		return pBackendEdge
	case kBackendOver, kBackendOverSmall:
		return pBackendOver
	}
	return -1
}

type world struct {
	r    *lib.Run
	cfgs []*config

	mu      sync.Mutex
	caseDur map[string]time.Duration // summed wall time of the cases, per slice and configuration
}

func (c *config) start() error {
	if c.isBinary() {
		return c.startBinary()
	}
	o := lib.ServerOpts{MaxSize: cacheMaxSize, Storage: c.storage, MaxProxyBlobSize: int64(c.maxProxy)}
	c.gates = newGateSet()
	c.concSem = make(chan struct{}, concGroupsPerInstance)
	switch c.backend {
	case "fake":
		c.fake = lib.NewFakeProxy(c.storage == "zstd")
		c.filter = &filterProxy{inner: &gateProxy{inner: c.fake, gates: c.gates}}
	case "http":
		st, err := newObjStore()
		if err != nil {
			return err
		}
		c.store = st
		st.gates = c.gates
		u, err := url.Parse(st.URL)
		if err != nil {
			return err
		}
		// A bounded connection pool keeps the goroutine count low enough for -race builds.
		hc := &http.Client{Transport: &http.Transport{MaxIdleConnsPerHost: 64, MaxConnsPerHost: 64, DisableCompression: true}}
		p, err := httpproxy.New(u, c.storage, hc, lib.DiscardLogger, lib.DiscardLogger, 4, 256)
		if err != nil {
			return err
		}
		c.filter = &filterProxy{inner: p}
	case "grpc":
		b, err := lib.StartServer(lib.ServerOpts{MaxSize: cacheMaxSize, Storage: c.storage, AssetAPI: true})
		if err != nil {
			return err
		}
		c.back = b
		// The proxy's own connection to the back end, with the harness's fault injector on it
		// (transparent for digests without a scripted fault).
		c.gfaults = newGrpcFaultInjector()
		c.gfaults.gates = c.gates
		conn, err := grpc.NewClient(b.GRPCAddr, grpc.WithTransportCredentials(insecure.NewCredentials()),
			grpc.WithDefaultCallOptions(grpc.MaxCallRecvMsgSize(64*lib.MiB), grpc.MaxCallSendMsgSize(64*lib.MiB)),
			grpc.WithChainUnaryInterceptor(c.gfaults.unary))
		if err != nil {
			return err
		}
		c.proxyConn = conn
		clients := grpcproxy.NewGrpcClients(conn)
		if err := clients.CheckCapabilities(c.storage == "zstd"); err != nil {
			return fmt.Errorf("backend capabilities: %w", err)
		}
		c.filter = &filterProxy{inner: grpcproxy.New(clients, c.storage, lib.DiscardLogger, lib.DiscardLogger, 4, 256)}
	}
	if c.filter != nil {
		o.Proxy = c.filter
	}
	f, err := lib.StartServer(o)
	if err != nil {
		return err
	}
	c.front = f
	return nil
}

func (c *config) stop() {
	if c.isBinary() {
		c.stopBinary()
		return
	}
	if c.front != nil {
		c.front.Close()
	}
	if c.proxyConn != nil {
		_ = c.proxyConn.Close()
	}
	if c.back != nil {
		c.back.Close()
	}
	if c.store != nil {
		c.store.close()
	}
}

func (c *config) storePath(hash string) string {
	if c.storage == "zstd" {
		return "/cas.v2/" + hash
	}
	return "/cas/" + hash
}

// backendSet makes the back end hold content under its digest.
func (c *config) backendSet(ctx context.Context, hash string, content []byte, delay time.Duration) error {
	switch c.backend {
	case "fake":
		raw := content
		if c.storage == "zstd" {
			raw = casFile(content)
		}
		c.fake.SetRaw(cache.CAS, hash, raw, int64(len(content)))
		if delay > 0 {
			c.fake.SetPlan(cache.CAS, hash, lib.ProxyPlan{Delay: delay})
		}
	case "http":
		body := content
		if c.storage == "zstd" {
			body = casFile(content)
		}
		c.store.set(c.storePath(hash), body, delay)
	case "grpc":
		return c.back.Cache.Put(ctx, cache.CAS, hash, int64(len(content)), bytes.NewReader(content))
	default:
		return errors.New("no back end")
	}
	return nil
}

// One shared encoder (EncodeAll is safe for concurrent use); creating an encoder per object is
// what dominates otherwise.
var zenc, _ = zstd.NewWriter(nil, zstd.WithEncoderLevel(zstd.SpeedDefault), zstd.WithEncoderConcurrency(4))

// casFile is content in the cas.v2 file format, written by the harness's own codec.
func casFile(content []byte) []byte {
	return lib.CasWrite(content, lib.MiB, 1, func(b []byte) []byte { return zenc.EncodeAll(b, nil) })
}

func (c *config) backendDelete(hash string) {
	switch c.backend {
	case "fake":
		c.fake.Delete(cache.CAS, hash)
	case "http":
		c.store.del(c.storePath(hash))
	}
}

// materialise establishes the modelled state of b.
func (c *config) materialise(ctx context.Context, b *blob, content []byte) error {
	if b.local {
		if c.filter != nil {
			c.filter.keepOut(b.hash)
		}
		if c.isBinary() {
			// (The executable writes through to the harness object store, which discards uploads.)
			if err := c.upload(ctx, b.hash, content); err != nil {
				return fmt.Errorf("front upload: %w", err)
			}
		} else if err := c.front.Cache.Put(ctx, cache.CAS, b.hash, b.size, bytes.NewReader(content)); err != nil {
			return fmt.Errorf("front put: %w", err)
		}
	}
	if b.backend {
		if err := c.backendSet(ctx, b.hash, content, b.delay); err != nil {
			return fmt.Errorf("backend set: %w", err)
		}
	}
	return nil
}

func (c *config) fillPools(r *lib.Run) error {
	rng := r.Rng("pool/" + c.name)
	ctx, cancel := context.WithTimeout(context.Background(), 10*time.Minute)
	defer cancel()

	// Contents are generated sequentially (deterministic), stored by a few workers.
	type job struct {
		b       *blob
		content []byte
	}
	jobs := make(chan job, 16)
	var firstErr error
	var errMu sync.Mutex
	var wg sync.WaitGroup
	for i := 0; i < 4; i++ {
		wg.Add(1)
		go func() {
			defer wg.Done()
			for j := range jobs {
				if err := c.materialise(ctx, j.b, j.content); err != nil {
					errMu.Lock()
					if firstErr == nil {
						firstErr = err
					}
					errMu.Unlock()
				}
			}
		}()
	}
	for p := 0; p < numPools; p++ {
		needsBackend := p == pBoth || p == pBackend || p == pBackendEdge || p == pBackendOver
		if needsBackend && !c.hasBackend() {
			continue
		}
		count := poolSizes[p]
		if c.isBinary() {
			count = (count + 1) / 2 // fewer cases run against these instances
		}
		for i := 0; i < count; i++ {
			var size int
			switch p {
			case pLocalBig, pBackendOver:
				size = c.maxProxy + 1 + rng.IntN(1500)
				if i%4 == 0 {
					size = c.maxProxy + 1
				}
			case pBackendEdge:
				size = c.maxProxy
			default:
				size = pickSize(rng, c.maxProxy)
			}
			content := lib.GenBlob(rng, size, "random", fmt.Sprintf("c10/pool/%s/%d/%d", c.name, p, i))
			b := &blob{hash: lib.Sha256Hex(content), size: int64(size)}
			b.local = p == pLocal || p == pLocalBig || p == pBoth
			b.backend = needsBackend
			if b.backend {
				b.delay = pickDelay(rng)
			}
			c.pools[p] = append(c.pools[p], b)
			jobs <- job{b, content}
		}
	}
	close(jobs)
	wg.Wait()
	return firstErr
}

// verifyPools compares the index of the front end (hooked snapshot) with the
// modelled state of every pool blob: a failure means the harness's model is
// not what the server holds (eviction, failed set-up), i.e. the run cannot judge.
func (c *config) verifyPools() string {
	if c.isBinary() {
		return c.verifyPoolsOnDisk()
	}
	snap := lib.Snapshot(c.front.Cache)
	idx := make(map[string]int64, len(snap.Entries))
	for _, e := range snap.Entries {
		idx[e.Key] = e.Size
	}
	for p := range c.pools {
		for _, b := range c.pools[p] {
			sz, ok := idx[cache.LookupKey(cache.CAS, b.hash)]
			if b.local && (!ok || sz != b.size) {
				return fmt.Sprintf("%s: pool blob %s/%d modelled local is not in the index (found=%v size=%d)", c.name, b.hash, b.size, ok, sz)
			}
			if !b.local && ok {
				return fmt.Sprintf("%s: pool blob %s/%d modelled not-local is in the index", c.name, b.hash, b.size)
			}
		}
	}
	if snap.CurrentSize > snap.MaxSize/2 {
		return fmt.Sprintf("%s: cache half full (%d of %d): evictions cannot be excluded", c.name, snap.CurrentSize, snap.MaxSize)
	}
	return ""
}

func run(r *lib.Run) {
	r.SetRule("distinct tuple = (configuration [back end x storage mode], api [disk.Cache | gRPC], layout of position kinds, " +
		"request length class, concurrent upload goroutines); configurations include three instances of the real executable " +
		"(flags / environment / YAML); cases with scripted back-end faults add (configuration, api, fault, layout, request length class); " +
		"the concurrency slice adds per group (configuration, order of the phases, disturbance, number of calls, traffic) and per judged call the first tuple with layout = order/role")
	r.Assume("back ends that cannot state sizes (HTTP back end in zstd layout) are not judged on positions where the back end holds the hash with a size other than the requested one (DESIGN C10 limits); those positions are counted under dontcare.*. A requested size larger than max_proxy_blob_size that equals the size the back end holds is judged with every back end (missing unless stored locally)")
	r.Assume("fault slice: a digest the back end does not hold is absent whatever the back end answers to the existence check (error status, closed connection, late answer), so it must be reported missing; a digest the back end holds but answers for with an error is not judged (dontcare.*backend-exact-faulty); a FindMissingBlobs call that fails as a whole while a fault is scripted reports nothing and is not judged (fault.call-error)")
	r.Assume("concurrency slice: the states of all digests are constant during a group of concurrent calls, so every FindMissingBlobs call that answers is judged with the same oracle as a lone call; a call whose client gave up (cancel, deadline) and that ended with an error is not judged; the outcome of the concurrent validated action-cache lookups is counted, not judged (C06). The bounded waits between the phases of a group only steer the schedule; whether the intended overlap was reached is reported under conc.schedule.*")
	r.Extra("race_build", raceEnabled)

	t0 := time.Now()
	w := &world{r: r, cfgs: newConfigs(), caseDur: map[string]time.Duration{}}
	defer func() {
		for _, c := range w.cfgs {
			c.stop()
		}
	}()
	setupErr := make([]string, len(w.cfgs))
	var swg sync.WaitGroup
	for i, c := range w.cfgs {
		swg.Add(1)
		go func() {
			defer swg.Done()
			if err := c.start(); err != nil {
				setupErr[i] = fmt.Sprintf("fixture %s did not start: %v", c.name, err)
			} else if err := c.fillPools(r); err != nil {
				setupErr[i] = fmt.Sprintf("fixture %s: pool set-up failed: %v", c.name, err)
			} else if why := c.verifyPools(); why != "" {
				setupErr[i] = "after set-up: " + why
			}
		}()
	}
	swg.Wait()
	bad := false
	for i, e := range setupErr {
		if e != "" {
			r.Inconclusive(e)
			if w.cfgs[i].isBinary() {
				// The other slices still run; this instance's cases are skipped and counted.
				w.cfgs[i].unusable = e
				r.Count("binary." + w.cfgs[i].syntax + ".not-started")
			} else {
				bad = true
			}
		}
	}
	if bad {
		return
	}
	r.Extra("setup_s", time.Since(t0).Seconds())
	var instances []string
	for _, ci := range binaryCfgs {
		instances = append(instances, w.cfgs[ci].describeBinary())
	}
	r.Extra("binary_instances", instances)

	n, nFault, nBinary, nConc := r.N(400, 10000), r.N(132, 1800), r.N(90, 1200), r.N(75, 1500)
	if raceEnabled {
		nConc = r.N(75, 375)
		// The race build is there to watch the worker pool writing through pointers into the
		// request slice; it is several times slower, so it gets a quarter of the thorough cases.
		n, nFault, nBinary = r.N(400, 2500), r.N(132, 450), r.N(90, 300)
	}
	workers := runtime.GOMAXPROCS(0) / 2
	workers = max(2, min(workers, 8))
	if raceEnabled {
		workers = min(workers, 4)
	}
	r.Extra("workers", workers)
	r.Extra("requests", n)
	r.Extra("requests_fault_slice", nFault)
	r.Extra("requests_binary_slice", nBinary)
	r.Extra("groups_concurrency_slice", nConc)

	ch := make(chan int)
	var wg sync.WaitGroup
	for i := 0; i < workers; i++ {
		wg.Add(1)
		go func() {
			defer wg.Done()
			for idx := range ch {
				w.runCase(genCase(r.Seed, idx, w.cfgs))
			}
		}()
	}
	for i := 0; i < n; i++ {
		ch <- i
	}
	close(ch)
	wg.Wait()
	r.Extra("main_slice_s", time.Since(t0).Seconds())

	// The fault and binary slices.
	specs := make(chan *caseSpec)
	for i := 0; i < workers; i++ {
		wg.Add(1)
		go func() {
			defer wg.Done()
			for cs := range specs {
				w.runCase(cs)
			}
		}()
	}
	for i := 0; i < max(nFault, nBinary); i++ {
		if i < nFault {
			specs <- genFaultCase(r.Seed, i, faultCfgs, w.cfgs)
		}
		if i < nBinary {
			cs := genBinaryCase(r.Seed, i, binaryCfgs, w.cfgs)
			if w.cfgs[cs.cfg].unusable != "" {
				r.Count("binary." + w.cfgs[cs.cfg].syntax + ".cases-skipped")
				continue
			}
			specs <- cs
		}
	}
	close(specs)
	wg.Wait()

	// The concurrency slice (on its own: its held back-end answers occupy back-end connections).
	tConc := time.Now()
	w.runConcSlice(nConc, workers)
	r.Extra("conc_slice_s", time.Since(tConc).Seconds())

	// Post-conditions of the run as a whole.
	for _, c := range w.cfgs {
		if c.unusable != "" {
			continue
		}
		if why := c.verifyPools(); why != "" {
			r.Inconclusive("at the end: " + why)
		}
		if c.isBinary() {
			c.finishBinary(r)
		}
		if hits := c.faultHits(); len(c.faultTable()) > 0 {
			r.CountN("backend."+c.name+".fault-answers", hits)
		}
		if c.filter != nil {
			r.CountN("backend."+c.name+".contains-calls", c.filter.contains.Load())
			r.CountN("backend."+c.name+".write-through-dropped", c.filter.dropped.Load())
			r.CountN("backend."+c.name+".write-through-passed", c.filter.passed.Load())
			if c.filter.contains.Load() == 0 {
				r.Inconclusive(c.name + ": the back end was never consulted")
			}
			if c.fetchOK.Load() == 0 {
				r.Inconclusive(c.name + ": no back-end blob could be pulled into the local cache (fetched kinds not exercised)")
			}
		}
		if c.store != nil {
			r.CountN("backend."+c.name+".http-heads", c.store.heads.Load())
		}
	}
	secs := map[string]float64{}
	for k, d := range w.caseDur {
		secs[k] = float64(d.Milliseconds()) / 1000
	}
	r.Extra("summed_case_seconds", secs)
	r.Extra("total_s", time.Since(t0).Seconds())
	// Every slice must have been exercised: each instance of the executable and each fault.
	for _, ci := range binaryCfgs {
		c := w.cfgs[ci]
		if c.unusable == "" && r.Counter("binary."+c.syntax+".cases") == 0 {
			r.Inconclusive("binary slice: no case was judged against the instance configured through " + c.syntax)
		}
	}
	for _, tbl := range [][]fault{httpFaults, grpcFaults} {
		for _, f := range tbl {
			if r.Counter("fault."+f.name+".cases") == 0 {
				r.Inconclusive("fault slice: no case was judged with the back end fault " + f.name)
			} else if !f.truthful && r.Counter("fault."+f.name+".absent.reported-missing")+r.Counter("fault."+f.name+".absent.reported-present") == 0 {
				r.Inconclusive("fault slice: no absent digest was judged with the back end fault " + f.name)
			}
		}
	}
}

type expT uint8

const (
	expPresent expT = iota
	expMissing
	expDontCare
)

// resolved request position
type rpos struct {
	kind  kind
	d     *pb.Digest
	exp   expT
	class string // <local class>+<back-end class>: the modelled state relative to the requested size
	b     *blob
	fault *fault // scripted for the back end's existence check of this digest
	// concurrency slice: 1 + index into the group's shared set (0 = not from it)
	shared int
}

// expectation is the oracle for one digest, written from the property
// statement: not missing iff stored locally with exactly the stated size (or
// the empty blob), or held by the back end with that size and that size is
// within max_proxy_blob_size. With a fault scripted for the back end's
// existence check (f), a digest the back end holds in that way is not judged
// unless the fault is a late but truthful answer.
func (c *config) expectation(hash string, reqSize int64, b *blob, f *fault) (expT, string) {
	local := false
	lc := "not-local"
	switch {
	case hash == lib.EmptySha256 && reqSize == 0:
		local, lc = true, "empty-blob"
	case b != nil && b.local:
		lc = "local"
		if b.fetched {
			lc = "local-fetched"
		}
		if b.size == reqSize {
			local = true
			lc += "-exact"
		} else {
			lc += "-other-size"
		}
	}
	be := expMissing
	bc := "backend-absent"
	switch {
	case !c.hasBackend():
		bc = "no-backend"
	case b == nil || !b.backend:
	case b.size == reqSize && reqSize <= int64(c.maxProxy):
		be, bc = expPresent, "backend-exact"
		if f != nil && !f.truthful {
			be = expDontCare
		}
	case b.size == reqSize:
		// Larger than max_proxy_blob_size in the back end, and the request says so.
		bc = "backend-oversize"
	default:
		bc = "backend-other-size"
		if !c.sizeAware {
			be = expDontCare
		}
	}
	if f != nil && c.hasBackend() {
		bc += "-faulty"
	}
	cl := lc + "+" + bc
	if local {
		return expPresent, cl
	}
	return be, cl
}

func otherSize(n int64, variant int, api string, rng *rand.Rand) int64 {
	switch variant {
	case 0:
		if n > 1 {
			return n - 1
		}
		return n + 1
	case 1:
		return n + 1
	case 2:
		return n + 1000
	case 3:
		if api == "disk" { // the gRPC layer rejects (non-empty hash, 0) for the whole request
			return 0
		}
		return n + 1
	default:
		return 2*n + 7 + int64(rng.IntN(50))
	}
}

func readAll(rc io.ReadCloser) ([]byte, error) {
	defer func() { _ = rc.Close() }()
	return io.ReadAll(rc)
}

// fetchVia maps the generated way of pulling a blob in onto one the configuration
// offers (the executable has no Go API).
func (c *config) fetchVia(via int) int {
	if c.isBinary() {
		switch via {
		case fetchAPIUnknown:
			return fetchHTTPGet
		case fetchAPIKnown:
			return fetchBSRead
		}
	}
	return via
}

// fetch pulls a back-end-only blob into the front end's local cache through a read.
func (c *config) fetch(ctx context.Context, b *blob, content []byte, via int) bool {
	var got []byte
	var err error
	switch via {
	case fetchHTTPGet:
		res := c.front.HTTPGet("/cas/"+b.hash, nil)
		got, err = res.Body, res.Err
		if err == nil && res.Status != 200 {
			err = fmt.Errorf("status %d", res.Status)
		}
	case fetchAPIUnknown, fetchAPIKnown:
		size := int64(-1)
		if via == fetchAPIKnown {
			size = b.size
		}
		var rc io.ReadCloser
		rc, _, err = c.front.Cache.Get(ctx, cache.CAS, b.hash, size, 0)
		if err == nil && rc == nil {
			err = errors.New("miss")
		}
		if err == nil {
			got, err = readAll(rc)
		}
	case fetchBSRead:
		got, err = c.front.BSRead(ctx, lib.ResBlobs(b.hash, b.size), 0, 0)
	}
	return err == nil && bytes.Equal(got, content)
}

type caseRun struct {
	w    *world
	cs   *caseSpec
	cfg  *config
	rng  *rand.Rand
	pos  []rpos
	perm [numPools][]int
	cur  [numPools]int
	// concurrency slice: the digests several concurrent calls of one group ask for
	shared []*sharedDigest
}

func (cr *caseRun) fromPool(p int) *blob {
	pool := cr.cfg.pools[p]
	if cr.perm[p] == nil {
		cr.perm[p] = cr.rng.Perm(len(pool))
	}
	b := pool[cr.perm[p][cr.cur[p]%len(pool)]]
	cr.cur[p]++
	return b
}

// resolve turns the generated kinds into digests in known states.
func (cr *caseRun) resolve(ctx context.Context) error {
	cs, cfg, r := cr.cs, cr.cfg, cr.w.r
	cr.pos = make([]rpos, cs.n)
	for p := range cs.pos {
		ps := &cs.pos[p]
		rp := &cr.pos[p]
		rp.kind = ps.kind
		switch ps.kind {
		case kDup:
			src := &cr.pos[ps.dupOf]
			*rp = *src
			rp.kind = kDup
			if !(cs.sharePtr && cs.api == "disk") {
				rp.d = &pb.Digest{Hash: src.d.Hash, SizeBytes: src.d.SizeBytes}
			}
			continue
		case kAbsent:
			if ps.shared > 0 {
				// A digest of the concurrency slice's shared set that is held nowhere.
				sh := cr.shared[ps.shared-1]
				rp.d = &pb.Digest{Hash: sh.hash, SizeBytes: sh.size}
				rp.shared = ps.shared
				break
			}
			rp.d = &pb.Digest{Hash: lib.RandHash(cr.rng), SizeBytes: int64(ps.size)}
		case kAbsentFault:
			rp.d = &pb.Digest{Hash: lib.RandHash(cr.rng), SizeBytes: int64(ps.size)}
			tbl := cfg.faultTable()
			rp.fault = &tbl[ps.fault%len(tbl)]
			cfg.faultSet(rp.d.Hash, rp.fault, ps.faultLen)
		case kEmpty:
			rp.d = &pb.Digest{Hash: lib.EmptySha256, SizeBytes: 0}
		case kEmptyWrong:
			rp.d = &pb.Digest{Hash: lib.EmptySha256, SizeBytes: int64(1 + cr.rng.IntN(1000))}
		default:
			var b *blob
			if ps.shared > 0 {
				// A blob of the concurrency slice's shared set (established before the calls start).
				b = cr.shared[ps.shared-1].b
				rp.shared = ps.shared
			} else if ps.fresh {
				content := lib.GenBlob(cr.rng, ps.size, "random", fmt.Sprintf("c10/%s/%d/%d", cfg.name, cs.idx, p))
				b = &blob{hash: lib.Sha256Hex(content), size: int64(ps.size)}
				switch ps.kind {
				case kLocal, kLocalBig, kLocalMis:
					b.local = true
				case kBoth, kBothMis:
					b.local, b.backend = true, true
				default:
					b.backend = true
				}
				if b.backend {
					b.delay = ps.delay
				}
				if err := cfg.materialise(ctx, b, content); err != nil {
					return err
				}
				if ps.kind == kBackendFault {
					tbl := cfg.faultTable()
					rp.fault = &tbl[ps.fault%len(tbl)]
					cfg.faultSet(b.hash, rp.fault, ps.faultLen)
				}
				if ps.kind == kFetched || ps.kind == kFetchedMis {
					via := cfg.fetchVia(ps.fetchVia)
					if cfg.fetch(ctx, b, content, via) {
						cfg.fetchOK.Add(1)
						r.Count("fetch." + cfg.name + "." + fetchNames[via] + ".ok")
						b.local, b.fetched, b.via = true, true, via
						if cfg.canDelete && (ps.del || ps.kind == kFetchedMis) {
							cfg.backendDelete(b.hash)
							b.backend = false
						}
					} else {
						// The read did not deliver the blob: its local state is unknown, so this
						// position cannot be judged (not a C10 matter).
						cfg.fetchFail.Add(1)
						r.Count("fetch." + cfg.name + "." + fetchNames[via] + ".failed")
						rp.b = b
						rp.d = &pb.Digest{Hash: b.hash, SizeBytes: b.size}
						rp.exp, rp.class = expDontCare, "fetch-failed"
						continue
					}
				}
			} else {
				b = cr.fromPool(poolOf(ps.kind))
			}
			rp.b = b
			req := b.size
			switch ps.kind {
			case kLocalMis, kBothMis, kBackendMis, kFetchedMis:
				req = otherSize(b.size, ps.mis, cs.api, cr.rng)
			case kBackendOverSmall:
				req = int64(1 + cr.rng.IntN(cfg.maxProxy))
			}
			rp.d = &pb.Digest{Hash: b.hash, SizeBytes: req}
		}
		rp.exp, rp.class = cfg.expectation(rp.d.Hash, rp.d.SizeBytes, rp.b, rp.fault)
	}
	return nil
}

// startTraffic runs goroutines uploading unrelated blobs; it returns once
// each of them is about to upload, and a function that stops and joins them.
func (cr *caseRun) startTraffic(ctx context.Context) func() {
	cs, cfg, r := cr.cs, cr.cfg, cr.w.r
	if cs.traffic == 0 {
		return func() {}
	}
	var stop atomic.Bool
	var wg sync.WaitGroup
	ready := make(chan struct{}, cs.traffic)
	for g := 0; g < cs.traffic; g++ {
		wg.Add(1)
		go func(g int) {
			defer wg.Done()
			rng := rand.New(rand.NewPCG(cs.seed, uint64(1000+g)))
			ok, bad := int64(0), int64(0)
			for i := 0; i < 5; i++ {
				content := lib.GenBlob(rng, minBlob+rng.IntN(900), "random", fmt.Sprintf("c10/traffic/%s/%d/%d/%d", cfg.name, cs.idx, g, i))
				d := lib.DigestOf(content)
				if i == 0 {
					ready <- struct{}{}
				}
				var err error
				switch cs.via {
				case "api":
					err = cfg.front.Cache.Put(ctx, cache.CAS, d.Hash, d.SizeBytes, bytes.NewReader(content))
				case "http":
					res := cfg.front.HTTPPut("/cas/"+d.Hash, content, nil)
					err = res.Err
					if err == nil && res.Status != 200 {
						err = fmt.Errorf("status %d", res.Status)
					}
				default:
					var resp *pb.BatchUpdateBlobsResponse
					resp, err = cfg.front.CAS.BatchUpdateBlobs(ctx, &pb.BatchUpdateBlobsRequest{
						Requests: []*pb.BatchUpdateBlobsRequest_Request{{Digest: d, Data: content}}})
					if err == nil && (len(resp.Responses) != 1 || resp.Responses[0].GetStatus().GetCode() != 0) {
						err = errors.New("blob not acknowledged")
					}
				}
				if err == nil {
					ok++
				} else {
					bad++
				}
				if i >= 1 && stop.Load() {
					break
				}
			}
			r.CountN("traffic."+cs.via+".uploads-ok", ok)
			if bad > 0 {
				r.CountN("traffic."+cs.via+".uploads-failed", bad)
			}
		}(g)
	}
	for g := 0; g < cs.traffic; g++ {
		<-ready
	}
	return func() { stop.Store(true); wg.Wait() }
}

func dstr(d *pb.Digest) string {
	if d == nil {
		return "<nil>"
	}
	return fmt.Sprintf("%s/%d", d.Hash, d.SizeBytes)
}

func (w *world) runCase(cs *caseSpec) {
	r := w.r
	cfg := w.cfgs[cs.cfg]
	defer func(t0 time.Time) {
		w.mu.Lock()
		w.caseDur[cs.slice+"/"+cfg.name] += time.Since(t0)
		w.mu.Unlock()
	}(time.Now())
	cr := &caseRun{w: w, cs: cs, cfg: cfg, rng: rand.New(rand.NewPCG(cs.seed, 1))}
	ctx, cancel := lib.Ctx()
	defer cancel()

	if err := cr.resolve(ctx); err != nil {
		if ctx.Err() != nil {
			r.Inconclusive(fmt.Sprintf("case %d (%s): set-up timed out: %v", cs.idx, cfg.name, err))
		} else {
			r.Inconclusive(fmt.Sprintf("case %d (%s): set-up failed: %v", cs.idx, cfg.name, err))
		}
		return
	}

	req := make([]*pb.Digest, cs.n)
	for i := range cr.pos {
		req[i] = cr.pos[i].d
	}
	// Copies of the request values: the disk API is documented to reuse the slice it is
	// given, and returned elements must still equal what was asked.
	orig := make([]*pb.Digest, cs.n)
	for i, d := range req {
		orig[i] = &pb.Digest{Hash: d.Hash, SizeBytes: d.SizeBytes}
	}

	stopTraffic := cr.startTraffic(ctx)
	resp, err := cr.call(ctx, req)
	stopTraffic()
	cr.judge(ctx, orig, resp, err, nil)
}

// call asks the front end for the missing digests of req through the case's api.
func (cr *caseRun) call(ctx context.Context, req []*pb.Digest) ([]*pb.Digest, error) {
	if cr.cs.api == "disk" {
		in := append([]*pb.Digest(nil), req...)
		return cr.cfg.front.Cache.FindMissingCasBlobs(ctx, in)
	}
	return cr.cfg.front.FindMissing(ctx, req...)
}

// judgeOpts is what a slice adds to the judgement of one call.
type judgeOpts struct {
	extra  map[string]any // added to every witness
	posTag []string       // per request position: an extra component of the finding key ("" = none)
}

// judge compares the answer of one call with the oracle, position by position and as
// a sequence. It returns, per request position, whether the digest was reported
// missing; judged is false when the call gave no answer that can be judged.
func (cr *caseRun) judge(ctx context.Context, orig, resp []*pb.Digest, err error, jo *judgeOpts) (reportedMissing []bool, judged bool) {
	cs, cfg, r := cr.cs, cr.cfg, cr.w.r
	if jo == nil {
		jo = &judgeOpts{}
	}
	base := "C10:" + cfg.keyName
	// The faults scripted in this case (name -> positions).
	faultsOf := map[string]int{}
	for i := range cr.pos {
		if f := cr.pos[i].fault; f != nil {
			faultsOf[f.name]++
		}
	}
	witness := func(extra map[string]any) map[string]any {
		m := map[string]any{
			"case": cs.idx, "slice": cs.slice, "config": cfg.name, "storage": cfg.storage, "backend": cfg.backend, "api": cs.api,
			"layout": cs.layout, "length": cs.n, "traffic_goroutines": cs.traffic, "traffic_via": cs.via,
			"max_proxy_blob_size": cfg.maxProxy, "shared_duplicate_pointers": cs.sharePtr && cs.api == "disk",
			"kinds": cs.layoutString(), "kind_codes": kindCodeLegend,
			"response_length": len(resp),
		}
		if cfg.isBinary() {
			m["executable"] = cfg.describeBinary()
		}
		if len(faultsOf) > 0 {
			names := make([]string, 0, len(faultsOf))
			for n := range faultsOf {
				names = append(names, n)
			}
			sort.Strings(names)
			m["backend_faults"] = names
		}
		for k, v := range jo.extra {
			m[k] = v
		}
		for k, v := range extra {
			m[k] = v
		}
		return m
	}

	if err != nil {
		if ctx.Err() != nil || status.Code(err) == codes.DeadlineExceeded || errors.Is(err, context.DeadlineExceeded) {
			r.Inconclusive(fmt.Sprintf("case %d (%s/%s): call timed out: %v", cs.idx, cfg.name, cs.api, err))
			return nil, false
		}
		if cfg.isBinary() && cfg.child.Exited() {
			r.Inconclusive(fmt.Sprintf("case %d (%s): the executable is gone: %v", cs.idx, cfg.name, err))
			return nil, false
		}
		if len(faultsOf) > 0 {
			// The back end misbehaves: a call failing as a whole reports nothing (present or missing).
			r.Count("fault.call-error." + cfg.name)
			return nil, false
		}
		r.Eval()
		r.Violation(base+":"+cs.api+":error", "a well-formed FindMissingBlobs request was answered with an error: "+err.Error(),
			witness(map[string]any{"error": err.Error()}))
		return nil, false
	}

	// --- judge -----------------------------------------------------------------------------
	r.Eval()
	r.Distinct(cfg.name, "|", cs.api, "|", cs.layout, "|", cs.lenClass, "|", cs.traffic)
	counts := map[string]int64{}
	counts["case."+cfg.name+"."+cs.api]++
	counts["slice."+cs.slice+".cases"]++
	if cfg.isBinary() {
		counts["binary."+cfg.syntax+".cases"]++
	}
	for name := range faultsOf {
		counts["fault."+name+".cases"]++
		r.Distinct(cfg.name, "|", cs.api, "|fault|", name, "|", cs.layout, "|", cs.lenClass)
	}
	counts["len."+cs.lenClass]++
	counts["layout."+cs.layout]++
	counts[fmt.Sprintf("traffic.goroutines=%d", cs.traffic)]++

	// Alignment: the response must be a subsequence of the request; a request position the
	// response skips was reported present.
	reportedMissing = make([]bool, cs.n)
	j := 0
	for i := range orig {
		if j < len(resp) && proto.Equal(resp[j], orig[i]) {
			reportedMissing[i] = true
			j++
		}
	}
	violations := 0
	if j < len(resp) {
		inReq := false
		for _, d := range orig {
			inReq = inReq || proto.Equal(d, resp[j])
		}
		what, key := "out of request order (or repeated more often than requested)", "order"
		if !inReq {
			what, key = "not a requested digest", "foreign-digest"
		}
		r.Violation(base+":"+cs.api+":"+key, fmt.Sprintf("response element %d (%s) is %s", j, dstr(resp[j]), what),
			witness(map[string]any{"response_index": j, "response_digest": dstr(resp[j]), "request": digestList(orig, 60), "response": digestList(resp, 60)}))
		violations++

		// The alignment is meaningless now. Attribute per digest value instead, order ignored:
		// how often each judged digest was returned versus how often it had to be.
		got := map[string]int{}
		for _, d := range resp {
			got[dstr(d)]++
		}
		want := map[string]int{}
		for i := range cr.pos {
			if cr.pos[i].exp == expMissing {
				want[dstr(orig[i])]++
			}
		}
		for i := range reportedMissing {
			k := dstr(orig[i])
			switch {
			case cr.pos[i].exp == expMissing && got[k] > 0:
				reportedMissing[i] = true
				got[k]--
			case cr.pos[i].exp == expPresent:
				reportedMissing[i] = got[k] > want[k]
			default:
				reportedMissing[i] = false
			}
		}
	}

	dontCares := 0
	flagged := map[string]bool{}
	for i := range cr.pos {
		rp := &cr.pos[i]
		rep := "reported-present"
		if reportedMissing[i] {
			rep = "reported-missing"
		}
		counts["kind."+rp.kind.String()]++
		if rp.fault != nil {
			held := "absent."
			if rp.b != nil && rp.b.backend {
				held = "held."
			}
			counts["fault."+rp.fault.name+"."+held+rep]++
		}
		if cfg.isBinary() {
			counts["binary."+cfg.syntax+"."+rp.class+"."+rep]++
		}
		if rp.exp == expDontCare {
			dontCares++
			counts["dontcare."+cfg.name+"."+rp.class+"."+rep]++
			continue
		}
		counts["pos."+cfg.name+"."+rp.class+"."+rep]++
		if reportedMissing[i] == (rp.exp == expMissing) {
			continue
		}
		violations++
		key := base + ":" + rp.class + ":" + rep
		if rp.fault != nil {
			key = base + ":" + rp.class + ":" + rp.fault.name + ":" + rep
		}
		if i < len(jo.posTag) && jo.posTag[i] != "" {
			key = base + ":" + rp.class + ":" + jo.posTag[i] + ":" + rep
		}
		if flagged[key] {
			continue // one witness per class and case
		}
		flagged[key] = true
		det := map[string]any{
			"position": i, "position_in_batch": i % batch, "batch": i / batch, "kind": cs.pos[i].kind.String(),
			"resolved_kind": rp.kind.String(), "digest": dstr(orig[i]), "state": rp.class, "expected": map[expT]string{expPresent: "not missing", expMissing: "missing"}[rp.exp],
			"observed": rep,
		}
		if rp.fault != nil {
			det["backend_fault"] = rp.fault.name
		}
		if rp.b != nil {
			det["stored_size"] = rp.b.size
			det["stored_locally"] = rp.b.local
			det["held_by_backend"] = rp.b.backend
			det["backend_latency"] = rp.b.delay.String()
			if rp.b.fetched {
				det["pulled_into_local_cache_by"] = fetchNames[rp.b.via]
			}
		}
		if cs.n <= 60 {
			det["request"] = digestList(orig, 60)
			det["response"] = digestList(resp, 60)
		}
		what := fmt.Sprintf("%s [%s, %s api, length %d, position %d]: digest in state %s was %s", cfg.name, cfg.backend, cs.api, cs.n, i, rp.class, rep)
		if rp.fault != nil {
			what += " (back end fault: " + rp.fault.name + ")"
		}
		r.Violation(key, what, witness(det))
	}

	// Independent formulation (no alignment): when every position is judged, the response
	// must equal the filtered request element by element.
	if dontCares == 0 {
		var want []*pb.Digest
		for i := range cr.pos {
			if cr.pos[i].exp == expMissing {
				want = append(want, orig[i])
			}
		}
		equal := len(want) == len(resp)
		for i := 0; equal && i < len(want); i++ {
			equal = proto.Equal(want[i], resp[i])
		}
		if !equal && violations == 0 {
			r.Violation(base+":"+cs.api+":sequence-mismatch", "response differs from the expected sequence",
				witness(map[string]any{"expected": digestList(want, 60), "response": digestList(resp, 60)}))
		}
		counts["judged.whole-sequence"]++
	} else {
		counts["judged.with-dontcare-positions"]++
	}

	// Shapes the known sensitive spots need (evidence that they were exercised).
	if cfg.hasBackend() && cs.n > batch {
		lastBatch := (cs.n - 1) / batch * batch
		pending, tailClean := false, true
		for i := range cr.pos {
			rp := &cr.pos[i]
			localHit := strings.HasPrefix(rp.class, "local-exact") || strings.HasPrefix(rp.class, "local-fetched-exact") || strings.HasPrefix(rp.class, "empty-blob")
			if i < lastBatch && !localHit && strings.HasSuffix(rp.class, "+backend-exact") {
				pending = true
			}
			if i >= lastBatch && !localHit {
				tailClean = false
			}
		}
		if pending && tailClean {
			counts["shape.backend-lookup-pending-while-last-batch-all-local."+cfg.name]++
		}
	}
	for i := range cr.pos {
		rp := &cr.pos[i]
		if rp.b != nil && rp.b.fetched && (rp.b.via == fetchHTTPGet || rp.b.via == fetchAPIUnknown) && rp.d.SizeBytes != rp.b.size {
			counts["shape.fetched-with-unknown-size-then-asked-with-other-size."+cfg.name]++
		}
	}
	for _, at := range []int{batch, 2 * batch} {
		if cs.n > at && cr.pos[at-1].exp != cr.pos[at].exp {
			counts[fmt.Sprintf("shape.expectation-changes-across-position-%d|%d", at-1, at)]++
		}
	}
	if violations == 0 {
		counts["verdict.held"]++
	} else {
		counts["verdict.violated"]++
	}
	for k, v := range counts {
		r.CountN(k, v)
	}
	missing := 0
	for _, m := range reportedMissing {
		if m {
			missing++
		}
	}
	r.Sample(map[string]any{"case": cs.idx, "slice": cs.slice, "config": cfg.name, "api": cs.api, "layout": cs.layout, "length": cs.n,
		"traffic_goroutines": cs.traffic, "kinds": truncate(cs.layoutString(), 100), "reported_missing": missing})
	return reportedMissing, true
}

func truncate(s string, n int) string {
	if len(s) <= n {
		return s
	}
	return s[:n] + "..."
}

func digestList(ds []*pb.Digest, limit int) []string {
	out := make([]string, 0, min(len(ds), limit))
	for i, d := range ds {
		if i == limit {
			out = append(out, fmt.Sprintf("... %d more", len(ds)-limit))
			break
		}
		out = append(out, dstr(d))
	}
	return out
}

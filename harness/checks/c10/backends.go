package c10

import (
	"context"
	"io"
	"net"
	"net/http"
	"path"
	"strconv"
	"sync"
	"sync/atomic"
	"time"

	"github.com/buchgr/bazel-remote/v2/cache"
)

// objStore is the harness HTTP back end: an object store by request path.
// Its content is scripted by the harness only: uploads (write-through from
// the front end) are read and discarded so that the model of "what the back
// end holds" stays exact. HEAD/GET answer 200 + Content-Length, or 404 -
// unless a fault is scripted for the path (see fault.go): then HEAD, the
// existence check of the real httpproxy, is answered with that fault. The
// answer to HEAD for a digest with an armed gate (gate.go) is held until the
// harness releases it.
type objStore struct {
	mu     sync.RWMutex
	objs   map[string]storeObj
	faults map[string]scriptedFault
	gates  *gateSet // answers to HEAD held until released (gate.go); nil = none

	srv *http.Server
	URL string

	heads, gets, puts atomic.Int64
	faultHits         atomic.Int64
}

type storeObj struct {
	body  []byte
	delay time.Duration
}

func newObjStore() (*objStore, error) {
	s := &objStore{objs: map[string]storeObj{}, faults: map[string]scriptedFault{}}
	ln, err := net.Listen("tcp", "127.0.0.1:0")
	if err != nil {
		return nil, err
	}
	s.srv = &http.Server{Handler: s}
	s.URL = "http://" + ln.Addr().String()
	go func() { _ = s.srv.Serve(ln) }()
	return s, nil
}

func (s *objStore) set(path string, body []byte, delay time.Duration) {
	s.mu.Lock()
	s.objs[path] = storeObj{body: body, delay: delay}
	s.mu.Unlock()
}

func (s *objStore) setFault(path string, f scriptedFault) {
	s.mu.Lock()
	s.faults[path] = f
	s.mu.Unlock()
}

func (s *objStore) del(path string) {
	s.mu.Lock()
	delete(s.objs, path)
	s.mu.Unlock()
}

func (s *objStore) close() { _ = s.srv.Close() }

func (s *objStore) ServeHTTP(w http.ResponseWriter, r *http.Request) {
	switch r.Method {
	case http.MethodGet, http.MethodHead:
		if r.Method == http.MethodHead {
			s.heads.Add(1)
		} else {
			s.gets.Add(1)
		}
		if r.Method == http.MethodHead && s.gates != nil {
			if !s.gates.wait(path.Base(r.URL.Path), r.Context().Done()) {
				return // the client has gone
			}
		}
		s.mu.RLock()
		o, ok := s.objs[r.URL.Path]
		sf, faulty := s.faults[r.URL.Path]
		s.mu.RUnlock()
		if faulty && r.Method == http.MethodHead {
			s.faultHits.Add(1)
			if sf.f.delay > 0 {
				select {
				case <-time.After(sf.f.delay):
				case <-r.Context().Done():
					return
				}
			}
			switch {
			case sf.f.close:
				if hj, can := w.(http.Hijacker); can {
					if conn, _, err := hj.Hijack(); err == nil {
						_ = conn.Close()
						return
					}
				}
				panic(http.ErrAbortHandler) // closes the connection as well
			case !sf.f.truthful:
				if sf.withLength {
					w.Header().Set("Content-Type", "text/html")
					w.Header().Set("Content-Length", strconv.Itoa(150+sf.f.status%50))
				}
				w.WriteHeader(sf.f.status)
				return
			}
		}
		if ok && o.delay > 0 {
			select {
			case <-time.After(o.delay):
			case <-r.Context().Done():
				return
			}
		}
		if !ok {
			w.WriteHeader(http.StatusNotFound)
			return
		}
		w.Header().Set("Content-Length", strconv.Itoa(len(o.body)))
		w.Header().Set("Content-Type", "application/octet-stream")
		w.WriteHeader(http.StatusOK)
		if r.Method == http.MethodGet {
			_, _ = w.Write(o.body)
		}
	case http.MethodPut:
		s.puts.Add(1)
		_, _ = io.Copy(io.Discard, r.Body)
		w.WriteHeader(http.StatusOK)
	default:
		w.WriteHeader(http.StatusMethodNotAllowed)
	}
}

// filterProxy wraps the proxy under test (the real httpproxy / grpcproxy, or
// lib.FakeProxy). Contains and Get go straight to the wrapped proxy. Put is
// dropped for the hashes the harness registered as "keep out of the back
// end" (blobs whose modelled state is local-only): without this, the front
// end's asynchronous write-through would make every local blob eventually
// appear in the back end, and a wrong local lookup would be masked by the
// back end vouching for the blob. All other uploads (the unrelated
// concurrent traffic) reach the wrapped proxy unchanged.
type filterProxy struct {
	inner   cache.Proxy
	noWrite sync.Map // hash -> struct{}

	dropped, passed atomic.Int64
	contains        atomic.Int64
}

func (f *filterProxy) keepOut(hash string) { f.noWrite.Store(hash, struct{}{}) }

func (f *filterProxy) Put(ctx context.Context, kind cache.EntryKind, hash string, logicalSize int64, sizeOnDisk int64, rc io.ReadCloser) {
	if _, drop := f.noWrite.Load(hash); drop {
		f.dropped.Add(1)
		_ = rc.Close()
		return
	}
	f.passed.Add(1)
	f.inner.Put(ctx, kind, hash, logicalSize, sizeOnDisk, rc)
}

func (f *filterProxy) Get(ctx context.Context, kind cache.EntryKind, hash string, size int64) (io.ReadCloser, int64, error) {
	return f.inner.Get(ctx, kind, hash, size)
}

func (f *filterProxy) Contains(ctx context.Context, kind cache.EntryKind, hash string, size int64) (bool, int64) {
	f.contains.Add(1)
	return f.inner.Contains(ctx, kind, hash, size)
}

package c10

import (
	"bytes"
	"context"
	"fmt"
	"math/rand/v2"
	"sort"
	"sync"
	"time"

	"verif/harness/lib"

	"github.com/buchgr/bazel-remote/v2/cache"
	pb "github.com/buchgr/bazel-remote/v2/genproto/build/bazel/remote/execution/v2"

	"google.golang.org/grpc/codes"
	"google.golang.org/grpc/status"
	"google.golang.org/protobuf/proto"
)

// The concurrency slice ("conc"): groups of calls that run at the same time
// against one front end and ask for overlapping sets of digests.
//
// A group has a shared set of digests in fixed states (back end only, local,
// both, nowhere, larger than max_proxy_blob_size in the back end); for some
// of them the back end holds its answer to the existence check until the harness
// lets it go (gate.go), so the calls of a group are certainly in flight together.
// Calls of a group:
//
//	judged     FindMissingBlobs calls that nobody disturbs: judged with the normal
//	           oracle (expectation), position by position and as a sequence;
//	cancelled  FindMissingBlobs calls whose client gives up part-way (cancel, or a
//	           deadline): not judged - unless they answer OK, then like any other;
//	ac         validated action-cache lookups (disk API, gRPC, HTTP) of a result that
//	           refers to shared digests and - mostly - to one digest held nowhere, so
//	           that the dependency check fails fast while its other existence
//	           checks are in flight. Their outcome is counted, not judged (C06).
//
// Schedule of a group: the calls of phase 1 start; the harness waits until the
// back end has received their existence checks for the held digests; the calls
// of phase 2 start (same wait, bounded: an implementation need not ask the back
// end once per call); the clients of the cancelled calls give up and the
// failing dependency checks get their negative answer; the harness waits until
// those calls have ended and the back end has seen their checks being given up;
// half of the groups then start one more ("late") judged call; only then does
// the back end answer the held checks. All states are constant
// during a group, so every OK answer must be exact whatever the schedule was;
// the waits only make the overlap certain and are reported in the evidence.

const (
	concSliceBase         = 3 << 24
	concGroupsPerInstance = 2 // x (calls x concGatedPerCall) held checks stay below the back end connection pool (64)
	concGatedPerCall      = 3
	concStepWait          = 300 * time.Millisecond
)

// Configurations of the concurrency slice: every in-process one with a back end.
var concCfgs = []int{1, 5, 3, 4, 2}

const (
	roleJudged    = "judged"
	roleCancelled = "cancelled"
	roleAC        = "ac"
)

var concOrders = []string{"cancelled-first", "mixed", "cancelled-first", "judged-first", "mixed"}
var concDisturbances = []string{"client-gives-up", "ac-fails-fast", "both"}
var concLens = []int{1, 2, 3, 5, 19, 20, 21, 22, 39, 40, 41, 60}

var weightsConc = weights{kLocal: 25, kLocalBig: 2, kBoth: 5, kBackend: 12, kBackendEdge: 1, kAbsent: 20, kLocalMis: 5,
	kBothMis: 2, kBackendMis: 5, kBackendOver: 3, kBackendOverSmall: 1, kEmpty: 3, kEmptyWrong: 1}

// sharedSpec is one digest of a group's shared set.
type sharedSpec struct {
	kind  kind // kBackend | kBackendEdge | kLocal | kBoth | kAbsent | kBackendOver
	size  int
	gated bool          // the back end holds its answer to the existence check until released
	delay time.Duration // latency of the back end's answer otherwise
}

type sharedDigest struct {
	spec sharedSpec
	hash string
	size int64
	b    *blob // nil: held nowhere
	gate *gate
}

type concCallSpec struct {
	role  string
	phase int
	cs    *caseSpec // judged, cancelled: the FindMissingBlobs request

	cancelMode string // cancelled: "client-cancel" | "client-deadline"
	deadline   time.Duration

	acAPI     string // ac: "disk" | "grpc" | "http"
	acOutputs []int  // ac: indices of the shared back-end-only digests the result refers to
	acLocal   int    // ac: further outputs that are stored locally
	acTrigger bool   // ac: one more output that is held nowhere (the check fails fast on it)
	acSlot    int    // ac: where the trigger goes in the output list
}

type concGroup struct {
	idx         int
	seed        uint64
	cfg         int
	order       string
	disturbance string
	traffic     int
	via         string
	shared      []sharedSpec
	calls       []*concCallSpec
}

func (s sharedSpec) backendOnlyExact() bool { return s.kind == kBackend || s.kind == kBackendEdge }

// genConcGroup generates group i of the concurrency slice: a pure function of its arguments.
func genConcGroup(seed int64, i int, targets []int, cfgs []*config) *concGroup {
	idx := concSliceBase + i
	rng := rand.New(rand.NewPCG(uint64(seed)*0x9E3779B97F4A7C15+0xC10, uint64(idx)))
	g := &concGroup{idx: idx, seed: rng.Uint64(), cfg: targets[i%len(targets)]}
	cfg := cfgs[g.cfg]
	round := i / len(targets)
	g.order = concOrders[round%len(concOrders)]
	g.disturbance = concDisturbances[round%len(concDisturbances)]
	if rng.IntN(2) == 0 {
		g.traffic = 4
		g.via = []string{"api", "http", "grpc"}[rng.IntN(3)]
	}

	// The shared set. shared[0] is a held back-end-only digest that every disturbing call asks for.
	add := func(k kind, gated bool) {
		sp := sharedSpec{kind: k, gated: gated}
		switch k {
		case kBackendEdge:
			sp.size = cfg.maxProxy
		case kBackendOver:
			sp.size = cfg.maxProxy + 1 + rng.IntN(1500)
		default:
			sp.size = pickSize(rng, cfg.maxProxy)
		}
		if !gated && k != kLocal && k != kAbsent {
			sp.delay = pickDelay(rng)
		}
		g.shared = append(g.shared, sp)
	}
	for n := 1 + rng.IntN(3); n > 0; n-- {
		k := kBackend
		if len(g.shared) > 0 && rng.IntN(5) == 0 {
			k = kBackendEdge
		}
		add(k, true)
	}
	if rng.IntN(2) == 0 {
		add(kAbsent, true) // the back end takes its time to say no
	}
	for n := 1 + rng.IntN(2); n > 0; n-- {
		add(kBackend, false)
	}
	for n := 1 + rng.IntN(2); n > 0; n-- {
		add(kLocal, false)
	}
	if rng.IntN(2) == 0 {
		add(kBoth, false)
	}
	add(kAbsent, false)
	if rng.IntN(2) == 0 {
		add(kBackendOver, false)
	}

	nJudged := 1 + rng.IntN(4)
	nCancelled, nAC := 0, 0
	switch g.disturbance {
	case "client-gives-up":
		nCancelled = 1 + rng.IntN(2)
	case "ac-fails-fast":
		nAC = 1 + rng.IntN(2)
	default:
		nCancelled, nAC = 1, 1
		if rng.IntN(2) == 0 {
			nAC++
		}
	}
	for k := 0; k < nCancelled; k++ {
		c := &concCallSpec{role: roleCancelled, cancelMode: "client-cancel"}
		if rng.IntN(100) < 35 {
			c.cancelMode = "client-deadline"
			c.deadline = time.Duration(100+rng.IntN(200)) * time.Millisecond
		}
		c.cs = genConcCall(rng, g, cfg, roleCancelled, true)
		g.calls = append(g.calls, c)
	}
	for k := 0; k < nAC; k++ {
		c := &concCallSpec{role: roleAC, acAPI: []string{"disk", "grpc", "http"}[rng.IntN(3)]}
		c.acOutputs = []int{0}
		for s := 1; s < len(g.shared); s++ {
			if g.shared[s].gated && g.shared[s].backendOnlyExact() && rng.IntN(2) == 0 {
				c.acOutputs = append(c.acOutputs, s)
			}
		}
		c.acLocal = rng.IntN(3)
		// The first lookup of a group always fails fast; others may be complete results.
		c.acTrigger = k == 0 || rng.IntN(100) < 70
		c.acSlot = rng.IntN(8)
		g.calls = append(g.calls, c)
	}
	for k := 0; k < nJudged; k++ {
		c := &concCallSpec{role: roleJudged}
		// Most judged calls ask for the digest the disturbing calls ask for; the others are
		// plain concurrent traffic over the same front end.
		c.cs = genConcCall(rng, g, cfg, roleJudged, k == 0 || rng.IntN(100) < 85)
		g.calls = append(g.calls, c)
	}

	// Phases.
	lastJudged := len(g.calls) - 1
	for _, c := range g.calls {
		disturbing := c.role != roleJudged
		switch g.order {
		case "cancelled-first":
			c.phase = 2
			if disturbing {
				c.phase = 1
			}
		case "judged-first":
			c.phase = 1
			if disturbing {
				c.phase = 2
			}
		default:
			c.phase = 1 + rng.IntN(2)
		}
	}
	if g.order == "mixed" {
		// One disturbing call in phase 1 and one judged call in phase 2 at least.
		g.calls[0].phase = 1
		g.calls[lastJudged].phase = 2
	}
	if rng.IntN(2) == 0 {
		// A late call: it starts when the cancelled calls have just ended, while the back end
		// still holds the answers.
		c := &concCallSpec{role: roleJudged, phase: 3}
		c.cs = genConcCall(rng, g, cfg, roleJudged, true)
		c.cs.layout = g.order + "/judged-late"
		g.calls = append(g.calls, c)
	}
	return g
}

// genConcCall generates one FindMissingBlobs request of a group.
func genConcCall(rng *rand.Rand, g *concGroup, cfg *config, role string, withFocus bool) *caseSpec {
	cs := &caseSpec{idx: g.idx, slice: "conc", faultSel: -2, cfg: g.cfg, seed: rng.Uint64(), traffic: g.traffic, via: g.via}
	cs.layout = g.order + "/" + role
	if rng.IntN(10) < 6 {
		cs.n = pick(rng, concLens)
	} else {
		cs.n = 1 + rng.IntN(90)
	}
	cs.lenClass = lenClassOf(cs.n)
	cs.api = "disk"
	if rng.IntN(2) == 0 {
		cs.api = "grpc"
	}
	cs.sharePtr = rng.IntN(2) == 0
	n := cs.n

	var openIdx []int
	for s, sp := range g.shared {
		if !sp.gated {
			openIdx = append(openIdx, s)
		}
	}
	held := 0 // positions whose existence check the back end will hold
	if withFocus {
		held = 1 // reserved for shared[0]
	}
	cs.pos = make([]posSpec, n)
	setShared := func(ps *posSpec, s int) {
		sp := g.shared[s]
		ps.shared = s + 1
		ps.kind = sp.kind
		if rng.IntN(100) < 15 {
			switch sp.kind {
			case kBackend:
				ps.kind = kBackendMis
			case kLocal:
				ps.kind = kLocalMis
			case kBoth:
				ps.kind = kBothMis
			case kBackendOver:
				ps.kind = kBackendOverSmall
			}
		}
		if sp.gated {
			held++
		}
	}
	for p := range cs.pos {
		ps := &cs.pos[p]
		ps.mis = rng.IntN(5)
		ps.size = pickSize(rng, cfg.maxProxy)
		if rng.IntN(100) < 30 {
			s := rng.IntN(len(g.shared))
			if g.shared[s].gated && held >= concGatedPerCall {
				s = pick(rng, openIdx)
			}
			setShared(ps, s)
			continue
		}
		ps.kind = pickWeighted(rng, &weightsConc)
	}
	// Duplicates of earlier positions.
	for p := 1; p < n; p++ {
		if rng.IntN(100) >= 6 {
			continue
		}
		t := rng.IntN(p)
		for cs.pos[t].kind == kDup {
			t = cs.pos[t].dupOf
		}
		if sh := cs.pos[t].shared; sh > 0 && g.shared[sh-1].gated {
			if held >= concGatedPerCall {
				continue
			}
			held++
		}
		if sh := cs.pos[p].shared; sh > 0 && g.shared[sh-1].gated {
			held--
		}
		cs.pos[p] = posSpec{kind: kDup, dupOf: t}
	}
	if withFocus {
		// shared[0], with its exact size, at a position around the batch boundaries.
		cands := []int{0, 1, 18, 19, 20, 21, 39, 40, n - 1, rng.IntN(n), rng.IntN(n)}
		var ok []int
		for _, c := range cands {
			if c >= 0 && c < n {
				ok = append(ok, c)
			}
		}
		p := pick(rng, ok)
		if sh := cs.pos[p].shared; sh > 0 && g.shared[sh-1].gated {
			held--
		}
		// Duplicates of what was at p before do not become further held positions.
		for q := p + 1; q < n; q++ {
			if cs.pos[q].kind == kDup && cs.pos[q].dupOf == p {
				cs.pos[q] = posSpec{kind: kAbsent, size: minBlob}
			}
		}
		cs.pos[p] = posSpec{kind: g.shared[0].kind, shared: 1}
	}
	return cs
}

// concCall is one call of a running group.
type concCall struct {
	spec *concCallSpec
	name string

	cr        *caseRun
	req, orig []*pb.Digest

	acHash    string
	acSize    int64
	acDigests []string
	trigger   *gate

	ctx    context.Context
	cancel context.CancelFunc
	done   chan struct{}

	resp           []*pb.Digest
	err            error
	outcome        string // ac: "found" | "not-found" | "error: ..."
	started, ended time.Time

	expect map[string]int // held hash -> existence checks this call makes for it when it asks the back end once per position
}

func (c *concCall) disturbing() bool {
	return c.spec.role == roleCancelled || (c.spec.role == roleAC && c.spec.acTrigger)
}

// wasCancelled: the call did end the way the schedule intended (the client gave
// up and got no answer; the dependency check found the result incomplete).
func (c *concCall) wasCancelled() bool {
	switch c.spec.role {
	case roleCancelled:
		return c.err != nil
	case roleAC:
		return c.spec.acTrigger && c.outcome == "not-found"
	}
	return false
}

func (w *world) runConcGroup(g *concGroup) {
	r := w.r
	cfg := w.cfgs[g.cfg]
	cfg.concSem <- struct{}{}
	defer func() { <-cfg.concSem }()
	defer func(t0 time.Time) {
		w.mu.Lock()
		w.caseDur["conc/"+cfg.name] += time.Since(t0)
		w.mu.Unlock()
	}(time.Now())
	ctx, cancelAll := lib.Ctx()
	defer cancelAll()
	rng := rand.New(rand.NewPCG(g.seed, 7))
	skip := func(why string) {
		r.Inconclusive(fmt.Sprintf("concurrency group %d (%s): %s", g.idx, cfg.name, why))
		r.Count("conc.groups-not-run")
	}

	// --- the shared set ----------------------------------------------------------------------
	gates := map[string]*gate{}
	defer func() {
		for h := range gates {
			cfg.gates.disarm(h) // releases whatever is still held
		}
	}()
	shared := make([]*sharedDigest, len(g.shared))
	for i, sp := range g.shared {
		sd := &sharedDigest{spec: sp}
		if sp.kind == kAbsent {
			sd.hash, sd.size = lib.RandHash(rng), int64(sp.size)
		} else {
			content := lib.GenBlob(rng, sp.size, "random", fmt.Sprintf("c10/conc/%s/%d/%d", cfg.name, g.idx, i))
			b := &blob{hash: lib.Sha256Hex(content), size: int64(sp.size)}
			b.local = sp.kind == kLocal || sp.kind == kBoth
			b.backend = sp.kind != kLocal
			if b.backend {
				b.delay = sp.delay
			}
			if err := cfg.materialise(ctx, b, content); err != nil {
				skip("set-up failed: " + err.Error())
				return
			}
			sd.b, sd.hash, sd.size = b, b.hash, b.size
		}
		if sp.gated {
			sd.gate = cfg.gates.arm(sd.hash)
			gates[sd.hash] = sd.gate
		}
		shared[i] = sd
	}

	// --- the calls ---------------------------------------------------------------------------
	calls := make([]*concCall, len(g.calls))
	for k, spec := range g.calls {
		c := &concCall{spec: spec, name: fmt.Sprintf("call %d (%s)", k, spec.role), expect: map[string]int{}}
		calls[k] = c
		if spec.role == roleAC {
			ar := &pb.ActionResult{}
			addOut := func(hash string, size int64) {
				ar.OutputFiles = append(ar.OutputFiles, &pb.OutputFile{Path: fmt.Sprintf("out/%d", len(ar.OutputFiles)),
					Digest: &pb.Digest{Hash: hash, SizeBytes: size}})
				c.acDigests = append(c.acDigests, fmt.Sprintf("%s/%d", hash, size))
			}
			for _, s := range spec.acOutputs {
				addOut(shared[s].hash, shared[s].size)
				c.expect[shared[s].hash]++
			}
			for l := 0; l < spec.acLocal; l++ {
				b := pick(rng, cfg.pools[pLocal])
				addOut(b.hash, b.size)
			}
			if spec.acTrigger {
				// Held nowhere; the back end's "no" is held as well, and let go when the clients give up.
				th := lib.RandHash(rng)
				c.trigger = cfg.gates.arm(th)
				gates[th] = c.trigger
				c.expect[th]++
				at := spec.acSlot % (len(ar.OutputFiles) + 1)
				addOut(th, int64(1+rng.IntN(500)))
				last := len(ar.OutputFiles) - 1
				ar.OutputFiles[at], ar.OutputFiles[last] = ar.OutputFiles[last], ar.OutputFiles[at]
			}
			data, err := proto.Marshal(ar)
			if err != nil {
				skip("action result: " + err.Error())
				return
			}
			c.acHash, c.acSize = lib.RandHash(rng), int64(len(data))
			cfg.filter.keepOut(c.acHash)
			if err := cfg.front.Cache.Put(ctx, cache.AC, c.acHash, c.acSize, bytes.NewReader(data)); err != nil {
				skip("storing the action result failed: " + err.Error())
				return
			}
			continue
		}
		c.cr = &caseRun{w: w, cs: spec.cs, cfg: cfg, rng: rand.New(rand.NewPCG(spec.cs.seed, 1)), shared: shared}
		if err := c.cr.resolve(ctx); err != nil {
			skip("set-up failed: " + err.Error())
			return
		}
		c.req = make([]*pb.Digest, len(c.cr.pos))
		c.orig = make([]*pb.Digest, len(c.cr.pos))
		for i := range c.cr.pos {
			rp := &c.cr.pos[i]
			c.req[i] = rp.d
			c.orig[i] = &pb.Digest{Hash: rp.d.Hash, SizeBytes: rp.d.SizeBytes}
			if rp.shared > 0 && shared[rp.shared-1].gate != nil && rp.d.SizeBytes <= int64(cfg.maxProxy) {
				c.expect[rp.d.Hash]++ // never stored locally: the front end has to ask the back end
			}
		}
	}

	launch := func(c *concCall) {
		c.ctx, c.cancel = ctx, func() {}
		if c.spec.role == roleCancelled {
			if c.spec.cancelMode == "client-deadline" {
				c.ctx, c.cancel = context.WithTimeout(ctx, c.spec.deadline)
			} else {
				c.ctx, c.cancel = context.WithCancel(ctx)
			}
		}
		c.done = make(chan struct{})
		go func() {
			defer close(c.done)
			c.started = time.Now()
			defer func() { c.ended = time.Now() }()
			if c.spec.role != roleAC {
				c.resp, c.err = c.cr.call(c.ctx, c.req)
				return
			}
			switch c.spec.acAPI {
			case "disk":
				res, _, err := cfg.front.Cache.GetValidatedActionResult(c.ctx, c.acHash)
				switch {
				case err != nil:
					c.outcome = "error: " + err.Error()
				case res == nil:
					c.outcome = "not-found"
				default:
					c.outcome = "found"
				}
			case "grpc":
				_, err := cfg.front.AC.GetActionResult(c.ctx, &pb.GetActionResultRequest{ActionDigest: &pb.Digest{Hash: c.acHash, SizeBytes: c.acSize}})
				switch {
				case err == nil:
					c.outcome = "found"
				case status.Code(err) == codes.NotFound:
					c.outcome = "not-found"
				default:
					c.outcome = "error: " + err.Error()
				}
			default:
				res := cfg.front.HTTPGet("/ac/"+c.acHash, nil)
				switch {
				case res.Err != nil:
					c.outcome = "error: " + res.Err.Error()
				case res.Status == 200:
					c.outcome = "found"
				case res.Status == 404:
					c.outcome = "not-found"
				default:
					c.outcome = fmt.Sprintf("error: status %d", res.Status)
				}
			}
		}()
	}
	defer func() {
		for _, c := range calls {
			if c.cancel != nil {
				c.cancel()
			}
		}
	}()

	received := func(exp map[string]int) func() bool {
		return func() bool {
			for h, n := range exp {
				if gates[h].arrived.Load() < int64(n) {
					return false
				}
			}
			return true
		}
	}
	sum := func(dst map[string]int, c *concCall) {
		for h, n := range c.expect {
			dst[h] += n
		}
	}

	pseudo := &caseRun{w: w, cfg: cfg, cs: &caseSpec{idx: g.idx, seed: g.seed, traffic: g.traffic, via: g.via}}
	stopTraffic := pseudo.startTraffic(ctx)

	// Phase 1, and the back end has received its existence checks.
	exp := map[string]int{}
	for _, c := range calls {
		if c.spec.phase == 1 {
			sum(exp, c)
			launch(c)
		}
	}
	phase1 := waitUntil(concStepWait, received(exp))
	// At least the first check of every call that is still running (a client's deadline may have
	// passed before the front end got that far).
	established := phase1 || waitUntil(10*time.Second, func() bool {
		for _, c := range calls {
			if c.done == nil {
				continue
			}
			select {
			case <-c.done:
				continue
			default:
			}
			for h := range c.expect {
				if gates[h].arrived.Load() < 1 {
					return false
				}
			}
		}
		return true
	})
	// Phase 2.
	for _, c := range calls {
		if c.spec.phase == 2 {
			sum(exp, c)
			launch(c)
		}
	}
	phase2 := waitUntil(concStepWait, received(exp))

	// The clients give up; the failing dependency checks get their "no".
	for _, c := range calls {
		if c.spec.role == roleCancelled && c.spec.cancelMode == "client-cancel" {
			c.cancel()
		}
		if c.trigger != nil {
			c.trigger.open()
		}
	}
	stuck := 0
	aborts := map[string]int{}
	for _, c := range calls {
		if !c.disturbing() {
			continue
		}
		select {
		case <-c.done:
			if c.wasCancelled() {
				for h, n := range c.expect {
					if gates[h] != c.trigger {
						aborts[h] += n
					}
				}
			}
		case <-time.After(30 * time.Second):
			stuck++
		}
	}
	// ... and the back end has seen their checks being given up.
	seen := waitUntil(concStepWait, func() bool {
		for h, n := range aborts {
			if gates[h].aborted.Load() < int64(n) {
				return false
			}
		}
		return true
	})
	// Late calls start now: the cancelled calls have just ended, the answers are still held.
	late := true
	for _, c := range calls {
		if c.spec.phase == 3 {
			sum(exp, c)
			launch(c)
			late = waitUntil(concStepWait, received(exp))
		}
	}
	// Now the back end answers.
	release := time.Now()
	for _, sd := range shared {
		if sd.gate != nil {
			sd.gate.open()
		}
	}
	unfinished := 0
	for _, c := range calls {
		select {
		case <-c.done:
		case <-ctx.Done():
			unfinished++
		}
	}
	stopTraffic()
	if unfinished > 0 {
		skip(fmt.Sprintf("%d call(s) had not returned when the watchdog expired", unfinished))
		return
	}

	// --- evidence of the schedule ------------------------------------------------------------
	yn := func(b bool) string {
		if b {
			return "yes"
		}
		return "no"
	}
	r.Count("conc.groups")
	r.Count("conc.groups." + cfg.name)
	r.Count("conc.order." + g.order)
	r.Count("conc.disturbance." + g.disturbance)
	r.Count("conc.schedule.phase-1-checks-all-in-flight-before-phase-2." + yn(phase1))
	r.Count("conc.schedule.phase-1-first-checks-in-flight-before-phase-2." + yn(established))
	r.Count("conc.schedule.all-checks-in-flight-before-clients-gave-up." + yn(phase2))
	r.Count("conc.schedule.backend-saw-the-given-up-checks-before-answering." + yn(seen))
	if len(calls) > 0 && calls[len(calls)-1].spec.phase == 3 {
		r.Count("conc.schedule.late-call-checks-in-flight-before-answering." + yn(late))
	}
	if stuck > 0 {
		r.CountN("conc.schedule.disturbing-call-still-running-30s-after-its-end-was-due", int64(stuck))
	}
	r.Distinct("conc|", cfg.name, "|", g.order, "|", g.disturbance, "|", len(calls), "|", g.traffic)
	var heldN, abortedN, answeredN int64
	for _, gt := range gates {
		heldN += gt.arrived.Load()
		abortedN += gt.aborted.Load()
		answeredN += gt.answered.Load()
	}
	r.CountN("conc.backend."+cfg.name+".checks-held", heldN)
	r.CountN("conc.backend."+cfg.name+".checks-given-up-by-caller-while-held", abortedN)
	r.CountN("conc.backend."+cfg.name+".checks-answered-after-release", answeredN)

	// The digests whose checks were in flight for a call that then went away.
	cancelledHashes := map[string]bool{}
	var summary []map[string]any
	for _, c := range calls {
		m := map[string]any{"role": c.spec.role, "phase": c.spec.phase}
		switch c.spec.role {
		case roleAC:
			m["api"], m["outcome"], m["action_result_outputs"], m["refers_to_a_digest_held_nowhere"] = c.spec.acAPI, c.outcome, c.acDigests, c.spec.acTrigger
			kindOf := "complete"
			if c.spec.acTrigger {
				kindOf = "incomplete"
			}
			out := c.outcome
			if len(out) > 5 && out[:5] == "error" {
				out = "error"
			}
			r.Count("conc.ac-lookup." + kindOf + "." + c.spec.acAPI + "." + out)
		default:
			m["api"], m["length"], m["kinds"] = c.spec.cs.api, c.spec.cs.n, truncate(c.spec.cs.layoutString(), 100)
			if c.spec.role == roleCancelled {
				m["client"] = c.spec.cancelMode
				if c.err != nil {
					m["outcome"] = c.err.Error()
					r.Count("conc.cancelled-call." + c.spec.cancelMode + "." + c.spec.cs.api + ".ended-with-" + errClass(c.err))
				} else {
					m["outcome"] = "answered"
					r.Count("conc.cancelled-call." + c.spec.cancelMode + "." + c.spec.cs.api + ".answered")
				}
			}
		}
		var hs []string
		for h := range c.expect {
			if gates[h] != c.trigger {
				hs = append(hs, h)
			}
		}
		sort.Strings(hs)
		m["held_digests_asked_for"] = hs
		summary = append(summary, m)
		if c.wasCancelled() {
			for _, h := range hs {
				cancelledHashes[h] = true
			}
		}
	}
	var sharedDesc []string
	for _, sd := range shared {
		held := ""
		if sd.gate != nil {
			held = fmt.Sprintf(" [answer held; checks received=%d given-up=%d answered=%d]", sd.gate.arrived.Load(), sd.gate.aborted.Load(), sd.gate.answered.Load())
		}
		sharedDesc = append(sharedDesc, fmt.Sprintf("%s/%d %s%s", sd.hash, sd.size, sd.spec.kind, held))
	}

	// --- judge -------------------------------------------------------------------------------
	for k, c := range calls {
		if c.spec.role == roleAC {
			continue
		}
		if c.spec.role == roleCancelled {
			// the client gave up on this call: whatever it would have been told, nobody reads it (a call that was
			// cancelled while its backend checks were in flight may complete "OK" with those digests unresolved)
			continue
		}
		// Which disturbing calls ended while this one was in flight, sharing a held digest?
		over, after := false, false
		tags := make([]string, len(c.cr.pos))
		for i := range c.cr.pos {
			rp := &c.cr.pos[i]
			if rp.shared > 0 && shared[rp.shared-1].gate != nil && cancelledHashes[rp.d.Hash] {
				tags[i] = "asked-for-by-concurrent-cancelled-call"
			}
		}
		for _, d := range calls {
			if d == c || !d.wasCancelled() {
				continue
			}
			for h := range d.expect {
				if gates[h] == d.trigger || c.expect[h] == 0 {
					continue
				}
				switch {
				case d.ended.After(c.started) && d.ended.Before(c.ended):
					over = true
				case !d.ended.After(c.started) && c.started.Before(release):
					after = true
				}
			}
		}
		extra := map[string]any{
			"concurrency_group": g.idx, "order": g.order, "disturbance": g.disturbance, "this_call": k, "role": c.spec.role,
			"calls_of_the_group": summary, "shared_digests": sharedDesc,
			"schedule": map[string]any{"phase_1_checks_in_flight_before_phase_2": phase1, "all_checks_in_flight_before_clients_gave_up": phase2,
				"backend_saw_given_up_checks_before_answering": seen},
			"a_cancelled_call_sharing_a_held_digest_ended_during_this_call":                                  over,
			"a_cancelled_call_sharing_a_held_digest_ended_just_before_this_call_with_the_answers_still_held": after && !over,
		}
		rep, judged := c.cr.judge(ctx, c.orig, c.resp, c.err, &judgeOpts{extra: extra, posTag: tags})
		if !judged {
			continue
		}
		r.Count("conc.calls-judged." + c.spec.role)
		if c.spec.role != roleJudged {
			continue
		}
		switch {
		case over && phase2:
			r.Count("conc.judged-call.overlapped-cancelled-call-on-shared-digest")
			r.Count("conc.judged-call.overlapped-cancelled-call-on-shared-digest." + cfg.name)
			r.Count("conc.judged-call.overlapped-cancelled-call-on-shared-digest.with-both-backend-checks-in-flight-when-it-was-cancelled")
		case over:
			r.Count("conc.judged-call.overlapped-cancelled-call-on-shared-digest")
			r.Count("conc.judged-call.overlapped-cancelled-call-on-shared-digest." + cfg.name)
		case after:
			r.Count("conc.judged-call.started-just-after-cancelled-call-on-shared-digest-ended")
			if late {
				r.Count("conc.judged-call.started-just-after-cancelled-call-on-shared-digest-ended.with-its-backend-checks-in-flight-before-the-answers")
			}
		default:
			r.Count("conc.judged-call.no-held-digest-in-common-with-a-cancelled-call")
		}
		if over {
			r.Count("conc.judged-call.overlapped." + g.order + "." + g.disturbance)
			for i := range c.cr.pos {
				if tags[i] == "" {
					continue
				}
				what := "reported-present"
				if rep[i] {
					what = "reported-missing"
				}
				r.Count("conc.pos.asked-for-by-concurrent-cancelled-call." + c.cr.pos[i].class + "." + what)
			}
		}
	}
}

func errClass(err error) string {
	if s, ok := status.FromError(err); ok {
		return "status-" + s.Code().String()
	}
	return "error"
}

// runConcSlice runs the groups of the concurrency slice and checks that the slice did run.
func (w *world) runConcSlice(n, workers int) {
	r := w.r
	ch := make(chan *concGroup)
	var wg sync.WaitGroup
	for i := 0; i < workers; i++ {
		wg.Add(1)
		go func() {
			defer wg.Done()
			for g := range ch {
				w.runConcGroup(g)
			}
		}()
	}
	for i := 0; i < n; i++ {
		ch <- genConcGroup(r.Seed, i, concCfgs, w.cfgs)
	}
	close(ch)
	wg.Wait()

	for _, ci := range concCfgs {
		c := w.cfgs[ci]
		if n >= len(concCfgs) && r.Counter("conc.judged-call.overlapped-cancelled-call-on-shared-digest."+c.name) == 0 {
			r.Inconclusive("concurrency slice: no judged call overlapped a cancelled one on a shared digest with " + c.name)
		}
	}
	if r.Counter("conc.judged-call.overlapped-cancelled-call-on-shared-digest.with-both-backend-checks-in-flight-when-it-was-cancelled") == 0 {
		r.Inconclusive("concurrency slice: in no group were the back-end checks of a judged and of a cancelled call in flight together")
	}
	for _, d := range concDisturbances[:2] {
		if r.Counter("conc.disturbance."+d)+r.Counter("conc.disturbance.both") == 0 {
			r.Inconclusive("concurrency slice: no group with the disturbance " + d)
		}
	}
}

package c10

import (
	"math/rand/v2"
	"time"
)

// kind is the generated class of one request position: which state the
// digest's blob is put into before the call, and how the requested size
// relates to the stored one. Expectations are NOT derived from the kind but
// from the modelled state (see expectation()).
type kind uint8

const (
	kLocal            kind = iota // stored locally only, exact size requested
	kLocalBig                     // stored locally only, larger than max_proxy_blob_size
	kBoth                         // stored locally and in the back end
	kBackend                      // back end only, size <= max_proxy_blob_size
	kBackendEdge                  // back end only, size == max_proxy_blob_size
	kAbsent                       // nowhere
	kLocalMis                     // stored locally, another size requested
	kBothMis                      // stored locally and in the back end, another size requested
	kBackendMis                   // back end only, another size requested
	kBackendOver                  // back end only, size > max_proxy_blob_size, exact size requested
	kBackendOverSmall             // back end only, size > max_proxy_blob_size, a size <= limit requested
	kEmpty                        // the empty blob's digest
	kEmptyWrong                   // hash of the empty blob with a non-zero size
	kFetched                      // back end only, then pulled into the local cache by a read
	kFetchedMis                   // same, then another size requested
	kDup                          // the digest of an earlier position again
	kAbsentFault                  // nowhere, and the back end answers the existence check with a fault
	kBackendFault                 // back end only, and the back end answers the existence check with a fault
	numKinds
)

var kindNames = [numKinds]string{"local", "local-big", "both", "backend", "backend-edge", "absent", "local-mis", "both-mis",
	"backend-mis", "backend-over", "backend-over-smallreq", "empty", "empty-wrong-size", "fetched", "fetched-mis", "dup",
	"absent-backend-fault", "backend-fault"}

// one letter per kind for compact layout strings in witnesses
var kindCodes = [numKinds]byte{'L', 'G', 'X', 'B', 'E', '-', 'l', 'x', 'b', 'O', 'o', '0', 'z', 'F', 'f', 'D', '!', '?'}

const kindCodeLegend = "L local, G local>limit, X both, B backend, E backend=limit, - absent, l local other size, x both other size, " +
	"b backend other size, O backend>limit, o backend>limit small request, 0 empty, z empty hash size>0, F fetched, f fetched other size, " +
	"D duplicate, ! absent + back end answers with a fault, ? backend + back end answers with a fault"

func (k kind) String() string { return kindNames[k] }

func (k kind) needsBackend() bool {
	switch k {
	case kBoth, kBackend, kBackendEdge, kBothMis, kBackendMis, kBackendOver, kBackendOverSmall, kFetched, kFetchedMis, kAbsentFault, kBackendFault:
		return true
	}
	return false
}

func (k kind) storable() bool {
	switch k {
	case kAbsent, kEmpty, kEmptyWrong, kDup, kAbsentFault:
		return false
	}
	return true
}

// Ways a back-end-only blob is pulled into the local cache.
const (
	fetchHTTPGet    = iota // HTTP GET /cas/<hash> on the front end: disk.Get with size -1
	fetchAPIUnknown        // disk.Cache.Get(..., size -1)
	fetchBSRead            // ByteStream.Read blobs/<hash>/<size>: size stated
	fetchAPIKnown          // disk.Cache.Get(..., size)
	numFetchVia
)

var fetchNames = [numFetchVia]string{"http-get(size-unknown)", "api-get(size-unknown)", "bytestream-read(size-known)", "api-get(size-known)"}

type posSpec struct {
	kind     kind
	fresh    bool // a blob made for this case (content embeds the case id); otherwise drawn from the config's pool
	size     int  // size of a fresh blob
	mis      int  // variant of "another size"
	dupOf    int
	fetchVia int
	del      bool          // remove from the back end after the fetch, when the back end allows it
	delay    time.Duration // latency of the back end's answer for a fresh back-end blob
	fault    int           // fault kinds: index into the back end's fault table
	faultLen bool          // fault kinds: an HTTP error answer states a Content-Length
	shared   int           // concurrency slice: 1 + index into the group's shared set (0 = not from it)
}

type caseSpec struct {
	idx      int
	slice    string // "main" | "fault" | "binary"
	faultSel int    // fault slice: the fault of this case's fault positions; -1 = drawn per position; -2 = no fault positions
	cfg      int
	api      string // "disk" (disk.Cache.FindMissingCasBlobs) | "grpc" (CAS.FindMissingBlobs)
	layout   string
	n        int
	lenClass string
	traffic  int    // goroutines uploading unrelated blobs during the call
	via      string // how they upload
	sharePtr bool   // disk api: duplicates are the same *pb.Digest
	pos      []posSpec
	seed     uint64
}

var fixedLens = []int{0, 1, 2, 19, 20, 21, 39, 40, 41, 100, 513, 700}

var layouts = []string{"iid", "iid", "iid", "tail-local", "tail-local", "head-backend", "head-backend", "all-local", "all-absent",
	"all-backend", "one-odd", "one-odd", "one-present", "alternate"}

// minBlob is the smallest stored blob: smaller contents cannot carry a unique stamp, and
// two positions with accidentally equal content would share one state.
const minBlob = 24

const batch = 20 // the documented internal batch size the workload is stratified around

type weights [numKinds]int

var weightsBackend = weights{kLocal: 22, kLocalBig: 3, kBoth: 6, kBackend: 16, kBackendEdge: 2, kAbsent: 18, kLocalMis: 7,
	kBothMis: 3, kBackendMis: 5, kBackendOver: 4, kBackendOverSmall: 2, kEmpty: 4, kEmptyWrong: 1, kFetched: 2, kFetchedMis: 3}
var weightsNone = weights{kLocal: 35, kLocalBig: 4, kAbsent: 30, kLocalMis: 15, kEmpty: 6, kEmptyWrong: 2}

var presentLocalKinds = []kind{kLocal, kLocal, kLocal, kLocalBig, kEmpty, kBoth}
var oddKinds = []kind{kAbsent, kAbsent, kBackend, kBackend, kLocalMis, kBackendMis, kBackendOver, kBothMis, kEmptyWrong, kFetchedMis}
var oddPresentKinds = []kind{kLocal, kLocal, kBackend, kBackend, kBoth, kEmpty, kBackendEdge, kLocalBig, kFetched}

func pickWeighted(rng *rand.Rand, w *weights) kind {
	total := 0
	for _, x := range w {
		total += x
	}
	v := rng.IntN(total)
	for k, x := range w {
		if v < x {
			return kind(k)
		}
		v -= x
	}
	return kAbsent
}

// withoutBackend maps a kind that needs a back end onto its closest
// counterpart for configurations that have none.
func withoutBackend(k kind) kind {
	switch k {
	case kBoth:
		return kLocal
	case kBothMis:
		return kLocalMis
	case kBackend, kBackendEdge, kBackendMis, kBackendOver, kBackendOverSmall, kFetched, kFetchedMis, kAbsentFault, kBackendFault:
		return kAbsent
	}
	return k
}

func pickSize(rng *rand.Rand, maxProxy int) int {
	switch v := rng.IntN(100); {
	case v < 70:
		return minBlob + rng.IntN(200)
	case v < 95:
		return 200 + rng.IntN(maxProxy-200)
	case v < 97:
		return minBlob
	default:
		return maxProxy
	}
}

func pickDelay(rng *rand.Rand) time.Duration {
	switch v := rng.IntN(10); {
	case v < 4:
		return 0
	case v < 8:
		return time.Duration(1+rng.IntN(5)) * time.Millisecond
	default:
		return time.Duration(10+rng.IntN(16)) * time.Millisecond
	}
}

func lenClassOf(n int) string {
	for _, f := range fixedLens {
		if n == f {
			return "=" + itoa(n)
		}
	}
	switch {
	case n < batch:
		return "3..18"
	case n < 2*batch:
		return "22..38"
	case n <= 120:
		return "42..120"
	default:
		return "121..1000"
	}
}

func itoa(n int) string {
	if n == 0 {
		return "0"
	}
	var b [20]byte
	i := len(b)
	for n > 0 {
		i--
		b[i] = byte('0' + n%10)
		n /= 10
	}
	return string(b[i:])
}

// Case indices of the slices (the index selects the case's PRNG stream).
const (
	faultSliceBase  = 1 << 24
	binarySliceBase = 2 << 24
)

var faultLayouts = []string{"iid", "iid", "iid", "tail-local", "all-absent", "one-odd", "one-present", "alternate"}

// genCase generates case idx of the main slice: a pure function of (seed, case
// index, configuration table).
func genCase(seed int64, idx int, cfgs []*config) *caseSpec {
	// Configuration: weighted round robin so every configuration gets its share in any tier.
	return genCaseFor(seed, idx, "main", cfgOrder[idx%len(cfgOrder)], idx/len(cfgOrder), -2, cfgs)
}

// genFaultCase generates case i of the fault slice: the real httpproxy /
// grpcproxy configurations in turn, each with every fault of its back end (and
// "mixed") in turn.
func genFaultCase(seed int64, i int, targets []int, cfgs []*config) *caseSpec {
	c := targets[i%len(targets)]
	round := i / len(targets)
	nf := len(cfgs[c].faultTable())
	sel := round % (nf + 1)
	if sel == nf {
		sel = -1
	}
	return genCaseFor(seed, faultSliceBase+i, "fault", c, round, sel, cfgs)
}

// genBinaryCase generates case i of the binary slice: the instances of the real
// executable in turn; every third case of an instance has fault positions.
func genBinaryCase(seed int64, i int, targets []int, cfgs []*config) *caseSpec {
	c := targets[i%len(targets)]
	round := i / len(targets)
	sel := -2
	if round%3 == 2 {
		nf := len(cfgs[c].faultTable())
		if sel = (round / 3) % (nf + 1); sel == nf {
			sel = -1
		}
	}
	return genCaseFor(seed, binarySliceBase+i, "binary", c, round, sel, cfgs)
}

// genCaseFor is a pure function of its arguments.
func genCaseFor(seed int64, idx int, slice string, cfgIdx, round, faultSel int, cfgs []*config) *caseSpec {
	rng := rand.New(rand.NewPCG(uint64(seed)*0x9E3779B97F4A7C15+0xC10, uint64(idx)))
	cs := &caseSpec{idx: idx, seed: rng.Uint64(), slice: slice, faultSel: faultSel}
	cs.cfg = cfgIdx
	cfg := cfgs[cs.cfg]
	withFaults := faultSel != -2 && len(cfg.faultTable()) > 0

	// Length: every second round takes the next fixed length (the cycle length 12 and the
	// configuration cycle are walked independently, so every pair occurs), the others are random.
	if round%2 == 0 {
		cs.n = fixedLens[(round/2+cs.cfg)%len(fixedLens)]
	} else {
		switch v := rng.IntN(20); {
		case v < 16:
			cs.n = 3 + rng.IntN(118)
		case v < 19:
			cs.n = 121 + rng.IntN(280)
		default:
			cs.n = 400 + rng.IntN(601)
		}
	}
	if withFaults && cs.n == 0 {
		cs.n = 1 // a case of the fault slice has at least one digest with a scripted fault
	}
	cs.lenClass = lenClassOf(cs.n)
	n := cs.n

	cs.api = "disk"
	if rng.IntN(2) == 0 {
		cs.api = "grpc"
	}
	if rng.IntN(2) == 0 {
		cs.traffic = 8
		cs.via = []string{"api", "http", "grpc"}[rng.IntN(3)]
	}
	cs.sharePtr = rng.IntN(2) == 0
	cs.layout = layouts[rng.IntN(len(layouts))]
	if withFaults {
		cs.layout = faultLayouts[rng.IntN(len(faultLayouts))]
	}
	if cfg.isBinary() {
		// Only the network interfaces of the executable exist.
		cs.api = "grpc"
		if cs.via == "api" {
			cs.via = "grpc"
		}
	}

	w := weightsBackend
	if !cfg.hasBackend() {
		w = weightsNone
	}
	// Per-case density: some requests mostly local, some mostly not.
	switch rng.IntN(4) {
	case 0:
		w[kLocal] *= 6
	case 1:
		w[kLocal] /= 4
		w[kAbsent] *= 2
	}
	if withFaults {
		w[kAbsent] *= 2
	}

	kinds := make([]kind, n)
	lastBatch := 0
	if n > 0 {
		lastBatch = (n - 1) / batch * batch
	}
	dupRate := 6
	switch cs.layout {
	case "iid":
		for p := range kinds {
			kinds[p] = pickWeighted(rng, &w)
		}
	case "tail-local":
		for p := range kinds {
			kinds[p] = pickWeighted(rng, &w)
		}
		for p := lastBatch; p < n; p++ {
			kinds[p] = pick(rng, presentLocalKinds)
		}
	case "head-backend":
		// a few back-end-only digests in the first batch(es), everything after found locally
		head := min(n, 1+rng.IntN(batch))
		if rng.IntN(3) == 0 {
			head = min(n, batch+rng.IntN(batch))
		}
		for p := range kinds {
			if p < head && (p == 0 || rng.IntN(3) > 0) {
				kinds[p] = kBackend
			} else {
				kinds[p] = pick(rng, presentLocalKinds)
			}
		}
		dupRate = 2
	case "all-local":
		for p := range kinds {
			kinds[p] = pick(rng, presentLocalKinds)
		}
	case "all-absent":
		for p := range kinds {
			kinds[p] = kAbsent
		}
		dupRate = 2
	case "all-backend":
		for p := range kinds {
			kinds[p] = kBackend
		}
		dupRate = 2
	case "one-odd", "one-present":
		base, odd := kLocal, pick(rng, oddKinds)
		if cs.layout == "one-present" {
			base, odd = kAbsent, pick(rng, oddPresentKinds)
			if rng.IntN(3) == 0 {
				base = kBackendMis
			}
		} else if rng.IntN(3) == 0 {
			base = kBackend
		}
		if withFaults && cs.layout == "one-odd" {
			odd = kAbsent // becomes the one digest the back end answers for with a fault
		}
		for p := range kinds {
			kinds[p] = base
		}
		if n > 0 {
			cands := []int{0, 1, 18, 19, 20, 21, 38, 39, 40, 41, n - 2, n - 1, lastBatch - 1, lastBatch, rng.IntN(n)}
			var ok []int
			for _, c := range cands {
				if c >= 0 && c < n {
					ok = append(ok, c)
				}
			}
			kinds[pick(rng, ok)] = odd
		}
		dupRate = 0
	case "alternate":
		a, b := pick(rng, oddPresentKinds), pick(rng, oddKinds)
		if withFaults {
			b = kAbsent
		}
		period := 1 + rng.IntN(3)
		for p := range kinds {
			if (p/period)%2 == 0 {
				kinds[p] = a
			} else {
				kinds[p] = b
			}
		}
		dupRate = 2
	}
	if withFaults {
		// Most absent digests (all of them in the one-odd layout) and some back-end-only
		// ones get a fault scripted for the back end's existence check.
		rate := 70
		if cs.layout == "one-odd" {
			rate = 100
		}
		for p := range kinds {
			switch {
			case kinds[p] == kAbsent && rng.IntN(100) < rate:
				kinds[p] = kAbsentFault
			case kinds[p] == kBackend && rng.IntN(100) < 20:
				kinds[p] = kBackendFault
			}
		}
		some := false
		for _, k := range kinds {
			some = some || k == kAbsentFault
		}
		if !some {
			// At least one absent digest with a fault (outside the all-local tail, if there is one).
			p := rng.IntN(n)
			if cs.layout == "tail-local" && lastBatch > 0 {
				p = rng.IntN(lastBatch)
			}
			kinds[p] = kAbsentFault
		}
	}
	if !cfg.hasBackend() {
		for p := range kinds {
			kinds[p] = withoutBackend(kinds[p])
		}
	}

	cs.pos = make([]posSpec, n)
	for p := range cs.pos {
		ps := &cs.pos[p]
		ps.kind = kinds[p]
		ps.mis = rng.IntN(5)
		ps.fetchVia = rng.IntN(numFetchVia)
		ps.del = rng.IntN(2) == 0
		ps.delay = pickDelay(rng)
		if withFaults {
			ps.fault = faultSel
			if faultSel < 0 {
				ps.fault = rng.IntN(len(cfg.faultTable()))
			}
			ps.faultLen = rng.IntN(2) == 0
		}
		switch ps.kind {
		case kLocalBig, kBackendOver, kBackendOverSmall:
			ps.size = cfg.maxProxy + 1 + rng.IntN(1500)
			if rng.IntN(4) == 0 {
				ps.size = cfg.maxProxy + 1
			}
		case kBackendEdge:
			ps.size = cfg.maxProxy
		default:
			ps.size = pickSize(rng, cfg.maxProxy)
		}
	}

	// Duplicates of earlier positions. In the tail-local layout the last batch must stay
	// "found locally", so duplicates there may only repeat such positions.
	if dupRate > 0 {
		for p := 1; p < n; p++ {
			if rng.IntN(100) >= dupRate {
				continue
			}
			t := rng.IntN(p)
			for cs.pos[t].kind == kDup {
				t = cs.pos[t].dupOf
			}
			if (cs.layout == "tail-local" && p >= lastBatch) || cs.layout == "head-backend" || cs.layout == "all-local" {
				ok := false
				for _, k := range presentLocalKinds {
					ok = ok || cs.pos[t].kind == k
				}
				if !ok && !(cs.layout == "head-backend" && cs.pos[t].kind == kBackend && cs.pos[p].kind == kBackend) {
					continue
				}
			}
			cs.pos[p].kind = kDup
			cs.pos[p].dupOf = t
		}
	}

	// Fresh blobs: a bounded number per case (the rest comes from the configuration's pool,
	// whose states never change). Fetched kinds change state, so they must be fresh; beyond
	// the budget they degrade to their not-fetched counterparts.
	budget := rng.IntN(13)
	order := rng.Perm(n)
	for _, p := range order {
		k := cs.pos[p].kind
		if k != kFetched && k != kFetchedMis && k != kBackendFault {
			continue
		}
		if budget > 0 {
			cs.pos[p].fresh = true
			budget--
		} else if k == kFetched || k == kBackendFault {
			cs.pos[p].kind = kBackend
		} else {
			cs.pos[p].kind = kBackendMis
		}
	}
	for _, p := range order {
		if budget == 0 {
			break
		}
		if cs.pos[p].kind.storable() && !cs.pos[p].fresh {
			cs.pos[p].fresh = true
			budget--
		}
	}
	return cs
}

func pick[T any](rng *rand.Rand, xs []T) T { return xs[rng.IntN(len(xs))] }

func (cs *caseSpec) layoutString() string {
	b := make([]byte, len(cs.pos))
	for i, p := range cs.pos {
		b[i] = kindCodes[p.kind]
	}
	return string(b)
}

package c10

import (
	"context"
	"sync"
	"sync/atomic"
	"time"

	pb "github.com/buchgr/bazel-remote/v2/genproto/build/bazel/remote/execution/v2"

	"google.golang.org/grpc"
	"google.golang.org/grpc/codes"
	"google.golang.org/grpc/status"
)

// fault is one way a back end misbehaves when it is asked whether it holds a
// digest (HTTP: the answer to HEAD; gRPC: the outcome of the FindMissingBlobs
// call the proxy makes). Oracle (from the statement): a digest the back end
// does NOT hold is absent whatever the back end answers, so it must be reported
// missing; for a digest the back end holds but answers for with a fault the
// statement does not say what "reported present by the backend" means, so such
// positions are not judged - except `truthful` faults (slow answers), after
// which the back end does say what it holds.
type fault struct {
	name     string
	status   int           // HTTP: status of the answer
	close    bool          // HTTP: the connection is closed without an answer
	code     codes.Code    // gRPC: status code of the call
	delay    time.Duration // the answer comes after this long
	truthful bool          // after the delay the back end answers what it holds
}

var httpFaults = []fault{
	{name: "head-500", status: 500},
	{name: "head-503", status: 503},
	{name: "head-401", status: 401},
	{name: "head-403", status: 403},
	{name: "head-400", status: 400},
	{name: "head-429", status: 429},
	{name: "head-502", status: 502},
	{name: "head-conn-close", close: true},
	{name: "head-slow", delay: 60 * time.Millisecond, truthful: true},
	{name: "head-slow-503", delay: 40 * time.Millisecond, status: 503},
}

var grpcFaults = []fault{
	{name: "grpc-unavailable", code: codes.Unavailable},
	{name: "grpc-internal", code: codes.Internal},
	{name: "grpc-unauthenticated", code: codes.Unauthenticated},
	{name: "grpc-permission-denied", code: codes.PermissionDenied},
	{name: "grpc-invalid-argument", code: codes.InvalidArgument},
	{name: "grpc-deadline-exceeded", code: codes.DeadlineExceeded},
	{name: "grpc-resource-exhausted", code: codes.ResourceExhausted},
	{name: "grpc-slow", delay: 60 * time.Millisecond, truthful: true},
	{name: "grpc-slow-unavailable", delay: 40 * time.Millisecond, code: codes.Unavailable},
}

// faultTable is the list of faults the configuration's back end can be made to
// show (nil: none).
func (c *config) faultTable() []fault {
	switch {
	case c.store != nil || c.backend == "http":
		return httpFaults
	case c.backend == "grpc":
		return grpcFaults
	}
	return nil
}

// scriptedFault is a fault installed for one digest.
type scriptedFault struct {
	f *fault
	// withLength: an HTTP error answer carries a Content-Length (an error page), as real
	// servers and gateways do.
	withLength bool
}

// faultSet makes the back end answer existence checks for hash with f.
func (c *config) faultSet(hash string, f *fault, withLength bool) {
	switch {
	case c.store != nil:
		c.store.setFault(c.storePath(hash), scriptedFault{f: f, withLength: withLength})
	case c.gfaults != nil:
		c.gfaults.set(hash, f)
	}
}

// faultHits is how often the back end actually answered with a scripted fault.
func (c *config) faultHits() int64 {
	switch {
	case c.store != nil:
		return c.store.faultHits.Load()
	case c.gfaults != nil:
		return c.gfaults.hits.Load()
	}
	return 0
}

// grpcFaultInjector is a client interceptor on the connection the real
// grpcproxy uses towards its back end: for digests with a scripted fault the
// proxy's FindMissingBlobs call ends with that status (after the delay), as it
// does when the back end or the network fails; all other calls pass through.
type grpcFaultInjector struct {
	mu   sync.RWMutex
	m    map[string]*fault
	hits atomic.Int64
	// gates: the proxy's existence check for a digest with an armed gate (gate.go) is held
	// until the harness releases it, or ends with the context's status if the caller goes first.
	gates *gateSet
}

const findMissingMethod = "/build.bazel.remote.execution.v2.ContentAddressableStorage/FindMissingBlobs"

func newGrpcFaultInjector() *grpcFaultInjector { return &grpcFaultInjector{m: map[string]*fault{}} }

func (g *grpcFaultInjector) set(hash string, f *fault) {
	g.mu.Lock()
	g.m[hash] = f
	g.mu.Unlock()
}

func (g *grpcFaultInjector) unary(ctx context.Context, method string, req, reply any, cc *grpc.ClientConn, invoker grpc.UnaryInvoker, opts ...grpc.CallOption) error {
	if method == findMissingMethod {
		if fr, ok := req.(*pb.FindMissingBlobsRequest); ok {
			for _, d := range fr.GetBlobDigests() {
				if !g.gates.wait(d.GetHash(), ctx.Done()) {
					return status.FromContextError(ctx.Err()).Err()
				}
			}
			var f *fault
			g.mu.RLock()
			for _, d := range fr.GetBlobDigests() {
				if x := g.m[d.GetHash()]; x != nil {
					f = x
					break
				}
			}
			g.mu.RUnlock()
			if f != nil {
				g.hits.Add(1)
				if f.delay > 0 {
					select {
					case <-time.After(f.delay):
					case <-ctx.Done():
						return status.FromContextError(ctx.Err()).Err()
					}
				}
				if !f.truthful {
					return status.Error(f.code, "injected back-end fault: "+f.name)
				}
			}
		}
	}
	return invoker(ctx, method, req, reply, cc, opts...)
}

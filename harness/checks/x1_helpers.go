package checks

import (
	"context"
	"errors"
	"io"
	"net/http"
	"strings"

	"verif/harness/lib"

	"google.golang.org/grpc/codes"
)

// Helpers shared by the C01 and C02 checks.

// x1IsWatchdog reports whether err is the expiry (or cancellation) of the harness's own
// watchdog context: such an outcome is never a verdict about the server.
func x1IsWatchdog(ctx context.Context, err error) bool {
	if ctx != nil && ctx.Err() != nil {
		return true
	}
	if err == nil {
		return false
	}
	if errors.Is(err, context.DeadlineExceeded) || errors.Is(err, context.Canceled) {
		return true
	}
	switch lib.Code(err) {
	case codes.DeadlineExceeded, codes.Canceled:
		return true
	}
	s := err.Error()
	return strings.Contains(s, "context deadline exceeded") || strings.Contains(s, "context canceled") || strings.Contains(s, "Client.Timeout")
}

// x1ProbeWatchdog reports whether one of the errors collected by lib.ProbeCAS is a watchdog expiry.
func x1ProbeWatchdog(errs []string) bool {
	for _, s := range errs {
		if strings.Contains(s, "DeadlineExceeded") || strings.Contains(s, "context deadline exceeded") || strings.Contains(s, "context canceled") || strings.Contains(s, "Client.Timeout") {
			return true
		}
	}
	return false
}

// x1NoLenReader hides the length of a body from net/http, so that the request is sent with
// Transfer-Encoding: chunked and without a Content-Length.
type x1NoLenReader struct{ r io.Reader }

func (n *x1NoLenReader) Read(p []byte) (int, error) { return n.r.Read(p) }

// x1HTTPPutChunked sends a PUT whose body has no Content-Length (chunked transfer encoding).
func x1HTTPPutChunked(s *lib.Server, path string, body []byte, hdr map[string]string) lib.HTTPResult {
	req, err := http.NewRequest("PUT", s.HTTPURL+path, &x1NoLenReader{r: strings.NewReader(string(body))})
	if err != nil {
		return lib.HTTPResult{Err: err}
	}
	req.ContentLength = -1
	for k, v := range hdr {
		req.Header.Set(k, v)
	}
	resp, err := s.HTTPClient.Do(req)
	if err != nil {
		return lib.HTTPResult{Err: err}
	}
	defer func() { _ = resp.Body.Close() }()
	b, berr := io.ReadAll(resp.Body)
	return lib.HTTPResult{Status: resp.StatusCode, Header: resp.Header, Body: b, BodyErr: berr}
}

// x1Instances are instance-name prefixes that a resource name / URL may carry (none of them contains a
// path segment that the resource-name grammar reserves).
var x1Instances = []string{"main", "ci/linux-x86_64", "a/b/c", "team_1"}

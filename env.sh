# Toolchain/environment for every build in /verif (offline).
export PATH=/root/go/pkg/mod/golang.org/toolchain@v0.0.1-go1.25.0.linux-amd64/bin:$PATH
export GOTOOLCHAIN=local GOFLAGS=-mod=mod GOPROXY=off GOSUMDB=off CGO_ENABLED=1

#!/bin/bash
# tools/round4.sh <X1> [<X2>...] — round-4 (area-based) changes: file the agent's output under the property it names, confirm it, run that property's check
for X in "$@"; do
  P=$(python3 -c "import json;print(json.load(open('/tmp/mut4/out/$X/meta.json'))['property'])")
  mkdir -p /tmp/mut4/out/$P; [ -d /tmp/mut4/out/$P/$X ] || cp -r /tmp/mut4/out/$X /tmp/mut4/out/$P/$X
  MUTROOT=/tmp/mut4 /verif/tools/round3.sh $P $X
done

#!/bin/bash
# tools/confirm_mutant.sh <Cxx> <A|B> — confirm a sub-agent's seeded change in a scratch worktree of /repo HEAD:
# (1) compiles, (2) existing suite passes with it, (3) demo fails with it, (4) demo passes without it.
# On success the change is kept as /verif/seeded/<Cxx>-<X>/ (patch.diff re-based onto HEAD, demo, meta.json).
MUTROOT=${MUTROOT:-/tmp/mut3}
ID=$1; X=$2; SRC=$MUTROOT/out/$ID/$X; [ -d $MUTROOT/out/$ID/${X}2 ] && SRC=$MUTROOT/out/$ID/${X}2
. /verif/env.sh
WT=$(mktemp -d /tmp/confirm-$ID-$X-XXXX); rmdir $WT
git -C /repo worktree add --detach $WT HEAD >/dev/null 2>&1 || { echo "$ID-$X worktree failed"; exit 2; }
cleanup() { git -C /repo worktree remove --force $WT >/dev/null 2>&1; rm -rf $WT; }
trap cleanup EXIT
cd $WT
git apply $SRC/patch.diff 2>/dev/null || python3 /verif/tools/applymut.py $SRC/patch.diff $WT || { echo "$ID-$X: PATCH DOES NOT APPLY"; exit 3; }
git diff > /tmp/confirm-$ID-$X.patch
go build ./... 2>&1 | tail -3 || { echo "$ID-$X: build failed"; exit 4; }
suite_ok=0
for try in 1 2 3; do
  if go test -vet=off -count=1 -timeout 25m ./... >/tmp/confirm-$ID-$X.suite 2>&1; then suite_ok=1; break; fi
done
COPYTO=$(python3 -c "import json;print(json.load(open('$SRC/meta.json'))['demo']['copy_to'])")
DEMOS=$(ls $SRC/*_test.go $SRC/*.go 2>/dev/null | sort -u)
for d in $DEMOS; do cp $d $WT/$COPYTO/zz_$(basename $d); done
RUNPAT=$(grep -ho 'func Test[A-Za-z0-9_]*' $DEMOS | sed 's/func //' | paste -sd'|')
go test -vet=off -count=1 -timeout 10m -run "^($RUNPAT)\$" ./$COPYTO/ >/tmp/confirm-$ID-$X.with 2>&1; with_rc=$?
git checkout -q -- . ; 
go test -vet=off -count=1 -timeout 10m -run "^($RUNPAT)\$" ./$COPYTO/ >/tmp/confirm-$ID-$X.without 2>&1; without_rc=$?
echo "$ID-$X suite_ok=$suite_ok demo_with_rc=$with_rc demo_without_rc=$without_rc"
if [ $suite_ok = 1 ] && [ $with_rc != 0 ] && [ $without_rc = 0 ]; then
  D=/verif/seeded/$ID-$X; mkdir -p $D
  cp /tmp/confirm-$ID-$X.patch $D/patch.diff
  for d in $DEMOS; do cp $d $D/; done
  python3 - "$SRC/meta.json" "$D/meta.json" "$ID" "$COPYTO" "$RUNPAT" <<'PY'
import json,sys
m=json.load(open(sys.argv[1]))
m['property']=sys.argv[3]
m['confirmed_by_me']={"worktree":"scratch worktree of /repo HEAD (hooks+fixes included), removed afterwards",
 "ran":["go build ./...","go test -vet=off -count=1 -timeout 25m ./...  (with change: pass)",
        f"go test -vet=off -count=1 -run '^({sys.argv[5]})$' ./{sys.argv[4]}/  (with change: FAIL; without: pass)"]}
json.dump(m,open(sys.argv[2],'w'),indent=1)
PY
  echo "$ID-$X KEPT"
else
  echo "$ID-$X NOT KEPT (see /tmp/confirm-$ID-$X.*)"
fi

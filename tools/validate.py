#!/opt/veriftools/pyvenv/bin/python
import json, jsonschema, glob, sys
m=json.load(open('/verif/MANIFEST.json')); jsonschema.validate(m,json.load(open('/root/.vp/MANIFEST.schema.json'))); print("manifest valid;", len(m['checks']), "checks")
es=json.load(open('/root/.vp/EVIDENCE.schema.json'))
for f in sorted(glob.glob('/verif/evidence/*.json')):
    e=json.load(open(f)); jsonschema.validate(e,es); print(f, "valid", e['tier'], "viol", e.get('violations'))

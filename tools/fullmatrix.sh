#!/bin/bash
# tools/fullmatrix.sh [parallelism] — run every seeded change against its own property's quick check (tools/mutmatrix.sh), then regenerate seeded/RESULTS.md
P=${1:-5}
cd /verif; tools/stable.sh >/dev/null
mkdir -p /tmp/mmlogs/full
ls seeded | grep -E '^C[0-9]+-' | xargs -P $P -I{} sh -c 'tools/mutmatrix.sh {} > /tmp/mmlogs/full/{}.log 2>&1'
python3 tools/seeded_results.py

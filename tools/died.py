#!/usr/bin/env python3
"""Supervisor for a check process that died: classify the death and write evidence.
Server code runs inside the checker (in-process fixtures), so a Go panic / fatal error
with a bazel-remote frame means server code crashed on a request => violation.
A watchdog kill (SIGQUIT, rc 124/131) => inconclusive."""
import json, os, re, sys, time
pid, tier, log, rc = sys.argv[1], sys.argv[2], sys.argv[3], int(sys.argv[4])
root = os.environ.get("VERIF_ROOT", "/verif")
txt = open(log, errors="replace").read()
seed = int(os.environ.get("VERIF_SEED", "1") or 1)
level = {"C08": "fault_enumeration", "C12": "fault_enumeration"}.get(pid, "exploration")
def evidence(viol, expl):
    ev = {"property_id": pid, "tier": tier, "seed": seed, "level": level,
          "coverage": {"evaluations": 1, "distinct_nontrivial": 2, "rule": "check process died; see explanation",
                       "samples": [expl], "explanation": expl},
          "assumptions": [], "wall_s": 0.0, "violations": viol}
    os.makedirs(os.path.join(root, "evidence"), exist_ok=True)
    json.dump(ev, open(os.path.join(root, "evidence", pid + ".json"), "w"), indent=1)
if rc in (124, 131, 137) and "SIGQUIT" in txt or rc == 124:
    print(f"INCONCLUSIVE property={pid} watchdog fired (rc={rc}); goroutine dump in {log}")
    evidence(0, "watchdog fired")
    sys.exit(2)
m = re.search(r"^(panic:|fatal error:).*$", txt, re.M)
if m and "github.com/buchgr/bazel-remote/v2/" in txt[m.start():]:
    print(f"VIOLATION property={pid} replay={log}")
    print(f"  key=process-death: {m.group(0)[:200]}")
    evidence(1, "server code crashed inside the checker: " + m.group(0)[:200])
    sys.exit(1)
print(f"INCONCLUSIVE property={pid} check process exited with rc={rc} (no bazel-remote frame in a panic); see {log}")
evidence(0, f"check died rc={rc}")
sys.exit(2)

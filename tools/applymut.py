#!/usr/bin/env python3
"""Apply a unified diff to /repo tolerant of context drift (hooks/fix commits shift and add lines):
each hunk's (context+removed) block is located by exact text, shrinking context until unique."""
import re, sys
def parse(diff):
    files, cur, hunk = [], None, None
    for line in diff.splitlines():
        if line.startswith('diff --git'):
            cur = {'path': None, 'hunks': []}; files.append(cur); hunk = None
        elif line.startswith('+++ ') and cur is not None:
            cur['path'] = line[4:].strip().removeprefix('b/')
        elif line.startswith('--- '):
            pass
        elif line.startswith('@@') and cur is not None:
            hunk = []; cur['hunks'].append(hunk)
        elif hunk is not None and (line[:1] in ' +-' or line == ''):
            hunk.append(line if line else ' ')
    return files
def apply_hunk(text, hunk):
    lines = [(l[0], l[1:]) for l in hunk if not l.startswith('\\')]
    # indices of first/last changed line
    ch = [i for i, (t, _) in enumerate(lines) if t != ' ']
    if not ch: return text
    lo, hi = ch[0], ch[-1]
    for ctx in range(max(lo, len(lines) - 1 - hi), -1, -1):
        a, b = max(0, lo - ctx), min(len(lines), hi + 1 + ctx)
        old = ''.join(s + '\n' for t, s in lines[a:b] if t in ' -')
        new = ''.join(s + '\n' for t, s in lines[a:b] if t in ' +')
        if old and text.count(old) == 1:
            return text.replace(old, new)
    raise SystemExit("hunk does not apply uniquely:\n" + '\n'.join(hunk[:12]))
def main():
    diff = open(sys.argv[1]).read(); root = sys.argv[2] if len(sys.argv) > 2 else '/repo'
    for f in parse(diff):
        p = root + '/' + f['path']
        try: text = open(p).read()
        except FileNotFoundError: text = ''
        for h in f['hunks']: text = apply_hunk(text, h)
        open(p, 'w').write(text)
main()

#!/bin/bash
# tools/round3.sh <Cxx> [letters...] — confirm a sub-agent's changes (default E F) and, when kept, run the property's quick check against them (development aid)
ID=$1; shift; L=${@:-E F}
mkdir -p /tmp/mmlogs
for X in $L; do
  if [ ! -f /verif/seeded/$ID-$X/patch.diff ]; then
    /verif/tools/confirm_mutant.sh $ID $X > /tmp/mmlogs/confirm-$ID-$X.log 2>&1
  fi
  tail -n 2 /tmp/mmlogs/confirm-$ID-$X.log 2>/dev/null
  [ -f /verif/seeded/$ID-$X/patch.diff ] && /verif/tools/mutmatrix.sh $ID-$X > /tmp/mmlogs/$ID-$X.log 2>&1
  grep -h RESULT /tmp/mmlogs/$ID-$X.log
done

#!/bin/bash
# tools/stable.sh — (re)point the stable harness snapshot /tmp/verif-stable at /verif's HEAD (development aid)
[ -d /tmp/verif-stable ] || git -C /verif worktree add --detach /tmp/verif-stable HEAD >/dev/null 2>&1
git -C /tmp/verif-stable checkout -q --detach $(git -C /verif rev-parse HEAD) && git -C /tmp/verif-stable log --oneline | head -1

#!/bin/bash
# tools/mutmatrix.sh <Cxx-X> [check ids...] — run quick checks against one seeded change WITHOUT touching /repo:
# scratch worktree of /repo HEAD + the patch, harness built with -modfile pointing at it. (development aid; the
# registered procedure — git -C /repo apply; ./run.sh; git checkout — is tools/mutcheck.sh)
M=$1; shift
PROP=${M%%-*}
CHECKS=${@:-$PROP}
. /verif/env.sh
H=${HARNESS:-$([ -d /tmp/verif-stable/harness ] && echo /tmp/verif-stable/harness || echo /verif/harness)}   # HARNESS=/tmp/verif-stable/harness: build from a stable snapshot while /verif/harness is being edited
S=/tmp/mm-$M; rm -rf $S; mkdir -p $S/root $S/bin
git -C /repo worktree add --detach $S/repo HEAD >/dev/null 2>&1 || { echo "$M worktree failed"; exit 2; }
trap 'git -C /repo worktree remove --force $S/repo >/dev/null 2>&1; rm -rf $S' EXIT
( cd $S/repo && (git apply /verif/seeded/$M/patch.diff 2>/dev/null || python3 /verif/tools/applymut.py /verif/seeded/$M/patch.diff $S/repo) ) || { echo "$M: PATCH DOES NOT APPLY"; exit 3; }
sed "s#=> /repo#=> $S/repo#" $H/go.mod > $S/go.mod; cp $H/go.sum $S/go.sum
( cd $H && go build -modfile=$S/go.mod -tags verif -o $S/bin/check ./cmd/check ) || { echo "$M: harness build failed"; exit 4; }
cp /verif/known_findings.json $S/root/
NEEDBIN=0; NEEDRACE=0
for c in $CHECKS; do case $c in C08|C10|C13|C14|C15|C18|C19) NEEDBIN=1;; C07) NEEDRACE=1;; esac; done
[ $NEEDBIN = 1 ] && ( cd $S/repo && go build -tags verif -o $S/bin/bazel-remote . )
[ $NEEDRACE = 1 ] && ( cd $H && go build -race -modfile=$S/go.mod -tags verif -o $S/bin/check-race ./cmd/check ) && ( cd $S/repo && go build -race -tags verif -o $S/bin/bazel-remote-race . )
for c in $CHECKS; do
  out=$(VERIF_ROOT=$S/root VERIF_BIN=$S/bin VERIF_SEED=${VERIF_SEED:-1} timeout 3000 $S/bin/check $c quick 2>&1); rc=$?
  [ -n "$MM_FULL" ] && echo "$out" | grep -E "^(INCONCLUSIVE|VIOLATION|SUMMARY)" | head -20
  keys=$(echo "$out" | grep -E "^  key=" | sort | uniq -c | sort -rn | head -3 | sed 's/^ *//' | tr '\n' ';')
  echo "RESULT $M vs $c: rc=$rc $keys" | tee -a /verif/seeded/matrix_runs.txt
done

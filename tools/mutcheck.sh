#!/bin/bash
# tools/mutcheck.sh <patch.diff> <ID> [<ID>...] — apply a seeded change to /repo, run quick checks, undo. (development aid)
P="$1"; shift
cd /verif
if ! git -C /repo diff --quiet; then echo "repo dirty"; exit 9; fi
git -C /repo apply "$P" 2>/dev/null || python3 /verif/tools/applymut.py "$P" /repo || { echo "PATCH DOES NOT APPLY: $P"; git -C /repo reset -q --hard HEAD; git -C /repo clean -fdq; exit 8; }
for id in "$@"; do
  out=$(VERIF_SEED=${VERIF_SEED:-1} ./run.sh $id ${TIER:-quick} 2>&1); rc=$?
  echo "== $P vs $id: rc=$rc"; echo "$out" | grep -E "^(VIOLATION|  key=|INCONCLUSIVE|KNOWN)" | head -6
done
git -C /repo reset -q --hard HEAD; git -C /repo clean -fdq; git -C /repo status --short | head -3
# rebuild the harness against the restored tree so that bin/check is never left linked with a seeded change
( . /verif/env.sh; cd /verif/harness && go build -tags verif -o /verif/bin/check ./cmd/check )

#!/usr/bin/env python3
"""Second pass of a thorough run under the race detector (M-race for checks other than C07):
parses GORACE logs of `bin/check-race <ID> <tier>`, deduplicates reports by access-site pair, and
merges the result into evidence/<ID>.json. A report with a bazel-remote frame is a violation."""
import glob, json, os, re, sys
pid, tier, raceroot, child_rc, child_log = sys.argv[1], sys.argv[2], sys.argv[3], int(sys.argv[4]), sys.argv[5]
root = os.environ.get("VERIF_ROOT", "/verif")
blocks = []
for f in glob.glob(os.path.join(raceroot, "race.*")):
    for blk in open(f, errors="replace").read().split("=================="):
        if "WARNING: DATA RACE" in blk:
            blocks.append(blk)
seen, viol, foreign, harness_only = {}, [], [], []
for blk in blocks:
    lines = blk.split("\n")
    tops = []
    for i, l in enumerate(lines):
        t = l.strip()
        if re.match(r"^(Previous )?(read|write|atomic read|atomic write) at|^(Read|Write|Atomic)", t) and i + 1 < len(lines):
            tops.append(lines[i + 1].strip().rsplit("(", 1)[0])
    sig = " <-> ".join(sorted(tops))
    if sig in seen:
        continue
    seen[sig] = blk
    if tops and all(t.startswith("verif/harness/") for t in tops):
        harness_only.append(sig)
    elif "github.com/buchgr/bazel-remote/v2/" in blk:
        viol.append(sig)
    else:
        foreign.append(sig)
child_out = open(child_log, errors="replace").read() if os.path.exists(child_log) else ""
child_viol = [l for l in child_out.splitlines() if l.startswith("VIOLATION")]
ev_path = os.path.join(root, "evidence", pid + ".json")
ev = json.load(open(ev_path))
ev["coverage"]["race_pass"] = {"binary": "bin/check-race", "tier_run": tier, "report_blocks": len(blocks), "distinct_signatures": len(seen),
                               "with_bazel_remote_frame": viol, "foreign": foreign, "harness_only": harness_only,
                               "child_exit": child_rc, "child_oracle_violations": len(child_viol),
                               "child_summary": [l for l in child_out.splitlines() if l.startswith("SUMMARY")][:1]}
rc = 0
os.makedirs(os.path.join(root, "replays"), exist_ok=True)
for i, sig in enumerate(viol):
    p = os.path.join(root, "replays", f"{pid}-race-{i+1}.txt")
    open(p, "w").write(seen[sig])
    print(f"VIOLATION property={pid} replay={p}\n  key={pid}:data-race:{sig}")
    rc = 1
for l in child_viol:
    print(l + "   (under the race detector)")
    rc = 1
if child_rc not in (0, 1, 2):
    p = os.path.join(root, "replays", f"{pid}-race-child.log")
    open(p, "w").write(child_out[-20000:])
    if re.search(r"^(panic:|fatal error:)", child_out, re.M) and "github.com/buchgr/bazel-remote/v2/" in child_out:
        print(f"VIOLATION property={pid} replay={p}\n  key={pid}:race-pass:process-death")
        rc = 1
    else:
        print(f"INCONCLUSIVE property={pid} race pass exited with {child_rc}; see {p}")
        rc = rc or 2
if harness_only:
    print(f"INCONCLUSIVE property={pid} data race inside the harness: {harness_only[:2]}")
    rc = rc or 2
ev["violations"] = ev.get("violations", 0) + len(viol) + len(child_viol)
json.dump(ev, open(ev_path, "w"), indent=1)
print(f"RACEPASS property={pid} reports={len(blocks)} distinct={len(seen)} bazel-remote={len(viol)} foreign={len(foreign)}")
sys.exit(rc)

#!/usr/bin/env python3
"""Regenerates /verif/seeded/RESULTS.md from seeded/matrix_runs.txt (lines 'RESULT <change> vs <check>: rc=<n> <keys>' appended by
tools/mutmatrix.sh runs; for one (change, check) pair the LAST line wins) and updates each meta.json."""
import re, json, os
root = '/verif/seeded'
res = {}
for l in open(os.path.join(root, 'matrix_runs.txt')):
    m = re.match(r'RESULT (\S+) vs (C\d+): rc=(\d+) ?(.*)', l)
    if m:
        res.setdefault(m.group(1), {})[m.group(2)] = (int(m.group(3)), m.group(4).strip())
notes = {
 'C05-C': "outside C05's quantifier (sequential histories of puts and lookups on one running instance; lookups that do not read the file leave no trace a restart could use): the same change is C09-C and is **caught by C09** (`C09:startup:lru-order-not-by-atime`, `C09:uploads:later-eviction-not-in-atime-order`)",
 'C03-B': "caught before fix a7a8355 (`C03:sequential:reserved-never-released`); on the repaired tree the change no longer breaks the property (the handler now closes the pipe reader on return, so the orphaned Put fails and releases its reservation; the sub-agent's demonstration passes with the change applied)",
}
rows = []
for d in sorted(os.listdir(root)):
    mp = os.path.join(root, d, 'meta.json')
    if not os.path.exists(mp): continue
    meta = json.load(open(mp)); prop = d.split('-')[0]
    parts = []
    for chk, (rc, keys) in sorted(res.get(d, {}).items(), key=lambda kv: (kv[0] != prop, kv[0])):
        ks = '; '.join(k.split('key=')[1] for k in keys.split(';') if 'key=' in k)[:240]
        if rc == 1: parts.append(f"**caught by {chk}**: {ks}")
        elif rc == 2 and ks: parts.append(f"**caught by {chk}** (oracle keys {ks}; in-process server code also panicked)")
        elif rc == 2: parts.append(f"**caught by {chk}**: in-process server code panics and kills the check process (run.sh/tools/died.py → VIOLATION key=process-death)")
        elif rc == 0: parts.append(f"missed by {chk}")
        else: parts.append(f"{chk}: rc={rc}")
    verdict = notes.get(d) or ('; '.join(parts) if parts else 'not run yet')
    meta['checked_with'] = {"how": f"tools/mutmatrix.sh {d} [checks] — scratch worktree of /repo HEAD + patch, harness built with -modfile against it, quick tier, VERIF_SEED=1; in-place procedure: tools/mutcheck.sh seeded/{d}/patch.diff {prop}", "result": verdict}
    json.dump(meta, open(mp, 'w'), indent=1)
    origin = 'check author' if '-own' in d else ('sub-agent, round 3' if d[-1] in 'EF' else 'sub-agent, round 2' if d[-1] in 'CD' else 'sub-agent, round 1')
    rows.append((d, origin, (meta.get('title') or '').replace('|', '/'), verdict.replace('|', '/')))
with open(os.path.join(root, 'RESULTS.md'), 'w') as f:
    f.write("# Seeded changes and which check catches them\n\nRound 1 (`-A`, `-B`) and round 2 (`-C`, `-D`) were written by independent sub-agents from the property text only (rounds 2 and 3 were told the titles of the earlier rounds and asked for other mechanisms; round 3 = `-E`, `-F`); `-ownN` were written by the check author. Every sub-agent change was confirmed in a scratch worktree (`tools/confirm_mutant.sh`): compiles, existing suite passes with it, demonstration fails with it and passes without it. Results: quick tier, seed 1 (`tools/mutmatrix.sh`; raw lines in `matrix_runs.txt`).\n\n| change | origin | what it is | result |\n|---|---|---|---|\n")
    for r in rows: f.write(f"| {r[0]} | {r[1]} | {r[2]} | {r[3]} |\n")
caught = sum(1 for r in rows if 'caught' in r[3]); print(len(rows), 'changes,', caught, 'caught by at least one check')
print([r[0] for r in rows if 'caught' not in r[3]])

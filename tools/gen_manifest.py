#!/usr/bin/env python3
"""Regenerates /verif/MANIFEST.json from the table below. A property is claimed only once its check exists
in harness/checks (CLAIMED); all others are listed under not_applicable with the reason."""
import json, os, subprocess
ROOT = os.path.dirname(os.path.dirname(os.path.abspath(__file__)))
P = {
 "C01": ("exploration", "client-boundary oracle over generated uploads: ten write paths x storage x zstd impl x corruption kinds; ack iff bytes match digest; three-path presence probe", "runtime monitoring: reference-model oracle at the client boundary over generated hostile inputs"),
 "C02": ("exploration", "byte-exact comparison of every read path/offset/limit against harness-held content, zstd answers decoded by two independent decoders, writer x reader storage matrix", "runtime monitoring: differential read oracle with two independent zstd decoders"),
 "C03": ("exploration", "M-acct invariant on hooked index snapshots after every step of sequential histories (incl. restarts under the other storage mode / max_size, backend fetches, file-write failures injected via RLIMIT_FSIZE) and from a sampler during concurrent ones, forced schedules, plus Stats()/status agreement and reserved==0 at quiescence", "runtime monitoring: invariant assertion on hooked state (index snapshot) under random and concurrent histories"),
 "C04": ("exploration", "M-dir: recursive directory listing == index entries (file names derived by the harness from the naming grammar and each entry's own format flag, sizes, independent cas.v2 parse, content hash; every listed entry found by an existence check) at every quiescent point of the C03 histories and after the forced schedules", "runtime monitoring: structural invariant (directory == index) at quiescent points"),
 "C05": ("exploration", "independent recency model + eviction oracle (prefix, necessity, fit, oversize) over sequential histories of uploads, backend fetches and lookups (disk API and HTTP/gRPC front ends) on tiny caches incl. max_size values off the block grid, eviction order cross-checked with the lru.removed hook events", "runtime monitoring: reference LRU model compared against observed evictions"),
 "C06": ("exploration", "harness-computed referenced-blob set of generated ActionResults vs hit/miss answers on gRPC, HTTP GET and HEAD for all presence subsets; recency effect checked with the LRU model", "runtime monitoring: reference-model oracle over generated ActionResults and presence subsets"),
 "C07": ("exploration", "Go race detector over hostile concurrent workloads (check process linking the packages, and the real executable built with -race) + self-describing values + per-key linearizability (porcupine) + M-acct/M-dir at quiescence + schedule forcing through tag-guarded yield points", "race detector + porcupine linearizability checking of recorded histories + hooked invariants"),
 "C08": ("fault_enumeration", "crash images (timestamps preserved) taken at every reader callback / hook point of uploads, overwrites, fetches and evictions, restarted with the real loader and read back through disk API and front ends (every restarted entry, repeat-first orders, just-acknowledged durability); plus real SIGKILLs of child servers incl. hook kills and restarts of the real binary", "fault injection (crash images at enumerated points, real SIGKILL) with restart oracle"),
 "C09": ("exploration", "generated directory populations (layouts, modes, duplicates, atimes) restarted at several max_size values; survivors/evictions compared with an atime-order oracle and M-acct/M-dir", "runtime monitoring: restart oracle over generated directories"),
 "C10": ("exploration", "expected missing list computed from the harness's own partition of digests (local/backend/absent/mismatched/empty/duplicates), all batch-boundary lengths, with and without backends (fake, real http/grpc proxies, real binary configured by flags/env/YAML), backend fault answers, overlapping concurrent calls of which some are cancelled", "runtime monitoring: reference-model comparison of FindMissingBlobs answers"),
 "C11": ("exploration", "well-formedness predicate and normalised proto equality over generically populated ActionResults across gRPC/HTTP proto/JSON/zstd encodings; reference map of latest accepted upload", "runtime monitoring: reference-model oracle over generated messages"),
 "C12": ("fault_enumeration", "fault plans enumerated over stage x fault x operation x backend (http, grpc, s3, azure transport, fake) x storage; outcome must be miss/error/exact hit; re-read after fault; leak/reservation/dir oracles incl. every abandoned-read class in the N-vs-2N measurement; write sequences to one mutable key while the first transfer is parked (handed once, peer reads latest)", "fault injection in harness back ends with client-boundary + leak oracles"),
 "C13": ("exploration", "exhaustive probe matrix against the real binary: auth mode x allow_unauthenticated_reads x metrics x every HTTP method/path and every registered gRPC method x credential state, credential lifecycle (htpasswd rewritten while serving, login sequences), foreign CA in the host trust store", "runtime monitoring: exhaustive black-box probe matrix against the real binary"),
 "C14": ("exploration", "structure-aware request fuzzing of every endpoint of child servers with liveness, handler-panic, hang (persistent goroutine) and leak (goroutine/fd/reservation/file) oracles", "generative fuzzing with crash/hang/leak monitors on child processes"),
 "C15": ("exploration", "reference map (namespace,key,instance)->value vs both front ends under random cross-namespace operation orders, mangling and validation on/off", "runtime monitoring: reference-map oracle"),
 "C16": ("exploration", "statement-derived classification of generated ByteStream.Write message sequences and resource names vs status/committed_size/presence/QueryWriteStatus", "runtime monitoring: protocol oracle over generated message sequences"),
 "C17": ("exploration", "background remover gated by hook so the deletion backlog is harness-controlled; admission predicate computed in the statement's units vs observed status; retry after drain", "runtime monitoring with a controlled fault (delayed remover) and admission oracle"),
 "C18": ("exploration", "limit x size(limit-1,limit,limit+1,4x) x every write path (identity and zstd) and every backend-read path; capability value; half against the real binary", "runtime monitoring: boundary-value oracle on every ingress"),
 "C19": ("exploration", "README-transcribed flag/env/YAML table; same explicit settings rendered three ways must give equal effective configs; invalid classes refused by both front ends and by the real binary", "runtime monitoring: differential oracle across configuration front ends"),
 "C20": ("exploration", "independent cas.v2 codec: harness-written directories read by the build, build-written files parsed by the codec; backend object names vs pinned injective naming functions; goldens", "runtime monitoring: differential oracle against an independent codec + goldens"),
}
NOTES = {
 "C03": "trusts the tag-guarded VerifSnapshot (copies index under the cache mutex) and Go's scheduler for interleaving diversity",
 "C04": "trusts the directory walk at quiescence; quiescence is harness-determined (no open operation, backlog drained)",
}
claimed = [l.strip() for l in open(os.path.join(ROOT, "CLAIMED")).read().split() if l.strip()]
hooks_commits = [l.split()[0] for l in subprocess.run(["git", "-C", "/repo", "log", "--format=%h %s"], capture_output=True, text=True).stdout.splitlines() if "verif hooks" in l]
checks, na = [], []
for pid in sorted(P):
    lvl, text, tech = P[pid]
    if pid in claimed:
        checks.append({
            "property_id": pid,
            "quick_cmd": f"./run.sh {pid} quick",
            "thorough_cmd": f"./run.sh {pid} thorough",
            "evidence_file": f"/verif/evidence/{pid}.json",
            "replay_cmd_template": f"VERIF_SEED=<seed from {{path}}> ./run.sh {pid} quick   # replay file {{path}} holds the witness (history/input) and the exact command",
            "engine": "harness",
            "level_claimed": {"category": lvl, "text": text + ". Held-on-what-was-observed only: reach comes from workload diversity, boundary stratification and injected delays/faults, not enumeration.", "design_ref": f"DESIGN.md §3 {pid}"},
            "level_note": NOTES.get(pid, "trusts the harness's own oracle code (independent of the code under test), the Go toolchain, and loopback TCP; in-process fixtures link the real packages from /repo's working tree with -tags verif"),
            "technique": tech,
        })
    else:
        na.append({"property_id": pid, "reason": "check not built yet in this round (runtime-monitoring design exists in DESIGN.md §3; not claimed until the check is implemented and validated)"})
m = {
 "version": 1,
 "setup_cmd": "./setup.sh",
 "hooks": {"guard": "verif", "enable": "go build -tags verif (run.sh builds harness and /repo with -tags verif)", "baseline_off_cmd": "cd /repo && . /verif/env.sh && go build ./... && go test -json -vet=off -count=1 -timeout 25m ./...", "source_commits": hooks_commits, "add_only": True},
 "engines": [{"name": "harness", "path": "/verif/harness", "serves_properties": claimed, "kind_free_text": "Go harness linking the real bazel-remote packages (tag verif): workload generators, fault-injecting back ends, monitors (M-acct, M-dir, M-lru, M-lin/porcupine, M-leak), race-detector driver"}],
 "checks": checks,
 "not_applicable": na,
 "notes": "Entry point ./run.sh <ID> <quick|thorough>; exit 0 held / 1 VIOLATION / 2 inconclusive. known_findings.json lists genuine defects (known/fixed). See DESIGN.md.",
}
json.dump(m, open(os.path.join(ROOT, "MANIFEST.json"), "w"), indent=1)
print("claimed:", claimed, "not_applicable:", [x["property_id"] for x in na])

#!/bin/bash
# tools/sweep.sh <tier> <seeds...> — run every claimed check at the given seeds; prints one line per run. Evidence goes to a scratch root.
TIER=$1; shift
cd /verif; . ./env.sh
( cd harness && go build -tags verif -o /verif/bin/check ./cmd/check && go build -race -tags verif -o /verif/bin/check-race ./cmd/check ) && ( cd /repo && go build -tags verif -o /verif/bin/bazel-remote . ) || exit 9
for seed in "$@"; do for c in $(cat CLAIMED); do
  R=$(mktemp -d /tmp/sweep-XXXXXX); cp known_findings.json $R/
  s=$(date +%s); out=$(VERIF_ROOT=$R VERIF_BIN=/verif/bin VERIF_SEED=$seed timeout 7200 ./bin/check $c $TIER 2>&1); rc=$?; e=$(date +%s)
  echo "SWEEP $c seed=$seed tier=$TIER rc=$rc wall=$((e-s))s $(echo "$out" | grep -E '^(  key=|INCONCLUSIVE)' | sort | uniq -c | head -3 | tr '\n' ';')"
  [ $rc != 0 ] && { mkdir -p /tmp/sweepfail; echo "$out" | tail -50 > /tmp/sweepfail/$c-$seed.log; cp -r $R/replays /tmp/sweepfail/$c-$seed-replays 2>/dev/null; }
  rm -rf $R
done; done

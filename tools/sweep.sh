#!/bin/bash
# tools/sweep.sh <tier> <seeds...> — run every claimed check (or $CHECKS) at the given seeds; one line per run.
# Works from any checkout of /verif (e.g. a `vp run` snapshot): binaries and evidence go to scratch dirs, never to /verif.
TIER=$1; shift
ROOT="$(cd "$(dirname "${BASH_SOURCE[0]}")/.." && pwd)"
cd "$ROOT"; . ./env.sh
B=$(mktemp -d /tmp/sweepbin-XXXXXX)
( cd harness && go build -tags verif -o $B/check ./cmd/check && go build -race -tags verif -o $B/check-race ./cmd/check ) && ( cd /repo && go build -tags verif -o $B/bazel-remote . && go build -race -tags verif -o $B/bazel-remote-race . ) || exit 9
for seed in "$@"; do for c in ${CHECKS:-$(cat CLAIMED)}; do
  R=$(mktemp -d /tmp/sweep-XXXXXX); cp known_findings.json $R/
  s=$(date +%s); out=$(VERIF_ROOT=$R VERIF_BIN=$B VERIF_SEED=$seed timeout 7200 $B/check $c $TIER 2>&1); rc=$?; e=$(date +%s)
  echo "SWEEP $c seed=$seed tier=$TIER rc=$rc wall=$((e-s))s $(echo "$out" | grep -E '^(  key=|INCONCLUSIVE)' | sort | uniq -c | head -3 | tr '\n' ';')"
  [ $rc != 0 ] && { mkdir -p /tmp/sweepfail; echo "$out" | tail -50 > /tmp/sweepfail/$c-$seed.log; cp -r $R/replays /tmp/sweepfail/$c-$seed-replays 2>/dev/null; }
  rm -rf $R
done; done
rm -rf $B

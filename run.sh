#!/bin/bash
# ./run.sh <ID> <quick|thorough>   — builds from /repo's current working tree (tag: verif) and runs one check.
# exit 0: property held on everything explored; 1: VIOLATION line printed; 2: inconclusive.
set -u
ID="${1:?usage: run.sh <ID> <quick|thorough>}"
TIER="${2:-quick}"
ROOT="$(cd "$(dirname "${BASH_SOURCE[0]}")" && pwd)"
export VERIF_ROOT="$ROOT"
. "$ROOT/env.sh"
mkdir -p "$ROOT/bin" "$ROOT/evidence" "$ROOT/replays" "$ROOT/logs"
LOG="$ROOT/logs/$ID-$TIER.log"
rm -f "$ROOT/evidence/$ID.json"

fail_build() { echo "INCONCLUSIVE property=$ID build failed: $1"; exit 2; }

( cd "$ROOT/harness" && go build -tags verif -o "$ROOT/bin/check" ./cmd/check ) >"$LOG.build" 2>&1 || { cat "$LOG.build"; fail_build check; }

NEED_RACE=0; NEED_BIN=0
case "$ID" in
  C07) NEED_RACE=1 ;;
esac
if [ "$TIER" = thorough ]; then case "$ID" in C02|C10|C12|C16) NEED_RACE=1 ;; esac; fi
case "$ID" in C08|C10|C13|C14|C15|C18|C19) NEED_BIN=1 ;; esac

if [ $NEED_RACE = 1 ]; then
  ( cd "$ROOT/harness" && go build -race -tags verif -o "$ROOT/bin/check-race" ./cmd/check ) >>"$LOG.build" 2>&1 || { cat "$LOG.build"; fail_build check-race; }
fi
if [ "$ID" = C07 ]; then
  # the real executable under the race detector (package main is not linked into the check binary)
  ( cd /repo && go build -race -tags verif -o "$ROOT/bin/bazel-remote-race" . ) >>"$LOG.build" 2>&1 || { cat "$LOG.build"; fail_build bazel-remote-race; }
fi
if [ $NEED_BIN = 1 ]; then
  ( cd /repo && go build -tags verif -o "$ROOT/bin/bazel-remote" . ) >>"$LOG.build" 2>&1 || { cat "$LOG.build"; fail_build bazel-remote; }
fi

WATCHDOG=3600
[ "$TIER" = thorough ] && WATCHDOG=14400
export VERIF_BIN="$ROOT/bin"
export VERIF_SCRATCH="${VERIF_SCRATCH:-${TMPDIR:-/tmp}}"
timeout -s QUIT $WATCHDOG "$ROOT/bin/check" "$ID" "$TIER" >"$LOG" 2>&1
RC=$?
grep -E '^(VIOLATION|KNOWN-FINDING|INCONCLUSIVE|SUMMARY|  )' "$LOG" | head -200
if [ $RC = 0 ] || [ $RC = 1 ] || [ $RC = 2 ]; then
  if [ $RC = 1 ] && ! grep -q '^VIOLATION' "$LOG"; then echo "VIOLATION property=$ID replay=$LOG"; fi
  # thorough tier of C02/C10/C12/C16: the same check once more under the race detector (C07 drives its own race child)
  if [ $RC = 0 ] && [ $NEED_RACE = 1 ] && [ "$ID" != C07 ]; then
    RR="$(mktemp -d "$VERIF_SCRATCH/verif-racepass-XXXXXX")"; cp "$ROOT/known_findings.json" "$RR/" 2>/dev/null
    GORACE="halt_on_error=0 log_path=$RR/race" VERIF_ROOT="$RR" VERIF_RACE_PASS=1 timeout -s QUIT $WATCHDOG "$ROOT/bin/check-race" "$ID" "$TIER" >"$LOG.race" 2>&1
    CRC=$?
    python3 "$ROOT/tools/racepass.py" "$ID" "$TIER" "$RR" "$CRC" "$LOG.race"; RC=$?
    rm -rf "$RR"
  fi
  exit $RC
fi
# The check process itself died (in-process fixtures run server code inside the checker).
python3 "$ROOT/tools/died.py" "$ID" "$TIER" "$LOG" "$RC"
exit $?

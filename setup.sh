#!/bin/bash
# Builds the framework offline from files on disk only.
set -e
ROOT="$(cd "$(dirname "${BASH_SOURCE[0]}")" && pwd)"
. "$ROOT/env.sh"
mkdir -p "$ROOT/bin" "$ROOT/evidence" "$ROOT/replays" "$ROOT/logs"
cd "$ROOT/harness"
go build -tags verif -o "$ROOT/bin/check" ./cmd/check
go build -race -tags verif -o "$ROOT/bin/check-race" ./cmd/check
(cd /repo && go build -tags verif -o "$ROOT/bin/bazel-remote" . && go build -race -tags verif -o "$ROOT/bin/bazel-remote-race" .)
echo "setup ok"
